// Translation unit handed to clang-14 for AST extraction (gen/translate.py).
// Explicit instantiations make clang materialise fully typed method bodies
// (uninstantiated templates only carry dependent types).
#include <elfio/elfio.hpp>
namespace ELFIO {
template class elf_header_impl<Elf32_Ehdr>;
template class elf_header_impl<Elf64_Ehdr>;
template class section_impl<Elf32_Shdr>;
template class section_impl<Elf64_Shdr>;
template class segment_impl<Elf32_Phdr>;
template class segment_impl<Elf64_Phdr>;
template class string_section_accessor_template<section>;
template class symbol_section_accessor_template<section>;
template class relocation_section_accessor_template<section>;
template class note_section_accessor_template<section, &section::get_size>;
template class dynamic_section_accessor_template<section>;
template class array_section_accessor_template<section, Elf32_Word>;
template class array_section_accessor_template<section, Elf64_Addr>;
template class modinfo_section_accessor_template<section>;
template class versym_section_accessor_template<section>;
template class versym_r_section_accessor_template<section>;
template class versym_d_section_accessor_template<section>;
} // namespace ELFIO
