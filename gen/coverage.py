#!/usr/bin/env python3
"""Structural coverage of the source tie: for every C++ function that has at least one site in
gen/sites.json + gen/sites.d/*.json, which of its decisions (if / while / for / ?: conditions, switch)
and which of its assignments / declarations-with-initialiser are *regenerated from the source* (covered
by a site: the site's selected node contains the decision's condition or lies inside it), and which are
hand-modelled only (tied by the correspondence check alone).

Writes build/site_coverage.json and prints a summary.  Informational: nothing fails on low coverage;
check.py copies the per-family numbers into the evidence so the strength of the tie is visible."""
import json, os, sys
HERE = os.path.dirname(os.path.abspath(__file__))
sys.path.insert(0, HERE)
import translate as T  # noqa

_docs = {}


def docs_of(filt, key):
    if filt not in _docs:
        _docs[filt] = T.clang_docs(filt, key)
    return _docs[filt]


def tool_hash():
    import hashlib, glob
    h = hashlib.md5()
    for f in [os.path.abspath(__file__), os.path.join(HERE, "sites.json")] + sorted(glob.glob(os.path.join(HERE, "sites.d", "*.json"))):
        h.update(open(f, "rb").read())
    return h.hexdigest()[:12]


def ids(n):
    return {x.get("id") for x in T.walk(n) if isinstance(x, dict) and x.get("id")}


def line_of(n, last=[0]):
    for x in T.walk(n):
        l = x.get("loc", {}).get("line") or x.get("range", {}).get("begin", {}).get("line")
        if l:
            return l
    return None


def main():
    key = T.repo_hash()
    sites = json.load(open(os.path.join(HERE, "sites.json")))
    sd = os.path.join(HERE, "sites.d")
    fam_of = {}
    for f in sorted(os.listdir(sd)):
        if f.endswith(".json"):
            ss = json.load(open(os.path.join(sd, f)))
            for s in ss:
                fam_of[s["lean"]] = f[:-5]
            sites += ss
    funcs = {}   # id of function node -> record
    for s in sites:
        try:
            docs = docs_of(s["filter"], key)
            fn = T.find_function(docs, s)
            node = T.select(fn, s.get("select", "function"))
        except Exception:
            continue
        fid = fn.get("id")
        rec = funcs.setdefault(fid, {"fn": fn, "name": s["name"], "filter": s["filter"],
                                     "inst": str(s.get("targs", s.get("record", s.get("margs", "")))),
                                     "sel": [], "families": set(), "sites": []})
        rec["sel"].append(ids(node) if s.get("select", "function") != "function" else None)
        rec["families"].add(fam_of.get(s["lean"], "base"))
        rec["sites"].append(s["lean"])
    out = []
    tot_d = cov_d = tot_a = cov_a = 0
    for fid, rec in funcs.items():
        fn = rec["fn"]
        body = [c for c in fn["inner"] if c.get("kind") == "CompoundStmt"][0]
        whole = any(s is None for s in rec["sel"])
        selids = set().union(*[s for s in rec["sel"] if s]) if any(rec["sel"]) else set()
        decisions = []; assigns = []
        for n in T.walk(body):
            k = n.get("kind")
            if k in ("IfStmt", "WhileStmt", "ForStmt", "DoStmt", "ConditionalOperator", "SwitchStmt"):
                ch = T.strip_comments(n)
                if k == "IfStmt":
                    cond = ch[1] if n.get("hasInit") and len(ch) > 2 else ch[0]
                elif k == "ForStmt":
                    cond = ch[2] if len(ch) > 2 and ch[2] else n
                elif k == "DoStmt":
                    cond = ch[-1]
                else:
                    cond = ch[0]
                if not isinstance(cond, dict) or not cond:
                    cond = n
                decisions.append((k, cond))
            elif k in ("BinaryOperator", "CompoundAssignOperator") and n.get("opcode", "") in (
                    "=", "+=", "-=", "*=", "/=", "%=", "&=", "|=", "^=", "<<=", ">>="):
                assigns.append(("assign", n))
            elif k == "VarDecl" and n.get("inner"):
                assigns.append(("var", n))
        def covered(node):
            if whole:
                return True
            ni = ids(node)
            # covered when a selected node contains the node or lies inside it
            return bool(ni & selids)
        d_unc = [(k, line_of(c)) for k, c in decisions if not covered(c)]
        a_unc = [(k, line_of(c)) for k, c in assigns if not covered(c)]
        tot_d += len(decisions); cov_d += len(decisions) - len(d_unc)
        tot_a += len(assigns); cov_a += len(assigns) - len(a_unc)
        out.append({"function": rec["name"], "instance": rec["inst"], "filter": rec["filter"],
                    "families": sorted(rec["families"]), "sites": rec["sites"], "whole_function": whole,
                    "decisions": len(decisions), "decisions_regenerated": len(decisions) - len(d_unc),
                    "decisions_hand_modelled_lines": sorted({l for _, l in d_unc if l}),
                    "assignments": len(assigns), "assignments_regenerated": len(assigns) - len(a_unc)})
    out.sort(key=lambda r: (r["filter"], r["function"], r["instance"]))
    summ = {"functions_with_sites": len(out), "decisions": tot_d, "decisions_regenerated": cov_d,
            "assignments": tot_a, "assignments_regenerated": cov_a}
    os.makedirs(T.BUILD, exist_ok=True)
    json.dump({"repo_hash": key, "tool_hash": tool_hash(), "summary": summ, "functions": out},
              open(os.path.join(T.BUILD, "site_coverage.json"), "w"), indent=1)
    print(json.dumps(summ))
    if "-v" in sys.argv:
        for r in out:
            print(f"{r['filter']}::{r['function']} {r['instance']}: decisions {r['decisions_regenerated']}/{r['decisions']}"
                  f" assigns {r['assignments_regenerated']}/{r['assignments']}"
                  + (f"  hand-modelled decision lines {r['decisions_hand_modelled_lines']}" if r['decisions_hand_modelled_lines'] else ""))


if __name__ == "__main__":
    main()
