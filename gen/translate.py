#!/usr/bin/env python3
"""Regenerate lean/ElfioVerif/Gen/*.lean from /repo's current working tree.

Two extractors:
  1. layout probe  : a C++ program compiled against /repo prints sizeof/offsetof of
                     every on-disk struct and the value of every named constant.
  2. AST translator: clang-14's JSON AST (explicit template instantiations, see
                     shim.cpp) of selected functions / expression sites is translated
                     to Lean 4 terms over BitVec (widths and signedness taken from the
                     AST's types, so C++ wrap-around is reproduced by construction).

Site selectors (see AGENT_GUIDE.md) plus, added for C14: `for:N` (condition of the N-th for loop),
`ptroff:N` (integer operand of the N-th `pointer + integer`, widened to 64 bits), `index:N` (byte offset
of the N-th `p[i]`: index widened to 64 bits times sizeof(*p)); constructors are found by class name;
`callarg:operator()#k.i` reaches arguments of functor calls; a pointer used as a truth value or compared
with nullptr becomes a Bool parameter `<name>_nonnull`; `convertor(x)` / `(*convertor)(x)` becomes the
application of a function parameter `convertor<width>`.
Added for the accessor tie: `ptroffs:N` (byte offset of the N-th `pointer + integer` on a typed pointer: the integer
operand widened to 64 bits times sizeof(*pointer); same counting as `ptroff:N`, whose meaning is unchanged); an
element `p[i]` of a raw array used as a value becomes a parameter `<p>_at_<i>` (the checked read is the model's).

Output files are only rewritten when their content changes (so lake does not rebuild
for nothing).  Exit status 0 = everything translated; a site that cannot be found or
uses a construct outside the supported subset is reported in Gen/Status.lean and in
build/gen_status.json as `translation-broken` (checks then treat the properties that
depend on it as no longer shown to hold).
"""
import hashlib, json, os, re, subprocess, sys, concurrent.futures as cf

HERE = os.path.dirname(os.path.abspath(__file__))
VERIF = os.path.dirname(HERE)
REPO = os.environ.get("ELFIO_REPO", "/repo")
OUT = os.path.join(VERIF, "lean", "ElfioVerif", "Gen")
BUILD = os.path.join(VERIF, "build")
CACHE = os.path.join(BUILD, "gen_cache")

CONST_PREFIXES = ("ELFCLASS", "ELFDATA", "EI_", "ELFMAG", "EV_", "SHT_", "SHF_", "PT_", "PF_",
                  "DT_", "STB_", "STT_", "STV_", "SHN_", "STN_", "ET_", "NT_", "ELFOSABI_",
                  "VER_", "ELFCOMPRESS_", "R_386_")
STRUCTS = ["Elf32_Ehdr", "Elf64_Ehdr", "Elf32_Shdr", "Elf64_Shdr", "Elf32_Phdr", "Elf64_Phdr",
           "Elf32_Sym", "Elf64_Sym", "Elf32_Rel", "Elf64_Rel", "Elf32_Rela", "Elf64_Rela",
           "Elf32_Dyn", "Elf64_Dyn", "Elfxx_Verdef", "Elfxx_Verdaux", "Elfxx_Verneed",
           "Elfxx_Vernaux", "Elf32_Chdr", "Elf64_Chdr"]

LEAN_KW = {"end", "at", "do", "then", "else", "if", "let", "fun", "from", "have", "show", "open",
           "in", "class", "instance", "structure", "where", "with", "match", "def", "theorem",
           "by", "Type", "Prop", "Sort", "namespace", "section", "variable", "import", "mut",
           "for", "return", "this", "type", "info", "private", "local", "prefix", "infix"}


def sh(cmd, **kw):
    return subprocess.run(cmd, stdout=subprocess.PIPE, stderr=subprocess.PIPE, text=True, **kw)


def repo_hash():
    h = hashlib.sha256()
    d = os.path.join(REPO, "elfio")
    for f in sorted(os.listdir(d)):
        p = os.path.join(d, f)
        if os.path.isfile(p):
            h.update(f.encode()); h.update(open(p, "rb").read())
    for f in ("shim.cpp", "translate.py", "sites.json"):
        p = os.path.join(HERE, f)
        if os.path.exists(p):
            h.update(open(p, "rb").read())
    sd = os.path.join(HERE, "sites.d")
    if os.path.isdir(sd):
        for f in sorted(os.listdir(sd)):
            h.update(open(os.path.join(sd, f), "rb").read())
    return h.hexdigest()[:20]


def write_if_changed(path, text):
    os.makedirs(os.path.dirname(path), exist_ok=True)
    if os.path.exists(path) and open(path).read() == text:
        return False
    with open(path, "w") as f:
        f.write(text)
    return True


def lname(s):
    s = re.sub(r"[^A-Za-z0-9_]", "_", s)
    if s in LEAN_KW:
        s += "_"
    return s


# --------------------------------------------------------------------------- layout probe

def parse_structs(src):
    src = re.sub(r"//[^\n]*", "", src)
    src = re.sub(r"/\*.*?\*/", "", src, flags=re.S)
    out = {}
    for m in re.finditer(r"struct\s+(\w+)\s*\{", src):
        name = m.group(1)
        i = m.end(); depth = 1; j = i
        while depth and j < len(src):
            if src[j] == "{": depth += 1
            elif src[j] == "}": depth -= 1
            j += 1
        body = src[i:j - 1]
        fields = []
        # unions:  union { T a; U b; } name;
        def union_sub(mm):
            uname = mm.group(2)
            for fm in re.finditer(r"[\w:]+\s+(\w+)\s*(\[[^\]]*\])?\s*;", mm.group(1)):
                fields.append(uname + "." + fm.group(1))
            return ""
        body2 = re.sub(r"union\s*\{(.*?)\}\s*(\w+)\s*;", union_sub, body, flags=re.S)
        plain = []
        for fm in re.finditer(r"(?:unsigned\s+|signed\s+)?[\w:]+\s+(\w+)\s*(\[[^\]]*\])?\s*;", body2):
            plain.append(fm.group(1))
        # keep declaration order: re-scan the original body for order of first appearance
        allf = plain + fields
        order = sorted(allf, key=lambda f: body.find(f.split(".")[-1] + ";") if body.find(f.split(".")[-1] + ";") >= 0 else body.find(f.split(".")[-1] + "["))
        out[name] = order
    return out


def gen_layout():
    src = open(os.path.join(REPO, "elfio", "elf_types.hpp")).read()
    consts = []
    for m in re.finditer(r"^\s*constexpr\s+[\w:\s]+?\s+(\w+)\s*=", src, flags=re.M):
        n = m.group(1)
        if n.startswith(CONST_PREFIXES) and n not in consts:
            consts.append(n)
    for m in re.finditer(r"^\s*#\s*define\s+(\w+)\s+[^\n(]", src, flags=re.M):
        n = m.group(1)
        if n.startswith(CONST_PREFIXES) and n not in consts:
            consts.append(n)
    structs = parse_structs(src)
    lines = ['#include <elfio/elfio.hpp>', '#include <cstdio>', '#include <cstddef>',
             'using namespace ELFIO;', 'int main(){',
             ' { const int t=1; printf("HOST_LE %d\\n", (int)(1==*reinterpret_cast<const char*>(&t))); }']
    for c in consts:
        lines.append(f' printf("CONST {c} %llu %d\\n", (unsigned long long)({c}), (int)sizeof({c}));')
    present = [s for s in STRUCTS if s in structs]
    for s in present:
        lines.append(f' printf("STRUCT {s} %d\\n", (int)sizeof({s}));')
        for f in structs[s]:
            lines.append(f' printf("FIELD {s} {f} %d %d\\n", (int)offsetof({s},{f}), (int)sizeof((({s}*)0)->{f}));')
    lines.append(' return 0; }')
    os.makedirs(BUILD, exist_ok=True)
    cpp = os.path.join(BUILD, "layout_probe.cpp"); exe = os.path.join(BUILD, "layout_probe")
    open(cpp, "w").write("\n".join(lines) + "\n")
    r = sh(["g++", "-std=c++17", "-w", "-Wno-invalid-offsetof", "-I", REPO, cpp, "-o", exe])
    if r.returncode != 0:
        raise SystemExit("layout probe does not compile:\n" + r.stderr[:3000])
    r = sh([exe])
    host_le = True; cvals = []; svals = {}; order = []
    for ln in r.stdout.splitlines():
        p = ln.split()
        if p[0] == "HOST_LE": host_le = p[1] == "1"
        elif p[0] == "CONST": cvals.append((p[1], int(p[2]), int(p[3])))
        elif p[0] == "STRUCT": svals[p[1]] = {"size": int(p[2]), "fields": []}; order.append(p[1])
        elif p[0] == "FIELD": svals[p[1]]["fields"].append((p[2], int(p[3]), int(p[4])))
    L = ["-- GENERATED by gen/translate.py from /repo/elfio (layout probe). Do not edit.",
         "namespace ElfioVerif.Gen", "",
         f"def hostIsLittle : Bool := {'true' if host_le else 'false'}", ""]
    for n, v, w in cvals:
        L.append(f"def {lname(n)} : Nat := {v}")
    L.append("")
    L.append("/-- (name, value, sizeof) of every extracted constant, for table-level theorems. -/")
    L.append("def constTable : List (String × Nat × Nat) := [")
    L.append(",\n".join(f'  ("{n}", {v}, {w})' for n, v, w in cvals))
    L.append("]")
    L.append("")
    for s in order:
        L.append(f"def sizeof_{s} : Nat := {svals[s]['size']}")
        L.append(f"def layout_{s} : List (String × Nat × Nat) := [" +
                 ", ".join(f'("{f}", {o}, {w})' for f, o, w in svals[s]["fields"]) + "]")
        for f, o, w in svals[s]["fields"]:
            fn = lname(f.replace(".", "_"))
            L.append(f"def {s}.{fn}_off : Nat := {o}")
            L.append(f"def {s}.{fn}_w : Nat := {w}")
        L.append("")
    L.append("end ElfioVerif.Gen")
    write_if_changed(os.path.join(OUT, "Layout.lean"), "\n".join(L) + "\n")
    sizes = {s: svals[s]["size"] for s in order}
    return {n: (v, w) for n, v, w in cvals}, sizes


# --------------------------------------------------------------------------- clang AST

def clang_docs(filt, key):
    os.makedirs(CACHE, exist_ok=True)
    cp = os.path.join(CACHE, f"{key}_{hashlib.md5(filt.encode()).hexdigest()[:10]}.json")
    if os.path.exists(cp):
        s = open(cp).read()
    else:
        r = sh(["clang++-14", "-std=gnu++17", "-fsyntax-only", "-w", "-I", REPO,
                "-Xclang", "-ast-dump=json", "-Xclang", f"-ast-dump-filter={filt}",
                os.path.join(HERE, "shim.cpp")])
        if r.returncode != 0:
            raise SystemExit("clang failed on shim.cpp:\n" + r.stderr[:3000])
        s = r.stdout
        open(cp, "w").write(s)
    dec = json.JSONDecoder(); i = 0; docs = []
    while i < len(s):
        while i < len(s) and s[i].isspace(): i += 1
        if i >= len(s): break
        d, j = dec.raw_decode(s, i); docs.append(d); i = j
    return docs


class Broken(Exception):
    pass


SIGS = {}
TEXTS = {}          # lean name -> generated definition text
ALPHA = {}          # lean name -> parameter types + hash of the body with positional parameter names
SIGNATURES = {}     # lean name -> parameter list + result type of the generated definition


def _try_ctype(p):
    try:
        return ctype(p)
    except Exception:
        return None


CALLABLE = {}   # C++ function name -> Lean name of its whole-function translation (Funcs.lean)


BUILTIN = {
    "bool": ("bool", 1, False),
    "char": ("int", 8, True), "signed char": ("int", 8, True), "unsigned char": ("int", 8, False),
    "short": ("int", 16, True), "unsigned short": ("int", 16, False),
    "int": ("int", 32, True), "unsigned int": ("int", 32, False),
    "long": ("int", 64, True), "unsigned long": ("int", 64, False),
    "long long": ("int", 64, True), "unsigned long long": ("int", 64, False),
    "uint8_t": ("int", 8, False), "uint16_t": ("int", 16, False), "uint32_t": ("int", 32, False),
    "uint64_t": ("int", 64, False), "int8_t": ("int", 8, True), "int16_t": ("int", 16, True),
    "int32_t": ("int", 32, True), "int64_t": ("int", 64, True), "size_t": ("int", 64, False),
    "std::size_t": ("int", 64, False),
}


def ctype(node_or_type):
    t = node_or_type.get("type", node_or_type) if isinstance(node_or_type, dict) else {"qualType": node_or_type}
    q = t.get("desugaredQualType") or t.get("qualType") or ""
    q0 = q
    q = re.sub(r"\b(const|volatile)\b", "", q).replace("&", "").strip()
    q = re.sub(r"\s+", " ", q)
    if q in BUILTIN:
        return BUILTIN[q]
    q2 = re.sub(r"^ELFIO::", "", q)
    alias = {"Elf_Half": "uint16_t", "Elf_Word": "uint32_t", "Elf_Sword": "int32_t",
             "Elf_Xword": "uint64_t", "Elf_Sxword": "int64_t", "Elf32_Addr": "uint32_t",
             "Elf32_Off": "uint32_t", "Elf64_Addr": "uint64_t", "Elf64_Off": "uint64_t",
             "std::streamoff": "long", "std::streamsize": "long",
             # a stream position is a signed 64-bit offset (std::fpos<mbstate_t> wraps a streamoff; the
             # conversion state it also carries is never used by ELFIO)
             "std::streampos": "long", "std::fpos<__mbstate_t>": "long"}
    if q2 in alias:
        return BUILTIN[alias[q2]]
    if q.endswith("*"):
        return ("ptr", 64, False)
    raise Broken(f"unsupported type '{q0}'")


def lean_ty(ct):
    k, w, s = ct
    return "Bool" if k == "bool" else f"BitVec {w}"


class Tr:
    """Translate one C++ expression / statement list to a Lean term."""

    def __init__(self, consts, sizes, locals_=None):
        self.consts = consts; self.sizes = sizes
        self.free = []          # (name, lean type) in order of first appearance
        self.locals = dict(locals_ or {})   # name -> lean type of variables bound inside
        self.opaque = False     # site option: calls with arguments become free variables
        self.byte_ptr = None    # name of the `const unsigned char*` parameter, if any
        self.renamable = set()  # free variables that are plain locals/parameters (alpha-renamable)
        self.inline = {}
        self.cur_byte = None    # Lean name standing for *p inside a string-walk loop

    def fv(self, name, ty, local=False):
        """parameter for a free variable.  `local`: a plain C++ local/parameter (its name carries no meaning);
        otherwise the name is derived from a getter / field / container and says which value is read.  A local
        whose name happens to coincide with a derived name (`seg_memory_size` the local vs `seg->get_memory_size()`)
        must not be merged with it: it gets a suffix."""
        name = lname(name)
        if name in self.locals:
            return name
        origin = getattr(self, "origin", None)
        if origin is None:
            origin = self.origin = {}
        if name in origin and origin[name] != local:
            name = name + ("_l" if local else "_g")
        for n, t in self.free:
            if n == name:
                if t != ty:
                    raise Broken(f"free variable {name} used at two types {t} / {ty}")
                return name
        origin[name] = local
        self.free.append((name, ty))
        return name

    # ---- expressions
    def cast(self, e, src, dst):
        if src == dst:
            return e
        (ks, ws, ss), (kd, wd, sd) = src, dst
        if kd == "bool":
            return f"({e} != 0#{ws})" if ks == "int" else e
        if ks == "bool":
            return f"(if {e} then 1#{wd} else 0#{wd})"
        if ks == "ptr" or kd == "ptr":
            raise Broken("pointer cast")
        if wd == ws:
            return e
        if wd < ws:
            return f"(BitVec.setWidth {wd} {e})"
        if ss:
            return f"(BitVec.signExtend {wd} {e})"
        return f"(BitVec.setWidth {wd} {e})"

    def lit(self, v, ct):
        k, w, s = ct
        if k == "bool":
            return "true" if v else "false"
        return f"{int(v) % (1 << w)}#{w}"

    def opaque_call(self, n, inner):
        """site option "opaque": a call with arguments (convertor(p->f), f<T>::g(x), ...) is not
        looked into; it becomes a free variable named after callee and arguments, typed by the
        call's result type, so that the conversions *around* the call are still translated."""
        def leaf(x):
            nm = ""
            for y in walk(x):
                if y.get("kind") == "MemberExpr" and y.get("name"):
                    if y["name"].startswith("operator"):
                        continue
                    nm = y["name"]; break
                if y.get("kind") == "DeclRefExpr":
                    r = y.get("referencedDecl", {}).get("name", "")
                    if r and not r.startswith("operator"):
                        nm = r; break
            return nm
        parts = [leaf(c) for c in inner]
        parts = [p for p in parts if p]
        ct = ctype(n)
        if ct[0] == "ptr":
            raise Broken("pointer-valued opaque call")
        return self.fv("_".join(parts) or "call", lean_ty(ct))

    def expr(self, n):
        k = n["kind"]
        inner = [c for c in n.get("inner", []) if not c.get("kind", "").endswith("Comment")]
        if self.opaque and (k == "CXXOperatorCallExpr" or (k in ("CallExpr", "CXXMemberCallExpr") and len(inner) > 1)):
            return self.opaque_call(n, inner)
        if k in ("ParenExpr", "ExprWithCleanups", "MaterializeTemporaryExpr", "CXXBindTemporaryExpr",
                 "ConstantExpr", "SubstNonTypeTemplateParmExpr"):
            return self.expr(inner[-1])
        if k == "IntegerLiteral":
            return self.lit(int(n["value"]), ctype(n))
        if k == "CharacterLiteral":
            return self.lit(int(n["value"]), ctype(n))
        if k == "CXXBoolLiteralExpr":
            return "true" if n["value"] else "false"
        if k == "DeclRefExpr":
            rd = n.get("referencedDecl", {})
            nm = rd.get("name", "")
            if nm in getattr(self, "inline", {}) and rd.get("kind") == "VarDecl":
                return self.expr(self.inline[nm])      # a new `const` local standing for its initialiser
            if rd.get("kind") == "EnumConstantDecl" or (nm in self.consts and lname(nm) not in self.locals
                                                       and not any(f == lname(nm) for f, _ in self.free)):
                if nm not in self.consts:
                    raise Broken(f"constant {nm} not exported by the layout probe")
                ct = ctype(n)
                return f"(BitVec.ofNat {ct[1]} Gen.{lname(nm)})"
            ct = ctype(n)
            if ct[0] == "ptr":
                raise Broken(f"pointer variable {nm} used as a value")
            r = self.fv(nm, lean_ty(ct), local=True)
            self.renamable.add(r)                # a plain local / parameter: its name carries no meaning
            return r
        if k in ("ImplicitCastExpr", "CStyleCastExpr", "CXXStaticCastExpr", "CXXFunctionalCastExpr",
                 "CXXReinterpretCastExpr", "CXXConstCastExpr"):
            ck = n.get("castKind", "")
            sub = inner[-1]
            if ck in ("LValueToRValue", "NoOp", "ConstructorConversion"):
                return self.expr(sub)
            if ck in ("IntegralCast", "IntegralToBoolean", "BooleanToSignedIntegral"):
                return self.cast(self.expr(sub), ctype(sub), ctype(n))
            if ck == "UserDefinedConversion" and ctype(n)[0] == "bool":
                # e.g. std::vector<bool>::reference -> bool : `section_generated[index]`
                names = []
                for x in walk(sub):
                    if x.get("kind") == "DeclRefExpr" and x.get("referencedDecl", {}).get("kind") in ("VarDecl", "ParmVarDecl"):
                        nm2 = x["referencedDecl"].get("name", "")
                        if nm2 and nm2 not in names: names.append(nm2)
                if names:
                    return self.fv("_".join(names), "Bool")
            if ck == "PointerToBoolean":
                return self.ptr_nonnull(sub)
            if ck == "UserDefinedConversion" and self.fpos_conv(sub) is not None:
                return self.cast(self.expr(self.fpos_conv(sub)), ctype(self.fpos_conv(sub)), ctype(n))
            raise Broken(f"cast kind {ck}")
        if k == "UnaryOperator":
            op = n["opcode"]; sub = inner[0]
            if op == "*":
                # *p or *p++ / *++p on the byte pointer inside a string walk
                if self.cur_byte is not None:
                    return self.cur_byte
                raise Broken("pointer dereference outside a string-walk idiom")
            e = self.expr(sub); ct = ctype(n)
            if op == "~": return f"(~~~{e})"
            if op == "!": return f"(!{e})"
            if op == "-": return f"(-{e})"
            if op == "+": return e
            raise Broken(f"unary operator {op}")
        if k == "BinaryOperator":
            op = n["opcode"]; a, b = inner
            if op == ",":
                raise Broken("comma operator")
            if getattr(self, "null_style", "nonnull") == "is_null" and op in ("==", "!=") and \
                    (self.is_nullptr(a) or self.is_nullptr(b)):
                # `p == nullptr` : the pointer's nullness becomes a Bool parameter `<p>_is_null`
                other = b if self.is_nullptr(a) else a
                v = self.fv(self.ptr_name(other) + "_is_null", "Bool")
                return v if op == "==" else f"(!{v})"
            if op in ("&&", "||"):
                return f"({self.expr(a)} {op} {self.expr(b)})"
            if getattr(self, "null_style", "nonnull") == "null9" and op in ("==", "!="):
                na, nb = self.is_null(a), self.is_null(b)
                if na != nb:
                    e = self.fv(self.ptr_name9(b if na else a) + "_null", "Bool")
                    return e if op == "==" else f"(!{e})"
            ta, tb, tr = ctype(a), ctype(b), ctype(n)
            if ta[0] == "ptr" and tb[0] == "ptr" and op in ("==", "!="):
                # comparison of a named pointer with nullptr
                other = b if self.is_null(a) else a if self.is_null(b) else None
                if other is None or (self.is_null(a) and self.is_null(b)):
                    raise Broken("pointer comparison other than with nullptr")
                if getattr(self, "null_style", "nonnull") == "null":
                    x = other
                    while x.get("kind") in ("ImplicitCastExpr", "ParenExpr") and x.get("inner"):
                        x = x["inner"][-1]
                    nm0 = x.get("referencedDecl", {}).get("name") if x.get("kind") == "DeclRefExpr" else x.get("name")
                    if not nm0:
                        raise Broken("pointer truth value of a compound expression")
                    v = self.fv(nm0 + "_null", "Bool")
                    return v if op == "==" else f"(!{v})"
                e = self.ptr_nonnull(other)
                return e if op == "!=" else f"(!{e})"
            ea, eb = self.expr(a), self.expr(b)
            if op in ("<<", ">>"):
                sh_amt = self.shift_amount(b, eb)
                if op == "<<":
                    return f"({ea} <<< {sh_amt})"
                return f"(BitVec.sshiftRight {ea} {sh_amt})" if ta[2] else f"({ea} >>> {sh_amt})"
            if ta[0] == "bool" and tb[0] == "bool" and op in ("==", "!="):
                return f"({ea} {op} {eb})"
            if ta[:2] != tb[:2]:
                raise Broken(f"operand types differ without cast: {ta} {op} {tb}")
            signed = ta[2]
            if op in ("+", "-", "*", "&", "|", "^"):
                lop = {"+": "+", "-": "-", "*": "*", "&": "&&&", "|": "|||", "^": "^^^"}[op]
                return f"({ea} {lop} {eb})"
            if op == "/":
                return f"(BitVec.sdiv {ea} {eb})" if signed else f"({ea} / {eb})"
            if op == "%":
                return f"(BitVec.srem {ea} {eb})" if signed else f"({ea} % {eb})"
            if op == "==": return f"({ea} == {eb})"
            if op == "!=": return f"({ea} != {eb})"
            lt, le = ("BitVec.slt", "BitVec.sle") if signed else ("BitVec.ult", "BitVec.ule")
            if op == "<": return f"({lt} {ea} {eb})"
            if op == "<=": return f"({le} {ea} {eb})"
            if op == ">": return f"({lt} {eb} {ea})"
            if op == ">=": return f"({le} {eb} {ea})"
            raise Broken(f"binary operator {op}")
        if k == "ConditionalOperator":
            c, a, b = inner
            return f"(if {self.expr(c)} then {self.expr(a)} else {self.expr(b)})"
        if k == "MemberExpr":
            ct = ctype(n)
            base = inner[0] if inner else None
            nm = n.get("name", "")
            pre = ""
            if base is not None and base["kind"] not in ("CXXThisExpr",):
                pre = self.obj_name(base)
            if ct[0] == "ptr":
                raise Broken(f"pointer member {nm} used as a value")
            return self.fv((pre + "_" if pre else "") + nm, lean_ty(ct))
        if k == "CXXConstructExpr" and len(inner) == 1 and self.is_fpos(n):
            # std::streampos(off): the position is the offset
            return self.cast(self.expr(inner[0]), ctype(inner[0]), ctype(n))
        if k == "CXXMemberCallExpr" and self.fpos_conv(n) is not None:
            return self.cast(self.expr(self.fpos_conv(n)), ctype(self.fpos_conv(n)), ctype(n))
        if k == "CXXOperatorCallExpr" and len(inner) == 3 and self.smart_null_test(inner) is not None:
            # `nullptr == up` / `up != nullptr` on a std::unique_ptr / std::shared_ptr: the same Bool
            # parameter (per-site `null_style`) as for a raw pointer
            op, other = self.smart_null_test(inner)
            style = getattr(self, "null_style", "nonnull")
            if style == "is_null":
                v = self.fv(self.ptr_name(other) + "_is_null", "Bool")
                return v if op == "==" else f"(!{v})"
            if style in ("null", "null9"):
                v = self.fv(lname(self.ptr_name(other)) + "_null", "Bool")
                return v if op == "==" else f"(!{v})"
            v = self.fv(self.ptr_name(other) + "_nonnull", "Bool")
            return v if op == "!=" else f"(!{v})"
        if k == "CXXOperatorCallExpr" and len(inner) == 2 and self.stream_not(inner) is not None:
            # `!stream` on a std::basic_ios is `stream.fail()` ([iostate.flags]); same parameter name as
            # an explicit `stream.fail()` call
            return self.fv(self.stream_not(inner) + "_fail", "Bool")
        if k == "CXXMemberCallExpr":
            callee = inner[0]; args = inner[1:]
            if callee["kind"] == "MemberExpr" and not args:
                nm = callee.get("name", "")
                base = [c for c in callee.get("inner", [])]
                pre = ""
                if base and base[0]["kind"] != "CXXThisExpr":
                    pre = self.obj_name(base[0])
                nm2 = re.sub(r"^get_", "", nm)
                ct = ctype(n)
                if ct[0] == "ptr":
                    raise Broken(f"pointer-valued call {nm}")
                return self.fv((pre + "_" if pre else "") + nm2, lean_ty(ct))
            # `(obj->*F)()` with F a pointer to member bound at instantiation: same naming as obj->get_x()
            cal = callee
            while cal.get("kind") == "ParenExpr" and cal.get("inner"):
                cal = cal["inner"][-1]
            if cal.get("kind") == "BinaryOperator" and cal.get("opcode") in ("->*", ".*") and not args:
                meth = ""
                for x in walk(cal["inner"][1]):
                    if x.get("kind") == "DeclRefExpr" and x.get("referencedDecl", {}).get("kind") == "CXXMethodDecl":
                        meth = x["referencedDecl"].get("name", ""); break
                if meth:
                    pre = self.obj_name(cal["inner"][0])
                    ct = ctype(n)
                    if ct[0] == "ptr":
                        raise Broken(f"pointer-valued call {meth}")
                    return self.fv((pre + "_" if pre else "") + re.sub(r"^get_", "", meth), lean_ty(ct))
            raise Broken("member call with arguments")
        if k == "CXXOperatorCallExpr" and len(inner) == 3 and \
                "endianness_convertor" in (inner[1].get("type", {}).get("qualType", "")):
            # (*convertor)(x) / convertor(x): the byte-order conversion of width w is a function parameter
            ct = ctype(n)
            f = self.fv(f"convertor{ct[1]}", f"BitVec {ct[1]} → BitVec {ct[1]}")
            return f"({f} {self.cast(self.expr(inner[2]), ctype(inner[2]), ct)})"
        if k == "CXXOperatorCallExpr" and len(inner) == 3 and \
                any(x.get("referencedDecl", {}).get("name") == "operator[]" for x in walk(inner[0])):
            # element of a container member: the (checked) read is the model's business; here it is a
            # parameter `<container>_at_<index variable>`
            ct = ctype(n)
            if ct[0] == "ptr":
                raise Broken("pointer-valued container element")
            cont = self.obj_name(inner[1]); idx = self.obj_name(inner[2])
            return self.fv(cont + "_at" + ("_" + idx if idx and idx != "obj" else ""), lean_ty(ct))
        if k == "ArraySubscriptExpr":
            # element of a raw array `p[i]` used as a value: the (checked) read is the model's business; here
            # it is a parameter `<p>_at_<i>` (same convention as container elements)
            ct = ctype(n)
            if ct[0] == "ptr":
                raise Broken("pointer-valued array element")
            base = self.obj_name(inner[0]); idx = self.obj_name(inner[1])
            return self.fv(base + "_at" + ("_" + idx if idx and idx != "obj" else ""), lean_ty(ct))
        if k == "CallExpr":
            # std::numeric_limits<T>::max()
            def callee_name(c):
                if c["kind"] == "DeclRefExpr":
                    return c.get("referencedDecl", {}).get("name", "")
                for x in c.get("inner", []):
                    r = callee_name(x)
                    if r: return r
                return ""
            nm = callee_name(inner[0])
            if nm in ("max", "min") and len(inner) == 1:
                kk, w, s = ctype(n)
                if nm == "max":
                    v = (1 << (w - 1)) - 1 if s else (1 << w) - 1
                else:
                    v = (1 << (w - 1)) if s else 0
                return f"{v}#{w}"
            if nm in CALLABLE and CALLABLE[nm] in SIGS:
                sg = SIGS[CALLABLE[nm]]
                argmap = {}
                for pn, a in zip(sg["order"], inner[1:]):
                    argmap[pn] = a
                out = []
                for pn, ty in sg["allp"]:
                    if pn in argmap and pn not in sg["ptrs"]:
                        out.append(self.expr(argmap[pn]))
                    else:
                        hit = None
                        for pp in sg["ptrs"]:
                            if pn.startswith(pp + "_") and pp in argmap:
                                on = self.obj_name(argmap[pp])
                                hit = self.fv(on + "_" + pn[len(pp) + 1:], ty)
                        if hit is None:
                            raise Broken(f"cannot supply parameter {pn} of {nm}")
                        out.append(hit)
                return "(Gen." + CALLABLE[nm] + " " + " ".join(out) + ")"
            if nm in ("max", "min") and len(inner) == 3:
                # std::min<T>(a, b) / std::max<T>(a, b) on integers
                ct = ctype(n); a, b = inner[1], inner[2]
                ea = self.cast(self.expr(a), ctype(a), ct); eb = self.cast(self.expr(b), ctype(b), ct)
                lt = "BitVec.slt" if ct[2] else "BitVec.ult"
                if nm == "min":
                    return f"(if {lt} {eb} {ea} then {eb} else {ea})"
                return f"(if {lt} {ea} {eb} then {eb} else {ea})"
            raise Broken(f"call to {nm}")
        if k == "CXXOperatorCallExpr":
            # `obj(x)` on a callable object with one integer argument (endianness_convertor):
            # the callee stays opaque and becomes a function parameter `<obj><width>`
            rd = inner[0]
            while rd.get("kind") == "ImplicitCastExpr" and rd.get("inner"):
                rd = rd["inner"][-1]
            if rd.get("referencedDecl", {}).get("name") == "operator()" and len(inner) == 3:
                ct = ctype(n); at = ctype(inner[2])
                if ct[0] == "int" and at[:2] == ct[:2]:
                    f = self.fv(self.obj_name(inner[1]) + str(ct[1]), f"BitVec {ct[1]} → BitVec {ct[1]}")
                    return f"({f} {self.expr(inner[2])})"
            raise Broken("operator call")
        if k == "UnaryExprOrTypeTraitExpr" and n.get("name") == "sizeof":
            ct = ctype(n)
            at = (n.get("argType") or {})
            q = at.get("desugaredQualType") or at.get("qualType")
            if q is None and inner:
                it = inner[0].get("type", {})
                q = it.get("desugaredQualType") or it.get("qualType")
            q = re.sub(r"\b(const|struct)\b", "", q or "").strip().replace("ELFIO::", "")
            if q in self.sizes:
                return f"(BitVec.ofNat {ct[1]} Gen.sizeof_{q})"
            m = re.fullmatch(r"(?:std::)?array<(.+), (\d+)>", q)
            if m:
                # std::array<T, N> is an aggregate holding exactly T[N]
                try:
                    return f"{(ctype(m.group(1))[1] // 8) * int(m.group(2))}#{ct[1]}"
                except Broken:
                    raise Broken(f"sizeof({q})")
            try:
                return f"{ctype(q)[1] // 8}#{ct[1]}"
            except Broken:
                raise Broken(f"sizeof({q})")
        raise Broken(f"expression kind {k}")

    def is_fpos(self, n):
        t = n.get("type", {})
        return "fpos<" in (t.get("desugaredQualType") or t.get("qualType") or "")

    def fpos_conv(self, n):
        """`pos.operator streamoff()` (the conversion std::fpos -> std::streamoff): the fpos operand, else None"""
        if n.get("kind") != "CXXMemberCallExpr":
            return None
        ch = strip_comments(n)
        if len(ch) != 1 or ch[0].get("kind") != "MemberExpr" or not ch[0].get("name", "").startswith("operator "):
            return None
        base = strip_comments(ch[0])
        if len(base) != 1 or not self.is_fpos(base[0]):
            return None
        x = base[0]
        while x.get("kind") in ("ImplicitCastExpr", "MaterializeTemporaryExpr") and \
                x.get("castKind", "NoOp") == "NoOp" and x.get("inner"):
            x = strip_comments(x)[-1]
        return x

    def stream_not(self, inner):
        """operand name of `operator!` applied to a standard stream, else None"""
        rd = inner[0]
        while rd.get("kind") == "ImplicitCastExpr" and rd.get("inner"):
            rd = rd["inner"][-1]
        if rd.get("referencedDecl", {}).get("name", "") != "operator!":
            return None
        q = inner[1].get("type", {}).get("desugaredQualType") or inner[1].get("type", {}).get("qualType", "")
        if "basic_ios<" not in q and "stream" not in q:
            return None
        nm = self.obj_name(inner[1])
        return nm if nm and nm != "obj" else None

    def smart_null_test(self, inner):
        """operands of `operator==` / `operator!=` between a smart pointer and nullptr -> (op, pointer), else None"""
        rd = inner[0]
        while rd.get("kind") == "ImplicitCastExpr" and rd.get("inner"):
            rd = rd["inner"][-1]
        nm = rd.get("referencedDecl", {}).get("name", "")
        if nm not in ("operator==", "operator!="):
            return None
        a, b = inner[1], inner[2]
        if self.is_nullptr(a) == self.is_nullptr(b):
            return None
        other = b if self.is_nullptr(a) else a
        q = other.get("type", {}).get("desugaredQualType") or other.get("type", {}).get("qualType", "")
        if "unique_ptr<" not in q and "shared_ptr<" not in q:
            return None
        return nm[len("operator"):], other

    def is_null(self, x):
        while x.get("kind") in ("ImplicitCastExpr", "ParenExpr", "CStyleCastExpr") and x.get("inner"):
            if x.get("castKind") == "NullToPointer":      # the literal `0` used as a null pointer
                return True
            x = x["inner"][-1]
        return x.get("kind") in ("CXXNullPtrLiteralExpr", "GNUNullExpr")

    def is_nullptr(self, n):
        x = n
        while x.get("kind") in ("ImplicitCastExpr", "ParenExpr", "CStyleCastExpr") and x.get("inner"):
            if x.get("castKind") == "NullToPointer":      # `0 != p`
                return True
            x = x["inner"][-1]
        return x.get("kind") in ("CXXNullPtrLiteralExpr", "GNUNullExpr")

    def ptr_nonnull(self, x):
        """a named pointer (variable / member) used as a truth value: Bool parameter `<name>_nonnull`"""
        while x.get("kind") in ("ImplicitCastExpr", "ParenExpr") and x.get("inner"):
            x = x["inner"][-1]
        if x.get("kind") == "DeclRefExpr":
            return self.fv(x.get("referencedDecl", {}).get("name", "p") + "_nonnull", "Bool")
        if x.get("kind") == "MemberExpr":
            return self.fv(x.get("name", "p") + "_nonnull", "Bool")
        raise Broken("pointer truth value of a compound expression")
    def ptr_off(self, n):
        """pointer-valued expression -> (name of the base pointer, Lean term of the byte offset from it
        as BitVec 64, or None for offset 0).  Only `char*`-style arithmetic (element size 1)."""
        k = n["kind"]
        inner = [c for c in n.get("inner", []) if not c.get("kind", "").endswith("Comment")]
        if k in ("ParenExpr", "ExprWithCleanups", "MaterializeTemporaryExpr") or \
           (k in ("ImplicitCastExpr", "CStyleCastExpr", "CXXStaticCastExpr", "CXXReinterpretCastExpr",
                  "CXXConstCastExpr") and n.get("castKind", "") in ("LValueToRValue", "NoOp", "BitCast")):
            return self.ptr_off(inner[-1])
        if k == "DeclRefExpr":
            return n.get("referencedDecl", {}).get("name", "ptr"), None
        if k == "MemberExpr":
            return n.get("name", "ptr"), None
        if k == "CXXMemberCallExpr" and inner and inner[0].get("kind") == "MemberExpr" and len(inner) == 1:
            pre = ""
            base = inner[0].get("inner", [])
            if base and base[0]["kind"] != "CXXThisExpr":
                pre = self.obj_name(base[0])
            return (pre + "_" if pre else "") + re.sub(r"^get_", "", inner[0].get("name", "ptr")), None
        if k == "BinaryOperator" and n.get("opcode") in ("+", "-"):
            a, b = inner
            ta, tb = self.try_ctype(a), self.try_ctype(b)
            if n["opcode"] == "+" and tb and tb[0] == "ptr" and ta and ta[0] == "int":
                a, b, ta, tb = b, a, tb, ta
            if ta and ta[0] == "ptr" and tb and tb[0] == "int":
                q = (a.get("type", {}).get("desugaredQualType") or a.get("type", {}).get("qualType") or "")
                if not re.fullmatch(r"(const )?(unsigned |signed )?char \*( const)?", q.strip()):
                    raise Broken(f"pointer arithmetic on '{q}' (element size not 1)")
                base, off = self.ptr_off(a)
                d = self.cast(self.expr(b), tb, ("int", 64, tb[2]))
                if n["opcode"] == "-":
                    return base, (f"(-{d})" if off is None else f"({off} - {d})")
                return base, (d if off is None else f"({off} + {d})")
        raise Broken(f"pointer expression kind {k}")

    def try_ctype(self, n):
        try:
            return ctype(n)
        except Broken:
            return None
    def ptr_name(self, n):
        x = n
        while x.get("kind") in ("ImplicitCastExpr", "ParenExpr") and x.get("inner"):
            x = x["inner"][-1]
        if x.get("kind") == "DeclRefExpr":
            return x.get("referencedDecl", {}).get("name", "ptr")
        if x.get("kind") == "MemberExpr":
            return x.get("name", "ptr")
        if x.get("kind") == "CXXMemberCallExpr":
            callee = x["inner"][0]
            if callee.get("kind") == "MemberExpr" and len(x["inner"]) == 1:
                base = callee.get("inner", [])
                pre = self.obj_name(base[0]) if base and base[0]["kind"] != "CXXThisExpr" else ""
                return (pre + "_" if pre else "") + re.sub(r"^get_", "", callee.get("name", "ptr"))
        raise Broken("null comparison of an unsupported pointer expression")

    def switch_groups(self, sw):
        """`switch (e) { case A: case B: stmt; break; ... default: ... }` -> Lean term of type Nat:
        the index (source order) of the label group selected by the scrutinee."""
        inner = [c for c in sw.get("inner", []) if c.get("kind")]
        scrut = inner[0]; body = inner[-1]
        if body.get("kind") != "CompoundStmt":
            raise Broken("switch body is not a block")
        es = self.expr(scrut)
        groups = []          # (labels, has_default)
        kids = [c for c in body.get("inner", []) if not c.get("kind", "").endswith("Comment")]
        for i, c in enumerate(kids):
            if c.get("kind") in ("CaseStmt", "DefaultStmt"):
                if groups and kids[i - 1].get("kind") not in ("BreakStmt", "ReturnStmt"):
                    raise Broken("switch group falls through into the next one")
                labels = []; dflt = False; x = c
                while x.get("kind") in ("CaseStmt", "DefaultStmt"):
                    xi = [y for y in x.get("inner", []) if y.get("kind")]
                    if x["kind"] == "CaseStmt":
                        if len(xi) != 2:
                            raise Broken("case range")
                        labels.append(self.cast(self.expr(xi[0]), ctype(xi[0]), ctype(scrut)))
                    else:
                        dflt = True
                    x = xi[-1]
                groups.append((labels, dflt))
        if not groups:
            raise Broken("switch without cases")
        dflt_ix = next((i for i, g in enumerate(groups) if g[1]), len(groups))
        out = ""
        for i, (labels, _) in enumerate(groups):
            if labels:
                out += "if (" + " || ".join(f"{es} == {l}" for l in labels) + f") then {i} else\n"
        return out + str(dflt_ix)
    def ptr_name9(self, x):
        """name for a pointer-valued variable / member / argument-less getter call"""
        while x.get("kind") in ("ParenExpr", "ImplicitCastExpr") and x.get("inner"):
            x = x["inner"][-1]
        try:
            if ctype(x)[0] != "ptr":
                raise Broken("null compared with a non-pointer")
        except Broken:
            raise
        if x.get("kind") == "DeclRefExpr":
            return lname(x.get("referencedDecl", {}).get("name", "ptr"))
        if x.get("kind") == "MemberExpr":
            return lname(x.get("name", "ptr"))
        if x.get("kind") == "CXXMemberCallExpr" and len(x.get("inner", [])) == 1:
            callee = x["inner"][0]
            pre = ""
            base = callee.get("inner", [])
            if base and base[0]["kind"] != "CXXThisExpr":
                pre = self.obj_name(base[0])
            return lname((pre + "_" if pre else "") + re.sub(r"^get_", "", callee.get("name", "ptr")))
        raise Broken("pointer expression compared with null")

    def shift_amount(self, b, eb):
        x = b
        while x["kind"] in ("ParenExpr", "ImplicitCastExpr") and x.get("inner"):
            x = x["inner"][-1]
        if x["kind"] == "IntegerLiteral":
            return str(int(x["value"]))
        return f"({eb}).toNat"

    def obj_name(self, base):
        x = base
        while x.get("kind") in ("ImplicitCastExpr", "ParenExpr", "UnaryOperator") and x.get("inner"):
            x = x["inner"][-1]
        if x.get("kind") == "DeclRefExpr":
            return x.get("referencedDecl", {}).get("name", "obj")
        if x.get("kind") == "MemberExpr":
            return x.get("name", "obj")
        if x.get("kind") == "CXXThisExpr":
            return ""
        if x.get("kind") == "CXXMemberCallExpr" and x.get("inner"):
            cal = x["inner"][0]
            if cal.get("kind") == "MemberExpr" and cal.get("name") in ("get",) and cal.get("inner"):
                return self.obj_name(cal["inner"][0])
        if x.get("kind") == "CXXOperatorCallExpr":   # e.g. unique_ptr::operator->
            for c in x.get("inner", [])[1:]:
                r = self.obj_name(c)
                if r: return r
        return "obj"

    # ---- statements (continuation style); `k` is the Lean term for "the rest"
    def stmts(self, ss, ret_ct):
        ss = [s for s in ss if not s.get("kind", "").endswith("Comment")]
        if not ss:
            raise Broken("control reaches end of function without return")
        s, rest = ss[0], ss[1:]
        k = s["kind"]
        inner = s.get("inner", [])
        if k == "CompoundStmt":
            return self.stmts(inner + rest, ret_ct)
        if k == "ReturnStmt":
            return self.expr(inner[0])
        if k == "DeclStmt":
            out = []
            for v in inner:
                if v["kind"] != "VarDecl" or not v.get("inner"):
                    raise Broken("declaration without initialiser")
                ct = ctype(v)
                e = self.expr([c for c in v["inner"] if not c["kind"].endswith("Comment")][-1])
                nm = lname(v["name"]); self.locals[nm] = lean_ty(ct)
                out.append(f"let {nm} : {lean_ty(ct)} := {e}\n")
            return "".join(out) + self.stmts(rest, ret_ct)
        if k in ("BinaryOperator", "CompoundAssignOperator"):
            nm, e, ty = self.assign(s)
            return f"let {nm} : {ty} := {e}\n" + self.stmts(rest, ret_ct)
        if k == "IfStmt":
            parts = [c for c in inner]
            cond = self.expr(parts[0]); th = parts[1]; el = parts[2] if len(parts) > 2 else None
            if self.always_returns(th) and (el is None):
                return f"if {cond} then ({self.stmts([th], ret_ct)}) else\n" + self.stmts(rest, ret_ct)
            if el is not None and self.always_returns(th) and self.always_returns(el):
                return f"if {cond} then ({self.stmts([th], ret_ct)}) else ({self.stmts([el], ret_ct)})"
            # assignment-only branches
            mod = []
            for br in (th, el):
                if br is not None:
                    for a in self.flat(br):
                        nm = self.assign_target(a)
                        if nm not in mod: mod.append(nm)
            tup = "(" + ", ".join(mod) + ")" if len(mod) != 1 else mod[0]
            def branch(br):
                if br is None: return tup
                sv = dict(self.locals)
                txt = ""
                for a in self.flat(br):
                    nm, e, ty = self.assign(a)
                    txt += f"let {nm} : {ty} := {e}\n"
                self.locals = sv
                return f"({txt}{tup})"
            return (f"let {tup} := if {cond} then {branch(th)} else {branch(el)}\n" + self.stmts(rest, ret_ct))
        if k in ("WhileStmt", "ForStmt"):
            return self.string_walk(s) + self.stmts(rest, ret_ct)
        raise Broken(f"statement kind {k}")

    def always_returns(self, s):
        if s["kind"] == "ReturnStmt": return True
        if s["kind"] == "CompoundStmt":
            inn = [c for c in s.get("inner", [])]
            return bool(inn) and self.always_returns(inn[-1])
        return False

    def flat(self, s):
        if s["kind"] == "CompoundStmt":
            r = []
            for c in s.get("inner", []): r += self.flat(c)
            return r
        if s["kind"] in ("BinaryOperator", "CompoundAssignOperator"):
            return [s]
        raise Broken(f"statement kind {s['kind']} inside a conditional block")

    def assign_target(self, s):
        lhs = s["inner"][0]
        if lhs["kind"] == "MemberExpr" and lhs.get("inner") and lhs["inner"][0].get("kind") == "CXXThisExpr":
            return lname(lhs["name"])
        if lhs["kind"] != "DeclRefExpr":
            raise Broken("assignment to a non-variable")
        return lname(lhs["referencedDecl"]["name"])

    def assign(self, s):
        op = s["opcode"]; lhs, rhs = s["inner"]
        nm = self.assign_target(s)
        ct = ctype(lhs)
        if nm not in self.locals:
            # assignment to a parameter: make it a local shadow
            self.fv(nm, lean_ty(ct)); self.locals[nm] = lean_ty(ct)
        if op == "=":
            return nm, self.expr(rhs), lean_ty(ct)
        bop = op[:-1]
        comp = s.get("computeResultType", {})
        cct = ctype(comp) if comp else ct
        el = self.cast(nm, ct, cct)
        er = self.expr(rhs)
        fake_l = {"kind": "DeclRefExpr", "type": comp or lhs["type"], "referencedDecl": {"name": "__l"}}
        lop = {"+": "+", "-": "-", "*": "*", "&": "&&&", "|": "|||", "^": "^^^"}.get(bop)
        if lop is None:
            if bop == "<<": e = f"({el} <<< {self.shift_amount(rhs, er)})"
            elif bop == ">>": e = f"({el} >>> {self.shift_amount(rhs, er)})"
            else: raise Broken(f"compound assignment {op}")
        else:
            e = f"({el} {lop} {er})"
        return nm, self.cast(e, cct, ct), lean_ty(ct)

    def string_walk(self, s):
        """while(*p != 0){ ... *p++ ... }   and   for(c=*s; c!=0; c=*++s) stmt"""
        if self.byte_ptr is None:
            raise Broken("loop outside the byte-string-walk idiom")
        inner = s.get("inner", [])
        sv_locals = dict(self.locals)
        if s["kind"] == "WhileStmt":
            body = inner[-1]; cname = "c__"
            self.cur_byte = cname
        else:
            init = inner[0]; body = inner[-1]
            v = init["inner"][0]
            cname = lname(v["name"]); self.cur_byte = cname
        # variables assigned in the body
        mod = []
        def collect(x):
            if x["kind"] in ("BinaryOperator", "CompoundAssignOperator") and x.get("opcode", "").endswith("=") \
               and x["opcode"] not in ("==", "!=", "<=", ">="):
                nm = self.assign_target(x)
                if nm not in mod: mod.append(nm)
            elif x["kind"] in ("CompoundStmt", "IfStmt"):
                for c in x.get("inner", [])[(1 if x["kind"] == "IfStmt" else 0):]:
                    collect(c)
        collect(body)
        if not mod:
            raise Broken("loop body assigns nothing")
        tup = "(" + ", ".join(mod) + ")" if len(mod) != 1 else mod[0]
        self.locals[cname] = "BitVec 8"
        # translate body as statements ending in the tuple
        body_txt = self.loop_body(body, tup)
        self.cur_byte = None
        self.locals = sv_locals
        for m in mod:
            self.locals.setdefault(m, None)
        tys = " × ".join(sv_locals.get(m) or self.locals.get(m) or "_" for m in mod)
        return f"let {tup} := List.foldl (fun ({tup} : {tys}) ({cname} : BitVec 8) =>\n{body_txt}) {tup} {self.byte_ptr}\n"

    def loop_body(self, body, tup):
        ss = body.get("inner", []) if body["kind"] == "CompoundStmt" else [body]
        txt = ""
        for s in ss:
            if s["kind"] in ("BinaryOperator", "CompoundAssignOperator"):
                nm, e, ty = self.assign(s)
                txt += f"let {nm} : {ty} := {e}\n"
            elif s["kind"] == "IfStmt":
                parts = s["inner"]
                cond = self.expr(parts[0])
                mod = []
                for br in parts[1:]:
                    for a in self.flat(br):
                        nm = self.assign_target(a)
                        if nm not in mod: mod.append(nm)
                t2 = "(" + ", ".join(mod) + ")" if len(mod) != 1 else mod[0]
                def branch(br):
                    t = ""
                    for a in self.flat(br):
                        nm, e, ty = self.assign(a)
                        t += f"let {nm} : {ty} := {e}\n"
                    return f"({t}{t2})"
                el = branch(parts[2]) if len(parts) > 2 else t2
                txt += f"let {t2} := if {cond} then {branch(parts[1])} else {el}\n"
            else:
                raise Broken(f"statement kind {s['kind']} in loop body")
        return txt + tup


# --------------------------------------------------------------------------- site selection

def strip_comments(n):
    return [c for c in n.get("inner", []) if not c.get("kind", "").endswith("Comment")]


def walk(n):
    yield n
    for c in n.get("inner", []):
        if isinstance(c, dict):
            yield from walk(c)


def find_function(docs, spec):
    """spec: {class?, targs?, name, params?}"""
    cands = []
    for d in docs:
        for n in walk(d):
            if n.get("kind") in ("FunctionDecl", "CXXMethodDecl", "CXXConstructorDecl") and n.get("name") == spec["name"]:
                if not any(c.get("kind") == "CompoundStmt" for c in n.get("inner", [])):
                    continue
                cands.append((d, n))
    out = []
    for d, n in cands:
        if "targs" in spec:
            if d.get("kind") != "ClassTemplateSpecializationDecl":
                continue
            ta = [a.get("type", {}).get("qualType", "") for a in d.get("inner", []) if a.get("kind") == "TemplateArgument"]
            ta = [re.sub(r"^ELFIO::", "", t) for t in ta]
            if ta[:len(spec["targs"])] != spec["targs"]:
                continue
        elif "spec_of" in spec:
            # explicit specialisation of a struct template: match the record's printed arg
            pass
        if "fn_targs" in spec:
            # instantiation of a member/function template: match its own template arguments
            fa = [re.sub(r"^ELFIO::", "", a.get("type", {}).get("qualType", ""))
                  for a in n.get("inner", []) if a.get("kind") == "TemplateArgument"]
            if fa[:len(spec["fn_targs"])] != spec["fn_targs"]:
                continue
        qt = n.get("type", {}).get("qualType", "")
        if "<dependent type>" in json.dumps(n)[:200000] and "targs" not in spec and "<dependent type>" in json.dumps(n):
            continue
        if "margs" in spec:   # arguments of an instantiated *member* template (e.g. generic_get_symbol<Elf32_Sym>)
            ma = [re.sub(r"^ELFIO::", "", a.get("type", {}).get("qualType", ""))
                  for a in n.get("inner", []) if a.get("kind") == "TemplateArgument"]
            if ma != spec["margs"]:
                continue
        if "params" in spec:
            ps = [re.sub(r"\b(const|ELFIO::)\b", "", p.get("type", {}).get("qualType", "")).replace("&", "").strip()
                  for p in n.get("inner", []) if p.get("kind") == "ParmVarDecl"]
            ps = [re.sub(r"ELFIO::", "", p) for p in ps]
            if ps != spec["params"]:
                continue
        if "fargs" in spec:
            fa = [re.sub(r"^ELFIO::", "", a.get("type", {}).get("qualType", "")) for a in n.get("inner", [])
                  if a.get("kind") == "TemplateArgument"]
            if fa != spec["fargs"]:
                continue
        if "record" in spec:
            if spec["record"] not in (d.get("name", ""), ) and not record_matches(d, n, spec["record"]):
                continue
        out.append(n)
    if not out:
        raise Broken(f"function {spec} not found")
    return out[0]


def record_matches(doc, fn, record):
    # find the CXXRecordDecl / specialization that directly contains fn and compare its name + args
    def rec(n, path):
        if n is fn:
            return path
        for c in n.get("inner", []):
            if isinstance(c, dict):
                r = rec(c, path + [n])
                if r is not None: return r
        return None
    p = rec(doc, [])
    if not p: return False
    for anc in reversed(p):
        if anc.get("kind") in ("CXXRecordDecl", "ClassTemplateSpecializationDecl"):
            nm = anc.get("name", "")
            ta = [re.sub(r"^ELFIO::", "", a.get("type", {}).get("qualType", "")) for a in anc.get("inner", []) if a.get("kind") == "TemplateArgument"]
            full = nm + ("<" + ",".join(ta) + ">" if ta else "")
            return full == record
    return False


def select(fn, sel):
    """`SELECTOR[/step]*` : steps descend from the selected node:
      `lhs` / `rhs`      operand of a binary operator (c08)
      `op:OPCODE#k`      k-th BinaryOperator with that opcode inside the current node, pre-order (c09)
      `arg:i`            i-th child, casts/parentheses skipped (c09)"""
    sel, *path = sel.split("/")
    node = select0(fn, sel)
    for step in path:
        kind, _, arg = step.partition(":")
        if step in ("lhs", "rhs"):
            while node.get("kind") in ("ParenExpr", "ExprWithCleanups") and node.get("inner"):
                node = strip_comments(node)[-1]
            if node.get("kind") != "BinaryOperator":
                raise Broken(f"selector path /{step} on {node.get('kind')}")
            node = strip_comments(node)[0 if step == "lhs" else 1]
        elif kind == "op":
            opc, _, nth = arg.partition("#"); nth = int(nth or 0); i = 0; found = None
            for n in walk(node):
                if n.get("kind") == "BinaryOperator" and n.get("opcode") == opc:
                    if i == nth:
                        found = n; break
                    i += 1
            if found is None:
                raise Broken(f"sub-selector {step}: operator not found")
            node = found
        elif kind == "arg":
            x = node
            while x.get("kind") in ("ParenExpr", "ImplicitCastExpr", "CStyleCastExpr") and len(strip_comments(x)) == 1:
                x = strip_comments(x)[0]
            ch = strip_comments(x)
            if int(arg) >= len(ch):
                raise Broken(f"sub-selector {step}: no such child")
            node = ch[int(arg)]
        else:
            raise Broken(f"selector path /{step}")
    return node


def select0(fn, sel):
    body = [c for c in fn["inner"] if c.get("kind") == "CompoundStmt"][0]
    kind, _, arg = sel.partition(":")
    if kind == "function":
        return body
    if kind == "var":
        name, _, nth = arg.partition("#"); nth = int(nth or 0); i = 0
        for n in walk(body):
            if n.get("kind") == "VarDecl" and n.get("name") == name and n.get("inner"):
                if i == nth:
                    return strip_comments(n)[-1]
                i += 1
        raise Broken(f"variable {name} not found")
    if kind == "assign":
        name, _, nth = arg.partition("#"); nth = int(nth or 0); i = 0
        for n in walk(body):
            if n.get("kind") in ("BinaryOperator", "CompoundAssignOperator") and n.get("opcode", "") in ("=", "+=", "-=", "*=", "/=", "%=", "&=", "|=", "^=", "<<=", ">>="):
                lhs = n["inner"][0]
                if (lhs.get("kind") == "DeclRefExpr" and lhs.get("referencedDecl", {}).get("name") == name) or \
                   (lhs.get("kind") == "MemberExpr" and lhs.get("name") == name):
                    if i == nth:
                        return n["inner"][1] if n["opcode"] == "=" else n
                    i += 1
            elif n.get("kind") == "UnaryOperator" and n.get("opcode") in ("++", "--"):
                # `x++;` / `--x;` count as assignments to x (value of x afterwards)
                tgt = n["inner"][0]
                if tgt.get("kind") == "DeclRefExpr" and tgt.get("referencedDecl", {}).get("name") == name:
                    if i == nth:
                        return n
                    i += 1
        raise Broken(f"assignment to {name} #{nth} not found")
    if kind in ("if", "while", "return", "switch"):
        want = {"if": "IfStmt", "while": "WhileStmt", "return": "ReturnStmt",
                "switch": "SwitchStmt"}[kind]
        nth = int(arg or 0); i = 0
        for n in walk(body):
            if n.get("kind") == want:
                if i == nth:
                    if kind == "switch":
                        return n
                    ch = [c for c in strip_comments(n) if c.get("kind") != "DeclStmt"]
                    return ch[0]
                i += 1
        raise Broken(f"{kind} #{nth} not found")
    if kind == "for":
        nth = int(arg or 0); i = 0
        for n in walk(body):
            if n.get("kind") == "ForStmt":
                if i == nth:
                    return n["inner"][2]          # [init, condition variable, condition, increment, body]
                i += 1
        raise Broken(f"for #{nth} not found")
    if kind in ("ptroff", "index"):
        # ptroff:N = integer operand of the N-th `pointer + integer`; index:N = index of the N-th `p[i]`
        nth = int(arg or 0); i = 0
        def is_ptr(x):
            q = x.get("type", {}).get("desugaredQualType") or x.get("type", {}).get("qualType", "")
            return q.strip().endswith("*")
        for n in walk(body):
            if kind == "ptroff" and n.get("kind") == "BinaryOperator" and n.get("opcode") == "+" and is_ptr(n):
                a, b = n["inner"]
                if i == nth:
                    return b if is_ptr(a) else a
                i += 1
            if kind == "index" and n.get("kind") == "ArraySubscriptExpr":
                if i == nth:
                    return n                      # translate_site scales the index by the element size
                i += 1
        raise Broken(f"{kind} #{nth} not found")
    if kind == "ptroffs":
        # the N-th `pointer + integer` itself (same counting as ptroff:N); translate_site scales the integer
        # operand by the size of the pointee
        nth = int(arg or 0); i = 0
        for n in walk(body):
            q = n.get("type", {}).get("desugaredQualType") or n.get("type", {}).get("qualType", "")
            if n.get("kind") == "BinaryOperator" and n.get("opcode") == "+" and q.strip().endswith("*"):
                if i == nth:
                    return n
                i += 1
        raise Broken(f"{kind} #{nth} not found")
    if kind == "deref":
        # operand of the N-th `*p` (source order): translated to its byte offset from the base pointer
        nth = int(arg or 0); i = 0
        for n in walk(body):
            if n.get("kind") == "UnaryOperator" and n.get("opcode") == "*":
                if i == nth:
                    return strip_comments(n)[0]
                i += 1
        raise Broken(f"dereference #{nth} not found")
    if kind == "ptroffpm":
        # integer operand of the N-th pointer addition `p + e` / `e + p` / `p - e`
        nth = int(arg or 0); i = 0
        for n in walk(body):
            if n.get("kind") == "BinaryOperator" and n.get("opcode") in ("+", "-"):
                q = n.get("type", {}).get("qualType", "")
                if q.strip().endswith("*"):
                    ops = strip_comments(n)
                    ints = [o for o in ops if not o.get("type", {}).get("qualType", "").strip().endswith("*")]
                    if len(ints) != 1:
                        continue
                    if i == nth:
                        return ints[0]
                    i += 1
        raise Broken(f"pointer offset #{nth} not found")
    if kind == "callarg":
        callee, _, rest = arg.partition("#"); nth, _, argi = rest.partition("."); nth = int(nth or 0); argi = int(argi or 0); i = 0
        for n in walk(body):
            if n.get("kind") in ("CallExpr", "CXXMemberCallExpr", "CXXNewExpr", "CXXOperatorCallExpr"):
                nm = ""
                for x in walk(n["inner"][0]) if n.get("inner") else []:
                    if x.get("kind") == "MemberExpr": nm = x.get("name", ""); break
                    if x.get("kind") == "DeclRefExpr": nm = x.get("referencedDecl", {}).get("name", ""); break
                if n.get("kind") == "CXXNewExpr": nm = "new"
                if nm == callee:
                    if i == nth:
                        args = n["inner"][(0 if n["kind"] == "CXXNewExpr" else 1):]
                        return args[argi]
                    i += 1
        raise Broken(f"call to {callee} #{nth} not found")
    raise Broken(f"selector {sel}")



def _ast_hash(n):
    """structure hash of an AST subtree (fallback when a member of a selector family cannot be translated):
    node kinds, operators, names, literal values and types only — nothing that depends on where the node
    stands in the file"""
    KEEP = ("kind", "opcode", "name", "value", "castKind", "isArrow", "valueCategory", "isPostfix")
    def strip(x):
        if isinstance(x, dict):
            d = {k: x[k] for k in KEEP if k in x}
            if isinstance(x.get("type"), dict):
                d["type"] = x["type"].get("qualType")
            if isinstance(x.get("referencedDecl"), dict):
                d["ref"] = x["referencedDecl"].get("name")
            if isinstance(x.get("inner"), list):
                d["inner"] = [strip(v) for v in x["inner"] if isinstance(v, dict) and not v.get("kind", "").endswith("Comment")]
            return d
        return x
    return "?" + hashlib.md5(json.dumps(strip(n), sort_keys=True).encode()).hexdigest()[:12]


def selector_family(sel):
    """(prefix, index, suffix): the selector is prefix + str(index) + suffix and its family is the same text
    with other indices: `if:3/lhs` -> ("if:", 3, "/lhs"); `assign:x#1` -> ("assign:x#", 1, "");
    `callarg:f#2.0` -> ("callarg:f#", 2, ".0"); `var:x` -> ("var:x#", 0, "").  None for `function`."""
    base, sep, path = sel.partition("/")
    suffix = sep + path
    kind, _, arg = base.partition(":")
    if kind in ("if", "while", "return", "switch", "for", "ptroff", "index", "deref", "ptroffpm", "ptroffs"):
        return (kind + ":", int(arg or 0), suffix)
    if kind in ("var", "assign"):
        name, _, nth = arg.partition("#")
        return (f"{kind}:{name}#", int(nth or 0), suffix)
    if kind == "callarg":
        callee, _, rest = arg.partition("#"); nth, _, argi = rest.partition(".")
        return (f"callarg:{callee}#", int(nth or 0), "." + (argi or "0") + suffix)
    return None


def family_sequence(site, consts, sizes, key):
    """alpha-normal forms of ALL members of the site's selector family, in source order"""
    fam = selector_family(site.get("select", "function"))
    if fam is None:
        return None
    pre, _idx, suf = fam
    seq = []
    for j in range(0, 48):
        sel = f"{pre}{j}{suf}"
        try:
            translate_site(dict(site, select=sel, lean="__cand__"), consts, sizes, key)
            seq.append(ALPHA.get("__cand__", "?"))
        except Exception:
            # not translatable, or no j-th member: the AST node decides
            try:
                fn = find_function(clang_docs(site["filter"], key), site)
                seq.append(_ast_hash(select(fn, sel)))
            except Exception:
                try:
                    seq.append(_ast_hash(select0(fn, sel.partition("/")[0])))
                except Exception:
                    break
    for d in (ALPHA, SIGNATURES, SIGS):
        d.pop("__cand__", None)
    return seq


def local_names(site, key):
    """names of the local variables declared in the site's function (source order)"""
    fn = find_function(clang_docs(site["filter"], key), site)
    names = [p.get("name") for p in fn.get("inner", []) if p.get("kind") == "ParmVarDecl" and p.get("name")]
    for n in walk([c for c in fn["inner"] if c.get("kind") == "CompoundStmt"][0]):
        if n.get("kind") == "VarDecl" and n.get("name") and n["name"] not in names:
            names.append(n["name"])
    return names


def inlinable_locals(site, key, old_names):
    """{name: initialiser node} for locals that did not exist when the lock was written, are declared `const`
    and are initialised from variables that the function never assigns (so the initialiser has the same value
    wherever it is evaluated)"""
    fn = find_function(clang_docs(site["filter"], key), site)
    body = [c for c in fn["inner"] if c.get("kind") == "CompoundStmt"][0]
    assigned = set()
    for n in walk(body):
        if n.get("kind") in ("BinaryOperator", "CompoundAssignOperator") and n.get("opcode", "").endswith("=") \
           and n.get("opcode") not in ("==", "!=", "<=", ">="):
            for x in walk(n["inner"][0]):
                if x.get("kind") == "DeclRefExpr":
                    assigned.add(x.get("referencedDecl", {}).get("name"))
        if n.get("kind") == "UnaryOperator" and n.get("opcode") in ("++", "--"):
            for x in walk(n):
                if x.get("kind") == "DeclRefExpr":
                    assigned.add(x.get("referencedDecl", {}).get("name"))
    out = {}
    for n in walk(body):
        if n.get("kind") == "VarDecl" and n.get("name") not in old_names and n.get("inner") \
           and n.get("type", {}).get("qualType", "").startswith("const "):
            init = strip_comments(n)[-1]
            refs = {x.get("referencedDecl", {}).get("name") for x in walk(init) if x.get("kind") == "DeclRefExpr"}
            if not (refs & assigned) and not any(x.get("kind") in ("CallExpr", "CXXMemberCallExpr") and False for x in walk(init)):
                out[n["name"]] = init
    return out


COMMUTATIVE = {"+", "*", "&", "|", "^", "==", "!=", "&&", "||"}


def _simple_operand(x):
    """may be evaluated before or after its sibling without any difference: no calls on other objects, no pointer
    dereference, no subscript, no assignment"""
    for n in walk(x):
        k = n.get("kind")
        if k in ("ArraySubscriptExpr", "CompoundAssignOperator", "CXXOperatorCallExpr", "CXXNewExpr", "CXXDeleteExpr"):
            return False
        if k == "UnaryOperator" and n.get("opcode") in ("*", "++", "--"):
            return False
        if k == "BinaryOperator" and n.get("opcode", "").endswith("=") and n.get("opcode") not in ("==", "!=", "<=", ">="):
            return False
        if k == "MemberExpr" and n.get("isArrow"):
            base = [c for c in n.get("inner", []) if isinstance(c, dict)]
            if not (base and base[0].get("kind") == "CXXThisExpr"):
                return False
        if k == "CallExpr":
            return False
    return True


def chash(n):
    """hash of an AST subtree modulo the order of the operands of commutative operators (`&&`/`||` only when both
    operands are simple): equal hashes = the same pure expression up to such swaps"""
    kids = [chash(c) for c in n.get("inner", []) if isinstance(c, dict) and not c.get("kind", "").endswith("Comment")]
    if n.get("kind") == "BinaryOperator" and n.get("opcode") in COMMUTATIVE and len(kids) == 2:
        ops = [c for c in n["inner"] if isinstance(c, dict)]
        if n["opcode"] not in ("&&", "||") or all(_simple_operand(o) for o in ops):
            kids = sorted(kids)
    own = [n.get("kind"), n.get("opcode"), n.get("name"), n.get("value"), n.get("castKind"), n.get("isArrow"),
           (n.get("type") or {}).get("qualType") if isinstance(n.get("type"), dict) else None,
           (n.get("referencedDecl") or {}).get("name") if isinstance(n.get("referencedDecl"), dict) else None]
    return hashlib.md5(json.dumps([own, kids]).encode()).hexdigest()[:16]


def site_chash(site, key):
    fn = find_function(clang_docs(site["filter"], key), site)
    return chash(select(fn, site.get("select", "function")))


def nth_if(fn, nth):
    """the N-th IfStmt of the function (source order) as (condition, then, else-or-None)"""
    body = [c for c in fn["inner"] if c.get("kind") == "CompoundStmt"][0]
    i = 0
    for n in walk(body):
        if n.get("kind") == "IfStmt":
            if i == nth:
                ch = [c for c in strip_comments(n) if c.get("kind") != "DeclStmt"]
                return ch[0], ch[1], (ch[2] if len(ch) > 2 else None)
            i += 1
    raise Broken(f"if #{nth} not found")


def if_branch_hashes(site, key):
    """[hash(then), hash(else)] for a plain `if:N` selector, else None"""
    m = re.fullmatch(r"if:(\d+)", site.get("select", ""))
    if not m:
        return None
    fn = find_function(clang_docs(site["filter"], key), site)
    _c, t, e = nth_if(fn, int(m.group(1)))
    return [chash(t), chash(e) if e is not None else None]


def negated_if(site, key, lk):
    """`if (C) A else B` rewritten as `if (!(C)) B else A`: the condition is the negation of the locked one and
    the two branches changed places"""
    m = re.fullmatch(r"if:(\d+)", site.get("select", ""))
    if not m or not lk.get("branches") or lk["branches"][1] is None:
        return False
    fn = find_function(clang_docs(site["filter"], key), site)
    c, t, e = nth_if(fn, int(m.group(1)))
    while c.get("kind") in ("ParenExpr", "ExprWithCleanups") and c.get("inner"):
        c = strip_comments(c)[-1]
    if not (c.get("kind") == "UnaryOperator" and c.get("opcode") == "!") or e is None:
        return False
    x = strip_comments(c)[0]
    while x.get("kind") == "ParenExpr" and x.get("inner"):
        x = strip_comments(x)[-1]
    return chash(x) == lk.get("chash") and [chash(e), chash(t)] == lk["branches"]


def embed_index(old, new, idx):
    """old is a subsequence of new (members were only inserted) -> position of old[idx] in new under the
    leftmost embedding; None otherwise"""
    j = 0; pos = None
    for i, x in enumerate(old):
        while j < len(new) and new[j] != x:
            j += 1
        if j >= len(new):
            return None
        if i == idx:
            pos = j
        j += 1
    return pos


def translate_site(site, consts, sizes, key):
    docs = clang_docs(site["filter"], key)
    fn = find_function(docs, site)
    tr = Tr(consts, sizes)
    tr.null_style = site.get("null_style", "nonnull")
    tr.opaque = bool(site.get("opaque"))
    tr.inline = site.get("_inline", {})
    tr.renamable = set()
    params = []
    for p in fn.get("inner", []):
        if p.get("kind") == "ParmVarDecl":
            try:
                ct = ctype(p)
            except Broken:
                ct = None
            if ct and ct[0] == "ptr":
                q = p["type"].get("qualType", "")
                if "unsigned char" in q or "char" in q:
                    tr.byte_ptr = lname(p["name"])
                    params.append((lname(p["name"]), "List (BitVec 8)"))
                    tr.locals[lname(p["name"])] = "List (BitVec 8)"
            elif ct:
                params.append((lname(p.get("name") or f"unnamed{len(params)}"), lean_ty(ct)))
    node = select(fn, site.get("select", "function"))
    if site.get("select", "function") == "function":
        for nme, ty in params:
            tr.locals[nme] = ty
        rt = fn["type"]["qualType"].split("(")[0].strip()
        body = tr.stmts([node], None)
        rty = lean_ty(ctype(rt))
        allp = params + [(n, t) for n, t in tr.free if n not in dict(params)]
    else:
        if node.get("kind") == "CompoundAssignOperator":
            nm, body, rty = tr.assign(node)
        elif node.get("kind") == "ArraySubscriptExpr":
            # byte offset of p[i]: index converted to 64 bits, times sizeof(*p)
            base, idx = node["inner"]
            elem = ctype(node)
            body = f"({tr.cast(tr.expr(idx), ctype(idx), ('int', 64, ctype(idx)[2]))} * {elem[1] // 8}#64)"
            rty = "BitVec 64"
        elif node.get("kind") == "UnaryOperator" and node.get("opcode") in ("++", "--"):
            tgt = node["inner"][0]; ct = ctype(tgt)
            if ct[0] != "int":
                raise Broken("++/-- on a non-integer")
            body = f"({tr.expr(tgt)} {'+' if node['opcode'] == '++' else '-'} 1#{ct[1]})"
            rty = lean_ty(ct)
        elif site.get("select", "").split("/")[0].startswith("ptroffs:"):
            # scaled pointer arithmetic `p + e` on a `T*`: byte offset = (64-bit e) * sizeof(T)
            a, b = strip_comments(node)
            def _isp(x):
                q = x.get("type", {}).get("desugaredQualType") or x.get("type", {}).get("qualType", "")
                return q.strip().endswith("*")
            pe, ie = (a, b) if _isp(a) else (b, a)
            q = pe.get("type", {}).get("desugaredQualType") or pe.get("type", {}).get("qualType", "")
            q = re.sub(r"\b(const|volatile|struct)\b", "", q).strip()
            q = re.sub(r"\*\s*$", "", q).strip().replace("ELFIO::", "")
            if q in sizes:
                esz = f"(BitVec.ofNat 64 Gen.sizeof_{q})"
            else:
                esz = f"{ctype(q)[1] // 8}#64"
            ict = ctype(ie)
            body = f"({tr.cast(tr.expr(ie), ict, ('int', 64, ict[2]))} * {esz})"
            rty = "BitVec 64"
        elif (tr.try_ctype(node) or ("", 0, 0))[0] == "ptr":
            base, off = tr.ptr_off(node)
            body = off if off is not None else "0#64"
            rty = "BitVec 64"
            site = dict(site, select=site.get("select", "") + f" = byte offset from `{base}`")
        elif node.get("kind") == "SwitchStmt":
            body = tr.switch_groups(node); rty = "Nat"
        else:
            body = tr.expr(node)
            rty = lean_ty(ctype(node))
            if site.get("select", "").startswith("ptroff"):
                # pointer arithmetic: the integer operand is converted to the 64-bit pointer difference type
                body = tr.cast(body, ctype(node), ("int", 64, ctype(node)[2])); rty = "BitVec 64"
        allp = list(tr.free)
    if site.get("select", "function") == "function":
        ptrs = [lname(p["name"]) for p in fn.get("inner", []) if p.get("kind") == "ParmVarDecl"
                and (lambda ct: ct is not None and ct[0] == "ptr")(_try_ctype(p)) and lname(p["name"]) not in dict(params)]
        order = [lname(p["name"]) for p in fn.get("inner", []) if p.get("kind") == "ParmVarDecl"]
        SIGS[site["lean"]] = {"order": order, "ptrs": ptrs, "allp": allp}
    sig = " ".join(f"({n} : {t})" for n, t in allp)
    SIGNATURES[site["lean"]] = sig + " : " + rty
    # alpha-normal form: parameter names replaced by their position.  Two versions of a site with the same
    # normal form are the same function of their arguments (a pure renaming of C++ locals/parameters).
    # Only plain locals / function parameters are renamed; names derived from getters and fields
    # (`seg_virtual_address`, `section_size`) say WHICH value is read and stay.
    ren = set(tr.renamable) | ({n for n, _t in params} if site.get("select", "function") == "function" else set())
    nb = body; shape = []
    for i, (n, _t) in enumerate(allp):
        if n in ren:
            nb = re.sub(r"(?<![\w.'])" + re.escape(n) + r"(?![\w'])", f"«p{i}»", nb); shape.append(_t)
        else:
            shape.append(f"({n} : {_t})")
    ALPHA[site["lean"]] = " ".join(shape) + " : " + rty + " := " + hashlib.md5(nb.encode()).hexdigest()[:16]
    src = f"{fn.get('loc', {}).get('line', fn.get('range', {}).get('begin', {}).get('line', '?'))}"
    txt = (f"/-- from `{site['filter']}` {site.get('targs', site.get('record', ''))} "
           f"`{site['name']}`{''.join(' <' + t + '>' for t in site.get('fn_targs', []))} [{site.get('select', 'function')}] -/\n"
           f"def {site['lean']} {sig} : {rty} :=\n" + indent(body) + "\n")
    return txt


def indent(s):
    return "\n".join("  " + l for l in s.rstrip("\n").split("\n"))


def main():
    key = repo_hash()
    consts, sizes = gen_layout()
    sites = json.load(open(os.path.join(HERE, "sites.json")))
    sd = os.path.join(HERE, "sites.d")
    if os.path.isdir(sd):
        for f in sorted(os.listdir(sd)):
            if f.endswith(".json"):
                sites += json.load(open(os.path.join(sd, f)))
    filters = sorted({s["filter"] for s in sites})
    with cf.ThreadPoolExecutor(16) as ex:
        list(ex.map(lambda f: clang_docs(f, key), filters))
    status = {}
    files = {}
    for s in sites:
        if s.get("select", "function") == "function" and s.get("file") == "Funcs" and "record" not in s \
           and s["name"] != "operator()":
            CALLABLE[s["name"]] = s["lean"]
    lock_path = os.path.join(HERE, "signatures.lock.json")
    relock = "--relock" in sys.argv or not os.path.exists(lock_path)
    lock = {} if relock else json.load(open(lock_path))
    relocated = {}
    by_name = {x["lean"]: x for x in sites}

    def with_relocation(s):
        """translate `s`; when the expression at the locked position is not the locked one (or the selector no
        longer resolves) and the function only GAINED members of the selector's family — e.g. a guard inserted
        earlier shifts `if:N` — or the selected variable was merely renamed, follow the expression to its new
        position.  A changed expression is never relocated: the proofs decide about it."""
        lk = lock.get(s["lean"]); err = None; txt = None
        try:
            txt = translate_site(s, consts, sizes, key)
        except Broken as e:
            err = e
        if lk and lk.get("seq") and (err is not None or lk.get("alpha") != ALPHA.get(s["lean"])):
            fam = selector_family(s.get("select", "function"))
            if fam:
                new_seq = family_sequence(s, consts, sizes, key) or []
                j = embed_index(lk["seq"], new_seq, fam[1])
                if j is not None and j != fam[1] and len(new_seq) > len(lk["seq"]):
                    t2 = translate_site(dict(s, select=f"{fam[0]}{j}{fam[2]}"), consts, sizes, key)
                    relocated[s["lean"]] = f"{s.get('select')} -> {fam[0]}{j}{fam[2]}"
                    return t2
                m = re.match(r"(var|assign):([A-Za-z_]\w*)#$", fam[0])
                if m and not new_seq:
                    # the variable is gone: was it renamed?  exactly one other name must carry the same family
                    # candidates: locals that did not exist when the lock was written
                    names = [n for n in local_names(s, key) if n not in (lk.get("locals") or [])]
                    hits = []
                    for nm in names:
                        cand = dict(s, select=f"{m.group(1)}:{nm}#{fam[1]}{fam[2]}")
                        if family_sequence(cand, consts, sizes, key) == lk["seq"]:
                            hits.append(cand)
                    if len(hits) == 1:
                        t2 = translate_site(dict(hits[0], lean=s["lean"]), consts, sizes, key)
                        if ALPHA.get(s["lean"]) == lk.get("alpha"):
                            relocated[s["lean"]] = f"{s.get('select')} -> {hits[0]['select']} (renamed)"
                            return t2
            if lk.get("chash") and lk.get("text") and err is None:
                # operands of a commutative operator were exchanged: the locked text is still the function
                try:
                    if site_chash(s, key) == lk["chash"]:
                        SIGNATURES[s["lean"]] = lk["sig"]; ALPHA[s["lean"]] = lk["alpha"]
                        relocated[s["lean"]] = f"{s.get('select')} operands of commutative operator(s) exchanged; locked text kept"
                        return lk["text"]
                except Broken:
                    pass
            if lk.get("text"):
                # `if (C) A else B` became `if (!(C)) B else A`
                try:
                    if negated_if(s, key, lk):
                        SIGNATURES[s["lean"]] = lk["sig"]; ALPHA[s["lean"]] = lk["alpha"]
                        relocated[s["lean"]] = f"{s.get('select')} condition negated and branches exchanged; locked text kept"
                        return lk["text"]
                except Broken:
                    pass
            if lk.get("locals") is not None:
                # a sub-expression was pulled out into a new `const` local: read through it
                try:
                    inl = inlinable_locals(s, key, lk["locals"])
                    if inl:
                        t2 = translate_site(dict(s, _inline=inl), consts, sizes, key)
                        if ALPHA.get(s["lean"]) == lk.get("alpha"):
                            relocated[s["lean"]] = f"{s.get('select')} read through new const local(s) {sorted(inl)}"
                            return t2
                        if err is None:
                            translate_site(s, consts, sizes, key)     # restore SIGNATURES/ALPHA of the plain form
                except Broken:
                    pass
        if err is not None:
            raise err
        return txt

    for s in sites:
        try:
            txt = with_relocation(s)
            status[s["lean"]] = "ok"
        except Broken as e:
            status[s["lean"]] = f"translation-broken: {e}"
            txt = f"-- translation-broken {s['lean']}: {e}\n"
        except Exception as e:  # noqa
            status[s["lean"]] = f"translation-broken: internal {type(e).__name__}: {e}"
            txt = f"-- translation-broken {s['lean']}: internal {type(e).__name__}: {e}\n"
        TEXTS[s["lean"]] = txt
        files.setdefault(s.get("file", "Sites"), []).append(txt)
    for f, parts in files.items():
        L = ["-- GENERATED by gen/translate.py from /repo/elfio (clang-14 AST). Do not edit.",
             "import ElfioVerif.Gen.Layout" + ("" if f == "Funcs" else "\nimport ElfioVerif.Gen.Funcs"),
             "set_option linter.unusedVariables false",
             "namespace ElfioVerif.Gen", ""] + parts + ["end ElfioVerif.Gen"]
        write_if_changed(os.path.join(OUT, f + ".lean"), "\n".join(L) + "\n")
    os.makedirs(BUILD, exist_ok=True)
    # Models call generated definitions positionally; a change of the *parameter order* (e.g. `a - b`
    # rewritten to `b - a` swaps the order of first appearance) would silently re-bind the arguments.
    # The committed lock file pins every signature; a deviation is reported like a broken site.
    if relock:
        seqs = {}
        for st in sites:
            if status.get(st["lean"]) == "ok":
                try:
                    seqs[st["lean"]] = family_sequence(st, consts, sizes, key)
                except Exception:
                    seqs[st["lean"]] = None
        locs = {}
        for st in sites:
            if status.get(st["lean"]) == "ok":
                try:
                    locs[st["lean"]] = local_names(st, key)
                except Exception:
                    pass
        chs = {}
        for st in sites:
            if status.get(st["lean"]) == "ok":
                try:
                    chs[st["lean"]] = site_chash(st, key)
                except Exception:
                    pass
        brs = {}
        for st in sites:
            if status.get(st["lean"]) == "ok":
                try:
                    brs[st["lean"]] = if_branch_hashes(st, key)
                except Exception:
                    pass
        cur_lock = {k: {"sig": v, "alpha": ALPHA.get(k, ""), "seq": seqs.get(k), "locals": locs.get(k),
                        "chash": chs.get(k), "text": TEXTS.get(k), "branches": brs.get(k)}
                    for k, v in SIGNATURES.items()}
        json.dump(cur_lock, open(lock_path, "w"), indent=0, sort_keys=True)
    else:
        for k, v in SIGNATURES.items():
            if k in lock and status.get(k) == "ok" and lock[k]["sig"] != v:
                # same types and same body up to the names of plain locals/parameters: a renaming in the C++
                # source — provided the old name is gone and the new one is new (using ANOTHER existing
                # variable of the same type is a change of meaning, not a renaming)
                if lock[k]["alpha"] == ALPHA.get(k, ""):
                    oldn = re.findall(r"\((\S+) :", lock[k]["sig"]); newn = re.findall(r"\((\S+) :", v)
                    try:
                        cur = {lname(x) for x in local_names(by_name[k], key)}
                    except Exception:
                        cur = set()
                    was = {lname(x) for x in (lock[k].get("locals") or [])}
                    if len(oldn) == len(newn) and all(o == n or (o not in cur and n not in was) for o, n in zip(oldn, newn)):
                        continue
                status[k] = f"signature-changed: was `{lock[k]['sig']}` now `{v}`"
    json.dump({"repo_hash": key, "sites": status, "relocated": relocated},
              open(os.path.join(BUILD, "gen_status.json"), "w"), indent=1)
    for k, v in relocated.items():
        print(f"{k}: followed a harmless source change: {v}")
    broken = {k: v for k, v in status.items() if v != "ok"}
    for k, v in broken.items():
        print(f"{k}: {v}")
    # drop stale cache entries
    for f in os.listdir(CACHE):
        if not f.startswith(key):
            try: os.remove(os.path.join(CACHE, f))
            except OSError: pass
    print(f"gen: {len(status) - len(broken)}/{len(status)} sites translated (repo hash {key})")
    return 0 if not broken else 2


if __name__ == "__main__":
    sys.exit(main())
