#!/usr/bin/env python3
"""Apply seeded/<name>/patch.diff to /repo, run the listed checks, undo the change.
usage: tools/run_seeded.py <name> [property ids...]   (default: the property in meta.json)"""
import json, os, subprocess, sys
V = os.path.dirname(os.path.dirname(os.path.abspath(__file__)))
name = sys.argv[1]
d = os.path.join(V, "seeded", name)
meta = json.load(open(os.path.join(d, "meta.json"))) if os.path.exists(os.path.join(d, "meta.json")) else {}
props = sys.argv[2:] or [meta.get("property")]
assert subprocess.run(["git", "-C", "/repo", "status", "--porcelain"], capture_output=True, text=True).stdout.strip() == "", "/repo not clean"
r = subprocess.run(["git", "-C", "/repo", "apply", os.path.join(d, "patch.diff")])
if r.returncode:
    sys.exit("patch does not apply")
try:
    for p in props:
        r = subprocess.run([sys.executable, os.path.join(V, "check.py"), p], capture_output=True, text=True, cwd=V)
        tail = [l for l in r.stdout.splitlines() if l.startswith("VIOLATION") or l.startswith(p)]
        print(f"{name} / {p}: exit {r.returncode}\n  " + "\n  ".join(tail))
        rp = [l.split("replay=")[1].split()[0] for l in r.stdout.splitlines() if l.startswith("VIOLATION")]
        for f in rp[:1]:
            if os.path.exists(f):
                print("  replay head:", " | ".join(open(f).read().splitlines()[:3])[:400])
finally:
    subprocess.run(["git", "-C", "/repo", "checkout", "--", "."])
    subprocess.run([sys.executable, os.path.join(V, "gen", "translate.py")], capture_output=True)
