#!/usr/bin/env python3
"""Run the checks against a seeded change (seeded/<name>/patch.diff) and record what caught it.

usage: tools/run_seeded.py [--scratch] [--record] [--refactors] <name>|--all [property ids...]
         (default property: the one in seeded/<name>/meta.json)

default   : apply the patch to /repo (git -C /repo apply), run the checks, undo it (git -C /repo checkout -- .)
--scratch : apply it to a scratch worktree of /repo under /tmp instead (removed afterwards) and point the
            checks at it with ELFIO_REPO; /repo is not touched (use while other work needs /repo clean)
--record  : write seeded/<name>/result.json (exit status, summary line, mechanism that fired, replay head)

Evidence of these runs goes to build/seeded-evidence/, never to evidence/ (which describes the unchanged tree).
"""
import json, os, re, shutil, subprocess, sys
V = os.path.dirname(os.path.dirname(os.path.abspath(__file__)))
args = sys.argv[1:]
scratch = "--scratch" in args
record = "--record" in args
SET = "refactors" if "--refactors" in args else "seeded"   # refactors/: behaviour-preserving changes, expected exit 0
args = [a for a in args if a not in ("--scratch", "--record", "--refactors")]
if not args:
    sys.exit(__doc__)
names = sorted(os.listdir(os.path.join(V, SET))) if args[0] == "--all" else [args[0]]
names = [n for n in names if os.path.exists(os.path.join(V, SET, n, "patch.diff"))]
want = args[1:]
EV = os.path.join(V, "build", "seeded-evidence")
os.makedirs(EV, exist_ok=True)
SCR = "/tmp/repo_seeded_%d" % os.getpid()


def run_one(name):
    d = os.path.join(V, SET, name)
    meta = json.load(open(os.path.join(d, "meta.json"))) if os.path.exists(os.path.join(d, "meta.json")) else {}
    props = want or meta.get("properties") or [meta.get("property")]
    if scratch:
        subprocess.run(["git", "-C", "/repo", "worktree", "add", "--detach", SCR, "HEAD"], check=True,
                       capture_output=True)
        repo = SCR
    else:
        repo = "/repo"
        assert subprocess.run(["git", "-C", repo, "status", "--porcelain"], capture_output=True,
                              text=True).stdout.strip() == "", "/repo not clean"
    results = []
    try:
        r = subprocess.run(["git", "-C", repo, "apply", os.path.join(d, "patch.diff")])
        if r.returncode:
            print(f"{name}: patch does not apply")
            return
        env = dict(os.environ, ELFIO_REPO=repo, VERIF_EVIDENCE_DIR=EV)
        for p in props:
            r = subprocess.run([sys.executable, os.path.join(V, "check.py"), p], capture_output=True, text=True,
                               cwd=V, env=env)
            lines = r.stdout.splitlines()
            viol = [l for l in lines if l.startswith("VIOLATION")]
            summ = [l for l in lines if l.startswith(p + " ")]
            print(f"{name} / {p}: exit {r.returncode}\n  " + "\n  ".join(viol + summ))
            head = ""
            for l in viol[:1]:
                f = l.split("replay=")[1].split()[0]
                if os.path.exists(f):
                    head = " | ".join(open(f).read().splitlines()[:3])[:400]
                    print("  replay head:", head)
            mech = []
            m = re.search(r"theorems (\d+)/(\d+).*corr-diffs (\d+), oracle-violations (\d+)", summ[0]) if summ else None
            if m:
                if int(m.group(1)) < int(m.group(2)):
                    mech.append("proof obligation (regenerated sites / theorems no longer check)")
                if int(m.group(3)):
                    mech.append("correspondence (model and implementation differ)")
                if int(m.group(4)):
                    mech.append("property oracle on the implementation's output (concrete failing input)")
            results.append({"property": p, "exit": r.returncode, "violation": viol, "summary": summ,
                            "mechanisms": mech, "replay_head": head,
                            "no_failing_input": any("no-failing-input-found" in l for l in viol)})
    finally:
        if scratch:
            subprocess.run(["git", "-C", "/repo", "worktree", "remove", "--force", SCR], capture_output=True)
            shutil.rmtree(SCR, ignore_errors=True)
        else:
            subprocess.run(["git", "-C", "/repo", "checkout", "--", "."])
    if record and results:
        with open(os.path.join(d, "result.json"), "w") as f:
            json.dump({"name": name, "results": results}, f, indent=1)


try:
    for n in names:
        run_one(n)
finally:
    subprocess.run([sys.executable, os.path.join(V, "gen", "translate.py")], capture_output=True)
