#!/bin/sh
# usage: confirm_seed.sh <ID>  — confirm a candidate seeded change delivered in /tmp/seed2/<ID> (patch.diff, demo.cpp)
# against its scratch worktree /tmp/seedwt_<ID> (or $SEEDWT; $SEEDBASE overrides /tmp/seed2): the patch is what the worktree contains, the repo's tests pass
# with it, the demo exits 0 on /repo's headers and non-zero on the changed headers.
ID=$1; W=${SEEDWT:-/tmp/seedwt_$ID}; S=${SEEDBASE:-/tmp/seed2}/$ID
git -C $W diff > ${SEEDBASE:-/tmp/seed2}/$ID.wt.diff
cmp -s ${SEEDBASE:-/tmp/seed2}/$ID.wt.diff $S/patch.diff && echo "patch == worktree diff" || echo "patch differs from worktree diff (using worktree state)"
git -C /repo apply --check $S/patch.diff && echo "applies to /repo HEAD"
g++ -std=c++17 -O1 -I/repo $S/demo.cpp -o ${SEEDBASE:-/tmp/seed2}/$ID.orig 2>/dev/null && (cd ${SEEDBASE:-/tmp/seed2} && timeout 120 ./$ID.orig >/dev/null 2>&1; echo "demo original: exit $?")
g++ -std=c++17 -O1 -I$W $S/demo.cpp -o ${SEEDBASE:-/tmp/seed2}/$ID.mod 2>/dev/null && (cd ${SEEDBASE:-/tmp/seed2} && timeout 120 ./$ID.mod >/dev/null 2>&1; echo "demo modified: exit $?")
cmake -G Ninja -B $W/_build -S $W -DELFIO_BUILD_TESTS=ON -DFETCHCONTENT_SOURCE_DIR_GOOGLETEST=/usr/src/googletest -DFETCHCONTENT_FULLY_DISCONNECTED=ON -DCMAKE_BUILD_TYPE=RelWithDebInfo >/dev/null 2>&1 && cmake --build $W/_build >/dev/null 2>&1 && ctest --test-dir $W/_build --timeout 900 2>&1 | grep "tests passed\|tests failed"
rm -rf $W/_build ${SEEDBASE:-/tmp/seed2}/$ID.orig ${SEEDBASE:-/tmp/seed2}/$ID.mod ${SEEDBASE:-/tmp/seed2}/$ID.wt.diff
