#!/usr/bin/env python3
"""Writes MANIFEST.json from families/*.py (claimed) + the not-yet-claimed list."""
import importlib, json, os, sys
V = os.path.dirname(os.path.dirname(os.path.abspath(__file__)))
sys.path.insert(0, V)
props = [json.loads(l) for l in open(os.path.join(V, "properties.jsonl"))]
checks = []; na = []
for p in props:
    pid = p["id"]
    f = os.path.join(V, "families", pid.lower() + ".py")
    if os.path.exists(f) and not os.path.exists(f + ".disabled"):
        m = importlib.import_module("families." + pid.lower())
        checks.append({
            "property_id": pid,
            "quick_cmd": f"python3 check.py {pid} --tier quick",
            "thorough_cmd": f"python3 check.py {pid} --tier thorough",
            "evidence_file": f"/verif/evidence/{pid}.json",
            "replay_cmd_template": f"python3 check.py {pid} --replay {{path}}",
            "engine": "lean4-proof+correspondence",
            "level_claimed": {"category": "proof", "text": getattr(m, "LEVEL_TEXT", (m.__doc__ or "").strip()),
                              "design_ref": "DESIGN.md section 11 (result per property) and section 6 " + pid + " (plan)"},
            "level_note": getattr(m, "LEVEL_NOTE", "Lean 4 kernel; axioms propext/Classical.choice/Quot.sound (+ listed bv_decide axioms of Lemmas/Bits.lean); model tied to /repo by regeneration of Gen/ (gen/translate.py) and by the differential correspondence check; see evidence trusted_base"),
            "technique": getattr(m, "TECHNIQUE", "Lean 4 theorems over an executable model (Gen/ regenerated from source) + differential correspondence harness"),
        })
    else:
        na.append({"property_id": pid, "reason": "check not built yet in this round (no technique switch; see DESIGN.md section 6 for the plan)"})
man = {
    "version": 1,
    "setup_cmd": "python3 gen/translate.py; cd lean && lake build ElfioVerif driver",
    "hooks": {"guard": "ELFIO_VERIF", "enable": "none needed: harnesses include /repo/elfio headers directly; no hook commits exist",
              "baseline_off_cmd": "sh tools/run_repo_tests.sh", "source_commits": [], "add_only": True},
    "engines": [{"name": "lean4-proof+correspondence", "path": "check.py",
                 "serves_properties": [c["property_id"] for c in checks],
                 "kind_free_text": "Lean 4 proofs about an executable model; Gen/ regenerated from /repo by gen/translate.py; C++ harness vs Lean driver differential check; Python property oracle for failing-input search"}],
    "checks": checks,
    "not_applicable": na,
    "notes": "See DESIGN.md (section 11: result per property), STATUS.md (generated: theorems, last run, findings, seeded changes per property) and README.md. known_findings.json: `open` entries are printed as KNOWN-FINDING lines (exit 0), `fixed` entries name the fix: commits in /repo and suppress nothing. seeded/ and refactors/ hold positive and negative controls (tools/run_seeded.py).",
}
json.dump(man, open(os.path.join(V, "MANIFEST.json"), "w"), indent=1)
print(len(checks), "claimed;", len(na), "unclaimed")
