"""Independent, specification-level ELF encoder / decoder (inputs and oracles only).

Written from the ELF gABI field tables; shares nothing with ELFIO or with the Lean model.
  random_model(rng, cls, enc, ...) -> Model        a random *well-formed* image description
  encode(model) -> bytes
  decode(img) -> dict | None                        what the specification says is in the file
  in_segment(sec, seg) -> bool                      section-to-segment rule of the property text
"""
import struct

EHDR = {32: [("e_type", 2), ("e_machine", 2), ("e_version", 4), ("e_entry", 4), ("e_phoff", 4), ("e_shoff", 4),
             ("e_flags", 4), ("e_ehsize", 2), ("e_phentsize", 2), ("e_phnum", 2), ("e_shentsize", 2),
             ("e_shnum", 2), ("e_shstrndx", 2)],
        64: [("e_type", 2), ("e_machine", 2), ("e_version", 4), ("e_entry", 8), ("e_phoff", 8), ("e_shoff", 8),
             ("e_flags", 4), ("e_ehsize", 2), ("e_phentsize", 2), ("e_phnum", 2), ("e_shentsize", 2),
             ("e_shnum", 2), ("e_shstrndx", 2)]}
SHDR = {32: [("sh_name", 4), ("sh_type", 4), ("sh_flags", 4), ("sh_addr", 4), ("sh_offset", 4), ("sh_size", 4),
             ("sh_link", 4), ("sh_info", 4), ("sh_addralign", 4), ("sh_entsize", 4)],
        64: [("sh_name", 4), ("sh_type", 4), ("sh_flags", 8), ("sh_addr", 8), ("sh_offset", 8), ("sh_size", 8),
             ("sh_link", 4), ("sh_info", 4), ("sh_addralign", 8), ("sh_entsize", 8)]}
PHDR = {32: [("p_type", 4), ("p_offset", 4), ("p_vaddr", 4), ("p_paddr", 4), ("p_filesz", 4), ("p_memsz", 4),
             ("p_flags", 4), ("p_align", 4)],
        64: [("p_type", 4), ("p_flags", 4), ("p_offset", 8), ("p_vaddr", 8), ("p_paddr", 8), ("p_filesz", 8),
             ("p_memsz", 8), ("p_align", 8)]}
SIZE = lambda tbl: sum(w for _, w in tbl)
EHSIZE = {32: 16 + SIZE(EHDR[32]), 64: 16 + SIZE(EHDR[64])}
SHSIZE = {32: SIZE(SHDR[32]), 64: SIZE(SHDR[64])}
PHSIZE = {32: SIZE(PHDR[32]), 64: SIZE(PHDR[64])}

SHT_NULL, SHT_PROGBITS, SHT_SYMTAB, SHT_STRTAB, SHT_RELA, SHT_HASH, SHT_DYNAMIC, SHT_NOTE, SHT_NOBITS, SHT_REL = range(10)
SHF_WRITE, SHF_ALLOC, SHF_EXECINSTR, SHF_TLS = 1, 2, 4, 0x400
PT_NULL, PT_LOAD, PT_DYNAMIC, PT_INTERP, PT_NOTE, PT_SHLIB, PT_PHDR, PT_TLS = range(8)


def put(val, w, enc):
    return int(val % (1 << (8 * w))).to_bytes(w, "little" if enc == "lsb" else "big")


def get(b, off, w, enc):
    return int.from_bytes(b[off:off + w], "little" if enc == "lsb" else "big")


def pack(tbl, vals, enc):
    return b"".join(put(vals[n], w, enc) for n, w in tbl)


def unpack(tbl, b, off, enc):
    out = {}
    for n, w in tbl:
        out[n] = get(b, off, w, enc); off += w
    return out


class Model:
    def __init__(self, cls, enc):
        self.cls, self.enc = cls, enc
        self.ident = bytearray(16)
        self.ehdr = {}
        self.sections = []   # dicts: fields + name(bytes) + data(bytes or None)
        self.segments = []   # dicts: fields
        self.shoff = 0; self.phoff = 0
        self.size = 0        # total file length
        self.trailer = b""


def encode(m):
    img = bytearray(m.size)
    img[0:16] = bytes(m.ident)
    img[16:16 + SIZE(EHDR[m.cls])] = pack(EHDR[m.cls], m.ehdr, m.enc)
    for i, s in enumerate(m.sections):
        o = m.ehdr["e_shoff"] + i * m.ehdr["e_shentsize"]
        img[o:o + SHSIZE[m.cls]] = pack(SHDR[m.cls], s, m.enc)
        if s.get("data") is not None and len(s["data"]):
            img[s["sh_offset"]:s["sh_offset"] + len(s["data"])] = s["data"]
    for i, g in enumerate(m.segments):
        o = m.ehdr["e_phoff"] + i * m.ehdr["e_phentsize"]
        img[o:o + PHSIZE[m.cls]] = pack(PHDR[m.cls], g, m.enc)
    return bytes(img)


def occupies_file(stype):
    return stype not in (SHT_NULL, SHT_NOBITS)


def in_segment(s, g, wmask):
    """lies wholly inside: by address for allocated sections, by file offset otherwise; thread-local
    sections only in thread-local segments (and thread-local segments only take thread-local sections)."""
    tls_s = (s["sh_flags"] & SHF_TLS) == SHF_TLS
    tls_g = g["p_type"] == PT_TLS
    if tls_s != tls_g:
        return False
    if (s["sh_flags"] & SHF_ALLOC) == SHF_ALLOC:
        b, size, lo, hi = s["sh_addr"], s["sh_size"], g["p_vaddr"], g["p_vaddr"] + g["p_memsz"]
    else:
        b, size, lo, hi = s["sh_offset"], s["sh_size"], g["p_offset"], g["p_offset"] + g["p_filesz"]
    return lo <= b and b + size <= hi and b < hi


def cstr(data, off):
    if data is None or off >= len(data):
        return None
    e = data.find(b"\0", off)
    return None if e < 0 else data[off:e]


def decode(img):
    if len(img) < 16 or img[:4] != b"\x7fELF" or img[4] not in (1, 2) or img[5] not in (1, 2):
        return None
    cls = 32 if img[4] == 1 else 64
    enc = "lsb" if img[5] == 1 else "msb"
    if len(img) < EHSIZE[cls]:
        return None
    eh = unpack(EHDR[cls], img, 16, enc)
    d = {"cls": cls, "enc": enc, "ident": bytes(img[:16]), "ehdr": eh, "sections": [], "segments": []}
    for i in range(eh["e_shnum"]):
        o = eh["e_shoff"] + i * eh["e_shentsize"]
        s = unpack(SHDR[cls], img, o, enc)
        s["data"] = bytes(img[s["sh_offset"]:s["sh_offset"] + s["sh_size"]]) if occupies_file(s["sh_type"]) else None
        d["sections"].append(s)
    strtab = d["sections"][eh["e_shstrndx"]]["data"] if 0 < eh["e_shstrndx"] < len(d["sections"]) else None
    for s in d["sections"]:
        s["name"] = cstr(strtab, s["sh_name"]) if strtab is not None else None
    for i in range(eh["e_phnum"]):
        o = eh["e_phoff"] + i * eh["e_phentsize"]
        g = unpack(PHDR[cls], img, o, enc)
        g["data"] = bytes(img[g["p_offset"]:g["p_offset"] + g["p_filesz"]]) if g["p_type"] != PT_NULL and g["p_filesz"] else None
        g["members"] = [k for k, s in enumerate(d["sections"]) if in_segment(s, g, (1 << 64) - 1)]
        d["segments"].append(g)
    return d


def rand_width(rng, w):
    """full-width random value with boundary emphasis"""
    k = rng.random()
    top = (1 << (8 * w)) - 1
    if k < 0.15: return rng.choice([0, 1, top, top - 1, 1 << (8 * w - 1), (1 << (8 * w - 1)) - 1])
    if k < 0.5: return rng.randrange(0, 256)
    return rng.randrange(0, top + 1)


# ---------------------------------------------------------------------------------------------
# typed table contents (gABI encodings; well-formed builders + structure-aware corruptions)

SHT_DYNSYM = 11
DT_NULL, DT_NEEDED, DT_PLTRELSZ, DT_HASH, DT_STRTAB, DT_SYMTAB, DT_STRSZ, DT_SONAME, DT_RPATH, DT_RUNPATH = 0, 1, 2, 4, 5, 6, 10, 14, 15, 29
DYNSIZE = {32: 8, 64: 16}
SYMSIZE = {32: 16, 64: 24}


def up4(n):
    return (n + 3) // 4 * 4


def note_record(enc, name, desc, ntype, namesz=None, descsz=None):
    """one note: namesz, descsz, type, name (NUL included in `name`) padded to 4, descriptor padded to 4;
    `namesz` / `descsz` override the stored length fields (field-level corruption)"""
    return (put(len(name) if namesz is None else namesz, 4, enc) + put(len(desc) if descsz is None else descsz, 4, enc) +
            put(ntype, 4, enc) + name + bytes(up4(len(name)) - len(name)) + desc + bytes(up4(len(desc)) - len(desc)))


def notes_blob(rng, enc, corrupt=True):
    """a note section/segment body: 0..4 notes whose name and descriptor lengths cover all residues mod 4;
    corruptions: a length field set to a boundary value (0,1,3,4,5,7,size-12,size-11,size,2^31,2^32-1, +-1),
    the last note cut at a structural boundary (+-1), trailing garbage"""
    k = rng.choice([0, 1, 1, 2, 3, 4])
    recs = []
    for _ in range(k):
        nl = rng.choice([1, 2, 3, 4, 5, 6, 7, 8, 9])            # namesz (with NUL)
        dl = rng.choice([0, 1, 2, 3, 4, 5, 6, 7, 8, 9, 16, 20])
        name = rng.choice([b"CORE", b"GNU", b"LINUX", b"FreeBSD", b"stapsdt", b"a", b"ab", b"abcdefgh"])[:nl - 1].ljust(nl - 1, b"x") + b"\0"
        desc = bytes(rng.randrange(256) for _ in range(dl))
        recs.append((name, desc, rng.choice([1, 2, 3, 4, 0x53494749, rand_width(rng, 4)])))
    blobs = [note_record(enc, n, d, t) for n, d, t in recs]
    total = sum(len(b) for b in blobs)
    if corrupt and recs and rng.random() < 0.5:
        j = rng.randrange(len(recs)); n, d, t = recs[j]
        start = sum(len(b) for b in blobs[:j]); rest = total - start
        v = rng.choice([0, 1, 3, 4, 5, 7, 8, rest - 12, rest - 11, rest - 13, rest, rest + 1, total, total - 1, len(n) + 1, len(n) - 1,
                        len(d) + 1, len(d) + 4, up4(len(n)) + up4(len(d)), 1 << 31, (1 << 32) - 1, (1 << 32) - 4, rng.randrange(1 << 32)])
        if rng.random() < 0.5:
            blobs[j] = note_record(enc, n, d, t, namesz=v)
        else:
            blobs[j] = note_record(enc, n, d, t, descsz=v)
    body = b"".join(blobs)
    if corrupt and recs and rng.random() < 0.45:
        # cut inside the last note: at a structural boundary (header, name, padded name, descriptor, jointly
        # padded name+descriptor, padded descriptor) +- 1, or anywhere
        n, d, _ = recs[-1]
        start = len(body) - len(blobs[-1])
        marks = [0, 4, 8, 12, 12 + len(n), 12 + up4(len(n)), 12 + up4(len(n)) + len(d), 12 + up4(len(n) + len(d)),
                 12 + len(n) + len(d), 12 + up4(len(n)) + up4(len(d))]
        cut = rng.choice(marks) + rng.choice([0, 0, 0, -1, 1, 2, 3])
        if rng.random() < 0.25:
            cut = rng.randrange(len(blobs[-1]) + 1)
        body = body[:max(start, min(len(body), start + cut))]
    if corrupt and rng.random() < 0.25:
        body += bytes(rng.choice([0, 0xff, rng.randrange(256)]) for _ in range(rng.choice([1, 2, 3, 4, 11, 12, 13, 15])))
    return body


def note_scope(enc, namesz, descsz, size):
    """exhaustive small scope: ONE note with the given length fields in a body of exactly `size` bytes"""
    full = note_record(enc, b"N" * max(namesz - 1, 0) + (b"\0" if namesz else b""), bytes(range(1, descsz + 1)), 1, namesz, descsz)
    return (full + bytes(range(0x80, 0x80 + 24)))[:size]


def dyn_blob(rng, cls, enc, strlen, corrupt=True):
    """dynamic section body: entries with string-valued tags (d_val offsets into the string table, some out of
    range), with or without the terminating DT_NULL, possibly a cut last entry"""
    w = 4 if cls == 32 else 8
    ents = []
    for _ in range(rng.choice([0, 1, 2, 3, 5, 8])):
        tag = rng.choice([DT_NEEDED, DT_NEEDED, DT_SONAME, DT_RPATH, DT_RUNPATH, DT_STRTAB, DT_SYMTAB, DT_HASH, DT_STRSZ, DT_PLTRELSZ,
                          24, 30, 0x6ffffef5, 0x7fffffff, (1 << (8 * w)) - 1, rand_width(rng, w)])
        val = rng.choice([0, 1, max(strlen - 1, 0), strlen, strlen + 1, rng.randrange(0, max(strlen, 1)), 1 << 31, (1 << 32) - 1,
                          (1 << 32) + 1, rand_width(rng, w)])
        ents.append((tag, val))
    if rng.random() < 0.6:
        ents.insert(rng.randrange(len(ents) + 1) if rng.random() < 0.3 else len(ents), (DT_NULL, rng.choice([0, 0, 7])))
    body = b"".join(put(t, w, enc) + put(v, w, enc) for t, v in ents)
    if corrupt and body and rng.random() < 0.3:
        body = body[:len(body) - rng.choice([1, w - 1, w, w + 1, 2 * w - 1])]
    return body


def strtab_blob(rng, corrupt=True):
    """string table: leading NUL, some strings; corruptions: no leading NUL, last string unterminated, empty"""
    if corrupt and rng.random() < 0.1:
        return b""
    t = b"\0" if not corrupt or rng.random() < 0.85 else b""
    for _ in range(rng.randint(0, 5)):
        t += rng.choice([b"libc.so.6", b"main", b"_start", b"x", b"", b"a_rather_long_symbol_name_0123456789", bytes(rng.randrange(1, 256) for _ in range(rng.randint(1, 6)))]) + b"\0"
    if corrupt and rng.random() < 0.3:
        t = t.rstrip(b"\0") + rng.choice([b"", b"tail", b"z"])
    return t


def symtab_blob(rng, cls, enc, strlen, corrupt=True):
    """symbol table body: null symbol + records; st_name inside / at the end of / outside the string table"""
    aw = 4 if cls == 32 else 8
    recs = []
    for i in range(rng.choice([0, 1, 2, 3, 6])):
        name = 0 if i == 0 and rng.random() < 0.8 else rng.choice([0, 1, max(strlen - 1, 0), strlen, strlen + 1, rng.randrange(0, max(strlen, 1)),
                                                                    1 << 31, (1 << 32) - 1, rand_width(rng, 4)])
        value, size = rand_width(rng, aw), rand_width(rng, aw)
        info, other, shndx = rng.randrange(256), rng.randrange(256), rng.choice([0, 1, 2, 0xfff1, 0xffff, rand_width(rng, 2)])
        if cls == 32:
            recs.append(put(name, 4, enc) + put(value, 4, enc) + put(size, 4, enc) + bytes([info, other]) + put(shndx, 2, enc))
        else:
            recs.append(put(name, 4, enc) + bytes([info, other]) + put(shndx, 2, enc) + put(value, 8, enc) + put(size, 8, enc))
    body = b"".join(recs)
    if corrupt and body and rng.random() < 0.3:
        body = body[:len(body) - rng.choice([1, 2, 4, 7, 8, 15])]
    return body


def modinfo_blob(rng, corrupt=True):
    """`.modinfo` body: NUL-terminated `field=value` records; corruptions: records without `=`, several `=`,
    empty field/value, runs of NULs, no final NUL, empty section, only NULs"""
    if corrupt and rng.random() < 0.1:
        return b""
    if corrupt and rng.random() < 0.08:
        return bytes(rng.choice([1, 2, 5]))
    out = b""
    for _ in range(rng.randint(1, 6)):
        f = rng.choice([b"license", b"author", b"description", b"depends", b"vermagic", b"alias", b"f", b""])
        v = rng.choice([b"GPL", b"", b"x", b"a=b", b"5.10.0 SMP mod_unload", bytes(rng.randrange(1, 256) for _ in range(rng.randint(1, 8)))])
        k = rng.random()
        rec = f + b"=" + v if (not corrupt or k < 0.7) else (f + v if k < 0.85 else b"=" + v if k < 0.93 else f + b"==" + v)
        out += rec + b"\0" * (1 if not corrupt or rng.random() < 0.8 else rng.choice([2, 3, 5]))
    if corrupt and rng.random() < 0.3:
        out = out.rstrip(b"\0")
    if corrupt and rng.random() < 0.15:
        out = b"\0" * rng.choice([1, 3]) + out
    return out


def typed_kind(rng):
    return rng.choice(["note", "note", "note", "dynamic", "dynamic", "symtab", "dynsym", "strtab", "modinfo", "modinfo"])


def random_model(rng, cls, enc, nsec=None, nseg=None, max_data=96, typed=None, pht_last=False):
    """A random well-formed image: tables and data inside the file, pairwise disjoint, arbitrary
    order and gaps; segments may overlap each other and cover sections or not.
    `typed` (None | probability): with that probability a section is a typed table -- SHT_NOTE,
    SHT_DYNAMIC, SHT_SYMTAB/DYNSYM (+ a linked SHT_STRTAB), `.modinfo` -- whose *contents* are built by the
    *_blob helpers above (well-formed encodings with field-level corruptions), with sh_entsize / sh_link set
    as the gABI says or to boundary values; PT_NOTE segments then cover a note section (exactly, cut, or
    extended).  With `typed=None` the function draws exactly the random numbers it always drew."""
    m = Model(cls, enc)
    aw = 4 if cls == 32 else 8
    nsec = rng.randint(1, 9) if nsec is None else nsec
    nseg = rng.choice([0, 0, 1, 2, 3, 4]) if nseg is None else nseg
    m.ident[0:4] = b"\x7fELF"; m.ident[4] = 1 if cls == 32 else 2; m.ident[5] = 1 if enc == "lsb" else 2
    m.ident[6] = rng.choice([1, 1, 1, 0, 7]); m.ident[7] = rng.randrange(256); m.ident[8] = rng.randrange(256)
    for k in range(9, 16):
        m.ident[k] = rng.choice([0, 0, 0, rng.randrange(256)])
    shentsize = SHSIZE[cls] + rng.choice([0, 0, 0, 8, 24])
    phentsize = PHSIZE[cls] + rng.choice([0, 0, 0, 8])
    ehsize = EHSIZE[cls] + rng.choice([0, 0, 0, 12])
    # names
    names = [b""] + [rng.choice([b".text", b".data", b".bss", b".symtab", b".strtab", b".rela.text", b".note",
                                 b".dynamic", b"x", bytes(rng.randrange(1, 256) for _ in range(rng.randint(1, 9)))])
                     for _ in range(nsec - 1)]
    shstrndx = rng.randrange(1, nsec) if nsec > 1 else 0
    kinds = [None] * nsec
    if typed:
        for i in range(1, nsec):
            if i != shstrndx and rng.random() < typed:
                kinds[i] = typed_kind(rng)
                names[i] = {"note": b".note.x", "dynamic": b".dynamic", "symtab": b".symtab", "dynsym": b".dynsym",
                            "strtab": b".strtab", "modinfo": rng.choice([b".modinfo"] * 6 + [b".modinf", b".modinfo2"])}[kinds[i]]
        if "strtab" not in kinds and any(k in ("dynamic", "symtab", "dynsym") for k in kinds):
            free = [i for i in range(1, nsec) if kinds[i] is None and i != shstrndx]
            if free:
                j = rng.choice(free); kinds[j] = "strtab"; names[j] = b".strtab"
    tstr = {i: strtab_blob(rng) for i in range(nsec) if kinds[i] == "strtab"}
    strtab = b"\0"
    nameoff = []
    for n in names:
        if n == b"" and rng.random() < 0.7:
            nameoff.append(0)
        else:
            nameoff.append(len(strtab)); strtab += n + b"\0"
    if shstrndx:
        names[shstrndx] = b".shstrtab"; nameoff[shstrndx] = len(strtab); strtab += b".shstrtab\0"
    # pieces to place: (kind, index, length)
    secs = []
    for i in range(nsec):
        if i == 0:
            ty = SHT_NULL if rng.random() < 0.9 else rng.choice([SHT_PROGBITS, SHT_NOBITS])
        elif i == shstrndx:
            ty = SHT_STRTAB
        else:
            ty = rng.choice([SHT_PROGBITS] * 4 + [SHT_NOBITS, SHT_NOBITS, SHT_NULL, SHT_NOTE, SHT_STRTAB, SHT_SYMTAB,
                                                   SHT_REL, SHT_RELA, SHT_DYNAMIC, 14, 15, 0x6ffffff6, rand_width(rng, 4)])
        tlink = None
        if kinds[i] is not None:
            strs = sorted(tstr)
            tlink = rng.choice(strs) if strs else 0
            slen = len(tstr[tlink]) if strs else 0
            if kinds[i] == "note":
                ty, data = SHT_NOTE, notes_blob(rng, enc)
            elif kinds[i] == "dynamic":
                ty, data = SHT_DYNAMIC, dyn_blob(rng, cls, enc, slen)
            elif kinds[i] in ("symtab", "dynsym"):
                ty, data = (SHT_SYMTAB if kinds[i] == "symtab" else SHT_DYNSYM), symtab_blob(rng, cls, enc, slen)
            elif kinds[i] == "strtab":
                ty, data = SHT_STRTAB, tstr[i]
            else:
                ty, data = SHT_PROGBITS, modinfo_blob(rng)
            if rng.random() < 0.06:
                ty = rng.choice([SHT_NOBITS, SHT_NULL, SHT_PROGBITS, SHT_NOTE, SHT_DYNAMIC, SHT_SYMTAB])   # wrong type for the contents
                if ty in (SHT_NULL, SHT_NOBITS): data = None
        elif i == shstrndx:
            data = strtab
        elif ty in (SHT_NULL, SHT_NOBITS):
            data = None
        else:
            n = rng.choice([0, 0, 1, 2, 7, 8, 16, rng.randint(0, max_data)])
            data = bytes(rng.randrange(256) for _ in range(n))
        flags = rng.choice([0, 0, SHF_ALLOC, SHF_ALLOC | SHF_WRITE, SHF_ALLOC | SHF_EXECINSTR, SHF_ALLOC | SHF_TLS,
                            SHF_TLS, rand_width(rng, aw)])
        secs.append({"sh_name": nameoff[i], "sh_type": ty, "sh_flags": flags, "sh_addr": 0, "sh_offset": 0,
                     "sh_size": len(data) if data is not None else (rng.choice([0, 0, 4, 64, 4096]) if ty == SHT_NOBITS else 0),
                     "sh_link": rand_width(rng, 4), "sh_info": rand_width(rng, 4),
                     "sh_addralign": rng.choice([0, 1, 4, 8, 16, 4096, rand_width(rng, aw)]),
                     "sh_entsize": rng.choice([0, 0, 1, 8, 16, 24, rand_width(rng, aw)]),
                     "name": names[i], "data": data})
        if kinds[i] in ("dynamic", "symtab", "dynsym"):
            rec = DYNSIZE[cls] if kinds[i] == "dynamic" else SYMSIZE[cls]
            secs[-1]["sh_entsize"] = rng.choice([rec] * 6 + [0, 1, rec - 1, rec + 1, 2 * rec, 1 << 31, (1 << (8 * aw)) - 1, len(data or b""), len(data or b"") + 1])
            if rng.random() < 0.15 and data:
                # the record size of the OTHER class (or a smaller stride) with a size that is a multiple of it:
                # the last record of the file's own class then reaches beyond the section
                other = (DYNSIZE if kinds[i] == "dynamic" else SYMSIZE)[64 if cls == 32 else 32]
                es = rng.choice([other, other, rec - 8, rec // 2, rec - 4])
                if es > 0:
                    k = max(1, len(data) // es)
                    data = (data + bytes(es))[:k * es]
                    secs[-1]["data"] = data; secs[-1]["sh_size"] = len(data); secs[-1]["sh_entsize"] = es
            secs[-1]["sh_link"] = rng.choice([tlink] * 6 + [0, i, nsec - 1, nsec, 0xffff, 0x10000 + tlink, (1 << 32) - 1, shstrndx])
    pieces = [("sht", -1, shentsize * nsec), ("pht", -1, phentsize * nseg)] + \
             [("sec", i, len(s["data"])) for i, s in enumerate(secs) if s["data"] is not None]
    rng.shuffle(pieces)
    if pht_last:      # program header table behind everything else (as patchelf-style tools produce)
        pieces = [p for p in pieces if p[0] != "pht"] + [p for p in pieces if p[0] == "pht"]
    pos = ehsize
    place = {}
    for kind, i, ln in pieces:
        pos += rng.choice([0, 0, 0, 1, 3, 8, 16, 61])
        if kind == "sht": pos += (-pos) % rng.choice([1, 4, 8, 16])
        place[(kind, i)] = pos
        pos += ln
    total = pos + rng.choice([0, 0, 5, 32])
    for i, s in enumerate(secs):
        if s["data"] is not None:
            s["sh_offset"] = place[("sec", i)]
        else:
            s["sh_offset"] = rng.choice([0, rng.randrange(0, total + 1)])
        # addresses: keep addr+size < 2^(8*aw)
        lim = (1 << (8 * aw)) - s["sh_size"] - 1
        s["sh_addr"] = rng.choice([0, rng.randrange(0, 0x10000), 0x400000 + rng.randrange(0, 0x2000), rng.randrange(0, max(1, lim))])
        s["sh_addr"] = min(s["sh_addr"], lim)
    segs = []
    for j in range(nseg):
        ty = rng.choice([PT_LOAD, PT_LOAD, PT_LOAD, PT_NOTE, PT_TLS, PT_DYNAMIC, PT_NULL, PT_PHDR, 0x6474e551, rand_width(rng, 4)])
        if rng.random() < 0.6 and nsec > 1:
            # cover a run of sections by file offset and by address
            a = rng.randrange(1, nsec); b = rng.randrange(a, nsec)
            run = [s for s in secs[a:b + 1] if s["data"] is not None]
            if run:
                off = min(s["sh_offset"] for s in run); end = max(s["sh_offset"] + s["sh_size"] for s in run)
                va = min(s["sh_addr"] for s in secs[a:b + 1]); ve = max(s["sh_addr"] + s["sh_size"] for s in secs[a:b + 1])
            else:
                off, end, va, ve = 0, 0, 0, 0
            filesz = end - off; memsz = max(ve - va, 0) + rng.choice([0, 0, 16])
        else:
            off = rng.randrange(0, total + 1); filesz = rng.randrange(0, total - off + 1)
            va = rng.choice([0, 0x400000, rng.randrange(0, 1 << 20)]); memsz = filesz + rng.choice([0, 0, 32, 4096])
        notesecs = [s for k, s in zip(kinds, secs) if k == "note" and s["data"] is not None]
        if typed and notesecs and rng.random() < 0.5:
            # a PT_NOTE segment over a note section: exactly, cut short, extended, or shifted
            s0 = rng.choice(notesecs); ty = PT_NOTE if rng.random() < 0.9 else ty
            off = s0["sh_offset"] + rng.choice([0, 0, 0, 0, 4, 12, 1])
            filesz = max(0, s0["sh_size"] - (off - s0["sh_offset"]) + rng.choice([0, 0, 0, -1, -3, -4, 1, 4, 13]))
            off = min(off, total); filesz = min(filesz, total - off)
            va = s0["sh_addr"]; memsz = filesz
        lim = (1 << (8 * aw)) - memsz - 1
        va = min(va, max(lim, 0))
        segs.append({"p_type": ty, "p_flags": rand_width(rng, 4), "p_offset": off, "p_vaddr": va,
                     "p_paddr": rand_width(rng, aw), "p_filesz": filesz, "p_memsz": memsz,
                     "p_align": rng.choice([0, 1, 8, 0x1000, 0x200000, rand_width(rng, aw)])})
    if pht_last and segs:
        # the last segment is a PT_LOAD with file contents inside the file, before the table
        withdata = [s for s in secs if s["data"]]
        if withdata:
            s0 = rng.choice(withdata)
            segs[-1].update({"p_type": PT_LOAD, "p_offset": s0["sh_offset"], "p_filesz": s0["sh_size"],
                             "p_memsz": s0["sh_size"] + 88, "p_align": 4096, "p_flags": 6})
    m.sections = secs; m.segments = segs; m.size = total
    m.ehdr = {"e_type": rand_width(rng, 2), "e_machine": rand_width(rng, 2), "e_version": rand_width(rng, 4),
              "e_entry": rand_width(rng, aw), "e_phoff": place[("pht", -1)] if nseg else rng.choice([0, 0, 52]),
              "e_shoff": place[("sht", -1)], "e_flags": rand_width(rng, 4), "e_ehsize": ehsize,
              "e_phentsize": phentsize, "e_phnum": nseg, "e_shentsize": shentsize, "e_shnum": nsec,
              "e_shstrndx": shstrndx}
    return m


def mutate(rng, img, n=None):
    """structure-aware corruption: boundary values in header / table fields, byte flips, truncation"""
    b = bytearray(img)
    if len(b) < 16:
        return bytes(b)
    cls = 32 if b[4] == 1 else 64
    enc = "lsb" if b[5] == 1 else "msb"
    L = len(b)
    n = rng.randint(1, 3) if n is None else n
    for _ in range(n):
        k = rng.random()
        if k < 0.45 and L >= EHSIZE[cls]:
            # corrupt a field of a random table entry or of the ELF header
            eh = unpack(EHDR[cls], b, 16, enc)
            which = rng.choice(["eh", "sh", "sh", "sh", "ph"])
            if which == "eh" or (which == "sh" and eh["e_shnum"] == 0) or (which == "ph" and eh["e_phnum"] == 0):
                tbl, base = EHDR[cls], 16
            elif which == "sh":
                tbl, base = SHDR[cls], eh["e_shoff"] + rng.randrange(eh["e_shnum"]) * max(eh["e_shentsize"], 1)
            else:
                tbl, base = PHDR[cls], eh["e_phoff"] + rng.randrange(eh["e_phnum"]) * max(eh["e_phentsize"], 1)
            fi = rng.randrange(len(tbl)); off = base + sum(w for _, w in tbl[:fi]); w = tbl[fi][1]
            if off + w <= L:
                top = (1 << (8 * w)) - 1
                v = rng.choice([0, 1, 2, L - 1, L, L + 1, L // 2, 1 << 31, (1 << 32) - 1, 1 << 63, top, top - 1,
                                get(b, off, w, enc) + 1, get(b, off, w, enc) - 1, rng.randrange(0, top + 1)])
                b[off:off + w] = put(v, w, enc)
        elif k < 0.7:
            i = rng.randrange(L); b[i] ^= 1 << rng.randrange(8)
        elif k < 0.8:
            i = rng.randrange(L); b[i] = rng.randrange(256)
        elif k < 0.9:
            b = b[:rng.randrange(0, L + 1)]; L = len(b)
            if L < 16: break
        else:
            i = rng.randrange(L); j = min(L, i + rng.randint(1, 16)); b[i:j] = bytes(j - i)
    return bytes(b)


def wellformed(img):
    """tables and every file-occupying range inside the file, entry sizes >= record sizes,
    e_shstrndx valid, no address/offset range wraps"""
    if len(img) < 16 or img[:4] != b"\x7fELF" or img[4] not in (1, 2) or img[5] not in (1, 2):
        return False
    cls = 32 if img[4] == 1 else 64
    enc = "lsb" if img[5] == 1 else "msb"
    L = len(img)
    if L < EHSIZE[cls]:
        return False
    eh = unpack(EHDR[cls], img, 16, enc)
    if eh["e_shnum"] and (eh["e_shentsize"] < SHSIZE[cls] or eh["e_shoff"] + (eh["e_shnum"] - 1) * eh["e_shentsize"] + SHSIZE[cls] > L):
        return False
    if eh["e_phnum"] and (eh["e_phentsize"] < PHSIZE[cls] or eh["e_phoff"] + (eh["e_phnum"] - 1) * eh["e_phentsize"] + PHSIZE[cls] > L):
        return False
    if eh["e_shstrndx"] and eh["e_shstrndx"] >= eh["e_shnum"]:
        return False
    top = 1 << 64
    d = decode(img)
    for s in d["sections"]:
        if occupies_file(s["sh_type"]) and s["sh_offset"] + s["sh_size"] > L:
            return False
        if s["sh_addr"] + s["sh_size"] >= top or s["sh_offset"] + s["sh_size"] >= top:
            return False
    if eh["e_shstrndx"]:
        st = d["sections"][eh["e_shstrndx"]]
        if st["data"] is None:
            return False
        for s in d["sections"]:
            if s["name"] is None:
                return False
    for g in d["segments"]:
        if g["p_type"] != PT_NULL and g["p_filesz"] and g["p_offset"] + g["p_filesz"] > L:
            return False
        if g["p_vaddr"] + g["p_memsz"] >= top or g["p_offset"] + g["p_filesz"] >= top:
            return False
    return True


def linked_model(rng, cls, enc, nload=None, tls=None):
    """A linker-like well-formed image whose segment contents are covered by sections: sections laid
    out consecutively (aligned), allocated ones at address = segment vaddr + distance from the segment's
    file start, PT_LOAD segments covering runs of them (offset ≡ vaddr mod align), optional nested
    PT_NOTE, NOBITS last in its segment, non-allocated sections and the tables after them.
    `tls` (None | "seg" | "noseg"): one PT_LOAD additionally holds a thread-local data section (`.tdata`,
    SHT_PROGBITS, SHF_WRITE|SHF_ALLOC|SHF_TLS) among its file-backed sections - the usual place of the TLS
    initialisation image - with ("seg") or without ("noseg") a PT_TLS segment over it.  With `tls=None` the
    function draws exactly the random numbers it always drew."""
    m = Model(cls, enc)
    aw = 4 if cls == 32 else 8
    m.ident[0:4] = b"\x7fELF"; m.ident[4] = 1 if cls == 32 else 2; m.ident[5] = 1 if enc == "lsb" else 2
    m.ident[6] = 1; m.ident[7] = rng.choice([0, 3, 9]); m.ident[8] = 0
    nload = rng.choice([0, 1, 2, 2, 3]) if nload is None else nload
    if tls:
        nload = max(nload, 1)
    names = [b""]; secs = [dict(sh_name=0, sh_type=0, sh_flags=0, sh_addr=0, sh_offset=0, sh_size=0, sh_link=0,
                                sh_info=0, sh_addralign=0, sh_entsize=0, name=b"", data=None)]
    segs = []
    page = rng.choice([0x1000, 0x1000, 0x10000, 0x100])
    nseg_total = nload + (1 if nload and rng.random() < 0.5 else 0)
    pos = EHSIZE[cls] + PHSIZE[cls] * (nseg_total + (1 if tls == "seg" else 0))
    note_seg = None; tls_seg = None
    tls_load = rng.randrange(nload) if tls else None
    for j in range(nload):
        base = 0x400000 + j * 0x1000000
        k = rng.randint(1, 4)
        tls_at = rng.randrange(k + 1) if j == tls_load else None     # .tdata goes before the t-th section (k: behind all)
        # segment start: offset ≡ vaddr (mod page)
        pos += (-pos) % rng.choice([1, 4, 16])
        seg_off = pos; vaddr = base + (seg_off % page)
        flags = rng.choice([5, 6, 4, 7])
        first = len(secs); mem_end = vaddr
        def tdata():
            nonlocal pos, mem_end, tls_seg
            al = rng.choice([1, 4, 8, 16]); pos += (-pos) % al
            n = rng.choice([1, 8, 12, 32, rng.randint(1, 64)])
            a = vaddr + (pos - seg_off)
            secs.append(dict(sh_name=0, sh_type=1, sh_flags=SHF_WRITE | SHF_ALLOC | SHF_TLS, sh_addr=a, sh_offset=pos, sh_size=n,
                             sh_link=0, sh_info=0, sh_addralign=al, sh_entsize=0, name=b".tdata",
                             data=bytes(rng.randrange(1, 256) for _ in range(n))))
            if tls == "seg":
                tls_seg = dict(p_type=PT_TLS, p_flags=4, p_offset=pos, p_vaddr=a, p_paddr=a, p_filesz=n, p_memsz=n, p_align=al)
            pos += n; mem_end = max(mem_end, vaddr + (pos - seg_off))
        for t in range(k):
            if tls_at == t and not (secs[-1]["sh_type"] == 8 and len(secs) > first):
                tdata(); tls_at = None
            nob = (t == k - 1) and rng.random() < 0.3 or (t == k - 2 and k >= 3 and rng.random() < 0.25) \
                or (t == k - 1 and secs[-1]["sh_type"] == 8 and len(secs) > first)
            al = rng.choice([1, 4, 8, 16])
            if nob:
                size = rng.choice([8, 64, 300])
                addr = max(mem_end, vaddr + (pos - seg_off)); addr += (-addr) % al
                secs.append(dict(sh_name=0, sh_type=8, sh_flags=3, sh_addr=addr, sh_offset=pos, sh_size=size, sh_link=0,
                                 sh_info=0, sh_addralign=al, sh_entsize=0, name=b".bss%d" % j, data=None))
                mem_end = addr + size
            else:
                pos += (-pos) % al
                ty = rng.choice([1, 1, 1, 7, 14, 6, 0x6ffffff6]) if t else rng.choice([1, 7])
                n = rng.choice([1, 4, 12, 16, 33, rng.randint(1, 120)])
                data = bytes(rng.randrange(256) for _ in range(n))
                secs.append(dict(sh_name=0, sh_type=ty, sh_flags=2 | (flags & 1) * 4 | ((flags >> 1) & 1), sh_addr=vaddr + (pos - seg_off),
                                 sh_offset=pos, sh_size=n, sh_link=0, sh_info=0, sh_addralign=al, sh_entsize=rng.choice([0, 0, 8]),
                                 name=rng.choice([b".text", b".rodata", b".data", b".note.x", b".init_array", b".dyn"]) + b"%d" % len(secs), data=data))
                pos += n; mem_end = max(mem_end, vaddr + (pos - seg_off))
        if tls_at is not None and not (secs[-1]["sh_type"] == 8 and len(secs) > first):
            tdata(); tls_at = None
        file_end = max([s["sh_offset"] + s["sh_size"] for s in secs[first:] if s["data"] is not None] + [seg_off])
        segs.append(dict(p_type=1, p_flags=flags, p_offset=seg_off, p_vaddr=vaddr, p_paddr=vaddr,
                         p_filesz=file_end - seg_off, p_memsz=mem_end - vaddr, p_align=page))
        if note_seg is None and nseg_total > nload:
            s = secs[first]
            if s["data"] is not None and len(secs) - first > 1:
                note_seg = dict(p_type=4, p_flags=4, p_offset=s["sh_offset"], p_vaddr=s["sh_addr"], p_paddr=s["sh_addr"],
                                p_filesz=s["sh_size"], p_memsz=s["sh_size"], p_align=rng.choice([1, 4]))
    if nseg_total > nload:
        if note_seg is None:
            nseg_total = nload
        else:
            segs.append(note_seg)
    if tls_seg is not None:
        segs.insert(rng.randrange(len(segs) + 1), tls_seg)
    # non-allocated sections
    for t in range(rng.randint(0, 3)):
        al = rng.choice([1, 1, 4, 8]); pos += (-pos) % al
        n = rng.choice([0, 5, 16, 40]); data = bytes(rng.randrange(256) for _ in range(n))
        secs.append(dict(sh_name=0, sh_type=rng.choice([1, 2, 3, 4, 9]), sh_flags=0, sh_addr=0, sh_offset=pos, sh_size=n,
                         sh_link=0, sh_info=0, sh_addralign=al, sh_entsize=rng.choice([0, 16, 24]),
                         name=rng.choice([b".comment", b".symtab", b".strtab", b".rela.x", b".debug"]) + b"%d" % t, data=data))
        pos += n
    # section name table
    strtab = b"\0"
    for s in secs[1:]:
        s["sh_name"] = len(strtab); strtab += s["name"] + b"\0"
    shname = len(strtab); strtab += b".shstrtab\0"
    secs.append(dict(sh_name=shname, sh_type=3, sh_flags=0, sh_addr=0, sh_offset=pos, sh_size=len(strtab), sh_link=0,
                     sh_info=0, sh_addralign=1, sh_entsize=0, name=b".shstrtab", data=strtab))
    pos += len(strtab)
    pos += 16 - pos % 16
    m.sections = secs; m.segments = segs
    m.ehdr = {"e_type": 2 if nload else 1, "e_machine": rng.choice([3, 62, 40, 20]), "e_version": 1,
              "e_entry": segs[0]["p_vaddr"] if segs else 0, "e_phoff": EHSIZE[cls] if segs else 0, "e_shoff": pos,
              "e_flags": rng.choice([0, 0x5000200]), "e_ehsize": EHSIZE[cls], "e_phentsize": PHSIZE[cls],
              "e_phnum": len(segs), "e_shentsize": SHSIZE[cls], "e_shnum": len(secs), "e_shstrndx": len(secs) - 1}
    m.size = pos + SHSIZE[cls] * len(secs)
    return m
