#!/bin/sh
# usage: intake_seed.sh <ID> <name> <breaks> <needs> [verif-copy]
# Round-5 intake of a candidate seeded change delivered by a sub-agent in $SEEDBASE/<ID> (patch.diff, demo.cpp,
# README.md) with its scratch worktree $SEEDWT_PREFIX<ID>:
#   1. confirm it myself (tools/confirm_seed.sh: patch == worktree diff, applies to /repo HEAD, repo tests pass
#      with it, demo exits 0 on /repo's headers and non-zero on the changed ones),
#   2. store it as /verif/seeded/<name>/ (patch.diff, demo.cpp, README.md, meta.json),
#   3. run the property's check against it in a scratch worktree of /repo (tools/run_seeded.py --scratch
#      --record), inside the given copy of /verif when one is named (parallel sweeps need separate Gen trees),
#   4. remove the sub-agent's worktree.
ID=$1; NAME=$2; BREAKS=$3; NEEDS=$4; VC=${5:-/verif}
SEEDBASE=${SEEDBASE:-/tmp/seed5}; W=${SEEDWT_PREFIX:-/tmp/seedwt5_}$ID
V=/verif
rm -rf $W/_build
CONF=$(SEEDBASE=$SEEDBASE SEEDWT=$W sh $V/tools/confirm_seed.sh $ID 2>&1)
echo "$CONF"
echo "$CONF" | grep -q "demo original: exit 0" || { echo "NOT CONFIRMED: demo fails on original"; exit 2; }
echo "$CONF" | grep -q "demo modified: exit 0" && { echo "NOT CONFIRMED: demo passes on modified"; exit 2; }
echo "$CONF" | grep -q "100% tests passed" || { echo "NOT CONFIRMED: repo tests"; exit 2; }
echo "$CONF" | grep -q "applies to /repo HEAD" || { echo "NOT CONFIRMED: patch does not apply"; exit 2; }
D=$V/seeded/$NAME; mkdir -p $D
git -C $W diff > $D/patch.diff
cp $SEEDBASE/$ID/demo.cpp $D/demo.cpp
[ -f $SEEDBASE/$ID/README.md ] && cp $SEEDBASE/$ID/README.md $D/README.md
python3 - "$ID" "$BREAKS" "$NEEDS" "$CONF" > $D/meta.json <<'E'
import json, sys, subprocess
head = subprocess.run(["git", "-C", "/repo", "rev-parse", "--short", "HEAD"], capture_output=True, text=True).stdout.strip()
print(json.dumps({
    "property": sys.argv[1], "breaks": sys.argv[2], "needs": sys.argv[3],
    "origin": "independent sub-agent given only the property text and its own scratch worktree (round 5); its own description is README.md",
    "confirmed": "my run (tools/intake_seed.sh -> tools/confirm_seed.sh) against /repo HEAD " + head + ": " + " ; ".join(l.strip() for l in sys.argv[4].splitlines() if l.strip()),
}, indent=1))
E
if [ "$VC" != "$V" ]; then mkdir -p $VC/seeded/$NAME; cp $D/* $VC/seeded/$NAME/; fi
(cd $VC && python3 tools/run_seeded.py --scratch --record $NAME 2>&1 | tail -12)
[ "$VC" != "$V" ] && cp $VC/seeded/$NAME/result.json $D/result.json 2>/dev/null
git -C /repo worktree remove --force $W
