#!/usr/bin/env python3
"""Line coverage of /repo/elfio/*.hpp reached by a property's generated cases (generator quality):
builds the family's harness with gcov instrumentation (no sanitizers), runs the corpus + generated
cases of the given tier through it, and reports per header the executed lines, and for the source
ranges the property is anchored in (properties.jsonl `anchors.*.where`) the lines never executed.

usage: tools/harness_coverage.py <Cxx> [--tier quick|thorough] [--all]
Writes build/harness_coverage/<Cxx>.json; informational (never fails a check)."""
import gzip, importlib, json, os, random, re, shutil, subprocess, sys
V = os.path.dirname(os.path.dirname(os.path.abspath(__file__)))
sys.path.insert(0, V)
REPO = os.environ.get("ELFIO_REPO", "/repo")


def anchors_of(pid):
    rng = {}
    for l in open(os.path.join(V, "properties.jsonl")):
        d = json.loads(l)
        if d["id"] != pid:
            continue
        for grp in ("state", "mechanism"):
            for a in d["anchors"].get(grp, []):
                for m in re.finditer(r"(elfio/[\w.]+):([\d,\s-]+)", a.get("where", "")):
                    for part in m.group(2).split(","):
                        part = part.strip()
                        if not part:
                            continue
                        lo, _, hi = part.partition("-")
                        try:
                            rng.setdefault(m.group(1), []).append((int(lo), int(hi or lo)))
                        except ValueError:
                            pass
    return rng


def run(pid, tier):
    fam = importlib.import_module("families." + pid.lower())
    import check  # noqa  (for load_corpus)
    d = os.path.join(V, "build", "harness_coverage", pid)
    shutil.rmtree(d, ignore_errors=True); os.makedirs(d)
    src = os.path.join(V, "harness", fam.FAMILY + ".cpp")
    exe = os.path.join(d, "h")
    obj = os.path.join(d, fam.FAMILY + ".o")
    r = subprocess.run(["g++", "-std=c++17", "-O0", "-g", "--coverage", "-fprofile-update=atomic", "-DVH_COVERAGE",
                        "-fwrapv", "-w", "-I", REPO, "-c", src, "-o", obj], cwd=d, capture_output=True, text=True)
    if r.returncode == 0:
        r = subprocess.run(["g++", "--coverage", obj, "-o", exe], cwd=d, capture_output=True, text=True)
    if r.returncode:
        sys.exit("harness build failed:\n" + r.stderr[-2000:])
    rng = random.Random(17)
    cases = check.load_corpus(pid.lower()) + list(fam.gen_cases(rng, tier))
    inp = os.path.join(d, "cases.txt")
    with open(inp, "w") as f:
        for c in cases:
            f.write(f"case {c['id']}\n" + "\n".join(c["lines"]) + "\n")
    with open(inp) as fin:
        subprocess.run([exe], stdin=fin, stdout=subprocess.DEVNULL, stderr=subprocess.DEVNULL, cwd=d,
                       env=dict(os.environ, VH_TIMEOUT_SCALE="6"))
    subprocess.run(["gcov", "--json-format", obj], cwd=d, capture_output=True)
    lines = {}   # header -> {line: count}
    for f in os.listdir(d):
        if f.endswith(".gcov.json.gz"):
            j = json.load(gzip.open(os.path.join(d, f)))
            for fl in j.get("files", []):
                fn = fl["file"]
                if "/elfio/" not in fn:
                    continue
                key = "elfio/" + fn.split("/elfio/")[-1]
                m = lines.setdefault(key, {})
                for ln in fl.get("lines", []):
                    m[ln["line_number"]] = m.get(ln["line_number"], 0) + ln["count"]
    anch = anchors_of(pid)
    out = {"property": pid, "tier": tier, "cases": len(cases), "headers": {}, "anchored_ranges": {}}
    for h, m in sorted(lines.items()):
        out["headers"][h] = {"executable_lines": len(m), "executed": sum(1 for c in m.values() if c > 0)}
    for h, rs in anch.items():
        m = lines.get(h, {})
        miss = sorted(l for l, c in m.items() if c == 0 and any(lo <= l <= hi for lo, hi in rs))
        tot = sum(1 for l in m if any(lo <= l <= hi for lo, hi in rs))
        out["anchored_ranges"][h] = {"ranges": rs, "executable_lines": tot, "never_executed": miss}
    json.dump(out, open(os.path.join(V, "build", "harness_coverage", pid + ".json"), "w"), indent=1)
    a_tot = sum(v["executable_lines"] for v in out["anchored_ranges"].values())
    a_miss = sum(len(v["never_executed"]) for v in out["anchored_ranges"].values())
    print(f"{pid} {tier}: {len(cases)} cases; anchored lines executed {a_tot - a_miss}/{a_tot}; never executed: " +
          "; ".join(f"{h}:{v['never_executed']}" for h, v in out["anchored_ranges"].items() if v["never_executed"]))
    shutil.rmtree(d, ignore_errors=True)


if __name__ == "__main__":
    args = sys.argv[1:]
    tier = "quick"
    if "--tier" in args:
        tier = args[args.index("--tier") + 1]
    ids = [a for a in args if re.fullmatch(r"[Cc]\d\d", a)]
    if "--all" in args:
        ids = [json.loads(l)["id"] for l in open(os.path.join(V, "properties.jsonl"))]
    for p in ids:
        run(p.upper(), tier)
