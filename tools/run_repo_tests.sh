#!/bin/sh
# Baseline test suite of /repo with the verification guard OFF (no hooks exist; the guard
# ELFIO_VERIF is never defined by the repository's own build).
set -e
REPO=${ELFIO_REPO:-/repo}
[ -d "$REPO/_build" ] || cmake -G Ninja -B "$REPO/_build" -S "$REPO" -DELFIO_BUILD_TESTS=ON -DFETCHCONTENT_SOURCE_DIR_GOOGLETEST=/usr/src/googletest -DFETCHCONTENT_FULLY_DISCONNECTED=ON -DCMAKE_BUILD_TYPE=RelWithDebInfo >/dev/null
cmake --build "$REPO/_build" >/dev/null
ctest --test-dir "$REPO/_build" --timeout 900
