#!/usr/bin/env python3
"""check.py <property-id> [--tier quick|thorough] [--replay FILE]

The single entry point of every check registered in MANIFEST.json.  For one property:

  1. regenerate lean/ElfioVerif/Gen from $ELFIO_REPO (default /repo) -- gen/translate.py
  2. lake build the driver and the property's theorem module; hygiene grep;
     `#print axioms` audit of every theorem the property lists
  3. rebuild the C++ harness against the current working tree (cached by content hash)
  4. correspondence: corpus + seeded generated cases through harness (real code) and
     driver (Lean model); transcripts diffed
  5. property oracle (independent Python reference) on the implementation's transcript
  6. verdict, evidence/<id>.json, exit status  (DESIGN.md section 5)
"""
import argparse, hashlib, importlib, json, os, random, re, shutil, subprocess, sys, time
import concurrent.futures as cf

VERIF = os.path.dirname(os.path.abspath(__file__))
REPO = os.environ.get("ELFIO_REPO", "/repo")
LEAN = os.path.join(VERIF, "lean")
BUILD = os.path.join(VERIF, "build")
# evidence directory: overridable so that runs against deliberately modified trees (tools/run_seeded.py)
# do not overwrite the evidence of the unchanged tree
EVID = os.environ.get("VERIF_EVIDENCE_DIR") or os.path.join(VERIF, "evidence")
NPROC = min(16, os.cpu_count() or 4)
ALLOWED_AXIOMS = {"propext", "Classical.choice", "Quot.sound"}
BV_AXIOMS_OK_IN = os.path.join(LEAN, "ElfioVerif", "Lemmas", "Bits.lean")
HFLAGS = ["-std=c++17", "-O1", "-g", "-fwrapv", "-fsanitize=address,undefined",
          "-fno-sanitize=alignment,signed-integer-overflow,shift", "-fno-sanitize-recover=all",
          "-D_GLIBCXX_ASSERTIONS", "-w"]
ASAN_ENV = {"ASAN_OPTIONS": "allocator_may_return_null=1:detect_leaks=0:alloc_dealloc_mismatch=0:abort_on_error=0",
            "UBSAN_OPTIONS": "print_stacktrace=1"}

sys.path.insert(0, VERIF)


def sh(cmd, **kw):
    return subprocess.run(cmd, stdout=subprocess.PIPE, stderr=subprocess.STDOUT, text=True, **kw)


def sha_files(paths):
    h = hashlib.sha256()
    for p in sorted(paths):
        h.update(p.encode())
        with open(p, "rb") as f:
            h.update(f.read())
    return h.hexdigest()[:16]


def repo_headers():
    d = os.path.join(REPO, "elfio")
    return [os.path.join(d, f) for f in os.listdir(d) if f.endswith(".hpp")]


# ------------------------------------------------------------------ steps

def step_gen():
    r = sh([sys.executable, os.path.join(VERIF, "gen", "translate.py")], env=dict(os.environ, ELFIO_REPO=REPO))
    st = {}
    try:
        st = json.load(open(os.path.join(BUILD, "gen_status.json")))["sites"]
    except Exception:
        pass
    return r.returncode, r.stdout, st


def step_lake(targets):
    r = sh(["lake", "build"] + targets, cwd=LEAN)
    errs = [l for l in r.stdout.splitlines() if l.startswith("error:")]
    return r.returncode == 0, errs, r.stdout


def strip_lean_comments(src):
    out = []; i = 0; depth = 0; n = len(src)
    while i < n:
        if src.startswith("/-", i):
            depth += 1; i += 2; continue
        if depth and src.startswith("-/", i):
            depth -= 1; i += 2; continue
        if depth:
            i += 1; continue
        if src.startswith("--", i):
            j = src.find("\n", i)
            i = n if j < 0 else j
            continue
        out.append(src[i]); i += 1
    return "".join(out)


def step_hygiene():
    bad = []
    pat = re.compile(r"\bsorry\b|\badmit\b|^\s*axiom\s|native_decide|implemented_by|\bunsafe\s|maxHeartbeats\s+0\b|bv_decide", re.M)
    for root, _, files in os.walk(os.path.join(LEAN, "ElfioVerif")):
        for f in files:
            if not f.endswith(".lean"):
                continue
            p = os.path.join(root, f)
            src = strip_lean_comments(open(p).read())
            for m in pat.finditer(src):
                tok = m.group(0).strip()
                if tok == "bv_decide" and os.path.samefile(p, BV_AXIOMS_OK_IN):
                    continue
                line = src.count("\n", 0, m.start()) + 1
                bad.append(f"{os.path.relpath(p, LEAN)}:{line}: {tok}")
    return bad


def step_axioms(module, theorems, extra_imports=()):
    """returns {theorem: [axioms]} ; missing theorem -> None.
    `extra_imports`: further modules holding registered theorems (a family's optional EXTRA_IMPORTS,
    e.g. composition theorems proved on top of several property modules)"""
    os.makedirs(BUILD, exist_ok=True)
    aud = os.path.join(BUILD, f"audit_{module.split('.')[-1]}.lean")
    with open(aud, "w") as f:
        f.write(f"import {module}\n")
        for m in extra_imports:
            f.write(f"import {m}\n")
        for t in theorems:
            f.write(f"#print axioms {t}\n")
    r = sh(["lake", "env", "lean", aud], cwd=LEAN)
    res = {t: None for t in theorems}
    txt = r.stdout.replace("\n  ", " ")
    for t in theorems:
        m = re.search(r"'" + re.escape(t) + r"' depends on axioms: \[([^\]]*)\]", txt)
        if m:
            res[t] = [a.strip() for a in m.group(1).split(",") if a.strip()]
        elif re.search(r"'" + re.escape(t) + r"' does not depend on any axioms", txt):
            res[t] = []
    return res, r.stdout


def axiom_ok(ax, bits_src):
    if ax in ALLOWED_AXIOMS:
        return True
    if "._native.bv_decide.ax" in ax:
        thm = ax.split("._native.bv_decide")[0].split(".")[-1]
        return re.search(r"theorem\s+" + re.escape(thm) + r"\b", bits_src) is not None
    if ax in ("Lean.ofReduceBool", "Lean.trustCompiler"):
        return True   # only ever arrive together with a bv_decide axiom (checked by caller)
    return False


def step_harness(family):
    src = os.path.join(VERIF, "harness", family + ".cpp")
    deps = [src, os.path.join(VERIF, "harness", "common.hpp")] + repo_headers()
    extra = [os.path.join(VERIF, "harness", f) for f in os.listdir(os.path.join(VERIF, "harness")) if f.endswith(".hpp")]
    key = sha_files(sorted(set(deps + extra)))
    exe = os.path.join(BUILD, f"h_{family}_{key}")
    if not os.path.exists(exe):
        for f in os.listdir(BUILD) if os.path.isdir(BUILD) else []:
            if f.startswith(f"h_{family}_"):
                try: os.remove(os.path.join(BUILD, f))
                except OSError: pass
        os.makedirs(BUILD, exist_ok=True)
        r = sh(["g++"] + HFLAGS + ["-I", REPO, src, "-o", exe])
        if r.returncode != 0:
            return None, r.stdout
    return exe, ""


def parse_transcript(txt):
    out = {}; cur = None
    for ln in txt.splitlines():
        if ln.startswith("case "):
            cur = ln[5:].strip(); out[cur] = []
        elif ln == "end":
            cur = None
        elif cur is not None:
            out[cur].append(ln)
    return out


def run_side(cmd, cases, env=None, tag="x", nproc=None):
    """cases: list of (id, lines). Runs in NPROC chunks; returns {id: [out lines]}"""
    if not cases:
        return {}
    rd = os.path.join(BUILD, "run"); os.makedirs(rd, exist_ok=True)
    nproc = nproc or NPROC
    chunks = [cases[i::nproc] for i in range(nproc)]
    chunks = [c for c in chunks if c]
    def one(ix_chunk):
        ix, chunk = ix_chunk
        p = os.path.join(rd, f"{tag}_{os.getpid()}_{ix}.cases")
        with open(p, "w") as f:
            for cid, lines in chunk:
                f.write(f"case {cid}\n"); f.write("\n".join(lines)); f.write("\n")
        with open(p) as fin:
            r = subprocess.run(cmd, stdin=fin, stdout=subprocess.PIPE, stderr=subprocess.DEVNULL, text=True,
                               env=dict(os.environ, **(env or {})), errors="replace")
        os.remove(p)
        return parse_transcript(r.stdout)
    res = {}
    with cf.ThreadPoolExecutor(nproc) as ex:
        for d in ex.map(one, enumerate(chunks)):
            res.update(d)
    return res


def canon(lines):
    """canonical comparison form: a FAULT line keeps only its class; text behind " ~~ " is implementation-only
    (runtime facts the model has no counterpart for, e.g. how often a compression hook was called): the oracle
    sees it, the correspondence does not compare it"""
    out = []
    for l in lines:
        if l.startswith("FAULT"):
            out.append("FAULT"); break
        out.append(l.split(" ~~ ")[0])
    return out


def load_known():
    p = os.path.join(VERIF, "known_findings.json")
    if not os.path.exists(p):
        return {"open": [], "fixed": []}
    return json.load(open(p))


def load_corpus(family):
    d = os.path.join(VERIF, "corpus", family)
    out = []
    if os.path.isdir(d):
        for f in sorted(os.listdir(d)):
            if f.endswith(".case"):
                raw = [l.rstrip("\n") for l in open(os.path.join(d, f))]
                lines = [l for l in raw if l.strip() and not l.startswith("#")]
                meta = {"corpus": True}
                for l in raw:
                    if l.startswith("#meta "):
                        meta.update(json.loads(l[6:]))
                out.append({"id": "corpus-" + f[:-5], "lines": lines, "meta": meta})
    return out


def ddmin(lines, still_fails, keep_first=1, budget=60):
    head, body = lines[:keep_first], lines[keep_first:]
    n = 2; tries = 0
    while len(body) >= 2 and tries < budget:
        sz = max(1, len(body) // n); reduced = False
        for i in range(0, len(body), sz):
            cand = body[:i] + body[i + sz:]
            tries += 1
            if cand != body and still_fails(head + cand):
                body = cand; n = max(n - 1, 2); reduced = True; break
            if tries >= budget: break
        if not reduced:
            if sz == 1: break
            n = min(len(body), n * 2)
    return head + body


# ------------------------------------------------------------------ main

def main():
    ap = argparse.ArgumentParser()
    ap.add_argument("prop")
    ap.add_argument("--tier", default=os.environ.get("VERIF_TIER", "quick"))
    ap.add_argument("--replay")
    ap.add_argument("--no-proof", action="store_true", help="skip lake/audit (debugging only; evidence marks it)")
    a = ap.parse_args()
    tier = a.tier if a.tier in ("quick", "thorough") else "quick"
    seed = int(os.environ.get("VERIF_SEED", "0") or 0)
    pid = a.prop.upper()
    fam = importlib.import_module(f"families.{pid.lower()}")
    t0 = time.time()
    os.makedirs(BUILD, exist_ok=True)
    os.makedirs(os.path.join(EVID, "replay"), exist_ok=True)
    log = []
    problems = []       # things that make the property "no longer shown to hold"
    if a.replay is None:
        for f in os.listdir(os.path.join(EVID, "replay")):
            if f.startswith(pid + "-"):
                os.remove(os.path.join(EVID, "replay", f))
    # 1. regeneration
    rc, gout, gstat = step_gen()
    broken_sites = {k: v for k, v in gstat.items() if v != "ok"}
    dep_sites = [s for s in broken_sites if any(s.startswith(p) for p in getattr(fam, "SITES", [""]))]
    if rc not in (0, 2) or not gstat:
        problems.append(("translator", "gen/translate.py failed: " + gout[-400:]))
    for s in dep_sites:
        problems.append(("site", f"{s}: {broken_sites[s]}"))
    # 2. proofs
    theorems = list(getattr(fam, "THEOREMS", []))
    module = fam.LEAN_MODULE
    extra_mods = list(getattr(fam, "EXTRA_IMPORTS", []))
    discharged = 0; ax_report = {}
    drv_ok, derrs, dout = step_lake(["driver"])
    if not drv_ok:
        problems.append(("model-build", "lake build driver failed: " + " | ".join(derrs[:4])))
    if a.replay is None and not a.no_proof:
        ok, errs, out = step_lake([module] + extra_mods)
        if not ok:
            problems.append(("proof", f"lake build {' '.join([module] + extra_mods)} failed: " + " | ".join(errs[:6])))
        hyg = step_hygiene()
        for h in hyg:
            problems.append(("hygiene", h))
        if ok:
            axs, raw = step_axioms(module, theorems, extra_mods)
            bits_src = open(BV_AXIOMS_OK_IN).read() if os.path.exists(BV_AXIOMS_OK_IN) else ""
            for t in theorems:
                if axs[t] is None:
                    problems.append(("proof", f"theorem {t} not found / not checked")); continue
                bad = [x for x in axs[t] if not axiom_ok(x, bits_src)]
                if any(x in ("Lean.ofReduceBool", "Lean.trustCompiler") for x in axs[t]) and \
                   not any("._native.bv_decide.ax" in x for x in axs[t]):
                    bad.append("Lean.ofReduceBool without bv_decide")
                if bad:
                    problems.append(("axiom", f"{t} depends on disallowed axioms {bad}"))
                else:
                    discharged += 1
                ax_report[t] = axs[t]
        if tier == "thorough" and ok:
            for lm in [module] + extra_mods:
                r = sh(["lake", "env", "leanchecker", lm], cwd=LEAN)
                if r.returncode != 0:
                    problems.append(("leanchecker", lm + ": " + r.stdout[-300:]))
                log.append(f"leanchecker {lm}: " + ("ok" if r.returncode == 0 else "FAILED"))
    # 3. harness
    exe, herr = step_harness(fam.FAMILY)
    if exe is None:
        problems.append(("harness-build", herr[-600:]))
    driver = os.path.join(LEAN, ".lake", "build", "bin", "driver")
    have_driver = drv_ok and os.path.exists(driver)

    def run_impl(cases):
        return run_side([exe], [(c["id"], c["lines"]) for c in cases], ASAN_ENV, "h") if exe else {}

    def run_model(cases):
        return run_side([driver, fam.FAMILY], [(c["id"], c["lines"]) for c in cases], None, "d") if have_driver else {}

    if a.replay:
        raw = [l.rstrip("\n") for l in open(a.replay)]
        lines = [l for l in raw if l.strip() and not l.startswith("#")]
        meta = {}
        for l in raw:
            if l.startswith("#meta "):
                meta = json.loads(l[6:])
        c = {"id": "replay", "lines": lines, "meta": meta}
        io = run_impl([c]).get("replay", []); mo = run_model([c]).get("replay", [])
        print("--- implementation"); print("\n".join(io))
        print("--- model"); print("\n".join(mo))
        v = fam.oracle(c, io)
        print("--- oracle:", v if v else "property holds on this case")
        print("--- correspondence:", "equal" if canon(io) == canon(mo) else "DIFFERENT")
        return 1 if v else 0

    # 4. cases
    rng = random.Random(seed * 1000003 + 17)
    cases = load_corpus(pid.lower()) + list(fam.gen_cases(rng, tier))
    if tier == "thorough":
        # the thorough tier explores three independent PRNG streams (the exhaustive small scopes of a family are
        # the same in each; duplicates are dropped by content)
        seen = {"\n".join(c["lines"]) for c in cases}
        for extra in (1, 2):
            r2 = random.Random((seed + 7919 * extra) * 1000003 + 17)
            for c in fam.gen_cases(r2, tier):
                k = "\n".join(c["lines"])
                if k not in seen:
                    seen.add(k); c["id"] = f"{c['id']}~s{extra}"; cases.append(c)
    ids = set()
    for i, c in enumerate(cases):
        if c["id"] in ids: c["id"] = f"{c['id']}_{i}"
        ids.add(c["id"])
    impl = run_impl(cases)
    model = run_model(cases)
    # a wall-clock timeout (or a missing transcript) on a loaded machine is not a fault of the library:
    # such cases are run again, two at a time, with a 15x limit, and only that result counts
    def timed_out(c):
        return any(l.startswith("FAULT timeout") for l in impl.get(c["id"]) or []) \
            or (exe and impl.get(c["id"]) is None) or (have_driver and model.get(c["id"]) is None)

    def rerun(cs):
        pairs = [(c["id"], c["lines"]) for c in cs]
        if exe:
            impl.update(run_side([exe], pairs, dict(ASAN_ENV, VH_TIMEOUT_SCALE="6"), "h2", nproc=4))
        if have_driver:
            model.update(run_side([driver, fam.FAMILY], pairs, None, "d2", nproc=4))
    again = [c for c in cases if timed_out(c)]
    if again:
        first = sorted(again, key=lambda c: len(c["lines"]))[:12]
        rerun(first)
        rest = [c for c in again if c not in first]
        if rest and not all(timed_out(c) for c in first):   # the machine was busy: the others deserve a second run too
            rerun(rest)
        log.append(f"{len(again)} case(s) timed out or gave no transcript in the parallel pass; after re-running alone "
                   f"with a 6x limit {sum(1 for c in again if timed_out(c))} still do")
    known = load_known()
    open_sigs = {(k["property"], k["signature"]): k for k in known.get("open", [])}
    diffs = []; viols = []; known_hit = {}; nontriv = set(); dist = {}
    for c in cases:
        io = impl.get(c["id"]); mo = model.get(c["id"])
        if io is None:
            if exe: problems.append(("harness", f"no transcript for case {c['id']}"))
            continue
        for v in fam.oracle(c, io):
            sig = v["signature"]
            if (pid, sig) in open_sigs:
                known_hit.setdefault(sig, c)
            else:
                viols.append((c, v))
        if have_driver:
            if mo is None or canon(io) != canon(mo):
                diffs.append((c, io, mo))
        key = hashlib.md5("\n".join(c["lines"]).encode()).hexdigest()
        if fam.nontrivial(c, io):
            nontriv.add(key)
        for k in fam.classify(c, io):
            dist[k] = dist.get(k, 0) + 1

    # 5. verdict
    exit_code = 0; vio_lines = []
    rp_dir = os.path.join(EVID, "replay")
    if viols:
        c, v = viols[0]
        def still(lines):
            cc = {"id": "shrink", "lines": lines, "meta": c.get("meta", {})}
            o = run_side([exe], [("shrink", lines)], ASAN_ENV, "s").get("shrink", [])
            try:
                return any(x["signature"] == v["signature"] for x in fam.oracle(cc, o))
            except Exception:
                return False      # the candidate no longer fits the case's meta: not a reproduction
        small = ddmin(c["lines"], still, getattr(fam, "KEEP_FIRST", 1)) \
            if len(c["lines"]) > 2 and getattr(fam, "SHRINK", True) else c["lines"]
        rp = os.path.join(rp_dir, f"{pid}-violation.case")
        with open(rp, "w") as f:
            f.write(f"# property {pid}: {v['what']}\n# signature: {v['signature']}\n# replay: ./check.py {pid} --replay {rp}\n")
            jm = {k: v for k, v in c.get("meta", {}).items() if isinstance(v, (int, str, bool, float, list, dict))}
            f.write("#meta " + json.dumps(jm) + "\n")
            f.write("\n".join(small) + "\n")
        vio_lines.append(f"VIOLATION property={pid} replay={rp}")
        exit_code = 1
    elif problems or diffs:
        rp = os.path.join(rp_dir, f"{pid}-unproved.txt")
        with open(rp, "w") as f:
            f.write(f"# property {pid} is no longer shown to hold; no input violating it was found among "
                    f"{len(cases)} cases\n")
            for k, m in problems:
                f.write(f"{k}: {m}\n")
            for c, io, mo in diffs[:5]:
                f.write(f"correspondence differs on case {c['id']}:\n")
                f.write("  input:\n" + "".join("    " + l + "\n" for l in c["lines"]))
                f.write("  implementation:\n" + "".join("    " + l + "\n" for l in (io or [])))
                f.write("  model:\n" + "".join("    " + l + "\n" for l in (mo or ["<none>"])))
        vio_lines.append(f"VIOLATION property={pid} replay={rp} no-failing-input-found")
        exit_code = 1
    for sig, c in known_hit.items():
        k = open_sigs[(pid, sig)]
        print(f"KNOWN-FINDING: property={pid} {k['what']}")
    for l in vio_lines:
        print(l)

    # source-tie coverage: how much of the functions this property's sites come from is regenerated
    tie = {}
    try:
        cv_path = os.path.join(BUILD, "site_coverage.json")
        cur = json.load(open(os.path.join(BUILD, "gen_status.json"))).get("repo_hash")
        sys.path.insert(0, os.path.join(VERIF, "gen"))
        import coverage as _cov
        old = json.load(open(cv_path)) if os.path.exists(cv_path) else {}
        if old.get("repo_hash") != cur or old.get("tool_hash") != _cov.tool_hash():
            sh([sys.executable, os.path.join(VERIF, "gen", "coverage.py")], env=dict(os.environ, ELFIO_REPO=REPO))
        cv = json.load(open(cv_path))
        pre = tuple(getattr(fam, "SITES", []) or [""])
        fs = [f for f in cv["functions"] if any(n.startswith(pre) for n in f.get("sites", []))]
        tie = {"functions_with_regenerated_sites": len(fs),
               "sites_used": sum(1 for f in fs for n in f["sites"] if n.startswith(pre)),
               "decisions_in_those_functions": sum(f["decisions"] for f in fs),
               "decisions_regenerated": sum(f["decisions_regenerated"] for f in fs),
               "assignments_in_those_functions": sum(f["assignments"] for f in fs),
               "assignments_regenerated": sum(f["assignments_regenerated"] for f in fs),
               "note": "decisions/assignments not regenerated are hand-modelled (Model/*.lean) and tied to the code by the correspondence check only"}
    except Exception as e:  # informational only
        tie = {"error": str(e)[:200]}
    # 6. evidence
    samples = [{"id": c["id"], "lines": c["lines"][:12], "impl": (impl.get(c["id"]) or [])[:12]} for c in cases[:2] + cases[-2:]]
    ev = {
        "property_id": pid, "tier": tier, "seed": seed, "level": "proof",
        "coverage": {
            "obligations": len(theorems), "discharged": discharged,
            "checker_cmd": f"cd lean && lake build {' '.join([module] + extra_mods)} && lake env lean build/audit (#print axioms)"
                           + (" && lake env leanchecker " + " ".join([module] + extra_mods) if tier == "thorough" else ""),
            "trusted_base": ["Lean 4.33.0 kernel", "axioms: propext, Classical.choice, Quot.sound"
                             + ("; bv_decide native axioms of Lemmas/Bits.lean: " + ", ".join(sorted({x for v in ax_report.values() for x in (v or []) if 'bv_decide' in x})) if any('bv_decide' in x for v in ax_report.values() for x in (v or [])) else ""),
                             "gen/translate.py + clang-14 AST + layout probe (regenerated this run)",
                             "correspondence harness (g++ 12, ASan/UBSan) and Python oracle families/" + pid.lower() + ".py",
                             ] + list(getattr(fam, "TRUSTED", [])),
            "theorems": ax_report,
            "evaluations": len(cases), "distinct_nontrivial": len(nontriv),
            "rule": fam.RULE, "samples": samples,
            "traces_validated_against_impl": sum(1 for c in cases if c["id"] in impl and c["id"] in model),
            "correspondence_differences": len(diffs),
            "distribution": dist,
            "source_tie": tie,
            "gen_sites": {k: v for k, v in gstat.items() if any(k.startswith(p) for p in getattr(fam, "SITES", []))},
            "known_findings_confirmed": sorted(known_hit),
            "problems": [f"{k}: {m}" for k, m in problems][:20],
            "explanation": fam.__doc__ or "",
        },
        "assumptions": list(getattr(fam, "ASSUMPTIONS", [])),
        "wall_s": round(time.time() - t0, 2),
        "violations": len(viols) + (1 if (problems or diffs) and not viols else 0),
    }
    with open(os.path.join(EVID, f"{pid}.json"), "w") as f:
        json.dump(ev, f, indent=1)
    print(f"{pid} {tier} seed={seed}: theorems {discharged}/{len(theorems)}, cases {len(cases)} "
          f"(nontrivial {len(nontriv)}), corr-diffs {len(diffs)}, oracle-violations {len(viols)}, "
          f"known {len(known_hit)}, problems {len(problems)}, {ev['wall_s']}s")
    return exit_code


if __name__ == "__main__":
    sys.exit(main())
