import ElfioVerif.Lemmas.LoadSafety
namespace ElfioVerif
open Gen

def loadSegsPhase (o : Obj) (c : Cls) (enc : Enc) (hdr : Bytes) (isLazy : Bool) (ls : LoadSt)
    (secs : List SecBuf) : M LoadRes :=
  if load_segments_entsize_bad (Hdr.e_phnum c enc hdr) (Hdr.ident hdr EI_CLASS) (Hdr.e_phentsize c enc hdr) then
    pure { obj := { o with secs := secs, stream := ls.st }, ok := false, allocs := ls.allocs }
  else
    let r := loadSegmentsLoop c enc o.trans isLazy (Hdr.e_phoff c enc hdr).toInt (Hdr.e_phentsize c enc hdr).toNat
              secs (Hdr.e_phnum c enc hdr).toNat 0 ls []
    pure { obj := { o with secs := secs, segs := r.2.1, stream := r.1.st }, ok := r.2.2, allocs := r.1.allocs }

def loadNamesK (c : Cls) (enc : Enc) (tr : List Trans) (hdr : Bytes) (ls : LoadSt) (secs : List SecBuf)
    (k : LoadSt × List SecBuf → M LoadRes) : M LoadRes :=
  if Hdr.e_shstrndx c enc hdr == BitVec.ofNat 16 SHN_UNDEF then k (ls, secs) else
  match secs[(Hdr.e_shstrndx c enc hdr).toNat]? with
  | none => k (ls, secs)
  | some strtab =>
    (resolveNames (secGetData c tr ls strtab).2
      (secs.set (Hdr.e_shstrndx c enc hdr).toNat (secGetData c tr ls strtab).2)) >>= fun secs' =>
    k ((secGetData c tr ls strtab).1, secs')

def loadSecs0 (c : Cls) (enc : Enc) (tr : List Trans) (hdr : Bytes) (isLazy : Bool) (st : IStream) :
    LoadSt × List SecBuf :=
  if load_sections_entsize_bad (Hdr.e_shnum c enc hdr) (Hdr.ident hdr EI_CLASS) (Hdr.e_shentsize c enc hdr) then
    ({ st := st }, [])
  else
    loadSectionsLoop c enc tr isLazy (Hdr.e_shoff c enc hdr).toInt (Hdr.e_shentsize c enc hdr).toNat
        (Hdr.e_shnum c enc hdr).toNat 0 { st := st } []

def loadAfterHdr (o : Obj) (c : Cls) (enc : Enc) (hdr : Bytes) (isLazy : Bool) (st : IStream) : M LoadRes :=
  if load_sections_entsize_bad (Hdr.e_shnum c enc hdr) (Hdr.ident hdr EI_CLASS) (Hdr.e_shentsize c enc hdr) then
    loadSegsPhase o c enc hdr isLazy (loadSecs0 c enc o.trans hdr isLazy st).1 (loadSecs0 c enc o.trans hdr isLazy st).2
  else
    loadNamesK c enc o.trans hdr (loadSecs0 c enc o.trans hdr isLazy st).1 (loadSecs0 c enc o.trans hdr isLazy st).2
      (fun p => loadSegsPhase o c enc hdr isLazy p.1 p.2)

def failRes (o : Obj) (st : IStream) : LoadRes := { obj := { o with stream := st }, ok := false, allocs := [] }

theorem load_eq (o : Obj) (st : IStream) (isLazy : Bool) :
    load o st isLazy =
      (let o0 : Obj := { o with secs := [], segs := [] }
       let r1 := (st.seekg (trApply o.trans 0)).read 16
       let idb (i : Nat) : Nat := (r1.2.getD i 0).toNat
       if r1.1.gcount != 16 then .ok (failRes o0 r1.1) else
       if idb 0 != ELFMAG0 || idb 1 != ELFMAG1 || idb 2 != ELFMAG2 || idb 3 != ELFMAG3 then .ok (failRes o0 r1.1) else
       match clsOfByte (idb EI_CLASS), encOfByte (idb EI_DATA) with
       | none, _ => .ok (failRes o0 r1.1)
       | some _, none => .ok (failRes o0 r1.1)
       | some c, some enc =>
         let r2 := (r1.1.seekg (trApply o.trans 0)).read (ehdrSize c)
         let hdr := wr (Hdr.create c enc (idb EI_DATA)) 0 r2.2
         let o1 : Obj := { o0 with cls := c, enc := enc, hdr := some hdr }
         if r2.1.gcount != ehdrSize c then .ok (failRes o1 r2.1) else
         loadAfterHdr o1 c enc hdr isLazy r2.1) := by
  unfold load
  rfl
end ElfioVerif
