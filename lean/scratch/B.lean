import ElfioVerif.Props.C01
open ElfioVerif
def img208 : Bytes := [127, 69, 76, 70, 2, 1, 1, 0, 0, 0, 0, 0, 0, 0, 0, 0, 1, 0, 62, 0, 1, 0, 0, 0, 0, 0, 0, 0, 0, 0, 0, 0, 0, 0, 0, 0, 0, 0, 0, 0, 80, 0, 0, 0, 0, 0, 0, 0, 0, 0, 0, 0, 64, 0, 56, 0, 0, 0, 64, 0, 2, 0, 1, 0, 0, 46, 115, 104, 115, 116, 114, 116, 97, 98, 0, 0, 0, 0, 0, 0, 0, 0, 0, 0, 0, 0, 0, 0, 0, 0, 0, 0, 0, 0, 0, 0, 0, 0, 0, 0, 0, 0, 0, 0, 0, 0, 0, 0, 0, 0, 0, 0, 0, 0, 0, 0, 0, 0, 0, 0, 0, 0, 0, 0, 0, 0, 0, 0, 0, 0, 0, 0, 0, 0, 0, 0, 0, 0, 0, 0, 0, 0, 0, 0, 1, 0, 0, 0, 3, 0, 0, 0, 0, 0, 0, 0, 0, 0, 0, 0, 0, 0, 0, 0, 0, 0, 0, 0, 64, 0, 0, 0, 0, 0, 0, 0, 11, 0, 0, 0, 0, 0, 0, 0, 0, 0, 0, 0, 0, 0, 0, 0, 1, 0, 0, 0, 0, 0, 0, 0, 0, 0, 0, 0, 0, 0, 0, 0]
#eval (load {} { data := img208 } false).toOption.map (fun r => (r.ok, r.allocs, r.obj.secs.map (fun b => (b.name, b.data.map (·.length)))))
set_option maxRecDepth 100000 in
example : (load {} { data := img208 } false).toOption.map (fun r => (r.ok, r.allocs, r.obj.secs.map (fun b => (b.name, b.data.map (·.length))))) = some (true, [12], [([], none), ([46, 115, 104, 115, 116, 114, 116, 97, 98], some 12)]) := by decide
open C01
#eval (load {} { data := img208 } true).toOption.map (fun r => (r.allocs, (requests r.obj [.secData 1, .secData 7, .secFree 1, .secData 1, .segData 0]).2, (requests r.obj [.secData 1, .secData 7, .secFree 1]).1.secs.map (·.data.isSome)))
#eval (load {} { data := img208 } true).toOption.map (fun r => (r.obj.secs.map (fun b => (getString b 1, getString b 5, getString b 10, getString b 4294967295))))
