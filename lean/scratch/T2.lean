import ElfioVerif.Model.Load
open ElfioVerif
set_option pp.letVarTypes false
example (o st l) : load o st l = .error (.fuel "") := by
  unfold load
  trace_state
  sorry
