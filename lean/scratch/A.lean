import ElfioVerif.Props.C01
open ElfioVerif
#print axioms C01.load_total
#print axioms C01.load_inv
#print axioms C01.load_alloc_bound
#print axioms C01.getData_inv
#print axioms C01.getString_total
#eval (load {} { data := C01.img64 } false).toOption.map (fun r => (r.ok, r.obj.secs.length))
