/-
Model of `relocation_section_accessor_template<section>` (elfio_relocation.hpp) over a `SecBuf`:
`get_entries_num`, `get_entry` (the overload without symbol resolution), `set_entry`, the four
`add_entry` overloads that build entries, and `swap_symbols`.

Every guard, index/offset computation, width conversion and the `ELF32_R_INFO`/`ELF64_R_INFO`
packings are the *generated* expressions of Gen/SitesC11.lean (per template instantiation
`T ∈ {Elf32_Rel, Elf32_Rela, Elf64_Rel, Elf64_Rela}`), the sym/type extractors are the generated
`get_sym_and_type<T>::get_r_sym/get_r_type` of Gen/Funcs.lean (they return `int`; the translator
keeps the 32-bit pattern, so a type ≥ 2^31 goes through `int` and back to `unsigned` unchanged).
Record fields are read/written with `rdField`/`wrField` at the Gen/Layout offsets; every access
through `pEntry->FIELD` is a checked `rdRange`/`wrRange` on the section's allocation.
Signed addends are carried as two's-complement bit patterns (`BitVec 64` for `Elf_Sxword`).
-/
import ElfioVerif.Model.SecBuf
import ElfioVerif.Model.Field
import ElfioVerif.Gen.SitesC11
namespace ElfioVerif
open Gen

namespace Reloc

/-- the four out-parameters of `get_entry` / value parameters of `set_entry` -/
structure Entry where
  offset : BitVec 64      -- Elf64_Addr
  symbol : BitVec 32      -- Elf_Word
  type : BitVec 32        -- unsigned
  addend : BitVec 64      -- Elf_Sxword (bit pattern)
  deriving DecidableEq, Repr, Inhabited

/-- what differs between the four instantiations of the `generic_*<T>` member templates;
    every function component is a generated site -/
structure RecOps where
  size : Nat
  offsetOff : Nat
  offsetW : Nat
  infoOff : Nat
  infoW : Nat
  addendOff : Nat
  addendW : Nat
  hasAddend : Bool
  /-- `get_entry_size() < sizeof(T)` -/
  entsizeSmall : BitVec 64 → Bool
  /-- `index * get_entry_size()` (getter / setter) -/
  getOff : BitVec 64 → BitVec 64 → BitVec 64
  setOff : BitVec 64 → BitVec 64 → BitVec 64
  /-- the two guards of the setter (fixes/21): `get_entry_size() < sizeof(T)`, `get_data() == nullptr` -/
  setSmall : BitVec 64 → Bool
  setNodata : Bool → Bool
  /-- widening of the converted field values on the way out -/
  getOffset : Nat → BitVec 64
  getTmp : Nat → BitVec 64
  rSym : BitVec 64 → BitVec 32
  rType : BitVec 64 → BitVec 32
  getAddend : Nat → BitVec 64
  /-- `elf_file.get_class() == ELFCLASS32` inside the setter, both packings narrowed to the field -/
  setIs32 : BitVec 8 → Bool
  setInfo32 : BitVec 32 → BitVec 32 → Nat
  setInfo64 : BitVec 32 → BitVec 32 → Nat
  setOffset : BitVec 64 → Nat
  setAddend : BitVec 64 → Nat
  /-- narrowing in `generic_add_entry<T>` and the size handed to `append_data` -/
  addOffset : BitVec 64 → Nat
  addInfo : BitVec 64 → Nat
  addAddend : BitVec 64 → Nat
  addSize : BitVec 64

def ops32rel : RecOps where
  size := sizeof_Elf32_Rel
  offsetOff := Elf32_Rel.r_offset_off
  offsetW := Elf32_Rel.r_offset_w
  infoOff := Elf32_Rel.r_info_off
  infoW := Elf32_Rel.r_info_w
  addendOff := 0
  addendW := 0
  hasAddend := false
  entsizeSmall := reloc_getrel32_entsize_small
  getOff := reloc_getrel32_off
  setOff := reloc_setrel32_off
  setSmall := reloc_setrel32_entsize_small
  setNodata := reloc_setrel32_nodata
  getOffset := fun v => reloc_getrel32_offset (BitVec.ofNat 32 v)
  getTmp := fun v => reloc_getrel32_tmp (BitVec.ofNat 32 v)
  rSym := fun t => reloc_getrel32_symbol (rel32_r_sym t)
  rType := fun t => reloc_getrel32_type (rel32_r_type t)
  getAddend := fun _ => reloc_getrel32_addend
  setIs32 := reloc_setrel32_is32
  setInfo32 := fun s t => (reloc_setrel32_info_c32 s t).toNat
  setInfo64 := fun s t => (reloc_setrel32_info_c64 s t).toNat
  setOffset := fun o => (reloc_setrel32_offset o).toNat
  setAddend := fun _ => 0
  addOffset := fun o => (reloc_addrel32_offset o).toNat
  addInfo := fun i => (reloc_addrel32_info i).toNat
  addAddend := fun _ => 0
  addSize := reloc_addrel32_size

def ops32rela : RecOps where
  size := sizeof_Elf32_Rela
  offsetOff := Elf32_Rela.r_offset_off
  offsetW := Elf32_Rela.r_offset_w
  infoOff := Elf32_Rela.r_info_off
  infoW := Elf32_Rela.r_info_w
  addendOff := Elf32_Rela.r_addend_off
  addendW := Elf32_Rela.r_addend_w
  hasAddend := true
  entsizeSmall := reloc_getrela32_entsize_small
  getOff := reloc_getrela32_off
  setOff := reloc_setrela32_off
  setSmall := reloc_setrela32_entsize_small
  setNodata := reloc_setrela32_nodata
  getOffset := fun v => reloc_getrela32_offset (BitVec.ofNat 32 v)
  getTmp := fun v => reloc_getrela32_tmp (BitVec.ofNat 32 v)
  rSym := fun t => reloc_getrela32_symbol (rela32_r_sym t)
  rType := fun t => reloc_getrela32_type (rela32_r_type t)
  getAddend := fun v => reloc_getrela32_addend (BitVec.ofNat 32 v)
  setIs32 := reloc_setrela32_is32
  setInfo32 := fun s t => (reloc_setrela32_info_c32 s t).toNat
  setInfo64 := fun s t => (reloc_setrela32_info_c64 s t).toNat
  setOffset := fun o => (reloc_setrela32_offset o).toNat
  setAddend := fun a => (reloc_setrela32_addend a).toNat
  addOffset := fun o => (reloc_addrela32_offset o).toNat
  addInfo := fun i => (reloc_addrela32_info i).toNat
  addAddend := fun a => (reloc_addrela32_addend a).toNat
  addSize := reloc_addrela32_size

def ops64rel : RecOps where
  size := sizeof_Elf64_Rel
  offsetOff := Elf64_Rel.r_offset_off
  offsetW := Elf64_Rel.r_offset_w
  infoOff := Elf64_Rel.r_info_off
  infoW := Elf64_Rel.r_info_w
  addendOff := 0
  addendW := 0
  hasAddend := false
  entsizeSmall := reloc_getrel64_entsize_small
  getOff := reloc_getrel64_off
  setOff := reloc_setrel64_off
  setSmall := reloc_setrel64_entsize_small
  setNodata := reloc_setrel64_nodata
  getOffset := fun v => reloc_getrel64_offset (BitVec.ofNat 64 v)
  getTmp := fun v => reloc_getrel64_tmp (BitVec.ofNat 64 v)
  rSym := fun t => reloc_getrel64_symbol (rel64_r_sym t)
  rType := fun t => reloc_getrel64_type (rel64_r_type t)
  getAddend := fun _ => reloc_getrel64_addend
  setIs32 := reloc_setrel64_is32
  setInfo32 := fun s t => (reloc_setrel64_info_c32 s t).toNat
  setInfo64 := fun s t => (reloc_setrel64_info_c64 s t).toNat
  setOffset := fun o => (reloc_setrel64_offset o).toNat
  setAddend := fun _ => 0
  addOffset := fun o => (reloc_addrel64_offset o).toNat
  addInfo := fun i => (reloc_addrel64_info i).toNat
  addAddend := fun _ => 0
  addSize := reloc_addrel64_size

def ops64rela : RecOps where
  size := sizeof_Elf64_Rela
  offsetOff := Elf64_Rela.r_offset_off
  offsetW := Elf64_Rela.r_offset_w
  infoOff := Elf64_Rela.r_info_off
  infoW := Elf64_Rela.r_info_w
  addendOff := Elf64_Rela.r_addend_off
  addendW := Elf64_Rela.r_addend_w
  hasAddend := true
  entsizeSmall := reloc_getrela64_entsize_small
  getOff := reloc_getrela64_off
  setOff := reloc_setrela64_off
  setSmall := reloc_setrela64_entsize_small
  setNodata := reloc_setrela64_nodata
  getOffset := fun v => reloc_getrela64_offset (BitVec.ofNat 64 v)
  getTmp := fun v => reloc_getrela64_tmp (BitVec.ofNat 64 v)
  rSym := fun t => reloc_getrela64_symbol (rela64_r_sym t)
  rType := fun t => reloc_getrela64_type (rela64_r_type t)
  getAddend := fun v => reloc_getrela64_addend (BitVec.ofNat 64 v)
  setIs32 := reloc_setrela64_is32
  setInfo32 := fun s t => (reloc_setrela64_info_c32 s t).toNat
  setInfo64 := fun s t => (reloc_setrela64_info_c64 s t).toNat
  setOffset := fun o => (reloc_setrela64_offset o).toNat
  setAddend := fun a => (reloc_setrela64_addend a).toNat
  addOffset := fun o => (reloc_addrela64_offset o).toNat
  addInfo := fun i => (reloc_addrela64_info i).toNat
  addAddend := fun a => (reloc_addrela64_addend a).toNat
  addSize := reloc_addrela64_size

/-- `elf_file.get_class()` -/
def classByte : Cls → BitVec 8
  | .c32 => BitVec.ofNat 8 ELFCLASS32
  | .c64 => BitVec.ofNat 8 ELFCLASS64

/-- the value `get_entries_num()` computes -/
def entriesNumV (b : SecBuf) : BitVec 64 :=
  if reloc_num_entsize_nz b.entSize then reloc_num_div b.size b.entSize else reloc_num_init

/-- `get_entries_num()`; the division is checked -/
def entriesNum (b : SecBuf) : M (BitVec 64) :=
  if reloc_num_entsize_nz b.entSize then
    if b.entSize = 0 then throw (.divZero "get_entries_num") else pure (reloc_num_div b.size b.entSize)
  else pure reloc_num_init

/-- `generic_get_entry_rel<T>` / `generic_get_entry_rela<T>` -/
def getGeneric (ops : RecOps) (enc : Enc) (b : SecBuf) (index : BitVec 64) : M (SecBuf × Option Entry) :=
  if ops.entsizeSmall b.entSize then pure (b, none) else
  let b := b.getData
  let off := (ops.getOff index b.entSize).toNat
  do
    let o ← rdRange "get_entry/r_offset" b.data (off + ops.offsetOff) ops.offsetW
    let i ← rdRange "get_entry/r_info" b.data (off + ops.infoOff) ops.infoW
    let a ← if ops.hasAddend then rdRange "get_entry/r_addend" b.data (off + ops.addendOff) ops.addendW
            else pure []
    let tmp := ops.getTmp (rdField enc i)
    pure (b, some { offset := ops.getOffset (rdField enc o), symbol := ops.rSym tmp, type := ops.rType tmp,
                    addend := ops.getAddend (rdField enc a) })

/-- `get_entry(index, offset, symbol, type, addend)`; `none` = returned false (out-params untouched) -/
def getEntry (enc : Enc) (b : SecBuf) (index : BitVec 64) : M (SecBuf × Option Entry) := do
  let n ← entriesNum b
  if reloc_get_idx_oob index n then pure (b, none) else
  if reloc_get_is32 (classByte b.cls) then
    if reloc_get_is_rel32 b.stype then getGeneric ops32rel enc b index
    else if reloc_get_is_rela32 b.stype then getGeneric ops32rela enc b index
    else pure (b, none)
  else
    if reloc_get_is_rel64 b.stype then getGeneric ops64rel enc b index
    else if reloc_get_is_rela64 b.stype then getGeneric ops64rela enc b index
    else pure (b, none)

/-- the member writes of `generic_set_entry_rel<T>` / `generic_set_entry_rela<T>`: each field is assigned
    (narrowed) and then converted in place — as bytes, one `wrField` per field, in the order of the first
    assignments. -/
def setWrites (ops : RecOps) (enc : Enc) (b : SecBuf) (index : BitVec 64) (e : Entry) : M SecBuf :=
  let b := b.getData
  let off := (ops.setOff index b.entSize).toNat
  let info := if ops.setIs32 (classByte b.cls) then ops.setInfo32 e.symbol e.type
              else ops.setInfo64 e.symbol e.type
  do
    let d ← wrRange "set_entry/r_info" b.data (off + ops.infoOff) (wrField enc ops.infoW info)
    let d ← wrRange "set_entry/r_offset" d (off + ops.offsetOff) (wrField enc ops.offsetW (ops.setOffset e.offset))
    let d ← if ops.hasAddend then
              wrRange "set_entry/r_addend" d (off + ops.addendOff) (wrField enc ops.addendW (ops.setAddend e.addend))
            else pure d
    pure { b with data := d }

/-- `generic_set_entry_rel<T>` / `generic_set_entry_rela<T>` : since fixes/21 behind the same two guards
    as the getters (entry size below `sizeof(T)`; no data) -/
def setGeneric (ops : RecOps) (enc : Enc) (b : SecBuf) (index : BitVec 64) (e : Entry) : M SecBuf :=
  if ops.setSmall b.entSize then pure b else
  if ops.setNodata b.getData.data.isNone then pure b.getData else
  setWrites ops enc b index e

/-- `set_entry(index, offset, symbol, type, addend)` and its return value -/
def setEntry (enc : Enc) (b : SecBuf) (index : BitVec 64) (e : Entry) : M (SecBuf × Bool) := do
  let n ← entriesNum b
  if reloc_set_idx_oob index n then pure (b, false) else
  if reloc_set_is32 (classByte b.cls) then
    if reloc_set_is_rel32 b.stype then do let b ← setGeneric ops32rel enc b index e; pure (b, true)
    else if reloc_set_is_rela32 b.stype then do let b ← setGeneric ops32rela enc b index e; pure (b, true)
    else pure (b, true)
  else
    if reloc_set_is_rel64 b.stype then do let b ← setGeneric ops64rel enc b index e; pure (b, true)
    else if reloc_set_is_rela64 b.stype then do let b ← setGeneric ops64rela enc b index e; pure (b, true)
    else pure (b, true)

/-- the local `T entry;` of `generic_add_entry<T>` after its assignments and conversions:
    `sizeof(T)` bytes with the fields at their offsets -/
def buildRec (ops : RecOps) (enc : Enc) (fo fi fa : Nat) : Bytes :=
  let r := wr (alloc ops.size) ops.offsetOff (wrField enc ops.offsetW fo)
  let r := wr r ops.infoOff (wrField enc ops.infoW fi)
  if ops.hasAddend then wr r ops.addendOff (wrField enc ops.addendW fa) else r

/-- `generic_add_entry<T>(offset, info[, addend])` -/
def addGeneric (ops : RecOps) (enc : Enc) (b : SecBuf) (offset info addend : BitVec 64) : M SecBuf := do
  let entry := buildRec ops enc (ops.addOffset offset) (ops.addInfo info) (ops.addAddend addend)
  let raw ← rdRange "add_entry/entry" (some entry) 0 ops.addSize.toNat
  b.appendData raw

/-- `add_entry(offset, info)` -/
def addRelInfo (enc : Enc) (b : SecBuf) (offset info : BitVec 64) : M SecBuf :=
  if reloc_addrel_info_is32 (classByte b.cls) then addGeneric ops32rel enc b offset info 0
  else addGeneric ops64rel enc b offset info 0

/-- `add_entry(offset, symbol, type)` -/
def addRel (enc : Enc) (b : SecBuf) (offset : BitVec 64) (symbol type : BitVec 32) : M SecBuf :=
  let info := if reloc_addrel_is32 (classByte b.cls) then reloc_addrel_pack32 symbol type
              else reloc_addrel_pack64 symbol type
  addRelInfo enc b offset info

/-- `add_entry(offset, info, addend)` -/
def addRelaInfo (enc : Enc) (b : SecBuf) (offset info addend : BitVec 64) : M SecBuf :=
  if reloc_addrela_info_is32 (classByte b.cls) then addGeneric ops32rela enc b offset info addend
  else addGeneric ops64rela enc b offset info addend

/-- `add_entry(offset, symbol, type, addend)` -/
def addRela (enc : Enc) (b : SecBuf) (offset : BitVec 64) (symbol type : BitVec 32) (addend : BitVec 64) :
    M SecBuf :=
  let info := if reloc_addrela_is32 (classByte b.cls) then reloc_addrela_pack32 symbol type
              else reloc_addrela_pack64 symbol type
  addRelaInfo enc b offset info addend

/-- one iteration of the loop body of `swap_symbols`; `cur` are the local variables
    `offset, symbol, rtype, addend`, which keep their values when `get_entry` returns false -/
def swapBody (enc : Enc) (first second : BitVec 64) (b : SecBuf) (i : BitVec 32) (cur : Entry) :
    M (SecBuf × Entry) := do
  let (b, r) ← getEntry enc b (reloc_swap_idx_get i)
  let cur := r.getD cur
  let b ← if reloc_swap_eq_first cur.symbol first then do
            let (b, _) ← setEntry enc b (reloc_swap_idx_set1 i) { cur with symbol := reloc_swap_arg_second second }
            pure b
          else pure b
  let b ← if reloc_swap_eq_second cur.symbol second then do
            let (b, _) ← setEntry enc b (reloc_swap_idx_set2 i) { cur with symbol := reloc_swap_arg_first first }
            pure b
          else pure b
  pure (b, cur)

/-- `for ( Elf_Word i = 0; i < get_entries_num(); i++ )` with fuel -/
def swapLoop (enc : Enc) (first second : BitVec 64) : Nat → SecBuf → BitVec 32 → Entry → M SecBuf
  | 0, _, _, _ => throw (.fuel "swap_symbols")
  | fuel + 1, b, i, cur => do
    let n ← entriesNum b
    if !(reloc_swap_loop_cond i n) then pure b else do
      let (b, cur) ← swapBody enc first second b i cur
      swapLoop enc first second fuel b (reloc_swap_i_incr i) cur

/-- `swap_symbols(first, second)`; the fuel suffices whenever the entry count is below 2^32
    (with more entries the 32-bit loop variable wraps and the C++ loop does not end) -/
def swapSymbols (enc : Enc) (b : SecBuf) (first second : BitVec 64) : M SecBuf :=
  swapLoop enc first second ((entriesNumV b).toNat + 1) b reloc_swap_i_init
    { offset := reloc_swap_init_offset, symbol := reloc_swap_init_symbol, type := reloc_swap_init_rtype,
      addend := reloc_swap_init_addend }

end Reloc
end ElfioVerif
