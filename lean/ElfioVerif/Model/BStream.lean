/-
Buffered output stream (`std::ofstream` = `std::ostream` over a `std::basic_filebuf`), at the level the
file-name overload `elfio::save(const std::string&)` needs (C16).

The *device* is the unbuffered stream of Model/OStream.lean (content, device position, optional byte
budget = the size the file may reach: ENOSPC / RLIMIT_FSIZE cut the crossing `write(2)` short; `dev.fail`
is the stream's failbit/badbit).  In front of it sits the *put area*: `pend` are bytes the program has
written but the device has not seen; they belong at device offset `dev.pos`.  A rejected write is therefore
reported LATE: only when the put area is handed to the device — at an overflow, at a seek (libstdc++'s
`basic_filebuf::seekoff/seekpos` call `_M_terminate_output`, which flushes the put area first; when that
fails the seek fails and `ostream::seekp` sets failbit) or at `flush()` (`sync()`; a failure sets badbit).

`write` mirrors libstdc++'s `basic_filebuf::xsputn` (fstream.tcc): with `avail` = free room of the put
area and `limit = min chunk avail` (`chunk` = 1024 there), a request shorter than `limit` is copied into the
put area; any other request is handed to the device together with the put area in one `writev`
(`_M_convert_to_external`/`__basic_file::xsputn_2`), a short device write makes `xsputn` return short and
`ostream::write` sets badbit.  `cap = 0` (`pubsetbuf(0,0)`) is the unbuffered stream.
`seekp` keeps the string-stream rule of Model/OStream.lean (a position beyond the end fails); on a real
file such a seek succeeds — the writer never relies on it (`adjust_stream_size` zero-fills first), and the
theorems of Props/C16Buffered.lean are stated against the same rule on both sides.
-/
import ElfioVerif.Model.OStream
import ElfioVerif.Model.Writer
namespace ElfioVerif

structure BStream where
  /-- the file as the operating system sees it; `dev.pos` = offset of the put area in the file -/
  dev : OStream := {}
  /-- the put area: bytes accepted from the program, not yet handed to the device -/
  pend : Bytes := []
  /-- size of the put area (`BUFSIZ - 1` in libstdc++) -/
  cap : Nat := 8191
  /-- `xsputn` hands requests of at least this size directly to the device -/
  chunk : Nat := 1024
  deriving Repr, Inhabited

namespace BStream

/-- a fresh buffered stream over the device `d` -/
def onDevice (d : OStream) (cap chunk : Nat) : BStream := { dev := d, cap := cap, chunk := chunk }

/-- `fail()` of the stream (failbit or badbit) -/
def fail (b : BStream) : Bool := b.dev.fail

/-- the put area goes to the device (`overflow`/`_M_terminate_output`/`sync`) -/
def sync (b : BStream) : BStream := { b with dev := b.dev.write b.pend, pend := [] }

/-- `write(p, n)` -/
def write (b : BStream) (bs : Bytes) : BStream :=
  if b.dev.fail then b
  else if bs.length < min b.chunk (b.cap - b.pend.length) then { b with pend := b.pend ++ bs }
  else { b with dev := b.dev.write (b.pend ++ bs), pend := [] }

/-- `seekp(pos)`: the put area is flushed first -/
def seekp (b : BStream) (p : Int) : BStream :=
  if b.dev.fail then b else { b with dev := (b.dev.write b.pend).seekp p, pend := [] }

def seekEnd (b : BStream) : BStream :=
  if b.dev.fail then b else { b with dev := (b.dev.write b.pend).seekEnd, pend := [] }

/-- `tellp()`: computed from the device position and the fill of the put area, nothing is flushed -/
def tellp (b : BStream) : Int := if b.dev.fail then -1 else Int.ofNat (b.dev.pos + b.pend.length)

/-- `adjust_stream_size(stream, offset)` -/
def adjust (b : BStream) (offset : Int) : BStream :=
  let b := b.seekEnd
  let b := if b.tellp < offset then b.write (List.replicate (offset - b.tellp).toNat 0) else b
  b.seekp offset

/-- `flush()` -/
def flush (b : BStream) : BStream := if b.dev.fail then b else b.sync

end BStream

/-- a stream operation of the write phase of `save` on a buffered stream -/
def StreamOp.runB (b : BStream) : StreamOp → BStream
  | .seekp p => b.seekp p
  | .write bs => b.write bs
  | .adjust off => b.adjust off

def runStreamOpsB (ops : List StreamOp) (b : BStream) : BStream := ops.foldl StreamOp.runB b

end ElfioVerif
