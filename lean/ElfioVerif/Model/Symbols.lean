/-
Model of `symbol_section_accessor_template` (elfio_symbols.hpp) together with the part of
`string_section_accessor_template` it uses (elfio_strings.hpp), over the section model `SecBuf`.

* every guard, index/offset computation, truncation and the `ELF_ST_*` macro uses are the
  *generated* expressions of Gen/SitesC09.lean; the hash functions are Gen/Funcs.lean;
* record members are read/written with `rdField`/`wrField` (host struct + `convertor`) at the
  *generated* offsets of Gen/Layout.lean;
* every raw pointer access is a checked `rdRange` (so the hash walks, which trust the table,
  can fault in the model exactly where the C++ leaves its buffers);
* the out-parameters of the C++ are threaded explicitly (`Attrs`, and the `std::string` that
  receives the name), because the hash walks overwrite them even when they fail.
-/
import ElfioVerif.Model.SecBuf
import ElfioVerif.Model.Field
import ElfioVerif.Gen.SitesC09
namespace ElfioVerif
open Gen

/-- the pointer `section::get_data()` hands to an accessor (lazy sections load on demand) -/
def secData (s : SecBuf) : Option Bytes := s.getData.data

/-- out-parameters `value, size, bind, type, section_index, other` -/
structure Attrs where
  value : BitVec 64 := 0
  size : BitVec 64 := 0
  bind : BitVec 8 := 0
  typ : BitVec 8 := 0
  shndx : BitVec 16 := 0
  other : BitVec 8 := 0
  deriving DecidableEq, Repr, Inhabited

/-- what a `symbol_section_accessor` sees: the class/encoding of the file, the symbol section,
    `elf_file.sections[get_string_table_index()]` (none: index out of range, `operator[]` gives
    nullptr) and the hash section found by `find_hash_section` (none: `hash_section_index == 0`). -/
structure SymTab where
  cfg : Cfg
  sym : SecBuf
  str : Option SecBuf
  hash : Option SecBuf
  deriving Repr

namespace SymTab

def c32 (t : SymTab) : Bool := t.cfg.cls == .c32

/-! ### strings -/

/-- the C string at the start of `bs` (`none`: no terminator inside `bs`) -/
def cstr (bs : Bytes) : Option Bytes :=
  if bs.contains 0 then some (bs.takeWhile (· ≠ 0)) else none

/-- `string_section_accessor::get_string(index)`; `none` = nullptr.  `memchr` reads up to the
    first NUL, or all `remaining_size` bytes. -/
def getString (sec : Option SecBuf) (index : BitVec 32) : M (Option Bytes) :=
  match sec with
  | none => pure none
  | some s =>
    let data := secData s
    if str_get_oob index s.size data.isNone then pure none else
    let remaining := symstr_get_remaining s.size index
    if symstr_get_underflow remaining s.size then pure none else
    match data with
    | none => pure none
    | some d =>
      let avail := slice d index.toNat remaining.toNat
      match cstr avail with
      | some str => pure (some str)
      | none => if avail.length < remaining.toNat then throw (.oobRead "get_string/memchr") else pure none

/-- `add_string` after the seeding step: `current_position = pos`, append `str` + NUL -/
def addStringAt (s : SecBuf) (pos : BitVec 32) (str : Bytes) : M (SecBuf × BitVec 32) :=
  let strLen := BitVec.ofNat 64 str.length
  if symstr_add_too_long strLen then pure (s, 0) else
  let appendSize := symstr_add_append_size strLen
  if str_add_overflow appendSize pos then pure (s, 0) else
  (rdRange "add_string/str" (some (str ++ [0])) 0 appendSize.toNat) >>= fun src =>
  (s.appendData src) >>= fun s2 => pure (s2, pos)

/-- `string_section_accessor::add_string(const char*)` on a non-null section, `str` without NUL:
    an empty section first receives the leading NUL -/
def addString (s : SecBuf) (str : Bytes) : M (SecBuf × BitVec 32) :=
  let pos := str_add_pos s.size
  if str_add_seed_cond pos then (s.appendData [0]) >>= fun s' => addStringAt s' (pos + 1) str
  else addStringAt s pos str

/-! ### records -/

def symSizeOf (c : Cls) : Nat :=
  match c with | .c32 => sizeof_Elf32_Sym | .c64 => sizeof_Elf64_Sym

/-- the members of one entry as the getters deliver them (after `convertor`) -/
structure RawSym where
  name : BitVec 32
  value : BitVec 64
  size : BitVec 64
  info : BitVec 8
  other : BitVec 8
  shndx : BitVec 16
  deriving DecidableEq, Repr, Inhabited

def fld (e : Enc) (rec : Bytes) (off w : Nat) : Nat := rdField e (slice rec off w)

/-- read the members of `*pSym` (`rec` = the `sizeof(T)` bytes at `pSym`): the field after `convertor`
    (`rdField`) goes through the *generated* conversion to the type of the out-parameter / argument
    (`symNN_get_value` … : zero extension of the 32-bit members of `Elf32_Sym`) -/
def decodeRaw (c : Cfg) (rec : Bytes) : RawSym :=
  match c.cls with
  | .c32 =>
    { name := sym32_get_name_idx (BitVec.ofNat 32 (fld c.enc rec Elf32_Sym.st_name_off Elf32_Sym.st_name_w))
      value := sym32_get_value (BitVec.ofNat 32 (fld c.enc rec Elf32_Sym.st_value_off Elf32_Sym.st_value_w))
      size := sym32_get_size (BitVec.ofNat 32 (fld c.enc rec Elf32_Sym.st_size_off Elf32_Sym.st_size_w))
      info := BitVec.ofNat 8 (fld c.enc rec Elf32_Sym.st_info_off Elf32_Sym.st_info_w)
      other := sym32_get_other (BitVec.ofNat 8 (fld c.enc rec Elf32_Sym.st_other_off Elf32_Sym.st_other_w))
      shndx := sym32_get_shndx (BitVec.ofNat 16 (fld c.enc rec Elf32_Sym.st_shndx_off Elf32_Sym.st_shndx_w)) }
  | .c64 =>
    { name := sym64_get_name_idx (BitVec.ofNat 32 (fld c.enc rec Elf64_Sym.st_name_off Elf64_Sym.st_name_w))
      value := sym64_get_value (BitVec.ofNat 64 (fld c.enc rec Elf64_Sym.st_value_off Elf64_Sym.st_value_w))
      size := sym64_get_size (BitVec.ofNat 64 (fld c.enc rec Elf64_Sym.st_size_off Elf64_Sym.st_size_w))
      info := BitVec.ofNat 8 (fld c.enc rec Elf64_Sym.st_info_off Elf64_Sym.st_info_w)
      other := sym64_get_other (BitVec.ofNat 8 (fld c.enc rec Elf64_Sym.st_other_off Elf64_Sym.st_other_w))
      shndx := sym64_get_shndx (BitVec.ofNat 16 (fld c.enc rec Elf64_Sym.st_shndx_off Elf64_Sym.st_shndx_w)) }

/-- `T entry; entry.FIELD = convertor(FIELD)…` : the bytes of the host struct -/
def entryBytes (c : Cfg) (name : BitVec 32) (value size : BitVec 64) (info other : BitVec 8)
    (shndx : BitVec 16) : Bytes :=
  match c.cls with
  | .c32 =>
    let b := alloc sizeof_Elf32_Sym
    let b := wr b Elf32_Sym.st_name_off (wrField c.enc Elf32_Sym.st_name_w name.toNat)
    let b := wr b Elf32_Sym.st_value_off (wrField c.enc Elf32_Sym.st_value_w (sym32_add_value_trunc value).toNat)
    let b := wr b Elf32_Sym.st_size_off (wrField c.enc Elf32_Sym.st_size_w (sym32_add_size_trunc size).toNat)
    let b := wr b Elf32_Sym.st_info_off (wrField c.enc Elf32_Sym.st_info_w info.toNat)
    let b := wr b Elf32_Sym.st_other_off (wrField c.enc Elf32_Sym.st_other_w other.toNat)
    wr b Elf32_Sym.st_shndx_off (wrField c.enc Elf32_Sym.st_shndx_w shndx.toNat)
  | .c64 =>
    let b := alloc sizeof_Elf64_Sym
    let b := wr b Elf64_Sym.st_name_off (wrField c.enc Elf64_Sym.st_name_w name.toNat)
    let b := wr b Elf64_Sym.st_value_off (wrField c.enc Elf64_Sym.st_value_w (sym64_add_value_trunc value).toNat)
    let b := wr b Elf64_Sym.st_size_off (wrField c.enc Elf64_Sym.st_size_w (sym64_add_size_trunc size).toNat)
    let b := wr b Elf64_Sym.st_info_off (wrField c.enc Elf64_Sym.st_info_w info.toNat)
    let b := wr b Elf64_Sym.st_other_off (wrField c.enc Elf64_Sym.st_other_w other.toNat)
    wr b Elf64_Sym.st_shndx_off (wrField c.enc Elf64_Sym.st_shndx_w shndx.toNat)

/-! ### count, access by index -/

/-- `elf_file.get_class()` of an object of class `c` -/
def classByte (c : Cls) : BitVec 8 := BitVec.ofNat 8 (match c with | .c32 => ELFCLASS32 | .c64 => ELFCLASS64)

/-- `elf_file.get_class()` as the byte the generated class tests compare with -/
def clsByte (c : Cls) : BitVec 8 :=
  match c with
  | .c32 => BitVec.ofNat 8 ELFCLASS32
  | .c64 => BitVec.ofNat 8 ELFCLASS64

/-- the class of the `T` in `generic_*<T>` that a class test `elf_file.get_class() == ELFCLASS32` with
    outcome `is32` selects -/
def clsOf (is32 : Bool) : Cls := if is32 then .c32 else .c64

/-- `get_symbols_num()` after `minimum_symbol_size` was chosen -/
def symbolsNumWith (t : SymTab) (minSz : BitVec 64) : M (BitVec 64) :=
  if sym_num_cond t.sym.entSize minSz t.sym.size t.sym.streamSize then
    if t.sym.entSize = 0 then throw (.divZero "get_symbols_num")
    else pure (sym_num_div t.sym.size t.sym.entSize)
  else pure 0

/-- `get_symbols_num()` : `switch ( elf_file.get_class() )` selects the label group by the generated
    comparisons (`sym_num_class`: 0 = `case ELFCLASS32`, 1 = `case ELFCLASS64`, else `default: return nRet`) -/
def symbolsNum (t : SymTab) : M (BitVec 64) :=
  match sym_num_class (classByte t.cfg.cls) with
  | 0 => symbolsNumWith t sym_num_min32
  | 1 => symbolsNumWith t sym_num_min64
  | _ => pure 0

/-- the `index < get_symbols_num()` operand (not evaluated when the data pointer is null) -/
def guardNum (t : SymTab) (data : Option Bytes) : M (BitVec 64) :=
  if data.isNone then pure 0 else t.symbolsNum

def attrsOfT (is32 : Bool) (r : RawSym) : Attrs :=
  { value := r.value, size := r.size,
    bind := if is32 then sym32_get_bind r.info else sym64_get_bind r.info,
    typ := if is32 then sym32_get_type r.info else sym64_get_type r.info,
    shndx := r.shndx, other := r.other }

def attrsOf (t : SymTab) (r : RawSym) : Attrs := attrsOfT t.c32 r

/-- `generic_get_symbol<T>(index, name, value, size, bind, type, section_index, other)` with `T = Elf32_Sym` iff
    `is32`; `(str, a)` are the current contents of the out-parameters. -/
def getSymbolT (is32 : Bool) (t : SymTab) (index : BitVec 64) (str : Bytes) (a : Attrs) : M (Bool × Bytes × Attrs) :=
  let data := secData t.sym
  (t.guardNum data) >>= fun n =>
  if (if is32 then sym32_get_guard data.isNone index n else sym64_get_guard data.isNone index n) then
    let off := if is32 then sym32_get_off index t.sym.entSize else sym64_get_off index t.sym.entSize
    (rdRange "get_symbol/pSym" data off.toNat (symSizeOf (clsOf is32))) >>= fun rec =>
    let r := decodeRaw ⟨clsOf is32, t.cfg.enc⟩ rec
    (getString t.str r.name) >>= fun pStr =>
    let nameOk := if is32 then sym32_get_name_ok pStr.isNone else sym64_get_name_ok pStr.isNone
    pure (true, if nameOk then pStr.getD str else str, attrsOfT is32 r)
  else pure (false, str, a)

/-- `get_symbol(index, name, value, size, bind, type, section_index, other)` : the (generated) class test
    chooses the instantiation of `generic_get_symbol<T>` -/
def getSymbol (t : SymTab) (index : BitVec 64) (str : Bytes) (a : Attrs) : M (Bool × Bytes × Attrs) :=
  getSymbolT (sym_get_is32 (clsByte t.cfg.cls)) t index str a

/-! ### adding -/

/-- `generic_add_symbol<T>` with `T = Elf32_Sym` iff `is32` (the outcome of the caller's
    `elf_file.get_class() == ELFCLASS32`); the convertor is that of the file -/
def genericAddSymbolT (is32 : Bool) (t : SymTab) (name : BitVec 32) (value size : BitVec 64) (info other : BitVec 8)
    (shndx : BitVec 16) : M (SymTab × BitVec 32) :=
  let e := entryBytes ⟨if is32 then .c32 else .c64, t.cfg.enc⟩ name value size info other shndx
  let len := if is32 then sym32_add_len else sym64_add_len
  (rdRange "add_symbol/entry" (some e) 0 len.toNat) >>= fun src =>
  (t.sym.appendData src) >>= fun s =>
  pure ({ t with sym := s }, if is32 then sym32_add_ret s.size else sym64_add_ret s.size)

/-- `generic_add_symbol<T>` for the `T` of the file's class -/
def genericAddSymbol (t : SymTab) (name : BitVec 32) (value size : BitVec 64) (info other : BitVec 8)
    (shndx : BitVec 16) : M (SymTab × BitVec 32) :=
  genericAddSymbolT t.c32 t name value size info other shndx

/-- `add_symbol(name, value, size, info, other, shndx)` : seeds the null symbol first; both calls of
    `generic_add_symbol<T>` choose `T` by their own (generated) class test -/
def addSymbol (t : SymTab) (name : BitVec 32) (value size : BitVec 64) (info other : BitVec 8)
    (shndx : BitVec 16) : M (SymTab × BitVec 32) :=
  (if sym_add_seed_cond t.sym.size then
     (genericAddSymbolT (sym_add_seed_is32 (clsByte t.cfg.cls)) t 0 0 0 0 0 0) >>= fun (t', _) => pure t'
   else pure t) >>= fun t1 =>
  genericAddSymbolT (sym_add_is32 (clsByte t1.cfg.cls)) t1 name value size info other shndx

/-- `add_symbol(name, value, size, bind, type, other, shndx)` -/
def addSymbolBT (t : SymTab) (name : BitVec 32) (value size : BitVec 64) (bind typ other : BitVec 8)
    (shndx : BitVec 16) : M (SymTab × BitVec 32) :=
  t.addSymbol name value size (sym_st_info bind typ) other shndx

/-- `add_symbol(pStrWriter, str, value, size, bind, type, other, shndx)` with the writer bound to
    the linked string section -/
def addSymbolStr (t : SymTab) (str : Bytes) (value size : BitVec 64) (bind typ other : BitVec 8)
    (shndx : BitVec 16) : M (SymTab × BitVec 32) :=
  match t.str with
  | none => throw (.nullDeref "add_symbol/pStrWriter")
  | some s =>
    (addString s str) >>= fun (s', idx) =>
    { t with str := some s' }.addSymbol idx value size (sym_st_info_str bind typ) other shndx

/-! ### lookup by name -/

def rd32 (site : String) (e : Enc) (data : Option Bytes) (off : Nat) : M (BitVec 32) :=
  (rdRange site data off 4) >>= fun bs => pure (BitVec.ofNat 32 (rdField e bs))

def rd64 (site : String) (e : Enc) (data : Option Bytes) (off : Nat) : M (BitVec 64) :=
  (rdRange site data off 8) >>= fun bs => pure (BitVec.ofNat 64 (rdField e bs))

/-- `name.c_str()` as the byte list the hash functions walk -/
def cName (name : Bytes) : List (BitVec 8) := (name.takeWhile (· ≠ 0)).map (·.toBitVec)

/-- the `while ( str != name && STN_UNDEF != y && y < nchain )` loop of `hash_lookup` -/
def sysvLoop (t : SymTab) (data : Option Bytes) (name : Bytes) (nbucket nchain : BitVec 32) :
    Nat → BitVec 32 → Bytes → Attrs → M (Bytes × Attrs)
  | fuel, y, str, a =>
    if str != name && sysv_walk_not_undef y && sysv_walk_lt_nchain y nchain then
      match fuel with
      | 0 => throw (.fuel "hash_lookup")
      | k + 1 =>
        (rd32 "hash_lookup/chain" t.cfg.enc data (sysv_chain_off nbucket y).toNat) >>= fun y' =>
        (t.getSymbol (sysv_sym_index_walk y') str a) >>= fun r =>
        sysvLoop t data name nbucket nchain k y' r.2.1 r.2.2
    else pure (str, a)

/-- `hash_lookup` (SysV hash section `h`).  A chain that revisits an index keeps the C++ in the
    loop for ever; `nchain + 1` iterations without leaving it prove such a cycle (pigeonhole on
    `y < nchain`), which the model reports as `Fault.fuel`. -/
def hashLookup (t : SymTab) (h : SecBuf) (name : Bytes) (a : Attrs) : M (Bool × Attrs) :=
  let data := secData h
  (rd32 "hash_lookup/nbucket" t.cfg.enc data sysv_nbucket_off.toNat) >>= fun nbucket =>
  (rd32 "hash_lookup/nchain" t.cfg.enc data sysv_nchain_off.toNat) >>= fun nchain =>
  let val := elf_hash (cName name)
  if nbucket = 0 then throw (.divZero "hash_lookup/nbucket") else
  (rd32 "hash_lookup/bucket" t.cfg.enc data (sysv_bucket_off val nbucket).toNat) >>= fun y =>
  (t.getSymbol (sysv_sym_index y) [] a) >>= fun r =>
  if sysv_head_missing r.1 then pure (false, a) else     -- fix 09-hash-lookup-empty-name: no symbol at the bucket head
  (sysvLoop t data name nbucket nchain (nchain.toNat + 1) y r.2.1 r.2.2) >>= fun st =>
  pure (st.1 == name, st.2)

/-- the `while (true)` loop of `gnu_hash_lookup`; `sn` is `symname` (declared outside the loop) -/
def gnuLoopT (is32 : Bool) (t : SymTab) (data : Option Bytes) (name : Bytes) (hash symoffset : BitVec 32)
    (chainsBase : Nat) : Nat → BitVec 32 → BitVec 32 → Bytes → Attrs → M (Bool × Attrs)
  | 0, _, _, _, _ => throw (.fuel "gnu_hash_lookup")
  | k + 1, ci, ch, sn, a =>
    if !(if is32 then gnu32_loop_forever else gnu64_loop_forever) then pure (false, a) else
    let hm := if is32 then gnu32_hash_match ch hash else gnu64_hash_match ch hash
    (if hm then t.getSymbol (if is32 then gnu32_sym_index ci symoffset else gnu64_sym_index ci symoffset) sn a
     else pure (false, sn, a)) >>= fun r =>
    if (if is32 then gnu32_name_match_gate ch hash r.1 (name == r.2.1)
        else gnu64_name_match_gate ch hash r.1 (name == r.2.1)) then pure (true, r.2.2) else
    if (if is32 then gnu32_chain_end ch else gnu64_chain_end ch) then pure (false, r.2.2) else
    let ci' := if is32 then gnu32_chain_next ci else gnu64_chain_next ci
    (rd32 "gnu_hash_lookup/chain" t.cfg.enc data
      (chainsBase + (if is32 then gnu32_chain_elem_off_walk ci' else gnu64_chain_elem_off_walk ci').toNat)) >>= fun ch' =>
    gnuLoopT is32 t data name hash symoffset chainsBase k ci' ch' r.2.1 r.2.2

/-- `gnu_hash_lookup<T>` (`T = uint32_t` iff `is32`, else `uint64_t`).  The chain walk only
    moves forward through the buffer, so `length + 1` steps of fuel are never used up. -/
def gnuLookupT (is32 : Bool) (t : SymTab) (h : SecBuf) (name : Bytes) (a : Attrs) : M (Bool × Attrs) :=
  let data := secData h
  let e := t.cfg.enc
  (rd32 "gnu_hash_lookup/nbuckets" e data (if is32 then gnu32_nbuckets_off else gnu64_nbuckets_off).toNat) >>= fun nbuckets =>
  (rd32 "gnu_hash_lookup/symoffset" e data (if is32 then gnu32_symoffset_off else gnu64_symoffset_off).toNat) >>= fun symoffset =>
  (rd32 "gnu_hash_lookup/bloom_size" e data (if is32 then gnu32_bloom_size_off else gnu64_bloom_size_off).toNat) >>= fun bloomSize =>
  (rd32 "gnu_hash_lookup/bloom_shift" e data (if is32 then gnu32_bloom_shift_off else gnu64_bloom_shift_off).toNat) >>= fun bloomShift =>
  let hash := elf_gnu_hash (cName name)
  if bloomSize = 0 then throw (.divZero "gnu_hash_lookup/bloom_size") else
  let bloomBase := (if is32 then gnu32_bloom_off else gnu64_bloom_off).toNat
  (if is32 then
     (rd32 "gnu_hash_lookup/bloom" e data (bloomBase + (gnu32_bloom_elem_off (gnu32_bloom_index hash bloomSize)).toNat)) >>= fun w =>
     let bits := gnu32_bloom_bits hash bloomShift
     pure (!(gnu32_bloom_miss w bits))
   else
     (rd64 "gnu_hash_lookup/bloom" e data (bloomBase + (gnu64_bloom_elem_off (gnu64_bloom_index hash bloomSize)).toNat)) >>= fun w =>
     let bits := gnu64_bloom_bits hash bloomShift
     pure (!(gnu64_bloom_miss w bits))) >>= fun pass =>
  if !pass then pure (false, a) else
  if nbuckets = 0 then throw (.divZero "gnu_hash_lookup/nbuckets") else
  let bucket := if is32 then gnu32_bucket hash nbuckets else gnu64_bucket hash nbuckets
  let bucketsBase := bloomBase + (if is32 then gnu32_buckets_off bloomSize else gnu64_buckets_off bloomSize).toNat
  let chainsBase := bucketsBase + (if is32 then gnu32_chains_off nbuckets else gnu64_chains_off nbuckets).toNat
  (rd32 "gnu_hash_lookup/bucket" e data
    (bucketsBase + (if is32 then gnu32_bucket_elem_off bucket else gnu64_bucket_elem_off bucket).toNat)) >>= fun bv =>
  if (if is32 then gnu32_bucket_ok bv symoffset else gnu64_bucket_ok bv symoffset) then
    let ci := if is32 then gnu32_chain_start bv symoffset else gnu64_chain_start bv symoffset
    (rd32 "gnu_hash_lookup/chain" e data
      (chainsBase + (if is32 then gnu32_chain_elem_off ci else gnu64_chain_elem_off ci).toNat)) >>= fun ch =>
    gnuLoopT is32 t data name hash symoffset chainsBase ((data.getD []).length + 1) ci ch [] a
  else pure (false, a)

/-- the walk / `gnu_hash_lookup<T>` for the `T` of the file's class (what `get_symbol(name, …)` calls) -/
def gnuLoop (t : SymTab) (data : Option Bytes) (name : Bytes) (hash symoffset : BitVec 32)
    (chainsBase : Nat) (fuel : Nat) (ci ch : BitVec 32) (sn : Bytes) (a : Attrs) : M (Bool × Attrs) :=
  gnuLoopT t.c32 t data name hash symoffset chainsBase fuel ci ch sn a

def gnuLookup (t : SymTab) (h : SecBuf) (name : Bytes) (a : Attrs) : M (Bool × Attrs) :=
  gnuLookupT t.c32 t h name a

/-- the hash phase of `get_symbol(name, …)` -/
def hashPhase (t : SymTab) (name : Bytes) (a : Attrs) : M (Bool × Attrs) :=
  match t.hash with
  | none => pure (false, a)
  | some h =>
    (if sym_byname_is_sysv h.stype then t.hashLookup h name a else pure (false, a)) >>= fun r1 =>
    if sym_byname_is_gnu h.stype then
      gnuLookupT (sym_byname_gnu_is32 (clsByte t.cfg.cls)) t h name r1.2
    else pure r1

/-- the fallback `for ( i = 0; !ret && i < get_symbols_num(); i++ )` with a fresh `symbol_name`
    per iteration -/
def linearGo (t : SymTab) (name : Bytes) : Nat → BitVec 64 → Attrs → M (Bool × Attrs)
  | 0, _, a => pure (false, a)
  | k + 1, i, a =>
    (t.getSymbol i [] a) >>= fun r =>
    if sym_byname_hit r.1 (r.2.1 == name) then pure (true, r.2.2) else linearGo t name k (sym_byname_i_incr i) r.2.2

/-- `get_symbol(name, value, size, bind, type, section_index, other)` -/
def getByName (t : SymTab) (name : Bytes) (a : Attrs) : M (Bool × Attrs) :=
  (t.hashPhase name a) >>= fun r =>
  if sym_byname_linear r.1 then
    t.symbolsNum >>= fun n => linearGo t name n.toNat sym_byname_i_init r.2
  else pure r

/-! ### lookup by value -/

/-- `generic_get_symbol_ptr<T>(i)` followed by `convertor( sym->st_value )`; `none` = nullptr -/
def symPtrValueT (is32 : Bool) (t : SymTab) (i : BitVec 64) : M (Option (BitVec 64)) :=
  let data := secData t.sym
  (t.guardNum data) >>= fun n =>
  if (if is32 then sym32_ptr_guard data.isNone i n else sym64_ptr_guard data.isNone i n) then
    if (if is32 then sym32_ptr_small t.sym.entSize else sym64_ptr_small t.sym.entSize) then pure none else
    let off := if is32 then sym32_ptr_off i t.sym.entSize else sym64_ptr_off i t.sym.entSize
    let (fo, fw) := match clsOf is32 with
      | .c32 => (Elf32_Sym.st_value_off, Elf32_Sym.st_value_w)
      | .c64 => (Elf64_Sym.st_value_off, Elf64_Sym.st_value_w)
    (rdRange "search_symbols/st_value" data (off.toNat + fo) fw) >>= fun bs =>
    pure (some (BitVec.ofNat 64 (rdField t.cfg.enc bs)))
  else pure none

/-- the instantiation `get_symbol(value, …)` chooses by its (generated) class test -/
def symPtrValue (t : SymTab) (i : BitVec 64) : M (Option (BitVec 64)) :=
  symPtrValueT (sym_byvalue_is32 (clsByte t.cfg.cls)) t i

/-- `generic_search_symbols<T>` with the `st_value == value` predicate -/
def searchGo (t : SymTab) (value : BitVec 64) : Nat → BitVec 64 → M (Option (BitVec 64))
  | 0, _ => pure none
  | k + 1, i =>
    (t.symPtrValue i) >>= fun r =>
    match r with
    | none => pure none
    | some v => if v == value then pure (some i) else searchGo t value k (i + 1)

/-- `get_symbol(value, name, size, bind, type, section_index, other)`; the `value` member of the
    result keeps the caller's (it is not an out-parameter of this overload). -/
def getByValue (t : SymTab) (value : BitVec 64) (str : Bytes) (a : Attrs) : M (Bool × Bytes × Attrs) :=
  t.symbolsNum >>= fun n =>
  (searchGo t value n.toNat 0) >>= fun r =>
  match r with
  | none => pure (false, str, a)
  | some idx =>
    (t.getSymbol idx str a) >>= fun g => pure (g.1, g.2.1, { g.2.2 with value := a.value })

/-! ### construction -/

/-- a new file: `.symtab` (entry size = `get_default_entry_size(SHT_SYMTAB)`) linked to an empty
    `.strtab`, no hash section -/
def fresh (cfg : Cfg) : SymTab :=
  { cfg,
    sym := { SecBuf.fresh cfg.cls (BitVec.ofNat 32 SHT_SYMTAB) with entSize := BitVec.ofNat 64 (symSizeOf cfg.cls) },
    str := some (SecBuf.fresh cfg.cls (BitVec.ofNat 32 SHT_STRTAB)),
    hash := none }

end SymTab
end ElfioVerif
