/-
The `elfio` object: raw ELF header struct, sections (SecBuf), segments, the convertor's
setting, the address translator and the (lazily used) input stream.
Record decoding uses the generated layout (Gen/Layout.lean) and `rdField`.
-/
import ElfioVerif.Model.SecBuf
import ElfioVerif.Model.Field
import ElfioVerif.Model.IStream
import ElfioVerif.Gen.SitesLoad
namespace ElfioVerif
open Gen

structure Seg where
  stype : BitVec 32 := 0
  flags : BitVec 32 := 0
  offset : BitVec 64 := 0
  vaddr : BitVec 64 := 0
  paddr : BitVec 64 := 0
  filesz : BitVec 64 := 0
  memsz : BitVec 64 := 0
  align : BitVec 64 := 0
  index : Nat := 0
  secs : List (BitVec 16) := []      -- member section indices, in insertion order
  offsetSet : Bool := false
  data : Option Bytes := none
  isLazy : Bool := false
  isLoaded : Bool := false
  streamSize : BitVec 64 := 0
  deriving Repr, Inhabited

/-- one entry of the address translation table (signed stream positions) -/
structure Trans where
  start : Int
  size : Int
  mappedTo : Int
  deriving Repr, Inhabited

/-- `address_translator::operator[]` (the table is kept sorted by `start`) -/
def trApply (t : List Trans) (v : Int) : Int :=
  match t with
  | [] => v
  | _ =>
    match t.find? (fun e => decide (e.start ≤ v) && decide (v - e.start < e.size)) with
    | some e => v - e.start + e.mappedTo
    | none => v

structure Obj where
  cls : Cls := .c32
  enc : Enc := .lsb                -- what the convertor was set up for
  hdr : Option Bytes := none       -- raw header struct (none: header == nullptr)
  secs : List SecBuf := []
  segs : List Seg := []
  trans : List Trans := []
  curPos : BitVec 64 := 0
  stream : IStream := { data := [] }   -- the stream lazily loaded parts read from
  deriving Repr, Inhabited

def ehdrSize (c : Cls) : Nat := match c with | .c32 => sizeof_Elf32_Ehdr | .c64 => sizeof_Elf64_Ehdr
def shdrSize (c : Cls) : Nat := match c with | .c32 => sizeof_Elf32_Shdr | .c64 => sizeof_Elf64_Shdr
def phdrSize (c : Cls) : Nat := match c with | .c32 => sizeof_Elf32_Phdr | .c64 => sizeof_Elf64_Phdr

/-- a field of a raw record, as its getter returns it (widened to 64 bits) -/
def fld (enc : Enc) (rec : Bytes) (off w : Nat) : BitVec 64 :=
  BitVec.ofNat 64 (rdField enc (slice rec off w))

/-! ### ELF header getters (raw struct + convertor) -/
namespace Hdr
variable (c : Cls) (enc : Enc) (h : Bytes)
def ident (i : Nat) : BitVec 8 := BitVec.ofNat 8 ((h.getD i 0).toNat)
def e_type : BitVec 16 := (match c with
  | .c32 => fld enc h Elf32_Ehdr.e_type_off Elf32_Ehdr.e_type_w
  | .c64 => fld enc h Elf64_Ehdr.e_type_off Elf64_Ehdr.e_type_w).setWidth 16
def e_machine : BitVec 16 := (match c with
  | .c32 => fld enc h Elf32_Ehdr.e_machine_off Elf32_Ehdr.e_machine_w
  | .c64 => fld enc h Elf64_Ehdr.e_machine_off Elf64_Ehdr.e_machine_w).setWidth 16
def e_version : BitVec 32 := (match c with
  | .c32 => fld enc h Elf32_Ehdr.e_version_off Elf32_Ehdr.e_version_w
  | .c64 => fld enc h Elf64_Ehdr.e_version_off Elf64_Ehdr.e_version_w).setWidth 32
def e_entry : BitVec 64 := match c with
  | .c32 => fld enc h Elf32_Ehdr.e_entry_off Elf32_Ehdr.e_entry_w
  | .c64 => fld enc h Elf64_Ehdr.e_entry_off Elf64_Ehdr.e_entry_w
def e_phoff : BitVec 64 := match c with
  | .c32 => fld enc h Elf32_Ehdr.e_phoff_off Elf32_Ehdr.e_phoff_w
  | .c64 => fld enc h Elf64_Ehdr.e_phoff_off Elf64_Ehdr.e_phoff_w
def e_shoff : BitVec 64 := match c with
  | .c32 => fld enc h Elf32_Ehdr.e_shoff_off Elf32_Ehdr.e_shoff_w
  | .c64 => fld enc h Elf64_Ehdr.e_shoff_off Elf64_Ehdr.e_shoff_w
def e_flags : BitVec 32 := (match c with
  | .c32 => fld enc h Elf32_Ehdr.e_flags_off Elf32_Ehdr.e_flags_w
  | .c64 => fld enc h Elf64_Ehdr.e_flags_off Elf64_Ehdr.e_flags_w).setWidth 32
def e_ehsize : BitVec 16 := (match c with
  | .c32 => fld enc h Elf32_Ehdr.e_ehsize_off Elf32_Ehdr.e_ehsize_w
  | .c64 => fld enc h Elf64_Ehdr.e_ehsize_off Elf64_Ehdr.e_ehsize_w).setWidth 16
def e_phentsize : BitVec 16 := (match c with
  | .c32 => fld enc h Elf32_Ehdr.e_phentsize_off Elf32_Ehdr.e_phentsize_w
  | .c64 => fld enc h Elf64_Ehdr.e_phentsize_off Elf64_Ehdr.e_phentsize_w).setWidth 16
def e_phnum : BitVec 16 := (match c with
  | .c32 => fld enc h Elf32_Ehdr.e_phnum_off Elf32_Ehdr.e_phnum_w
  | .c64 => fld enc h Elf64_Ehdr.e_phnum_off Elf64_Ehdr.e_phnum_w).setWidth 16
def e_shentsize : BitVec 16 := (match c with
  | .c32 => fld enc h Elf32_Ehdr.e_shentsize_off Elf32_Ehdr.e_shentsize_w
  | .c64 => fld enc h Elf64_Ehdr.e_shentsize_off Elf64_Ehdr.e_shentsize_w).setWidth 16
def e_shnum : BitVec 16 := (match c with
  | .c32 => fld enc h Elf32_Ehdr.e_shnum_off Elf32_Ehdr.e_shnum_w
  | .c64 => fld enc h Elf64_Ehdr.e_shnum_off Elf64_Ehdr.e_shnum_w).setWidth 16
def e_shstrndx : BitVec 16 := (match c with
  | .c32 => fld enc h Elf32_Ehdr.e_shstrndx_off Elf32_Ehdr.e_shstrndx_w
  | .c64 => fld enc h Elf64_Ehdr.e_shstrndx_off Elf64_Ehdr.e_shstrndx_w).setWidth 16

/-- header struct as the `elf_header_impl` constructor leaves it -/
def create (encByte : Nat) : Bytes :=
  let z : Bytes := List.replicate (ehdrSize c) 0
  let idb : Bytes := [UInt8.ofNat ELFMAG0, UInt8.ofNat ELFMAG1, UInt8.ofNat ELFMAG2, UInt8.ofNat ELFMAG3,
    UInt8.ofNat (match c with | .c32 => ELFCLASS32 | .c64 => ELFCLASS64), UInt8.ofNat encByte,
    UInt8.ofNat EV_CURRENT]
  let z := wr z 0 idb
  match c with
  | .c32 =>
    let z := wr z Elf32_Ehdr.e_version_off (wrField enc 4 EV_CURRENT)
    let z := wr z Elf32_Ehdr.e_ehsize_off (wrField enc 2 sizeof_Elf32_Ehdr)
    let z := wr z Elf32_Ehdr.e_shstrndx_off (wrField enc 2 1)
    let z := wr z Elf32_Ehdr.e_phentsize_off (wrField enc 2 sizeof_Elf32_Phdr)
    wr z Elf32_Ehdr.e_shentsize_off (wrField enc 2 sizeof_Elf32_Shdr)
  | .c64 =>
    let z := wr z Elf64_Ehdr.e_version_off (wrField enc 4 EV_CURRENT)
    let z := wr z Elf64_Ehdr.e_ehsize_off (wrField enc 2 sizeof_Elf64_Ehdr)
    let z := wr z Elf64_Ehdr.e_shstrndx_off (wrField enc 2 1)
    let z := wr z Elf64_Ehdr.e_phentsize_off (wrField enc 2 sizeof_Elf64_Phdr)
    wr z Elf64_Ehdr.e_shentsize_off (wrField enc 2 sizeof_Elf64_Shdr)
end Hdr

/-- section header record -> the value fields of `SecBuf` -/
def decodeShdr (c : Cls) (enc : Enc) (r : Bytes) (b : SecBuf) : SecBuf :=
  match c with
  | .c32 => { b with
      nameOff := (fld enc r Elf32_Shdr.sh_name_off Elf32_Shdr.sh_name_w).setWidth 32
      stype := (fld enc r Elf32_Shdr.sh_type_off Elf32_Shdr.sh_type_w).setWidth 32
      flags := fld enc r Elf32_Shdr.sh_flags_off Elf32_Shdr.sh_flags_w
      addr := fld enc r Elf32_Shdr.sh_addr_off Elf32_Shdr.sh_addr_w
      offset := fld enc r Elf32_Shdr.sh_offset_off Elf32_Shdr.sh_offset_w
      size := fld enc r Elf32_Shdr.sh_size_off Elf32_Shdr.sh_size_w
      link := (fld enc r Elf32_Shdr.sh_link_off Elf32_Shdr.sh_link_w).setWidth 32
      info := (fld enc r Elf32_Shdr.sh_info_off Elf32_Shdr.sh_info_w).setWidth 32
      addrAlign := fld enc r Elf32_Shdr.sh_addralign_off Elf32_Shdr.sh_addralign_w
      entSize := fld enc r Elf32_Shdr.sh_entsize_off Elf32_Shdr.sh_entsize_w }
  | .c64 => { b with
      nameOff := (fld enc r Elf64_Shdr.sh_name_off Elf64_Shdr.sh_name_w).setWidth 32
      stype := (fld enc r Elf64_Shdr.sh_type_off Elf64_Shdr.sh_type_w).setWidth 32
      flags := fld enc r Elf64_Shdr.sh_flags_off Elf64_Shdr.sh_flags_w
      addr := fld enc r Elf64_Shdr.sh_addr_off Elf64_Shdr.sh_addr_w
      offset := fld enc r Elf64_Shdr.sh_offset_off Elf64_Shdr.sh_offset_w
      size := fld enc r Elf64_Shdr.sh_size_off Elf64_Shdr.sh_size_w
      link := (fld enc r Elf64_Shdr.sh_link_off Elf64_Shdr.sh_link_w).setWidth 32
      info := (fld enc r Elf64_Shdr.sh_info_off Elf64_Shdr.sh_info_w).setWidth 32
      addrAlign := fld enc r Elf64_Shdr.sh_addralign_off Elf64_Shdr.sh_addralign_w
      entSize := fld enc r Elf64_Shdr.sh_entsize_off Elf64_Shdr.sh_entsize_w }

def decodePhdr (c : Cls) (enc : Enc) (r : Bytes) (g : Seg) : Seg :=
  match c with
  | .c32 => { g with
      stype := (fld enc r Elf32_Phdr.p_type_off Elf32_Phdr.p_type_w).setWidth 32
      flags := (fld enc r Elf32_Phdr.p_flags_off Elf32_Phdr.p_flags_w).setWidth 32
      offset := fld enc r Elf32_Phdr.p_offset_off Elf32_Phdr.p_offset_w
      vaddr := fld enc r Elf32_Phdr.p_vaddr_off Elf32_Phdr.p_vaddr_w
      paddr := fld enc r Elf32_Phdr.p_paddr_off Elf32_Phdr.p_paddr_w
      filesz := fld enc r Elf32_Phdr.p_filesz_off Elf32_Phdr.p_filesz_w
      memsz := fld enc r Elf32_Phdr.p_memsz_off Elf32_Phdr.p_memsz_w
      align := fld enc r Elf32_Phdr.p_align_off Elf32_Phdr.p_align_w }
  | .c64 => { g with
      stype := (fld enc r Elf64_Phdr.p_type_off Elf64_Phdr.p_type_w).setWidth 32
      flags := (fld enc r Elf64_Phdr.p_flags_off Elf64_Phdr.p_flags_w).setWidth 32
      offset := fld enc r Elf64_Phdr.p_offset_off Elf64_Phdr.p_offset_w
      vaddr := fld enc r Elf64_Phdr.p_vaddr_off Elf64_Phdr.p_vaddr_w
      paddr := fld enc r Elf64_Phdr.p_paddr_off Elf64_Phdr.p_paddr_w
      filesz := fld enc r Elf64_Phdr.p_filesz_off Elf64_Phdr.p_filesz_w
      memsz := fld enc r Elf64_Phdr.p_memsz_off Elf64_Phdr.p_memsz_w
      align := fld enc r Elf64_Phdr.p_align_off Elf64_Phdr.p_align_w }

end ElfioVerif
