/-
Model of `dynamic_section_accessor_template<section>` (elfio_dynamic.hpp) together with the two
`string_section_accessor` calls it makes (elfio_strings.hpp `get_string` / `add_string`).

The accessor is an *object*: its `mutable Elf_Xword entries_num` is the field `cache`.  Every guard,
index/offset computation, width conversion and tag classification is the generated expression of
Gen/SitesC12.lean; raw reads go through `rdRange`, the section edits through `SecBuf.appendData`
(the C07 model), record fields sit at the Gen/Layout offsets.
The model is that of the code *after* fixes/02-dynamic-stale-count.patch (`entries_num = 0` in
`generic_add_entry_dyn`, site `dynNN_add_invalidate`).
-/
import ElfioVerif.Model.SecBuf
import ElfioVerif.Model.Field
import ElfioVerif.Gen.SitesC12
namespace ElfioVerif
open Gen

/-- the accessor object plus the two sections it touches -/
structure DynAcc where
  cfg : Cfg
  /-- `dynamic_section` -/
  sec : SecBuf
  /-- `elf_file.sections[get_string_table_index()]` (`none`: index out of range, i.e. nullptr) -/
  str : Option SecBuf
  /-- `mutable Elf_Xword entries_num` -/
  cache : BitVec 64 := 0
  deriving Repr

/-- result of `get_entry` : the out-parameters that were written -/
inductive GetRes
  | invalid                                   -- returned false, nothing written
  | nostr (tag value : BitVec 64)             -- returned false; tag, value written, str cleared
  | ok (tag value : BitVec 64) (s : Bytes)    -- returned true
  deriving Repr, DecidableEq

/-- the `tag` out-parameter after `get_entry` (untouched when the index was invalid) -/
def GetRes.tagOr (prev : BitVec 64) : GetRes → BitVec 64
  | .invalid => prev
  | .nostr t _ => t
  | .ok t _ _ => t

namespace DynAcc

/-- `elf_file.get_class()` -/
def classByte (c : Cls) : BitVec 8 :=
  match c with
  | .c32 => BitVec.ofNat 8 ELFCLASS32
  | .c64 => BitVec.ofNat 8 ELFCLASS64

/-- `convertor(x)` on a 32-bit or 64-bit field : the generated swap -/
def cv32 (e : Enc) (x : BitVec 32) : BitVec 32 := conv32 x (needConv e)
def cv64 (e : Enc) (x : BitVec 64) : BitVec 64 := conv64 x (needConv e)

/-! ### string_section_accessor -/

/-- `memchr(str, 0, remaining)` then `std::string = str` : the bytes up to the first NUL -/
def cString (bytes : Bytes) : Option Bytes :=
  if bytes.contains 0 then some (bytes.takeWhile (· != 0)) else none

/-- `string_section_accessor(sec).get_string(index)`; returns the (possibly now resident) section -/
def getString (s : Option SecBuf) (index : BitVec 32) : M (Option SecBuf × Option Bytes) :=
  match s with
  | none => pure (none, none)
  | some s0 =>
    let s := s0.getData
    if dynstr_get_oob index s.size s.data.isNone then pure (some s, none)
    else
      let rem := dynstr_get_remaining s.size index
      if dynstr_get_underflow rem s.size then pure (some s, none)
      else do
        let bytes ← rdRange "get_string/memchr" s.data index.toNat rem.toNat
        pure (some s, cString bytes)

/-- tail of `add_string` once the position is known -/
def addStringAt (s : SecBuf) (pos : BitVec 32) (cs : Bytes) : M (Option SecBuf × BitVec 32) :=
  let len := BitVec.ofNat 64 cs.length                       -- std::strlen
  if dynstr_add_too_long len then pure (some s, 0)
  else
    let n := dynstr_add_size len
    if dynstr_add_ovf n pos then pure (some s, 0)
    else do
      let src ← rdRange "add_string/str" (some (cs ++ [0])) 0 n.toNat
      let s' ← s.appendData src
      pure (some s', pos)

/-- `string_section_accessor(sec).add_string(str.c_str())` -/
def addString (s : Option SecBuf) (str : Bytes) : M (Option SecBuf × BitVec 32) :=
  match s with
  | none => pure (none, 0)
  | some s0 =>
    let cs := str.takeWhile (· != 0)                         -- c_str() seen through strlen
    let pos := dynstr_add_pos s0.size
    if dynstr_add_seed pos then do
      let s1 ← s0.appendData [0]
      addStringAt s1 (pos + 1) cs
    else addStringAt s0 pos cs

/-! ### generic_get_entry_dyn<T> -/

/-- the record at `offset`, ELF32 -/
def readRec32 (e : Enc) (sec : SecBuf) (offset : Nat) : M (BitVec 64 × BitVec 64) := do
  let tb ← rdRange "dyn/get:d_tag" sec.data (offset + Elf32_Dyn.d_tag_off) Elf32_Dyn.d_tag_w
  let tag := dyn32_get_tag (cv32 e) (BitVec.ofNat 32 (hostDecode tb))
  let k := dyn32_get_kind tag
  if k = 0 then pure (tag, dyn32_get_val_none)
  else if k = 1 then do
    let vb ← rdRange "dyn/get:d_val" sec.data (offset + Elf32_Dyn.d_un_d_val_off) Elf32_Dyn.d_un_d_val_w
    pure (tag, dyn32_get_val_val (cv32 e) (BitVec.ofNat 32 (hostDecode vb)))
  else do
    let vb ← rdRange "dyn/get:d_ptr" sec.data (offset + Elf32_Dyn.d_un_d_ptr_off) Elf32_Dyn.d_un_d_ptr_w
    pure (tag, dyn32_get_val_ptr (cv32 e) (BitVec.ofNat 32 (hostDecode vb)))

/-- the record at `offset`, ELF64 -/
def readRec64 (e : Enc) (sec : SecBuf) (offset : Nat) : M (BitVec 64 × BitVec 64) := do
  let tb ← rdRange "dyn/get:d_tag" sec.data (offset + Elf64_Dyn.d_tag_off) Elf64_Dyn.d_tag_w
  let tag := dyn64_get_tag (cv64 e) (BitVec.ofNat 64 (hostDecode tb))
  let k := dyn64_get_kind tag
  if k = 0 then pure (tag, dyn64_get_val_none)
  else if k = 1 then do
    let vb ← rdRange "dyn/get:d_val" sec.data (offset + Elf64_Dyn.d_un_d_val_off) Elf64_Dyn.d_un_d_val_w
    pure (tag, dyn64_get_val_val (cv64 e) (BitVec.ofNat 64 (hostDecode vb)))
  else do
    let vb ← rdRange "dyn/get:d_ptr" sec.data (offset + Elf64_Dyn.d_un_d_ptr_off) Elf64_Dyn.d_un_d_ptr_w
    pure (tag, dyn64_get_val_ptr (cv64 e) (BitVec.ofNat 64 (hostDecode vb)))

/-- `tag = DT_NULL; value = 0; return;` of the three guards -/
def fabricated : BitVec 64 × BitVec 64 := (BitVec.ofNat 64 DT_NULL, 0)

/-- the generated `tag = DT_NULL; value = 0;` of guard `k` (0: no data / entries too small, 1: index,
    2: offset) in the instantiation for the class -/
def fabAt (c32 : Bool) (k : Nat) : BitVec 64 × BitVec 64 :=
  match c32, k with
  | true, 0 => (dyn32_get_fab_tag0, dyn32_get_fab_val0)
  | true, 1 => (dyn32_get_fab_tag1, dyn32_get_fab_val1)
  | true, _ => (dyn32_get_fab_tag2, dyn32_get_fab_val2)
  | false, 0 => (dyn64_get_fab_tag0, dyn64_get_fab_val0)
  | false, 1 => (dyn64_get_fab_tag1, dyn64_get_fab_val1)
  | false, _ => (dyn64_get_fab_tag2, dyn64_get_fab_val2)

/-- `generic_get_entry_dyn<T>(index, tag, value)` on a section whose `get_data()` has been called -/
def rawEntryOn (c32 : Bool) (e : Enc) (sec : SecBuf) (index : BitVec 64) : M (BitVec 64 × BitVec 64) :=
  if (if c32 then dyn32_get_nodata sec.data.isNone sec.entSize
      else dyn64_get_nodata sec.data.isNone sec.entSize) then pure (fabAt c32 0)
  else if sec.entSize = 0 then throw (.divZero "generic_get_entry_dyn/size÷entsize")
  else if (if c32 then dyn32_get_index_ovf index sec.size sec.entSize
           else dyn64_get_index_ovf index sec.size sec.entSize) then pure (fabAt c32 1)
  else
    let offset := if c32 then dyn32_get_offset index sec.entSize else dyn64_get_offset index sec.entSize
    if (if c32 then dyn32_get_offset_ovf offset sec.size else dyn64_get_offset_ovf offset sec.size) then
      pure (fabAt c32 2)
    else if c32 then readRec32 e sec (dyn32_get_rec_off offset).toNat
         else readRec64 e sec (dyn64_get_rec_off offset).toNat

/-! ### get_entry / get_entries_num -/

/-- `get_entry` after its `index >= get_entries_num()` test, `count` being what
    `get_entries_num()` returned -/
def getEntryCore (a : DynAcc) (count index : BitVec 64) : M (DynAcc × GetRes) :=
  if dyn_get_index_invalid index count then pure (a, .invalid)
  else do
    let sec := a.sec.getData
    let (tag, value) ← rawEntryOn (dyn_get_is32 (classByte a.cfg.cls)) a.cfg.enc sec index
    let a1 := { a with sec := sec }
    if dyn_get_is_string_tag tag then do
      let (str', r) ← getString a1.str (dyn_get_string_index value)
      if dyn_get_string_null r.isNone then pure ({ a1 with str := str' }, .nostr tag value)
      else pure ({ a1 with str := str' }, .ok tag value (r.getD []))
    else pure (a1, .ok tag value [])

/-- the `for` loop of `get_entries_num`: `i` when it stops (`break` on DT_NULL or `i == entries_num`).
    Inside the loop `get_entry` calls `get_entries_num()` again, which returns the non-zero
    `entries_num` (= `a.cache`) it has just been given.  `fuel` = remaining iterations. -/
def numLoop : Nat → DynAcc → BitVec 64 → BitVec 64 → M (DynAcc × BitVec 64)
  | 0, a, i, _ => pure (a, i)
  | fuel + 1, a, i, prev =>
    if dyn_num_loop i a.cache then do
      let (a', r) ← getEntryCore a a.cache i
      let tag := r.tagOr prev       -- invalid never happens here: i < entries_num
      if dyn_num_tag_is_null tag then pure (a', i) else numLoop fuel a' (dyn_num_i_incr i) tag
    else pure (a, i)

def needed (a : DynAcc) : BitVec 64 :=
  if dyn_num_is32 (classByte a.cfg.cls) then dyn_num_need32 else dyn_num_need64

/-- `get_entries_num()` -/
def entriesNum (a : DynAcc) : M (DynAcc × BitVec 64) :=
  if dyn_num_recompute a.cache a.sec.entSize a.needed then
    if a.sec.entSize = 0 then throw (.divZero "get_entries_num/size÷entsize")
    else
      let total := dyn_num_total a.sec.size a.sec.entSize
      let a1 := { a with cache := total }
      do
        let (a2, i) ← numLoop total.toNat a1 dyn_num_i_init dyn_num_tag_init
        let n := dyn_num_clamp a2.cache i
        pure ({ a2 with cache := n }, n)
  else pure (a, a.cache)

/-- `get_entry(index, tag, value, str)` -/
def getEntry (a : DynAcc) (index : BitVec 64) : M (DynAcc × GetRes) := do
  let (a1, n) ← entriesNum a
  getEntryCore a1 n index

/-! ### add_entry -/

/-- `T entry; entry.d_un.… = …; entry.d_tag = …;` as bytes (ELF32) -/
def mkRec32 (e : Enc) (tag value : BitVec 64) : Bytes :=
  let k := dyn32_add_kind tag
  let un : BitVec 32 :=
    if k = 0 then cv32 e dyn32_add_val_none
    else if k = 1 then cv32 e (dyn32_add_val_val value)
    else cv32 e (dyn32_add_val_ptr value)
  let unOff := if k = 2 then Elf32_Dyn.d_un_d_ptr_off else Elf32_Dyn.d_un_d_val_off
  let unW := if k = 2 then Elf32_Dyn.d_un_d_ptr_w else Elf32_Dyn.d_un_d_val_w
  let r := wr (alloc sizeof_Elf32_Dyn) unOff (hostEncode unW un.toNat)
  wr r Elf32_Dyn.d_tag_off (hostEncode Elf32_Dyn.d_tag_w (cv32 e (dyn32_add_tag tag)).toNat)

/-- the same for ELF64 -/
def mkRec64 (e : Enc) (tag value : BitVec 64) : Bytes :=
  let k := dyn64_add_kind tag
  let un : BitVec 64 :=
    if k = 0 then cv64 e dyn64_add_val_none
    else if k = 1 then cv64 e (dyn64_add_val_val value)
    else cv64 e (dyn64_add_val_ptr value)
  let unOff := if k = 2 then Elf64_Dyn.d_un_d_ptr_off else Elf64_Dyn.d_un_d_val_off
  let unW := if k = 2 then Elf64_Dyn.d_un_d_ptr_w else Elf64_Dyn.d_un_d_val_w
  let r := wr (alloc sizeof_Elf64_Dyn) unOff (hostEncode unW un.toNat)
  wr r Elf64_Dyn.d_tag_off (hostEncode Elf64_Dyn.d_tag_w (cv64 e (dyn64_add_tag tag)).toNat)

/-- `add_entry(tag, value)` → `generic_add_entry_dyn<T>` -/
def addEntry (a : DynAcc) (tag value : BitVec 64) : M DynAcc :=
  if dyn_add_is32 (classByte a.cfg.cls) then do
    let src ← rdRange "add_entry/&entry" (some (mkRec32 a.cfg.enc tag value)) 0 dyn32_add_size.toNat
    let sec ← a.sec.appendData src
    pure { a with sec := sec, cache := dyn32_add_invalidate }
  else do
    let src ← rdRange "add_entry/&entry" (some (mkRec64 a.cfg.enc tag value)) 0 dyn64_add_size.toNat
    let sec ← a.sec.appendData src
    pure { a with sec := sec, cache := dyn64_add_invalidate }

/-- `add_entry(tag, str)` : `Elf_Xword value = strsec.add_string(str); add_entry(tag, value)` -/
def addStrEntry (a : DynAcc) (tag : BitVec 64) (s : Bytes) : M DynAcc := do
  let (str', pos) ← addString a.str s
  addEntry { a with str := str' } tag (BitVec.setWidth 64 pos)

/-! ### operation sequences on one accessor object -/

inductive Op
  | add (tag value : BitVec 64)
  | addStr (tag : BitVec 64) (s : Bytes)
  | num
  | get (i : BitVec 64)
  deriving Repr

inductive Out
  | unit
  | num (n : BitVec 64)
  | got (g : GetRes)
  deriving Repr, DecidableEq

def step (a : DynAcc) : Op → M (DynAcc × Out)
  | .add t v => do let a' ← a.addEntry t v; pure (a', .unit)
  | .addStr t s => do let a' ← a.addStrEntry t s; pure (a', .unit)
  | .num => do let (a', n) ← a.entriesNum; pure (a', .num n)
  | .get i => do let (a', g) ← a.getEntry i; pure (a', .got g)

def run (a : DynAcc) : List Op → M (DynAcc × List Out)
  | [] => pure (a, [])
  | op :: ops => do
    let (a1, o) ← a.step op
    let (a2, os) ← run a1 ops
    pure (a2, o :: os)

/-- a new accessor object on the same sections (`dynamic_section_accessor(elf, sec)`) -/
def fresh (a : DynAcc) : DynAcc := { a with cache := 0 }

/-! ### what save + load does to the two sections (abstracts writer and loader; tied by the
correspondence check, which really saves and reloads) -/

def reloadSec (b : SecBuf) : SecBuf :=
  if b.isNullOrNobits then
    { b with data := none, dataSize := 0, streamSize := 0, isLazy := false, isLoaded := true,
             canLoad := true, fileData := some [] }
  else
    { SecBuf.loadedEager b.cls b.stype b.view 0 with
      entSize := b.entSize, link := b.link, info := b.info, flags := b.flags, addrAlign := b.addrAlign,
      index := b.index, name := b.name }

def reload (a : DynAcc) : DynAcc :=
  { a with sec := reloadSec a.sec, str := a.str.map reloadSec, cache := 0 }

/-- a dynamic section and its string table as a writer creates them
    (`sections.add`, `set_type`, `set_entry_size`, `set_link`) and a first accessor -/
def create (cfg : Cfg) (stype : BitVec 32) (entSize : BitVec 64) (linked : Bool) : DynAcc :=
  { cfg, sec := { SecBuf.fresh cfg.cls stype with entSize := entSize },
    str := if linked then some (SecBuf.fresh cfg.cls (BitVec.ofNat 32 SHT_STRTAB)) else none }

end DynAcc
end ElfioVerif
