/-
The *inspection* interface of a loaded `elfio` object (property C01): header / section / segment
getters and data, the string, note, dynamic and modinfo readers, `validate()` and the read trace of
the textual dump facility (elfio_dump.hpp) — as ONE function `inspect : Obj → Query → M (Obj × Out)`
that the driver of the shared family `load` (Driver/Load.lean) executes for its inspection ops, and
that Props/C01.lean proves total (`inspect_total`).

Every accessor is the accessor family's own model (Model/Note.lean, Model/Dynamic.lean,
Model/Modinfo.lean, `getString` of Model/Load.lean), run on the section after
`sections[i]->get_data()` against the real stream (`secGetData`; lazily loaded sections become
resident here, exactly as the `sec` / `str` ops do).  The models' own `SecBuf.getData` calls are
then no-ops (Lemmas/Inspect.lean: `getData_of_settled`), so the section handed back by an accessor is
the one put in (`dyn_frame`), and the object is not updated a second time.

`dump` is the read trace of `dump::header … dump::segment_datas` in the order harness/load.cpp calls
them: which sections/segments are made resident, which accessor calls are made with which indices,
which bytes are read through returned pointers.  The text is not modelled.

Symbols: `get_symbols_num` / `get_symbol(index)` of Model/Symbols.lean (the by-name / by-value
lookups and the hash sections belong to C09 / C18 and are not part of C01's inspection interface).
-/
import ElfioVerif.Model.Load
import ElfioVerif.Model.Validate
import ElfioVerif.Model.Note
import ElfioVerif.Model.Dynamic
import ElfioVerif.Model.Modinfo
import ElfioVerif.Model.Symbols
namespace ElfioVerif
open Gen
namespace Inspect

/-- `sections[i]->get_data()` on the object: the new object and the (now settled) section;
    `none`: `sections[i]` is a null pointer (index out of range) -/
def secResident (o : Obj) (i : Nat) : Option (Obj × SecBuf) :=
  match o.secs[i]? with
  | none => none
  | some b =>
    let r := secGetData o.cls o.trans { st := o.stream } b
    some ({ o with secs := o.secs.set i r.2, stream := r.1.st }, r.2)

/-- `segments[j]->get_data()` -/
def segResident (o : Obj) (j : Nat) : Option (Obj × Seg) :=
  match o.segs[j]? with
  | none => none
  | some g =>
    let r := segGetData o.cls o.trans { st := o.stream } g
    some ({ o with segs := o.segs.set j r.2, stream := r.1.st }, r.2)

/-- `segment_impl::free_data()` -/
def segFree (g : Seg) : Seg := if g.isLazy then { g with data := none, isLoaded := false } else g

/-- what `note_segment_accessor` sees of a segment: `get_data()` and `get_file_size()` -/
def segNoteSrc (g : Seg) : NoteSrc := ⟨g.data, g.filesz⟩

/-- `dynamic_section_accessor( elf, sections[i] )` on the resident section `b` :
    `elf_file.sections[ (Elf_Half)sh_link ]` is looked up in `o` -/
def mkDyn (o : Obj) (b : SecBuf) (str : Option SecBuf) : DynAcc :=
  { cfg := ⟨o.cls, o.enc⟩, sec := b, str := str }

/-- index of the string table the dynamic accessor uses -/
def dynStrIdx (b : SecBuf) : Nat := (dyn_strtab_index b.link).toNat

/-- the object and the accessor for `dynamic_section_accessor( elf, sections[i] )`, both sections
    made resident (the linked one only if it exists) -/
def dynSetup (o : Obj) (i : Nat) : Option (Obj × DynAcc) :=
  match secResident o i with
  | none => none
  | some (o1, b) =>
    match secResident o1 (dynStrIdx b) with
    | none => some (o1, mkDyn o1 b none)
    | some (o2, s) =>
      -- (the linked section may be section `i` itself: it is settled already, so `s = b` then)
      some (o2, mkDyn o2 b (some s))

/-- `symbol_section_accessor::get_string_table_index()` : `(Elf_Half)symbol_section->get_link()` -/
def symStrIdx (b : SecBuf) : Nat := (b.link.setWidth 16).toNat

/-- `symbol_section_accessor( elf, sections[i] )` with both sections made resident; the hash
    section the constructor looks for is not used by `get_symbols_num` / `get_symbol(index)` -/
def symSetup (o : Obj) (i : Nat) : Option (Obj × SymTab) :=
  match secResident o i with
  | none => none
  | some (o1, b) =>
    match secResident o1 (symStrIdx b) with
    | none => some (o1, { cfg := ⟨o1.cls, o1.enc⟩, sym := b, str := none, hash := none })
    | some (o2, s) => some (o2, { cfg := ⟨o2.cls, o2.enc⟩, sym := b, str := some s, hash := none })

/-- result of `get_symbol(index, name, value, size, bind, type, section_index, other)` with the
    out-parameters initialised to the empty string / zeros -/
structure SymOut where
  ret : Bool
  name : Bytes
  attrs : Attrs
  deriving Repr

def getSym (t : SymTab) (k : BitVec 64) : M SymOut :=
  match t.getSymbol k [] {} with
  | .error f => .error f
  | .ok r => pure ⟨r.1, r.2.1, r.2.2⟩

/-- the name `dump::modinfo` looks for -/
def modinfoName : Bytes := [46, 109, 111, 100, 105, 110, 102, 111]

/-! ### queries -/

inductive Query
  | hdr                                         -- the header getters
  | sec (i : Nat) (data : Bool)                 -- section getters (+ get_data())
  | seg (j : Nat) (data : Bool)                 -- segment getters (+ get_data())
  | secFree (i : Nat)                           -- sections[i]->free_data()
  | segFree (j : Nat)
  | str (i : Nat) (k : BitVec 32)               -- string_section_accessor(sections[i]).get_string(k)
  | noteNum (i : Nat)                           -- note_section_accessor(elf, sections[i]).get_notes_num()
  | note (i : Nat) (k : BitVec 32)              -- … .get_note(k) and the caller's read of the descriptor
  | segNoteNum (j : Nat)                        -- note_segment_accessor(elf, segments[j])
  | segNote (j : Nat) (k : BitVec 32)
  | dynNum (i : Nat)                            -- dynamic_section_accessor(elf, sections[i]).get_entries_num()
  | dyn (i : Nat) (k : BitVec 64)               -- … .get_entry(k)
  | modinfo (i : Nat)                           -- modinfo_section_accessor(sections[i]): all attributes
  | modinfoGet (i : Nat) (k : BitVec 32)        -- … .get_attribute(k, field, value)
  | modinfoByName (i : Nat) (field : Bytes)     -- … .get_attribute(field, value)
  | symNum (i : Nat)                            -- symbol_section_accessor(elf, sections[i]).get_symbols_num()
  | sym (i : Nat) (k : BitVec 64)               -- … .get_symbol(k, name, value, size, bind, type, shndx, other)
  | validate
  | dump
  deriving Repr

inductive Out
  | null                                        -- sections[i] / segments[j] does not exist
  | obj                                         -- read the answer off the returned object
  | str (s : Option Bytes)
  | num (n : Nat)
  | note (r : Option NoteOut)
  | dyn (r : GetRes)
  | attrs (l : List Modinfo.Attr)
  | attr (a : Option Modinfo.Attr)
  | value (v : Option Bytes)
  | sym (r : SymOut)
  | complaints (l : List Complaint)
  deriving Repr

/-! ### the read trace of `dump` -/

/-- `for i in l: s ← f s i` -/
def forIdx {σ : Type} (l : List Nat) (f : σ → Nat → M σ) (s : σ) : M σ :=
  match l with
  | [] => pure s
  | i :: rest =>
    match f s i with
    | .error e => .error e
    | .ok s' => forIdx rest f s'

/-- the result is printed, not used: only a fault matters -/
def ignore {α : Type} (x : M α) : M Unit :=
  match x with
  | .error f => .error f
  | .ok _ => pure ()

/-- `for j < get_notes_num(): get_note(j, …)` + the read of every descriptor byte in `dump::note` -/
def allNotes (e : Enc) (src : NoteSrc) (pos : List (BitVec 64)) : M Unit :=
  forIdx (List.range (Note.num pos).toNat) (fun _ j => ignore (Note.get e src pos (BitVec.ofNat 32 j))) ()

/-- `for i < get_symbols_num(): get_symbol(i, …)` -/
def allSyms (t : SymTab) (n : Nat) : M Unit :=
  forIdx (List.range n) (fun _ k => ignore (getSym t (BitVec.ofNat 64 k))) ()

/-- `dump::notes`, one section -/
def dumpNoteSec (o : Obj) (i : Nat) : M Obj :=
  match o.secs[i]? with
  | none => pure o
  | some b =>
    if b.stype == BitVec.ofNat 32 SHT_NOTE then
      match secResident o i with
      | none => pure o
      | some (o1, b1) =>
        match Note.process o1.enc b1.noteSrc with
        | .error f => .error f
        | .ok pos =>
          match allNotes o1.enc b1.noteSrc pos with
          | .error f => .error f
          | .ok _ => pure o1
    else pure o

/-- `dump::notes`, one segment -/
def dumpNoteSeg (o : Obj) (j : Nat) : M Obj :=
  match o.segs[j]? with
  | none => pure o
  | some g =>
    if g.stype == BitVec.ofNat 32 PT_NOTE then
      match segResident o j with
      | none => pure o
      | some (o1, g1) =>
        match Note.process o1.enc (segNoteSrc g1) with
        | .error f => .error f
        | .ok pos =>
          match allNotes o1.enc (segNoteSrc g1) pos with
          | .error f => .error f
          | .ok _ => pure o1
    else pure o

/-- `dump::modinfo` : the first section called `.modinfo`; the getters by index only touch the
    vector the constructor built -/
def dumpModinfo (o : Obj) : M Obj :=
  match o.secs.findIdx? (fun b => b.name == modinfoName) with
  | none => pure o
  | some i =>
    match secResident o i with
    | none => pure o
    | some (o1, b1) =>
      match Modinfo.parse b1 with
      | .error f => .error f
      | .ok _ => pure o1

/-- the `for ( i = 0; i < dyn_no; ++i ) { get_entry( i, … ); if ( DT_NULL == tag ) break; }` loop;
    `tag` is initialised to 0 in every iteration -/
def dynDumpLoop (n : BitVec 64) : Nat → DynAcc → BitVec 64 → M Unit
  | 0, _, _ => pure ()
  | fuel + 1, a, i =>
    if BitVec.ult i n then
      match a.getEntry i with
      | .error f => .error f
      | .ok (a', r) =>
        if r.tagOr 0 == BitVec.ofNat 64 DT_NULL then pure () else dynDumpLoop n fuel a' (i + 1)
    else pure ()

/-- `dump::dynamic_tags`, one section -/
def dumpDynSec (o : Obj) (i : Nat) : M Obj :=
  match o.secs[i]? with
  | none => pure o
  | some b =>
    if b.stype == BitVec.ofNat 32 SHT_DYNAMIC then
      match dynSetup o i with
      | none => pure o
      | some (o1, a) =>
        match a.entriesNum with
        | .error f => .error f
        | .ok (a1, n) =>
          match dynDumpLoop n n.toNat a1 0 with
          | .error f => .error f
          | .ok _ => pure o1
    else pure o

/-- `dump::symbol_tables`, one section: every symbol -/
def dumpSymSec (o : Obj) (i : Nat) : M Obj :=
  match o.secs[i]? with
  | none => pure o
  | some b =>
    if b.stype == BitVec.ofNat 32 SHT_SYMTAB || b.stype == BitVec.ofNat 32 SHT_DYNSYM then
      match symSetup o i with
      | none => pure o
      | some (o1, t) =>
        match t.symbolsNum with
        | .error f => .error f
        | .ok n =>
          match allSyms t n.toNat with
          | .error f => .error f
          | .ok _ => pure o1
    else pure o

/-- `for x in l: f x` -/
def allM {α : Type} (l : List α) (f : α → M Unit) : M Unit :=
  match l with
  | [] => pure ()
  | x :: rest =>
    match f x with
    | .error e => .error e
    | .ok _ => allM rest f

/-- `reader.sections[ seg->get_section_index_at( j ) ]->get_name()` : the section must exist -/
def memberCheck (o : Obj) (m : BitVec 16) : M Unit :=
  match o.secs[m.toNat]? with
  | none => throw (.nullDeref "dump/segment_headers:sections[member]")
  | some _ => pure ()

/-- `dump::segment_headers` : the member names of every segment -/
def dumpSegMembers (o : Obj) : M Unit :=
  allM (o.segs.take (o.segs.length % 65536)) (fun g => allM g.secs (memberCheck o))

/-- number of bytes `dump::section_data` / `segment_data` print -/
def maxDataEntries : Nat := 64

/-- `dump::section_datas`, one section (`i ≥ 1`) -/
def dumpSecData (o : Obj) (i : Nat) : M Obj :=
  match o.secs[i]? with
  | none => pure o
  | some b =>
    if b.stype == BitVec.ofNat 32 SHT_NOBITS then pure o
    else
      match secResident o i with
      | none => pure o
      | some (o1, b1) =>
        if b1.data.isSome then
          match rdRange "dump/section_data" b1.data 0 (min b1.size.toNat maxDataEntries) with
          | .error f => .error f
          | .ok _ => pure o1
        else pure o1

/-- `dump::segment_datas`, one segment -/
def dumpSegData (o : Obj) (j : Nat) : M Obj :=
  match segResident o j with
  | none => pure o
  | some (o1, g1) =>
    if g1.data.isSome then
      match rdRange "dump/segment_data" g1.data 0 (min g1.filesz.toNat maxDataEntries) with
      | .error f => .error f
      | .ok _ => pure o1
    else pure o1

/-- `n = (Elf_Half) container.size()` -/
def half (n : Nat) : Nat := n % 65536

def bindM {α β : Type} (x : M α) (f : α → M β) : M β :=
  match x with
  | .error e => .error e
  | .ok a => f a

/-- The reads of `dump::header, section_headers` (getters only), `segment_headers` (getters + the
    lookup of every member section), `symbol_tables`, `notes`, `modinfo`, `dynamic_tags`,
    `section_datas`, `segment_datas`, in this order. -/
def dump (o : Obj) : M Obj :=
  bindM (dumpSegMembers o) fun _ =>
  bindM (forIdx (List.range o.secs.length) dumpSymSec o) fun o =>
  bindM (forIdx (List.range o.secs.length) dumpNoteSec o) fun o =>
  bindM (forIdx (List.range (half o.segs.length)) dumpNoteSeg o) fun o =>
  bindM (dumpModinfo o) fun o =>
  bindM (forIdx (List.range o.secs.length) dumpDynSec o) fun o =>
  bindM (forIdx ((List.range (half o.secs.length)).drop 1) dumpSecData o) fun o =>
  forIdx (List.range (half o.segs.length)) dumpSegData o

/-! ### one query -/

def inspect (o : Obj) : Query → M (Obj × Out)
  | .hdr => pure (o, .obj)
  | .sec i data =>
    match o.secs[i]? with
    | none => pure (o, .null)
    | some _ =>
      if data then
        match secResident o i with
        | none => pure (o, .null)
        | some (o1, _) => pure (o1, .obj)
      else pure (o, .obj)
  | .seg j data =>
    match o.segs[j]? with
    | none => pure (o, .null)
    | some _ =>
      if data then
        match segResident o j with
        | none => pure (o, .null)
        | some (o1, _) => pure (o1, .obj)
      else pure (o, .obj)
  | .secFree i =>
    match o.secs[i]? with
    | none => pure (o, .obj)
    | some b => pure ({ o with secs := o.secs.set i b.freeData }, .obj)
  | .segFree j =>
    match o.segs[j]? with
    | none => pure (o, .obj)
    | some g => pure ({ o with segs := o.segs.set j (segFree g) }, .obj)
  | .str i k =>
    match secResident o i with
    | none => pure (o, .null)
    | some (o1, b1) =>
      match getString b1 k with
      | .error f => .error f
      | .ok s => pure (o1, .str s)
  | .noteNum i =>
    match secResident o i with
    | none => pure (o, .null)
    | some (o1, b1) =>
      match Note.process o1.enc b1.noteSrc with
      | .error f => .error f
      | .ok pos => pure (o1, .num (Note.num pos).toNat)
  | .note i k =>
    match secResident o i with
    | none => pure (o, .null)
    | some (o1, b1) =>
      match Note.process o1.enc b1.noteSrc with
      | .error f => .error f
      | .ok pos =>
        match Note.get o1.enc b1.noteSrc pos k with
        | .error f => .error f
        | .ok r => pure (o1, .note r)
  | .segNoteNum j =>
    match segResident o j with
    | none => pure (o, .null)
    | some (o1, g1) =>
      match Note.process o1.enc (segNoteSrc g1) with
      | .error f => .error f
      | .ok pos => pure (o1, .num (Note.num pos).toNat)
  | .segNote j k =>
    match segResident o j with
    | none => pure (o, .null)
    | some (o1, g1) =>
      match Note.process o1.enc (segNoteSrc g1) with
      | .error f => .error f
      | .ok pos =>
        match Note.get o1.enc (segNoteSrc g1) pos k with
        | .error f => .error f
        | .ok r => pure (o1, .note r)
  | .dynNum i =>
    match dynSetup o i with
    | none => pure (o, .null)
    | some (o1, a) =>
      match a.entriesNum with
      | .error f => .error f
      | .ok (_, n) => pure (o1, .num n.toNat)
  | .dyn i k =>
    match dynSetup o i with
    | none => pure (o, .null)
    | some (o1, a) =>
      match a.getEntry k with
      | .error f => .error f
      | .ok (_, r) => pure (o1, .dyn r)
  | .modinfo i =>
    match secResident o i with
    | none => pure (o, .null)
    | some (o1, b1) =>
      match Modinfo.parse b1 with
      | .error f => .error f
      | .ok c => pure (o1, .attrs c)
  | .modinfoGet i k =>
    match secResident o i with
    | none => pure (o, .null)
    | some (o1, b1) =>
      match Modinfo.parse b1 with
      | .error f => .error f
      | .ok c => pure (o1, .attr (Modinfo.getByIndex c k))
  | .modinfoByName i field =>
    match secResident o i with
    | none => pure (o, .null)
    | some (o1, b1) =>
      match Modinfo.parse b1 with
      | .error f => .error f
      | .ok c => pure (o1, .value (Modinfo.getByName c field))
  | .symNum i =>
    match symSetup o i with
    | none => pure (o, .null)
    | some (o1, t) =>
      match t.symbolsNum with
      | .error f => .error f
      | .ok n => pure (o1, .num n.toNat)
  | .sym i k =>
    match symSetup o i with
    | none => pure (o, .null)
    | some (o1, t) =>
      match getSym t k with
      | .error f => .error f
      | .ok r => pure (o1, .sym r)
  | .validate => pure (o, .complaints (ElfioVerif.validate o))
  | .dump =>
    match dump o with
    | .error f => .error f
    | .ok o1 => pure (o1, .obj)

/-- a finite sequence of queries (lazy loads mutate the object: the state is threaded) -/
def inspectSeq (o : Obj) : List Query → M (Obj × List Out)
  | [] => pure (o, [])
  | q :: qs =>
    match inspect o q with
    | .error f => .error f
    | .ok (o1, out) =>
      match inspectSeq o1 qs with
      | .error f => .error f
      | .ok (o2, outs) => pure (o2, out :: outs)

end Inspect
end ElfioVerif
