/-
Checked memory: every raw pointer access of the C++ becomes `rdRange` / `wrRange`, which
fault exactly when the C++ would leave the allocation or touch a null pointer with a
non-empty range (null + 0 with an empty range is what the C++ does legitimately).
-/
import ElfioVerif.Basic
namespace ElfioVerif

/-- read `len` bytes at `off` of an allocation (`none` = nullptr) -/
def rdRange (site : String) (buf : Option Bytes) (off len : Nat) : M Bytes :=
  match buf with
  | none => if off = 0 ∧ len = 0 then pure [] else throw (.nullDeref site)
  | some b => if off + len ≤ b.length then pure (slice b off len) else throw (.oobRead site)

/-- overwrite `src.length` bytes at `off` -/
def wrRange (site : String) (buf : Option Bytes) (off : Nat) (src : Bytes) : M (Option Bytes) :=
  match buf with
  | none => if off = 0 ∧ src.length = 0 then pure none else throw (.nullDeref site)
  | some b =>
    if off + src.length ≤ b.length then
      pure (some (wr b off src))
    else throw (.oobWrite site)

/-- `new char[n]` (contents unspecified in C++; the model zero-fills and no observation
    ever depends on bytes that were not written). -/
def alloc (n : Nat) : Bytes := List.replicate n 0

@[simp] theorem alloc_length (n : Nat) : (alloc n).length = n := by simp [alloc]

theorem rdRange_some_ok {site b off len} (h : off + len ≤ b.length) :
    rdRange site (some b) off len = .ok (slice b off len) := by
  simp [rdRange, h, pure, Except.pure]

theorem wrRange_some_ok {site b off} {src : Bytes} (h : off + src.length ≤ b.length) :
    wrRange site (some b) off src = .ok (some (wr b off src)) := by
  simp [wrRange, h, pure, Except.pure]

end ElfioVerif
