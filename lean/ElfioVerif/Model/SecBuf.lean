/-
Model of `section_impl<T>`'s data buffer and its editing operations
(`set_data`, `append_data`, `insert_data`, `get_data`, `free_data`) — elfio_section.hpp.
Every guard and size computation is the *generated* expression (Gen/Sites.lean); the
copies are checked range moves (Model/Mem.lean).
-/
import ElfioVerif.Model.Mem
import ElfioVerif.Gen.Sites
namespace ElfioVerif
open Gen

structure SecBuf where
  cls : Cls
  stype : BitVec 32          -- get_type()
  size : BitVec 64           -- get_size()
  data : Option Bytes        -- the allocation behind `data` (none = nullptr)
  dataSize : BitVec 64       -- data_size
  streamSize : BitVec 64     -- stream_size
  translatorEmpty : Bool := true
  isLazy : Bool := false
  isLoaded : Bool := false
  canLoad : Bool := true
  /-- what `load_data` would read from the stream for the current header
      (`none`: the bounds checks or the read fail) -/
  fileData : Option Bytes := none
  -- the remaining section-header fields, as the getters return them (host values)
  index : Nat := 0
  name : Bytes := []
  nameOff : BitVec 32 := 0
  flags : BitVec 64 := 0
  addr : BitVec 64 := 0
  addrSet : Bool := false          -- is_address_set
  offset : BitVec 64 := 0
  link : BitVec 32 := 0
  info : BitVec 32 := 0
  addrAlign : BitVec 64 := 0
  entSize : BitVec 64 := 0
  deriving Repr

namespace SecBuf

/-- `set_size` : truncates to the class's field width -/
def setSize (b : SecBuf) (v : BitVec 64) : SecBuf :=
  match b.cls with
  | .c32 => { b with size := (sec32_set_size_trunc v).setWidth 64 }
  | .c64 => { b with size := sec64_set_size_trunc v }

def isNullOrNobits (b : SecBuf) : Bool :=
  b.stype == BitVec.ofNat 32 SHT_NULL || b.stype == BitVec.ofNat 32 SHT_NOBITS

/-- `load_data()` as seen from the buffer: the stream side is abstracted by `fileData`. -/
def loadData (b : SecBuf) : SecBuf × Bool :=
  match b.fileData with
  | none => (b, false)              -- offset/size outside the stream, or short read
  | some d =>
    if b.data.isNone && !b.isNullOrNobits then
      if b.size = 0 then
        ({ b with data := some (alloc 1), dataSize := 0, isLoaded := true }, true)
      else
        ({ b with data := some (d ++ [0]), dataSize := b.size, isLoaded := true }, true)
    else
      let l := b.data.isSome || b.isNullOrNobits
      ({ b with isLoaded := l }, l)

/-- `get_data()` : returns the new state (the pointer is `.data`) -/
def getData (b : SecBuf) : SecBuf :=
  if !b.isLoaded && b.canLoad then
    let (b', ok) := b.loadData
    if ok then b' else { b' with canLoad := false }
  else b

def freeData (b : SecBuf) : SecBuf :=
  if b.isLazy then { b with data := none, isLoaded := false } else b

/-- `set_data` : `if ( translator->empty() )` (class dispatch of the generated condition) -/
def setTrEmpty (c : Cls) (trEmpty : Bool) : Bool :=
  match c with | .c32 => sec32_set_data_tr_empty trEmpty | .c64 => sec64_set_data_tr_empty trEmpty
/-- `set_data` : `set_stream_size( (size_t)data_size )` -/
def setStreamSize (c : Cls) (dataSize : BitVec 64) : BitVec 64 :=
  match c with | .c32 => sec32_set_data_ss dataSize | .c64 => sec64_set_data_ss dataSize
/-- `insert_data` : `if ( translator->empty() )` -/
def insertTrEmpty (c : Cls) (trEmpty : Bool) : Bool :=
  match c with | .c32 => sec32_insert_tr_empty trEmpty | .c64 => sec64_insert_tr_empty trEmpty
/-- `insert_data` : `set_stream_size( get_stream_size() + (size_t)size )` -/
def insertStreamSize (c : Cls) (streamSize n : BitVec 64) : BitVec 64 :=
  match c with | .c32 => sec32_insert_ss streamSize n | .c64 => sec64_insert_ss streamSize n

/-- tail of `set_data`: `set_size(data_size)` and the stream-size bookkeeping -/
def setFinish (b : SecBuf) : SecBuf :=
  let b := b.setSize b.dataSize
  if setTrEmpty b.cls b.translatorEmpty then { b with streamSize := setStreamSize b.cls b.dataSize } else b

/-- `set_data(raw, size)`; `raw = none` is a null pointer -/
def setData (b : SecBuf) (raw : Option Bytes) (sz : BitVec 64) : M SecBuf :=
  let c32 := b.cls == .c32
  if (if c32 then sec32_set_data_not_nobits b.stype else sec64_set_data_not_nobits b.stype) then
    let n := if c32 then sec32_set_data_alloc sz else sec64_set_data_alloc sz
    -- `nullptr != data.get() && nullptr != raw_data` (allocation failure is not modelled: `data.get()`
    -- is non-null)
    if (if c32 then sec32_set_data_copy false raw.isNone else sec64_set_data_copy false raw.isNone) then
      match raw with
      | some r => do
        let src ← rdRange "set_data/copy-src" (some r) 0 sz.toNat
        let d ← wrRange "set_data/copy" (some (alloc n.toNat)) 0 src
        pure (setFinish { b with data := d, dataSize := sz })
      | none => throw (.nullDeref "set_data/copy-src")
    else pure (setFinish { b with data := some (alloc n.toNat), dataSize := 0 })
  else pure (setFinish b)

/-- in-place branch: `copy_backward(d+pos, d+size, d+size+n); copy(raw, raw+n, d+pos)` -/
def insertInPlace (b : SecBuf) (pos : Nat) (raw : Bytes) : M (Option Bytes) := do
  let tail ← rdRange "insert_data/copy_backward-src" b.data pos (b.size.toNat - pos)
  let d ← wrRange "insert_data/copy_backward" b.data (pos + raw.length) tail
  wrRange "insert_data/copy" d pos raw

/-- growing branch: three `std::copy`s into a fresh allocation of `nds` bytes -/
def insertGrow (b : SecBuf) (pos : Nat) (raw : Bytes) (nds : Nat) : M (Option Bytes) := do
  let head ← rdRange "insert_data/copy-head-src" b.data 0 pos
  let d ← wrRange "insert_data/copy-head" (some (alloc nds)) 0 head
  let d ← wrRange "insert_data/copy-new" d pos raw
  let tail ← rdRange "insert_data/copy-tail-src" b.data pos (b.size.toNat - pos)
  wrRange "insert_data/copy-tail" d (pos + raw.length) tail

/-- `2*data_size + size` behind its three overflow guards and the allocation test (`none`: one fired) -/
def growSize (c32 : Bool) (dataSize n : BitVec 64) : Option (BitVec 64) :=
  if (if c32 then sec32_insert_ovf_dbl dataSize else sec64_insert_ovf_dbl dataSize) then none else
  let nds := if c32 then sec32_insert_dbl dataSize else sec64_insert_dbl dataSize
  if (if c32 then sec32_insert_ovf_add n nds else sec64_insert_ovf_add n nds) then none else
  let nds := if c32 then sec32_insert_dbl_add nds n else sec64_insert_dbl_add nds n
  if (if c32 then sec32_insert_ovf_sizet nds else sec64_insert_ovf_sizet nds) then none else
  -- `if ( nullptr != new_data ) … else return;` (allocation failure is not modelled: non-null)
  if !(if c32 then sec32_insert_alloc_ok true else sec64_insert_alloc_ok true) then none else
  some nds

/-- tail of `insert_data`: `set_size(new_size)` and the stream-size bookkeeping -/
def insertFinish (b : SecBuf) (newSize n : BitVec 64) : SecBuf :=
  let b := b.setSize newSize
  if insertTrEmpty b.cls b.translatorEmpty then { b with streamSize := insertStreamSize b.cls b.streamSize n }
  else b

/-- `insert_data` after the residency step -/
def insertBody (b : SecBuf) (pos : BitVec 64) (raw : Bytes) : M SecBuf :=
  let n : BitVec 64 := BitVec.ofNat 64 raw.length
  let c32 := b.cls == .c32
  if (if c32 then sec32_insert_pos_gt_size pos b.size else sec64_insert_pos_gt_size pos b.size) then
    pure b
  else
  if (if c32 then sec32_insert_ovf_size n b.size else sec64_insert_ovf_size n b.size) then
    pure b
  else
  let newSize := if c32 then sec32_insert_new_size b.size n else sec64_insert_new_size b.size n
  if (if c32 then sec32_insert_fits_inplace newSize b.dataSize
            else sec64_insert_fits_inplace newSize b.dataSize) then do
    let d ← insertInPlace b pos.toNat raw
    pure (insertFinish { b with data := d } newSize n)
  else
    match growSize c32 b.dataSize n with
    | none => pure b
    | some nds => do
      let d ← insertGrow b pos.toNat raw nds.toNat
      pure (insertFinish { b with data := d, dataSize := nds } newSize n)

/-- `insert_data(pos, raw, raw.length)` -/
def insertData (b : SecBuf) (pos : BitVec 64) (raw : Bytes) : M SecBuf :=
  let c32 := b.cls == .c32
  if !(if c32 then sec32_insert_not_nobits b.stype else sec64_insert_not_nobits b.stype) then
    pure b
  else
    insertBody (if (if c32 then sec32_insert_make_resident b.isLazy b.isLoaded
                           else sec64_insert_make_resident b.isLazy b.isLoaded)
                then b.getData else b) pos raw

/-- `append_data(raw, n)` = `insert_data(get_size(), raw, n)` -/
def appendData (b : SecBuf) (raw : Bytes) : M SecBuf := insertData b b.size raw

/-- The observable contents: what `get_data()` exposes in `[0, get_size())`. -/
def view (b : SecBuf) : Bytes := (b.data.getD []).take b.size.toNat

/-- a freshly created section (`sections.add`) of the given type -/
def fresh (cls : Cls) (stype : BitVec 32) : SecBuf :=
  { cls, stype, size := 0, data := none, dataSize := 0, streamSize := 0, fileData := some [] }

/-- an eagerly loaded section whose data read succeeded -/
def loadedEager (cls : Cls) (stype : BitVec 32) (d : Bytes) (streamSize : BitVec 64) : SecBuf :=
  { cls, stype, size := BitVec.ofNat 64 d.length,
    data := if d.length = 0 then some (alloc 1) else some (d ++ [0]),
    dataSize := if d.length = 0 then 0 else BitVec.ofNat 64 d.length,
    streamSize, isLoaded := true, fileData := some d }

/-- a lazily loaded, not yet resident section whose data is readable -/
def loadedLazy (cls : Cls) (stype : BitVec 32) (d : Bytes) (streamSize : BitVec 64) : SecBuf :=
  { cls, stype, size := BitVec.ofNat 64 d.length, data := none, dataSize := 0,
    streamSize, isLazy := true, fileData := some d }

end SecBuf
end ElfioVerif
