/-
Model of `section_impl<T>`'s data buffer and its editing operations
(`set_data`, `append_data`, `insert_data`, `get_data`, `free_data`) — elfio_section.hpp.
Every guard and size computation is the *generated* expression (Gen/Sites.lean); the
copies are checked range moves (Model/Mem.lean).
-/
import ElfioVerif.Model.Mem
import ElfioVerif.Gen.Sites
namespace ElfioVerif
open Gen

structure SecBuf where
  cls : Cls
  stype : BitVec 32          -- get_type()
  size : BitVec 64           -- get_size()
  data : Option Bytes        -- the allocation behind `data` (none = nullptr)
  dataSize : BitVec 64       -- data_size
  streamSize : BitVec 64     -- stream_size
  translatorEmpty : Bool := true
  isLazy : Bool := false
  isLoaded : Bool := false
  canLoad : Bool := true
  /-- what `load_data` would read from the stream for the current header
      (`none`: the bounds checks or the read fail) -/
  fileData : Option Bytes := none
  deriving Repr

namespace SecBuf

/-- `set_size` : truncates to the class's field width -/
def setSize (b : SecBuf) (v : BitVec 64) : SecBuf :=
  match b.cls with
  | .c32 => { b with size := (sec32_set_size_trunc v).setWidth 64 }
  | .c64 => { b with size := sec64_set_size_trunc v }

def isNullOrNobits (b : SecBuf) : Bool :=
  b.stype == BitVec.ofNat 32 SHT_NULL || b.stype == BitVec.ofNat 32 SHT_NOBITS

/-- `load_data()` as seen from the buffer: the stream side is abstracted by `fileData`. -/
def loadData (b : SecBuf) : SecBuf × Bool :=
  match b.fileData with
  | none => (b, false)              -- offset/size outside the stream, or short read
  | some d =>
    if b.data.isNone && !b.isNullOrNobits then
      if b.size = 0 then
        ({ b with data := some (alloc 1), dataSize := 0, isLoaded := true }, true)
      else
        ({ b with data := some (d ++ [0]), dataSize := b.size, isLoaded := true }, true)
    else
      let l := b.data.isSome || b.isNullOrNobits
      ({ b with isLoaded := l }, l)

/-- `get_data()` : returns the new state (the pointer is `.data`) -/
def getData (b : SecBuf) : SecBuf :=
  if !b.isLoaded && b.canLoad then
    let (b', ok) := b.loadData
    if ok then b' else { b' with canLoad := false }
  else b

def freeData (b : SecBuf) : SecBuf :=
  if b.isLazy then { b with data := none, isLoaded := false } else b

/-- `set_data(raw, size)`; `raw = none` is a null pointer -/
def setData (b : SecBuf) (raw : Option Bytes) (sz : BitVec 64) : M SecBuf := do
  let notNobits := match b.cls with
    | .c32 => sec32_set_data_not_nobits b.stype
    | .c64 => sec64_set_data_not_nobits b.stype
  let b ←
    if notNobits then
      let n := match b.cls with
        | .c32 => sec32_set_data_alloc sz
        | .c64 => sec64_set_data_alloc sz
      let buf := alloc n.toNat
      match raw with
      | some r =>
        let src ← rdRange "set_data/copy-src" (some r) 0 sz.toNat
        let d ← wrRange "set_data/copy" (some buf) 0 src
        pure { b with data := d, dataSize := sz }
      | none => pure { b with data := some buf, dataSize := 0 }
    else pure b
  let b := b.setSize b.dataSize
  pure (if b.translatorEmpty then { b with streamSize := b.dataSize } else b)

/-- `insert_data(pos, raw, raw.length)` -/
def insertData (b : SecBuf) (pos : BitVec 64) (raw : Bytes) : M SecBuf := do
  let n : BitVec 64 := BitVec.ofNat 64 raw.length
  let c32 := b.cls == .c32
  if !(if c32 then sec32_insert_not_nobits b.stype else sec64_insert_not_nobits b.stype) then
    return b
  let b := if (if c32 then sec32_insert_make_resident b.isLazy b.isLoaded
                     else sec64_insert_make_resident b.isLazy b.isLoaded) then b.getData else b
  if (if c32 then sec32_insert_pos_gt_size pos b.size else sec64_insert_pos_gt_size pos b.size) then
    return b
  let newSize := b.size
  if (if c32 then sec32_insert_ovf_size n newSize else sec64_insert_ovf_size n newSize) then
    return b
  let newSize := if c32 then sec32_insert_new_size newSize n else sec64_insert_new_size newSize n
  let tailLen := b.size.toNat - pos.toNat
  let b ←
    if (if c32 then sec32_insert_fits_inplace newSize b.dataSize
              else sec64_insert_fits_inplace newSize b.dataSize) then do
      -- copy_backward(d+pos, d+size, d+size+n) ; copy(raw, raw+n, d+pos)
      let tail ← rdRange "insert_data/copy_backward-src" b.data pos.toNat tailLen
      let d ← wrRange "insert_data/copy_backward" b.data (pos.toNat + raw.length) tail
      let d ← wrRange "insert_data/copy" d pos.toNat raw
      pure { b with data := d }
    else do
      let nds := b.dataSize
      if (if c32 then sec32_insert_ovf_dbl nds else sec64_insert_ovf_dbl nds) then return b
      let nds := if c32 then sec32_insert_dbl nds else sec64_insert_dbl nds
      if (if c32 then sec32_insert_ovf_add n nds else sec64_insert_ovf_add n nds) then return b
      let nds := if c32 then sec32_insert_dbl_add nds n else sec64_insert_dbl_add nds n
      if (if c32 then sec32_insert_ovf_sizet nds else sec64_insert_ovf_sizet nds) then return b
      let nb := alloc nds.toNat
      let head ← rdRange "insert_data/copy-head-src" b.data 0 pos.toNat
      let d ← wrRange "insert_data/copy-head" (some nb) 0 head
      let d ← wrRange "insert_data/copy-new" d pos.toNat raw
      let tail ← rdRange "insert_data/copy-tail-src" b.data pos.toNat tailLen
      let d ← wrRange "insert_data/copy-tail" d (pos.toNat + raw.length) tail
      pure { b with data := d, dataSize := nds }
  let b := b.setSize newSize
  pure (if b.translatorEmpty then { b with streamSize := b.streamSize + n } else b)

/-- `append_data(raw, n)` = `insert_data(get_size(), raw, n)` -/
def appendData (b : SecBuf) (raw : Bytes) : M SecBuf := insertData b b.size raw

/-- The observable contents: what `get_data()` exposes in `[0, get_size())`. -/
def view (b : SecBuf) : Bytes := (b.data.getD []).take b.size.toNat

/-- a freshly created section (`sections.add`) of the given type -/
def fresh (cls : Cls) (stype : BitVec 32) : SecBuf :=
  { cls, stype, size := 0, data := none, dataSize := 0, streamSize := 0, fileData := some [] }

/-- an eagerly loaded section whose data read succeeded -/
def loadedEager (cls : Cls) (stype : BitVec 32) (d : Bytes) (streamSize : BitVec 64) : SecBuf :=
  { cls, stype, size := BitVec.ofNat 64 d.length,
    data := if d.length = 0 then some (alloc 1) else some (d ++ [0]),
    dataSize := if d.length = 0 then 0 else BitVec.ofNat 64 d.length,
    streamSize, isLoaded := true, fileData := some d }

/-- a lazily loaded, not yet resident section whose data is readable -/
def loadedLazy (cls : Cls) (stype : BitVec 32) (d : Bytes) (streamSize : BitVec 64) : SecBuf :=
  { cls, stype, size := BitVec.ofNat 64 d.length, data := none, dataSize := 0,
    streamSize, isLazy := true, fileData := some d }

end SecBuf
end ElfioVerif
