/-
Ownership model of `elfio` objects (property C19), read off elfio.hpp:

 * an `elfio` owns (through `unique_ptr`s) its header, sections and segments — the `Body` —,
   the `ifstream` of the last `load(file_name)` (`pstream`) and — after fixes/06 — a heap
   allocated `endianness_convertor` + `address_translator` pair (a `Box`);
   before fixes/06 the pair is a direct member: it lives and dies with the object's storage and
   is never handed over (`Variant.moveFix = false`; the box is then "the members of that object");
 * the header, every section and every segment store *raw pointers* to a convertor and a
   translator (`Body.box`), and lazily loaded sections/segments a raw `istream*` (`Body.stream`).
   Eagerly loaded and created sections never dereference their stream pointer again
   (`is_loaded`, or `can_be_loaded = false` after a failed read), so it is only recorded for lazy loads.
   (One exception outside this family's edit vocabulary, confirmed with ASan and independent of
   moves: an eagerly loaded *segment* with `p_filesz == 0` or `PT_NULL` stays `is_loaded = false`;
   `set_file_size(n)` followed by `get_data()` then reads through the `ifstream` that
   `load(file_name)` has already destroyed.  The harness has no segment setters for loaded objects.)
 * every pointer of one body has the same target: the eight creation sites of elfio.hpp pass the
   *current owner's* convertor/translator, and both are re-pointed only together with the whole
   body.  (Before fixes/06 children created after a move point to the new owner while the older
   ones still point to the source; the model keeps the pointer of the header.  The unfixed
   variant is only used for the `…_witness` theorems, which do not add children after a move.)
 * `destroy` frees the object, its box and its stream; dereferencing a pointer to something
   freed is `HFault.dangling` (= `Fault.useAfterFree`), dereferencing a pointer to something that
   was re-initialised returns the *new* contents (that is the silent byte-order flip).
 * `current_file_pos` is not part of the state: `save` assigns it before reading it.
 * the compression interface is a `shared_ptr` copied into every section: no raw pointer, not modelled
   (except for what `explicit elfio(compression_interface*)` does to the header, fixes/07).

The contents themselves are abstract (`Ops`, Spec/Value.lean).
-/
import ElfioVerif.Spec.Value
namespace ElfioVerif.Own

/-- which repairs are in the code -/
structure Variant where
  /-- fixes/06: convertor + translator on the heap, handed over by the move operations together
      with `pstream` -/
  moveFix : Bool
  /-- fixes/07: `elfio(compression_interface*)` creates the default header -/
  ctorFix : Bool
  /-- fixes/08: `load(file_name)` drops sections/segments before it replaces `pstream` -/
  openFix : Bool
  deriving DecidableEq, Repr

def Variant.fixed : Variant := ⟨true, true, true⟩
/-- /repo before fixes/06, 07, 08 -/
def Variant.asIs : Variant := ⟨false, false, false⟩

structure Box (T : Type) where
  enc : Enc
  trans : T

structure Body (C : Type) where
  /-- the convertor/translator the header, the sections and the segments point to -/
  box : Nat
  /-- the stream lazily loaded sections and segments point to -/
  stream : Option Nat
  content : C

structure Cell (C : Type) where
  /-- `convertor`, `addr_translator` -/
  box : Nat
  /-- `pstream` -/
  pstream : Option Nat
  /-- `header`, `sections_`, `segments_` (`none`: `header == nullptr`, no sections, no segments) -/
  body : Option (Body C)

structure Heap (ops : Ops) where
  cells : Nat → Option (Cell ops.C)
  boxes : Nat → Option (Box ops.T)
  streams : Nat → Option ops.S
  /-- allocation counters (storage is never handed out twice: a dangling pointer stays dangling) -/
  nbox : Nat
  nstream : Nat

def Heap.empty (ops : Ops) : Heap ops :=
  { cells := fun _ => none, boxes := fun _ => none, streams := fun _ => none, nbox := 0, nstream := 0 }

variable {ops : Ops}

def getCell (h : Heap ops) (id : Nat) : HM (Cell ops.C) :=
  match h.cells id with
  | some c => .ok c
  | none => .error (.noObject id)

def derefBox (h : Heap ops) (b : Nat) (what : String) : HM (Box ops.T) :=
  match h.boxes b with
  | some x => .ok x
  | none => .error (.dangling what)

def derefStream (h : Heap ops) (p : Option Nat) (what : String) : HM (Option ops.S) :=
  match p with
  | none => .ok none
  | some s =>
    match h.streams s with
    | some x => .ok (some x)
    | none => .error (.dangling what)

/-- `unique_ptr<ifstream>` reset / overwritten -/
def freeStream (streams : Nat → Option ops.S) (p : Option Nat) : Nat → Option ops.S :=
  match p with
  | some s => upd streams s none
  | none => streams

def Body.cleared (b : Body ops.C) : Body ops.C :=
  { b with content := ops.clear b.content, stream := none }

/-- default member initialisers + `create(ELFCLASS32, ELFDATA2LSB)` -/
def construct (v : Variant) (h : Heap ops) (id : Nat) (comp : Bool) : HM (Heap ops × String) :=
  if (h.cells id).isSome then .error (.illFormed "construct: the object exists") else
  let b := h.nbox
  let boxes := upd h.boxes b (some { enc := .lsb, trans := ops.noTrans })
  if comp && !v.ctorFix then
    -- `elfio();` builds and drops a temporary: this object keeps `header == nullptr`
    .ok ({ h with cells := upd h.cells id (some { box := b, pstream := none, body := none }),
                  boxes := boxes, nbox := b + 1 }, "ok")
  else
    match liftC (ops.create .c32 .lsb) with
    | .error e => .error e
    | .ok c =>
      .ok ({ h with cells := upd h.cells id (some { box := b, pstream := none,
                                                     body := some { box := b, stream := none, content := c } }),
                    boxes := boxes, nbox := b + 1 }, "ok")

/-- `create(cls, enc)` : `convertor.setup(enc)`; new header and sections pointing to this
    object's convertor/translator.  `pstream` is left alone. -/
def create (h : Heap ops) (id : Nat) (cls : Cls) (enc : Enc) : HM (Heap ops × String) :=
  match getCell h id with
  | .error e => .error e
  | .ok c =>
    match derefBox h c.box "convertor" with
    | .error e => .error e
    | .ok bx =>
      match liftC (ops.create cls enc) with
      | .error e => .error e
      | .ok ct =>
        .ok ({ h with cells := upd h.cells id (some { c with body := some { box := c.box, stream := none, content := ct } }),
                      boxes := upd h.boxes c.box (some { bx with enc := enc }) }, "ok")

def setTrans (h : Heap ops) (id : Nat) (t : ops.T) : HM (Heap ops × String) :=
  match getCell h id with
  | .error e => .error e
  | .ok c =>
    match derefBox h c.box "addr_translator" with
    | .error e => .error e
    | .ok bx => .ok ({ h with boxes := upd h.boxes c.box (some { bx with trans := t }) }, "ok")

/-- `load(file_name, lazy)`, the file exists and holds `img` -/
def load (h : Heap ops) (id : Nat) (img : Bytes) (isLazy : Bool) : HM (Heap ops × String) :=
  match getCell h id with
  | .error e => .error e
  | .ok c =>
    match derefBox h c.box "addr_translator" with
    | .error e => .error e
    | .ok bx =>
      -- pstream = make_unique<ifstream>(): the previous stream is closed and freed
      let streams := freeStream h.streams c.pstream
      let s := h.nstream
      match liftC (ops.load bx.trans img isLazy) with
      | .error e => .error e
      | .ok r =>
        let body := match r.res with
          | some (_, ct) => some { box := c.box, stream := if isLazy then some s else none, content := ct }
          | none => c.body.map Body.cleared
        let boxes := match r.res with
          | some (e, _) => upd h.boxes c.box (some { bx with enc := e })
          | none => h.boxes
        -- `if (!is_lazy) pstream.reset()`
        .ok ({ h with cells := upd h.cells id (some { c with pstream := if isLazy then some s else none, body := body }),
                      boxes := boxes,
                      streams := upd streams s (if isLazy then some r.stream else none),
                      nstream := s + 1 }, r.out)

/-- `load(file_name, lazy)`, the file cannot be opened: returns before `load(stream)` -/
def loadMissing (v : Variant) (h : Heap ops) (id : Nat) : HM (Heap ops × String) :=
  match getCell h id with
  | .error e => .error e
  | .ok c =>
    let streams := freeStream h.streams c.pstream
    let s := h.nstream
    let body := if v.openFix then c.body.map Body.cleared else c.body
    .ok ({ h with cells := upd h.cells id (some { c with pstream := some s, body := body }),
                  streams := upd streams s (some ops.noStream),
                  nstream := s + 1 }, "load=false")

/-- `elfio(elfio&& other)` into fresh storage -/
def moveConstruct (v : Variant) (h : Heap ops) (dst src : Nat) : HM (Heap ops × String) :=
  if (h.cells dst).isSome then .error (.illFormed "move-construct: the destination exists") else
  match getCell h src with
  | .error e => .error e
  | .ok cs =>
    -- the destination's own (default-initialised) convertor/translator
    let b := h.nbox
    if v.moveFix then
      -- unique_ptrs swapped: the destination takes the source's pair, the source the fresh one
      .ok ({ h with cells := upd (upd h.cells dst (some { box := cs.box, pstream := cs.pstream, body := cs.body }))
                               src (some { box := b, pstream := none, body := none }),
                    boxes := upd h.boxes b (some { enc := .lsb, trans := ops.noTrans }),
                    nbox := b + 1 }, "ok")
    else
      match derefBox h cs.box "convertor" with
      | .error e => .error e
      | .ok bs =>
        -- members copied / moved: the body still points to the source's members; pstream stays
        .ok ({ h with cells := upd (upd h.cells dst (some { box := b, pstream := none, body := cs.body }))
                                 src (some { cs with body := none }),
                      boxes := upd (upd h.boxes b (some { enc := bs.enc, trans := bs.trans }))
                                 cs.box (some { bs with trans := ops.noTrans }),
                      nbox := b + 1 }, "ok")

/-- `operator=(elfio&& other)` -/
def moveAssign (v : Variant) (h : Heap ops) (dst src : Nat) : HM (Heap ops × String) :=
  match getCell h dst with
  | .error e => .error e
  | .ok cd =>
    match getCell h src with
    | .error e => .error e
    | .ok cs =>
      if dst = src then .ok (h, "ok") else
      if v.moveFix then
        match derefBox h cd.box "addr_translator" with
        | .error e => .error e
        | .ok bd =>
          -- old body and old stream of the destination are freed; pairs swapped; the pair the
          -- source receives gets an empty translation table
          .ok ({ h with cells := upd (upd h.cells dst (some { box := cs.box, pstream := cs.pstream, body := cs.body }))
                                   src (some { box := cd.box, pstream := none, body := none }),
                        boxes := upd h.boxes cd.box (some { bd with trans := ops.noTrans }),
                        streams := freeStream h.streams cd.pstream }, "ok")
      else
        match derefBox h cs.box "convertor" with
        | .error e => .error e
        | .ok bs =>
          .ok ({ h with cells := upd (upd h.cells dst (some { cd with body := cs.body }))
                                   src (some { cs with body := none }),
                        boxes := upd (upd h.boxes cd.box (some { enc := bs.enc, trans := bs.trans }))
                                   cs.box (some { bs with trans := ops.noTrans }) }, "ok")

/-- `delete` : the object, its convertor/translator, its stream (and its body) are freed -/
def destroy (h : Heap ops) (id : Nat) : HM (Heap ops × String) :=
  match getCell h id with
  | .error e => .error e
  | .ok c =>
    .ok ({ h with cells := upd h.cells id none,
                  boxes := upd h.boxes c.box none,
                  streams := freeStream h.streams c.pstream }, "ok")

def Body.afterRun (b : Body ops.C) (r : RunOut ops.C ops.S) : Body ops.C := { b with content := r.content }

/-- an observation / edit / save: every getter and setter goes through the body's pointers -/
def runCmd (h : Heap ops) (id : Nat) (cmd : ops.Cmd) : HM (Heap ops × String) :=
  match getCell h id with
  | .error e => .error e
  | .ok c =>
    match c.body with
    | none => .ok (h, ops.emptyOut cmd)
    | some b =>
      match derefBox h b.box "convertor" with
      | .error e => .error e
      | .ok bx =>
        match derefStream h b.stream "pstream" with
        | .error e => .error e
        | .ok st =>
          match liftC (ops.run { enc := bx.enc, trans := bx.trans, stream := st } cmd b.content) with
          | .error e => .error e
          | .ok r =>
            let streams := match b.stream, r.stream with
              | some s, some x => upd h.streams s (some x)
              | _, _ => h.streams
            .ok ({ h with cells := upd h.cells id (some { c with body := some (b.afterRun r) }),
                          streams := streams }, r.out)

def step (v : Variant) (h : Heap ops) : Op ops.Cmd ops.T → HM (Heap ops × String)
  | .construct id comp => construct v h id comp
  | .create id cls enc => create h id cls enc
  | .setTrans id t => setTrans h id t
  | .load id img isLazy => load h id img isLazy
  | .loadMissing id _ => loadMissing v h id
  | .moveConstruct dst src => moveConstruct v h dst src
  | .moveAssign dst src => moveAssign v h dst src
  | .destroy id => destroy h id
  | .reuse => .ok (h, "ok")
  | .run id cmd => runCmd h id cmd

def runOps (v : Variant) : Heap ops → List (Op ops.Cmd ops.T) → HM (Heap ops × List String)
  | h, [] => .ok (h, [])
  | h, op :: rest =>
    match step v h op with
    | .error e => .error e
    | .ok (h', out) =>
      match runOps v h' rest with
      | .error e => .error e
      | .ok (h'', outs) => .ok (h'', out :: outs)

/-! ### `std::vector<elfio>` (libstdc++): `emplace_back(std::move(src))` -/

structure Vec where
  /-- the objects that are the elements, in order -/
  elems : List Nat := []
  cap : Nat := 0
  /-- next unused object name for element storage -/
  next : Nat
  deriving Repr

/-- names for `n` new slots -/
def Vec.slots (start n : Nat) : List Nat := (List.range n).map (start + ·)

/-- `emplace_back(std::move(src))` (`some src`) or `emplace_back()` (`none`): with room, the new
    element is constructed in place; without, new storage of `max 1 (2·size)` elements is
    allocated, the new element is constructed first, then every old element is move-constructed
    into the new storage, then the old ones are destroyed and their storage is freed
    (`_M_realloc_insert`; `elfio(elfio&&)` is `noexcept`). -/
def Vec.push {Cmd T : Type} (vec : Vec) (src : Option Nat) : Vec × List (Op Cmd T) :=
  let mk (el : Nat) : Op Cmd T := match src with
    | some s => .moveConstruct el s
    | none => .construct el false
  if vec.elems.length < vec.cap then
    ({ vec with elems := vec.elems ++ [vec.next], next := vec.next + 1 }, [mk vec.next])
  else
    let n := vec.elems.length
    let fresh := Vec.slots vec.next n
    let newEl := vec.next + n
    ({ elems := fresh ++ [newEl], cap := max 1 (2 * n), next := vec.next + n + 1 },
     [mk newEl]
       ++ (List.zipWith (fun d s => Op.moveConstruct d s) fresh vec.elems)
       ++ vec.elems.map (fun s => Op.destroy s) ++ [.reuse])

end ElfioVerif.Own
