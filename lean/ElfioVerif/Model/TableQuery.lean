/-
The table *query* interfaces as they are after fixes/10 … 15, 17 … 21 (property C18): relocation
`get_entry` without and with symbol resolution, symbol lookup by name (SysV / GNU hash walks + linear
fallback) and by value, array / versym `get_entry`, version requirement / definition `get_entry`,
`arrange_local_symbols` with the usual `swap_symbols` callback.

Every function here is "the new guard(s) of the fix, then the accessor family's model of the rest of the
function" (Model/Symbols.lean, Reloc.lean, Arrange.lean, Array.lean, Versym.lean), or — where the fix sits
inside a loop (the hash walks, the version chains, `swap_symbols`) — a copy of that model with the
guard in place.  The guards are the *generated* expressions of Gen/SitesC18.lean (`tq_…`, translated
from the patched source).  The accessor families' own definitions stay what they were: the model of the
function body behind the guards, which is all their theorems (about well-formed tables) ever
exercise, and the model of the *unfixed* function the `…_witness` theorems of Props/C18.lean run.

Sections are taken as they are after `section::get_data()` (`secData`, the models' `getData` calls are
no-ops on settled sections); `none` for a `SymTab` / string section is the null pointer
`elf_file.sections[i]` yields for an index that is out of range.
-/
import ElfioVerif.Model.Symbols
import ElfioVerif.Model.Reloc
import ElfioVerif.Model.Arrange
import ElfioVerif.Model.Versym
import ElfioVerif.Model.Dynamic
import ElfioVerif.Model.Load
import ElfioVerif.Gen.SitesC18
namespace ElfioVerif
open Gen

namespace TQ

/-! ### relocation entries -/

/-- `generic_get_entry_rel/rela<T>` : entry-size guard, null-data guard (fixes/15), then the reads -/
def relGetGeneric (ops : Reloc.RecOps) (nodata : Bool → Bool) (enc : Enc) (b : SecBuf) (index : BitVec 64) :
    M (Option Reloc.Entry) :=
  if ops.entsizeSmall b.entSize then pure none else
  if nodata (secData b).isNone then pure none else
  match Reloc.getGeneric ops enc b index with
  | .error f => .error f
  | .ok r => pure r.2

/-- `get_entry(index, offset, symbol, type, addend)`; `none` = returned false (out-params untouched) -/
def relGet (enc : Enc) (b : SecBuf) (index : BitVec 64) : M (Option Reloc.Entry) :=
  match Reloc.entriesNum b with
  | .error f => .error f
  | .ok n =>
    if reloc_get_idx_oob index n then pure none else
    if reloc_get_is32 (Reloc.classByte b.cls) then
      if reloc_get_is_rel32 b.stype then relGetGeneric Reloc.ops32rel tq_getrel32_nodata enc b index
      else if reloc_get_is_rela32 b.stype then relGetGeneric Reloc.ops32rela tq_getrela32_nodata enc b index
      else pure none
    else
      if reloc_get_is_rel64 b.stype then relGetGeneric Reloc.ops64rel tq_getrel64_nodata enc b index
      else if reloc_get_is_rela64 b.stype then relGetGeneric Reloc.ops64rela tq_getrela64_nodata enc b index
      else pure none

/-- what `get_entry(index, offset, symbolValue, symbolName, type, addend, calcValue)` leaves in its
    out-parameters (all of them 0 / empty before the call) and returns -/
structure Resolved where
  ret : Bool
  offset : BitVec 64 := 0
  symValue : BitVec 64 := 0
  symName : Bytes := []
  type : BitVec 32 := 0
  addend : BitVec 64 := 0
  calcValue : BitVec 64 := 0
  deriving Repr, DecidableEq

/-- the `switch ( type )` that computes `calcValue` -/
def relCalc (type : BitVec 32) (symbolValue addend offset : BitVec 64) : BitVec 64 :=
  match tq_reloc_calc_group type with
  | 0 => tq_reloc_calc0
  | 1 => tq_reloc_calc1 symbolValue addend
  | 2 => tq_reloc_calc2 symbolValue addend offset
  | 3 => tq_reloc_calc3
  | 4 => tq_reloc_calc4
  | 5 => tq_reloc_calc5
  | 6 => tq_reloc_calc6 symbolValue
  | 7 => tq_reloc_calc7 addend
  | 8 => tq_reloc_calc8
  | 9 => tq_reloc_calc9
  | _ => tq_reloc_calc10

/-- index of the symbol table: `(Elf_Half)relocation_section->get_link()` -/
def relSymtabIndex (b : SecBuf) : Nat := (tq_reloc_symtab_index b.link).toNat

/-- the overload with symbol resolution.  `symtab` = the accessor built on
    `elf_file.sections[get_symbol_table_index()]` (`none`: that pointer is null).  `guard` is the null
    test fixes/10 adds (`tq_reloc_nosymtab`); without it the accessor's constructor dereferences the
    null section. -/
def relGetResolvedWith (guard : Bool → Bool) (enc : Enc) (b : SecBuf) (symtab : Option SymTab)
    (index : BitVec 64) : M Resolved :=
  match relGet enc b index with
  | .error f => .error f
  | .ok r =>
    let e : Reloc.Entry := r.getD { offset := 0, symbol := tq_reloc_symbol_init, type := 0, addend := 0 }
    match symtab with
    | none =>
      if guard true then pure { ret := false, offset := e.offset, type := e.type, addend := e.addend }
      else throw (.nullDeref "symbol_section_accessor/find_hash_section")
    | some t =>
      if r.isNone then pure { ret := false }       -- `ret && …` : get_symbol is not called
      else
        match t.getSymbol (tq_reloc_sym_index e.symbol) [] {} with
        | .error f => .error f
        | .ok g =>
          let ret := tq_reloc_ret_and true g.1      -- `ret = ret && symbols.get_symbol( … )`, `ret` was true
          pure { ret := ret, offset := e.offset, symValue := g.2.2.value, symName := g.2.1, type := e.type,
                 addend := e.addend,
                 calcValue := if tq_reloc_calc_gate ret then relCalc e.type g.2.2.value e.addend e.offset else 0 }

def relGetResolved := relGetResolvedWith tq_reloc_nosymtab

/-! ### `set_entry` / `swap_symbols` (the callback of `arrange_local_symbols`) -/

/-- `set_entry(index, offset, symbol, type, addend)` (C11's model: `generic_set_entry_*` with the two guards
    of fixes/21); its Boolean result is not used by `swap_symbols` -/
def relSet (enc : Enc) (b : SecBuf) (index : BitVec 64) (e : Reloc.Entry) : M SecBuf :=
  match Reloc.setEntry enc b index e with
  | .error f => .error f
  | .ok r => pure r.1

/-- one iteration of the loop body of `swap_symbols` -/
def swapBody (enc : Enc) (first second : BitVec 64) (b : SecBuf) (i : BitVec 32) (cur : Reloc.Entry) :
    M (SecBuf × Reloc.Entry) :=
  match relGet enc b (reloc_swap_idx_get i) with
  | .error f => .error f
  | .ok r =>
    let cur := r.getD cur
    match (if reloc_swap_eq_first cur.symbol first
           then relSet enc b (reloc_swap_idx_set1 i) { cur with symbol := reloc_swap_arg_second second }
           else pure b) with
    | .error f => .error f
    | .ok b1 =>
      match (if reloc_swap_eq_second cur.symbol second
             then relSet enc b1 (reloc_swap_idx_set2 i) { cur with symbol := reloc_swap_arg_first first }
             else pure b1) with
      | .error f => .error f
      | .ok b2 => pure (b2, cur)

/-- `for ( Elf_Word i = 0; i < get_entries_num(); i++ )` -/
def swapLoop (enc : Enc) (first second : BitVec 64) : Nat → SecBuf → BitVec 32 → Reloc.Entry → M SecBuf
  | 0, _, _, _ => throw (.fuel "swap_symbols")
  | fuel + 1, b, i, cur =>
    match Reloc.entriesNum b with
    | .error f => .error f
    | .ok n =>
      if !(reloc_swap_loop_cond i n) then pure b else
      match swapBody enc first second b i cur with
      | .error f => .error f
      | .ok (b1, cur1) => swapLoop enc first second fuel b1 (reloc_swap_i_incr i) cur1

/-- `swap_symbols(first, second)` : nothing to do without data (fixes/20); with data the entry count
    is at most the section size, and the fuel suffices whenever that is below 2^32 -/
def swapSymbols (enc : Enc) (b : SecBuf) (first second : BitVec 64) : M SecBuf :=
  if tq_swap_nodata (secData b).isNone then pure b else
  swapLoop enc first second ((Reloc.entriesNumV b).toNat + 1) b reloc_swap_i_init
    { offset := reloc_swap_init_offset, symbol := reloc_swap_init_symbol, type := reloc_swap_init_rtype,
      addend := reloc_swap_init_addend }

/-- the callback `[&](first, second){ for (r : rels) relocation_section_accessor(elf, r).swap_symbols(first, second); }` -/
def swapAll (enc : Enc) : List SecBuf → BitVec 64 → BitVec 64 → M (List SecBuf)
  | [], _, _ => pure []
  | r :: rs, a, b =>
    match swapSymbols enc r a b with
    | .error f => .error f
    | .ok r' =>
      match swapAll enc rs a b with
      | .error f => .error f
      | .ok rs' => pure (r' :: rs')

/-- `arrange_local_symbols(func)` : without symbol data nothing is arranged (fixes/14) -/
def arrange {σ : Type} (cb : σ → BitVec 64 → BitVec 64 → M σ) (s : SecBuf) (st : σ) :
    M (SecBuf × σ × BitVec 64) :=
  if tq_arrange_nodata (secData s).isNone then pure (s, st, tq_arrange_nodata_ret) else Arrange.arrange cb s st

/-! ### symbol lookup by name: the hash walks after fixes/11, 12, 13 -/

/-- the `while ( str != name && STN_UNDEF != y && y < nchain && steps < nchain )` loop -/
def sysvLoop (t : SymTab) (data : Option Bytes) (name : Bytes) (nbucket nchain : BitVec 32) :
    Nat → BitVec 32 → BitVec 32 → Bytes → Attrs → M (Bytes × Attrs)
  | fuel, y, steps, str, a =>
    if str != name && sysv_walk_not_undef y && sysv_walk_lt_nchain y nchain && tq_sysv_step_ok steps nchain then
      match fuel with
      | 0 => throw (.fuel "hash_lookup")
      | k + 1 =>
        match SymTab.rd32 "hash_lookup/chain" t.cfg.enc data (sysv_chain_off nbucket y).toNat with
        | .error f => .error f
        | .ok y' =>
          match t.getSymbol (sysv_sym_index_walk y') str a with
          | .error f => .error f
          | .ok r => sysvLoop t data name nbucket nchain k y' (tq_sysv_step_incr steps) r.2.1 r.2.2
    else pure (str, a)

/-- `hash_lookup` : header guard, table-fits guard (fixes/11), step bound (fixes/12; `nchain + 1`
    units of fuel can then not run out) -/
def hashLookup (t : SymTab) (h : SecBuf) (name : Bytes) (a : Attrs) : M (Bool × Attrs) :=
  let data := secData h
  if tq_sysv_hdr_bad data.isNone h.size then pure (false, a) else
  match SymTab.rd32 "hash_lookup/nbucket" t.cfg.enc data sysv_nbucket_off.toNat with
  | .error f => .error f
  | .ok nbucket =>
    match SymTab.rd32 "hash_lookup/nchain" t.cfg.enc data sysv_nchain_off.toNat with
    | .error f => .error f
    | .ok nchain =>
      if tq_sysv_fit_bad nbucket h.size nchain then pure (false, a) else
      let val := elf_hash (SymTab.cName name)
      match SymTab.rd32 "hash_lookup/bucket" t.cfg.enc data (sysv_bucket_off val nbucket).toNat with
      | .error f => .error f
      | .ok y =>
        match t.getSymbol (sysv_sym_index y) [] a with
        | .error f => .error f
        | .ok r =>
          if sysv_head_missing r.1 then pure (false, a) else
          match sysvLoop t data name nbucket nchain (nchain.toNat + 1) y tq_sysv_step_init r.2.1 r.2.2 with
          | .error f => .error f
          | .ok st => pure (st.1 == name, st.2)

/-- the `while (true)` loop of `gnu_hash_lookup` with the end-of-section test of fixes/13 -/
def gnuLoopT (is32 : Bool) (t : SymTab) (data : Option Bytes) (name : Bytes) (hash symoffset : BitVec 32)
    (chainsBase : Nat) (nchains : BitVec 64) : Nat → BitVec 32 → BitVec 32 → Bytes → Attrs → M (Bool × Attrs)
  | 0, _, _, _, _ => throw (.fuel "gnu_hash_lookup")
  | k + 1, ci, ch, sn, a =>
    if !(if is32 then gnu32_loop_forever else gnu64_loop_forever) then pure (false, a) else
    let hm := if is32 then gnu32_hash_match ch hash else gnu64_hash_match ch hash
    match (if hm then t.getSymbol (if is32 then gnu32_sym_index ci symoffset else gnu64_sym_index ci symoffset) sn a
           else pure (false, sn, a)) with
    | .error f => .error f
    | .ok r =>
      if (if is32 then gnu32_name_match_gate ch hash r.1 (name == r.2.1)
          else gnu64_name_match_gate ch hash r.1 (name == r.2.1)) then pure (true, r.2.2) else
      if (if is32 then gnu32_chain_end ch else gnu64_chain_end ch) then pure (false, r.2.2) else
      let ci' := if is32 then gnu32_chain_next ci else gnu64_chain_next ci
      if (if is32 then tq_gnu32_next_oob ci' nchains else tq_gnu64_next_oob ci' nchains) then pure (false, r.2.2) else
      match SymTab.rd32 "gnu_hash_lookup/chain" t.cfg.enc data
          (chainsBase + (if is32 then gnu32_chain_elem_off_walk ci' else gnu64_chain_elem_off_walk ci').toNat) with
      | .error f => .error f
      | .ok ch' => gnuLoopT is32 t data name hash symoffset chainsBase nchains k ci' ch' r.2.1 r.2.2

/-- `gnu_hash_lookup<T>` after fixes/13: header guard; zero counts, shift and table-fits guard; the chain
    may neither start nor continue behind the section (`nchains` entries fit) -/
def gnuLookupT (is32 : Bool) (t : SymTab) (h : SecBuf) (name : Bytes) (a : Attrs) : M (Bool × Attrs) :=
  let data := secData h
  let e := t.cfg.enc
  if (if is32 then tq_gnu32_hdr_bad data.isNone h.size else tq_gnu64_hdr_bad data.isNone h.size) then pure (false, a) else
  match SymTab.rd32 "gnu_hash_lookup/nbuckets" e data (if is32 then gnu32_nbuckets_off else gnu64_nbuckets_off).toNat with
  | .error f => .error f
  | .ok nbuckets =>
  match SymTab.rd32 "gnu_hash_lookup/symoffset" e data (if is32 then gnu32_symoffset_off else gnu64_symoffset_off).toNat with
  | .error f => .error f
  | .ok symoffset =>
  match SymTab.rd32 "gnu_hash_lookup/bloom_size" e data (if is32 then gnu32_bloom_size_off else gnu64_bloom_size_off).toNat with
  | .error f => .error f
  | .ok bloomSize =>
  match SymTab.rd32 "gnu_hash_lookup/bloom_shift" e data (if is32 then gnu32_bloom_shift_off else gnu64_bloom_shift_off).toNat with
  | .error f => .error f
  | .ok bloomShift =>
    if (if is32 then tq_gnu32_fit_bad nbuckets bloomSize bloomShift h.size
        else tq_gnu64_fit_bad nbuckets bloomSize bloomShift h.size) then pure (false, a) else
    let nchains := if is32 then tq_gnu32_nchains h.size bloomSize nbuckets else tq_gnu64_nchains h.size bloomSize nbuckets
    let hash := elf_gnu_hash (SymTab.cName name)
    let bloomBase := (if is32 then gnu32_bloom_off else gnu64_bloom_off).toNat
    match (if is32 then
             match SymTab.rd32 "gnu_hash_lookup/bloom" e data
                 (bloomBase + (gnu32_bloom_elem_off (gnu32_bloom_index hash bloomSize)).toNat) with
             | .error f => .error f
             | .ok w => let bits := gnu32_bloom_bits hash bloomShift; pure (!(gnu32_bloom_miss w bits))
           else
             match SymTab.rd64 "gnu_hash_lookup/bloom" e data
                 (bloomBase + (gnu64_bloom_elem_off (gnu64_bloom_index hash bloomSize)).toNat) with
             | .error f => .error f
             | .ok w => let bits := gnu64_bloom_bits hash bloomShift; pure (!(gnu64_bloom_miss w bits)) : M Bool) with
    | .error f => .error f
    | .ok pass =>
      if !pass then pure (false, a) else
      let bucket := if is32 then gnu32_bucket hash nbuckets else gnu64_bucket hash nbuckets
      let bucketsBase := bloomBase + (if is32 then gnu32_buckets_off bloomSize else gnu64_buckets_off bloomSize).toNat
      let chainsBase := bucketsBase + (if is32 then gnu32_chains_off nbuckets else gnu64_chains_off nbuckets).toNat
      match SymTab.rd32 "gnu_hash_lookup/bucket" e data
          (bucketsBase + (if is32 then gnu32_bucket_elem_off bucket else gnu64_bucket_elem_off bucket).toNat) with
      | .error f => .error f
      | .ok bv =>
        if (if is32 then gnu32_bucket_ok bv symoffset else gnu64_bucket_ok bv symoffset) then
          let ci := if is32 then gnu32_chain_start bv symoffset else gnu64_chain_start bv symoffset
          if (if is32 then tq_gnu32_start_oob ci nchains else tq_gnu64_start_oob ci nchains) then pure (false, a) else
          match SymTab.rd32 "gnu_hash_lookup/chain" e data
              (chainsBase + (if is32 then gnu32_chain_elem_off ci else gnu64_chain_elem_off ci).toNat) with
          | .error f => .error f
          | .ok ch => gnuLoopT is32 t data name hash symoffset chainsBase nchains (nchains.toNat + 1) ci ch [] a
        else pure (false, a)

/-- the walk / `gnu_hash_lookup<T>` for the `T` of the file's class -/
def gnuLoop (t : SymTab) (data : Option Bytes) (name : Bytes) (hash symoffset : BitVec 32)
    (chainsBase : Nat) (nchains : BitVec 64) (fuel : Nat) (ci ch : BitVec 32) (sn : Bytes) (a : Attrs) : M (Bool × Attrs) :=
  gnuLoopT t.c32 t data name hash symoffset chainsBase nchains fuel ci ch sn a

def gnuLookup (t : SymTab) (h : SecBuf) (name : Bytes) (a : Attrs) : M (Bool × Attrs) :=
  gnuLookupT t.c32 t h name a

/-- the hash phase of `get_symbol(name, …)` -/
def hashPhase (t : SymTab) (name : Bytes) (a : Attrs) : M (Bool × Attrs) :=
  match t.hash with
  | none => pure (false, a)
  | some h =>
    match (if tq_sym_hash_is_sysv h.stype then hashLookup t h name a else pure (false, a)) with
    | .error f => .error f
    | .ok r1 =>
      if tq_sym_hash_is_gnu h.stype then
        gnuLookupT (tq_sym_gnu_is32 (SymTab.clsByte t.cfg.cls)) t h name r1.2
      else pure r1

/-- `get_symbol(name, value, size, bind, type, section_index, other)` -/
def getByName (t : SymTab) (name : Bytes) (a : Attrs) : M (Bool × Attrs) :=
  match hashPhase t name a with
  | .error f => .error f
  | .ok r =>
    if tq_sym_linear_needed r.1 then
      match t.symbolsNum with
      | .error f => .error f
      | .ok n => SymTab.linearGo t name n.toNat sym_byname_i_init r.2
    else pure r

/-- `get_symbol(value, name, size, bind, type, section_index, other)` : unchanged by the fixes -/
def getByValue (t : SymTab) (value : BitVec 64) (str : Bytes) (a : Attrs) : M (Bool × Bytes × Attrs) :=
  t.getByValue value str a

/-! ### arrays, symbol-version indices (fixes/17, 18) -/

/-- array `get_entry(index, address)` : index guard, null-data guard, the read -/
def arrGet (w : Arr.W) (e : Enc) (b : SecBuf) (index : BitVec 64) : M (Option (BitVec 64)) :=
  match w with
  | .w4 =>
    if arr32_get_guard index (Arr.entriesNum .w4 b) then pure none else
    if tq_arr32_nodata (secData b).isNone then pure none else Arr.getEntry .w4 e b index
  | .w8 =>
    if arr64_get_guard index (Arr.entriesNum .w8 b) then pure none else
    if tq_arr64_nodata (secData b).isNone then pure none else Arr.getEntry .w8 e b index

/-- versym `get_entry(no, value)` -/
def versymGet (b : SecBuf) (num no : BitVec 32) : M (Option (BitVec 16)) :=
  if vs_get_guard true no (Versym.entriesNum num) then
    if tq_vs_nodata (secData b).isNone then pure none else Versym.getEntry b num no
  else pure none

/-! ### version requirement / definition chains (fixes/19) -/

/-- `for (Elf_Word i = 0; i < no; ++i)` of `versym_r_section_accessor::get_entry` : the state is
    `(pos, verneed, veraux)` — the offset counter the fix adds and the two pointers as byte offsets;
    `none` = the function returned false (end of chain, or a link out of the section) -/
def needLoop (e : Enc) (data : Option Bytes) (size : BitVec 64) (no : BitVec 32) :
    Nat → BitVec 32 → BitVec 64 × Nat × Nat → M (Option (BitVec 64 × Nat × Nat))
  | 0, _, _ => throw (.fuel "verneed/loop")
  | f + 1, i, (pos, vn, va) =>
    if vr_loop_cond i no then
      match rd32 "verneed/vn_next" data (vn + Elfxx_Verneed.vn_next_off) with
      | .error er => .error er
      | .ok nx =>
        let next := tq_vr_next (cv32 e) (verneed_vn_next := nx)
        if tq_vr_next_bad next size pos then pure none else
        let vn' := vn + (vr_next_off (cv32 e) (verneed_vn_next := nx)).toNat
        match rd32 "verneed/vn_aux" data (vn' + Elfxx_Verneed.vn_aux_off) with
        | .error er => .error er
        | .ok ax =>
          needLoop e data size no f (vr_i_incr i)
            (tq_vr_pos_incr pos next, vn', vn' + (vr_aux_off1 (cv32 e) (verneed_vn_aux := ax)).toNat)
    else pure (some (pos, vn, va))

/-- `versym_r_section_accessor::get_entry(no, …)`; `num` = cached DT_VERNEEDNUM, `str` =
    `sections[get_link()]`; `none` = returned false (out-parameters untouched) -/
def needGet (e : Enc) (b : SecBuf) (str : Option SecBuf) (num no : BitVec 32) : M (Option Verneed.View) :=
  if vr_guard true no num then pure none else
  let data := secData b
  if tq_vr_hdr_bad data.isNone b.size then pure none else
  match rd32 "verneed/vn_aux" data Elfxx_Verneed.vn_aux_off with
  | .error er => .error er
  | .ok ax0 =>
    match needLoop e data b.size no (no.toNat + 1) vr_i_init (tq_vr_pos_init, 0, (vr_aux_off0 (cv32 e) (verneed_vn_aux := ax0)).toNat) with
    | .error er => .error er
    | .ok none => pure none
    | .ok (some (pos, vn, va)) =>
      match rd32 "verneed/vn_aux" data (vn + Elfxx_Verneed.vn_aux_off) with
      | .error er => .error er
      | .ok axr =>
        if tq_vr_aux_bad (tq_vr_aux (cv32 e) (verneed_vn_aux := axr)) b.size pos then pure none else
        match rd32 "verneed/vn_file" data (vn + Elfxx_Verneed.vn_file_off) with
        | .error er => .error er
        | .ok fidx =>
          match rd32 "verneed/vna_name" data (va + Elfxx_Vernaux.vna_name_off) with
          | .error er => .error er
          | .ok nidx =>
            let fileP := strLookup str (vr_file_idx (cv32 e) (verneed_vn_file := fidx))
            let depP := strLookup str (vr_name_idx (cv32 e) (veraux_vna_name := nidx))
            -- a name is not inside the string table
            if tq_vr_names_bad fileP.isNone depP.isNone then pure none else
            -- `file_name = file; dep_name = dep;` : assigning a null pointer to a std::string is a fault
            match fileP, depP with
            | some file, some name =>
              match rd16 "verneed/vn_version" data (vn + Elfxx_Verneed.vn_version_off) with
              | .error er => .error er
              | .ok version =>
                match rd32 "verneed/vna_hash" data (va + Elfxx_Vernaux.vna_hash_off) with
                | .error er => .error er
                | .ok hash =>
                  match rd16 "verneed/vna_flags" data (va + Elfxx_Vernaux.vna_flags_off) with
                  | .error er => .error er
                  | .ok flags =>
                    match rd16 "verneed/vna_other" data (va + Elfxx_Vernaux.vna_other_off) with
                    | .error er => .error er
                    | .ok other =>
                      pure (some { version := vr_version (cv16 e) (verneed_vn_version := version), file,
                                   hash := vr_hash (cv32 e) (veraux_vna_hash := hash),
                                   flags := vr_flags (cv16 e) (veraux_vna_flags := flags),
                                   other := vr_other (cv16 e) (veraux_vna_other := other), name })
            | _, _ => throw (.nullDeref "verneed/file_name = file; dep_name = dep")

/-- the loop of `versym_d_section_accessor::get_entry` -/
def defLoop (e : Enc) (data : Option Bytes) (size : BitVec 64) (no : BitVec 32) :
    Nat → BitVec 32 → BitVec 64 × Nat × Nat → M (Option (BitVec 64 × Nat × Nat))
  | 0, _, _ => throw (.fuel "verdef/loop")
  | f + 1, i, (pos, vd, va) =>
    if vd_loop_cond i no then
      match rd32 "verdef/vd_next" data (vd + Elfxx_Verdef.vd_next_off) with
      | .error er => .error er
      | .ok nx =>
        let next := tq_vd_next (cv32 e) (verdef_vd_next := nx)
        if tq_vd_next_bad next size pos then pure none else
        let vd' := vd + (vd_next_off (cv32 e) (verdef_vd_next := nx)).toNat
        match rd32 "verdef/vd_aux" data (vd' + Elfxx_Verdef.vd_aux_off) with
        | .error er => .error er
        | .ok ax =>
          defLoop e data size no f (vd_i_incr i)
            (tq_vd_pos_incr pos next, vd', vd' + (vd_aux_off1 (cv32 e) (verdef_vd_aux := ax)).toNat)
    else pure (some (pos, vd, va))

/-- `versym_d_section_accessor::get_entry(no, flags, version_index, hash, dep_name)` -/
def defGet (e : Enc) (b : SecBuf) (str : Option SecBuf) (num no : BitVec 32) : M (Option Verdef.View) :=
  if vd_guard true no num then pure none else
  let data := secData b
  if tq_vd_hdr_bad data.isNone b.size then pure none else
  match rd32 "verdef/vd_aux" data Elfxx_Verdef.vd_aux_off with
  | .error er => .error er
  | .ok ax0 =>
    match defLoop e data b.size no (no.toNat + 1) vd_i_init (tq_vd_pos_init, 0, (vd_aux_off0 (cv32 e) (verdef_vd_aux := ax0)).toNat) with
    | .error er => .error er
    | .ok none => pure none
    | .ok (some (pos, vd, va)) =>
      match rd32 "verdef/vd_aux" data (vd + Elfxx_Verdef.vd_aux_off) with
      | .error er => .error er
      | .ok axr =>
        if tq_vd_aux_bad (tq_vd_aux (cv32 e) (verdef_vd_aux := axr)) b.size pos then pure none else
        match rd32 "verdef/vda_name" data (va + Elfxx_Verdaux.vda_name_off) with
        | .error er => .error er
        | .ok nidx =>
          let depP := strLookup str (vd_name_idx (cv32 e) (verdaux_vda_name := nidx))
          -- the name is not inside the string table
          if tq_vd_names_bad depP.isNone then pure none else
          -- `dep_name = dep;` : assigning a null pointer to a std::string is a fault
          match depP with
          | none => throw (.nullDeref "verdef/dep_name = dep")
          | some name =>
            match rd16 "verdef/vd_flags" data (vd + Elfxx_Verdef.vd_flags_off) with
            | .error er => .error er
            | .ok flags =>
              match rd16 "verdef/vd_ndx" data (vd + Elfxx_Verdef.vd_ndx_off) with
              | .error er => .error er
              | .ok ndx =>
                match rd32 "verdef/vd_hash" data (vd + Elfxx_Verdef.vd_hash_off) with
                | .error er => .error er
                | .ok hash =>
                  pure (some { flags := vd_flags (cv16 e) (verdef_vd_flags := flags),
                               ndx := vd_ndx (cv16 e) (verdef_vd_ndx := ndx),
                               hash := vd_hash (cv32 e) (verdef_vd_hash := hash), name })

/-! ### the constructors of the version requirement / definition accessors (entry count from `.dynamic`) -/

/-- the `for ( Elf_Xword i = 0; i < dyn_sec_num; ++i )` loop of the two constructors: the (truncated) value of
    the first entry `get_entry` delivers with the wanted tag, 0 (the member initialiser) without one.  Loop
    condition, the `get_entry(…) && tag == DT_VER*NUM` test, the increment and the `(Elf_Word)value`
    conversion are the generated expressions handed in. -/
def verCountGo (loopc : BitVec 64 → BitVec 64 → Bool) (hit : Bool → BitVec 64 → Bool)
    (incr : BitVec 64 → BitVec 64) (trunc : BitVec 64 → BitVec 32) (n : BitVec 64) :
    Nat → DynAcc → BitVec 64 → M (BitVec 32)
  | 0, _, _ => pure 0
  | fuel + 1, a, i =>
    if loopc i n then
      match a.getEntry i with
      | .error f => .error f
      | .ok (a', r) =>
        -- `tag` is only read when `get_entry` returned true
        let got : Bool × BitVec 64 × BitVec 64 := match r with
          | .ok t v _ => (true, t, v)
          | _ => (false, 0, 0)
        if hit got.1 got.2.1 then pure (trunc got.2.2) else verCountGo loopc hit incr trunc n fuel a' (incr i)
    else pure 0

/-- `versym_r_section_accessor( elf, sec )` / `versym_d_section_accessor( elf, sec )` : the cached `entries_num`.
    `dyn` = the dynamic accessor the constructor builds on `elf_file.sections[".dynamic"]` (`none`: no such
    section, a null pointer) -/
def verCount (need : Bool) (dyn : Option DynAcc) : M (BitVec 32) :=
  if (if need then vr_ctor_nodyn dyn.isNone else vd_ctor_nodyn dyn.isNone) then pure 0 else
  match dyn with
  | none => pure 0
  | some a0 =>
    match a0.entriesNum with
    | .error f => .error f
    | .ok (a1, n) =>
      if need then
        verCountGo vr_ctor_loop vr_ctor_hit vr_ctor_i_incr vr_num_trunc (vr_ctor_count n) n.toNat a1 vr_ctor_i_init
      else
        verCountGo vd_ctor_loop vd_ctor_hit vd_ctor_i_incr vd_num_trunc (vd_ctor_count n) n.toNat a1 vd_ctor_i_init

/-! ### the queries on a loaded object

The accessors are constructed on sections of the object: `sections[i]` (`none`: the index is out of
range, a null pointer), made resident by `section::get_data()` against the real stream (`secGetData`). -/

/-- `sections[i]->get_data()` on the object: the new object and the (now settled) section -/
def settle (o : Obj) (i : Nat) : Option (Obj × SecBuf) :=
  match o.secs[i]? with
  | none => none
  | some b =>
    let r := secGetData o.cls o.trans { st := o.stream } b
    some ({ o with secs := o.secs.set i r.2, stream := r.1.st }, r.2)

/-- `settle` when the section may be absent: the object and `sections[i]` (`none` = nullptr) -/
def settleOpt (o : Obj) (i : Nat) : Obj × Option SecBuf :=
  match settle o i with
  | none => (o, none)
  | some (o', s) => (o', some s)

/-- the loop of `find_hash_section()` over `sections[j], j < nSecNo` (`Elf_Half` counters; the loop
    condition and the link / type test are the generated expressions) -/
def findHashGo (idx n : BitVec 16) : List SecBuf → Nat → Nat
  | [], _ => 0
  | s :: rest, j =>
    if !(tq_findhash_loop (BitVec.ofNat 16 j) n) then 0
    else if tq_findhash_match s.link idx s.stype then (tq_findhash_index (BitVec.ofNat 16 j)).toNat
    else findHashGo idx n rest (j + 1)

/-- `find_hash_section()` : index of the first section linked to section `idx` that has a hash type
    (`hash_section_index`; 0 also means "none"); `sections.size()` and `get_index()` are `Elf_Half` -/
def findHash (o : Obj) (idx : Nat) : Nat :=
  findHashGo (BitVec.ofNat 16 idx) (tq_findhash_nsec (BitVec.ofNat 16 o.secs.length)) o.secs 0

/-- `symbol_section_accessor( elf, sections[i] )` : the symbol section, `sections[(Elf_Half)sh_link]` and
    the hash section, all made resident (a section that occurs twice is settled by its first visit) -/
def symTabFor (o : Obj) (i : Nat) : Option (Obj × SymTab) :=
  match settle o i with
  | none => none
  | some (o1, b) =>
    let r2 := settleOpt o1 (tq_sym_strtab_index b.link).toNat
    let hi := findHash r2.1 b.index
    let r3 := if tq_sym_has_hash (BitVec.ofNat 16 hi) then settleOpt r2.1 hi else (r2.1, none)
    some (r3.1, { cfg := ⟨o.cls, o.enc⟩, sym := b, str := r2.2, hash := r3.2 })

/-- the scan over `sections[j], j < nSecNo` that collects the callback's relocation sections -/
def relsOfGo (i n : Nat) : List SecBuf → Nat → List Nat
  | [], _ => []
  | r :: rest, j =>
    if j ≥ n then []
    else if j != i && (r.stype == BitVec.ofNat 32 SHT_REL || r.stype == BitVec.ofNat 32 SHT_RELA) && r.link.toNat == i
      then j :: relsOfGo i n rest (j + 1)
      else relsOfGo i n rest (j + 1)

/-- indices of the relocation sections the `arrange` callback updates: every OTHER section of type
    SHT_REL / SHT_RELA whose sh_link is `i` -/
def relsOf (o : Obj) (i : Nat) : List Nat := relsOfGo i (o.secs.length % 65536) o.secs 0

/-- make the listed sections resident -/
def settleAll (o : Obj) : List Nat → Obj
  | [] => o
  | j :: js => settleAll (settleOpt o j).1 js

/-- write the sections back at the listed indices -/
def putAll (secs : List SecBuf) : List Nat → List SecBuf → List SecBuf
  | j :: js, r :: rs => putAll (secs.set j r) js rs
  | _, _ => secs

/-- the object a count was read on, with the count -/
def liftQN (o : Obj) (x : M (BitVec 32)) : M (Obj × BitVec 32) :=
  match x with
  | .error e => .error e
  | .ok v => pure (o, v)

/-- `DT_VERNEEDNUM` / `DT_VERDEFNUM` as the constructors of the version accessors find it: the dynamic
    accessor (C12's model) on the first section named `.dynamic` and on `sections[(Elf_Half)sh_link]` of it, both
    made resident (`verCount`: the constructor's scan) -/
def dynNum (o : Obj) (need : Bool) : M (Obj × BitVec 32) :=
  let nm : Bytes := [0x2e, 0x64, 0x79, 0x6e, 0x61, 0x6d, 0x69, 0x63]     -- ".dynamic"
  match o.secs.findIdx? (fun s => s.name == nm) with
  | none => liftQN o (verCount need none)
  | some di =>
    match settle o di with
    | none => liftQN o (verCount need none)
    | some (o1, d) =>
      let r := settleOpt o1 (dyn_strtab_index d.link).toNat
      liftQN r.1 (verCount need (some { cfg := ⟨r.1.cls, r.1.enc⟩, sec := d, str := r.2 }))

inductive Query
  | relGet (i : Nat) (k : BitVec 64)
  | relGetResolved (i : Nat) (k : BitVec 64)
  | symByName (i : Nat) (name : Bytes)
  | symByValue (i : Nat) (v : BitVec 64)
  | arrGet (w : Arr.W) (i : Nat) (k : BitVec 64)
  | versymGet (i : Nat) (k : BitVec 32)
  /-- `num` = the DT_VERNEEDNUM value the accessor's constructor found (ANY value) -/
  | needGet (i : Nat) (num k : BitVec 32)
  | defGet (i : Nat) (num k : BitVec 32)
  | arrange (i : Nat)
  /-- `swap_symbols(first, second)` on section `i` (what the `arrange` callback forwards to) -/
  | swap (i : Nat) (first second : BitVec 64)
  deriving Repr

inductive Out
  | null                                    -- `sections[i]` is a null pointer: nothing to query
  | rel (r : Option Reloc.Entry)
  | resolved (r : Resolved)
  | byName (r : Bool × Attrs)
  | byValue (r : Bool × Bytes × Attrs)
  | addr (r : Option (BitVec 64))
  | half (r : Option (BitVec 16))
  | need (r : Option Verneed.View)
  | vdef (r : Option Verdef.View)
  | arranged (ret : BitVec 64)
  | swapped
  deriving Repr

def liftQ {α : Type} (o : Obj) (x : M α) (f : α → Out) : M (Obj × Out) :=
  match x with
  | .error e => .error e
  | .ok a => pure (o, f a)

/-- one query against the loaded object -/
def runQuery (o : Obj) : Query → M (Obj × Out)
  | .relGet i k =>
    match settle o i with
    | none => pure (o, .null)
    | some (o1, b) => liftQ o1 (relGet o.enc b k) .rel
  | .relGetResolved i k =>
    match settle o i with
    | none => pure (o, .null)
    | some (o1, b) =>
      match symTabFor o1 (relSymtabIndex b) with
      | none => liftQ o1 (relGetResolved o.enc b none k) .resolved
      | some (o2, st) => liftQ o2 (relGetResolved o.enc b (some st) k) .resolved
  | .symByName i name =>
    match symTabFor o i with
    | none => pure (o, .null)
    | some (o1, st) => liftQ o1 (getByName st name {}) .byName
  | .symByValue i v =>
    match symTabFor o i with
    | none => pure (o, .null)
    | some (o1, st) => liftQ o1 (getByValue st v [] {}) .byValue
  | .arrGet w i k =>
    match settle o i with
    | none => pure (o, .null)
    | some (o1, b) => liftQ o1 (arrGet w o.enc b k) .addr
  | .versymGet i k =>
    match settle o i with
    | none => pure (o, .null)
    | some (o1, b) => liftQ o1 (versymGet b (Versym.mk b) k) .half
  | .needGet i num k =>
    match settle o i with
    | none => pure (o, .null)
    | some (o1, b) =>
      let r := settleOpt o1 b.link.toNat
      liftQ r.1 (needGet o.enc b r.2 num k) .need
  | .defGet i num k =>
    match settle o i with
    | none => pure (o, .null)
    | some (o1, b) =>
      let r := settleOpt o1 b.link.toNat
      liftQ r.1 (defGet o.enc b r.2 num k) .vdef
  | .arrange i =>
    match settle o i with
    | none => pure (o, .null)
    | some (o1, _) =>
      let idxs := relsOf o1 i
      let o2 := settleAll o1 idxs
      match o2.secs[i]? with
      | none => pure (o2, .null)
      | some s =>
        match arrange (swapAll o.enc) s (idxs.filterMap fun j => o2.secs[j]?) with
        | .error e => .error e
        | .ok (s', rels', ret) =>
          pure ({ o2 with secs := putAll (o2.secs.set i s') idxs rels' }, .arranged ret)
  | .swap i first second =>
    match settle o i with
    | none => pure (o, .null)
    | some (o1, b) =>
      match swapSymbols o.enc b first second with
      | .error e => .error e
      | .ok b' => pure ({ o1 with secs := o1.secs.set i b' }, .swapped)

/-- the queries that do not write to section data (everything but `arrange` and `swap`) -/
def Query.readOnly : Query → Bool
  | .arrange _ => false
  | .swap _ _ _ => false
  | _ => true

/-- a sequence of queries, each on the object the previous one left (lazy loads mutate the object) -/
def runQueries (o : Obj) : List Query → M (Obj × List Out)
  | [] => pure (o, [])
  | q :: qs =>
    match runQuery o q with
    | .error e => .error e
    | .ok (o1, out) =>
      match runQueries o1 qs with
      | .error e => .error e
      | .ok (o2, outs) => pure (o2, out :: outs)

end TQ
end ElfioVerif
