/-
Model of `array_section_accessor_template<S, T>` (elfio_array.hpp).  The entry width is the
template parameter `T` (4 bytes for `Elf32_Word`, the default; 8 for `Elf64_Addr`) and is
independent of the ELF class.  Guards, offsets, truncations and lengths are the generated
expressions of Gen/SitesC14.lean; the conversion is the generated `endianness_convertor`.
-/
import ElfioVerif.Model.SecBuf
import ElfioVerif.Model.Field
import ElfioVerif.Gen.SitesC14
namespace ElfioVerif
open Gen

/-- `convertor(x)` of the owning `elfio` for the three widths -/
def cv16 (e : Enc) (x : BitVec 16) : BitVec 16 := conv16 x (needConv e)
def cv32 (e : Enc) (x : BitVec 32) : BitVec 32 := conv32 x (needConv e)
def cv64 (e : Enc) (x : BitVec 64) : BitVec 64 := conv64 x (needConv e)

namespace Arr

/-- the template parameter `T` -/
inductive W | w4 | w8
  deriving DecidableEq, Repr

def W.bytes : W → Nat
  | .w4 => 4
  | .w8 => 8

/-- `get_entries_num()` -/
def entriesNum (w : W) (b : SecBuf) : BitVec 64 :=
  match w with
  | .w4 => arr32_entries_num (array_section_size := b.size)
  | .w8 => arr64_entries_num (array_section_size := b.size)

/-- `get_entry(index, address)` on the section state after `get_data()`;
    `none` = returns false -/
def getEntry (w : W) (e : Enc) (b : SecBuf) (index : BitVec 64) : M (Option (BitVec 64)) :=
  match w with
  | .w4 =>
    if arr32_get_guard index (entriesNum .w4 b) then pure none else do
      let bs ← rdRange "array/get_entry" b.getData.data (arr32_get_off index).toNat 4
      pure (some (arr32_get_conv (cv32 e) (BitVec.ofNat 32 (hostDecode bs))))
  | .w8 =>
    if arr64_get_guard index (entriesNum .w8 b) then pure none else do
      let bs ← rdRange "array/get_entry" b.getData.data (arr64_get_off index).toNat 8
      pure (some (arr64_get_conv (cv64 e) (BitVec.ofNat 64 (hostDecode bs))))

/-- the bytes `add_entry` hands to `append_data`: `T temp = convertor((T)address)`, `sizeof(temp)` -/
def entryBytes (w : W) (e : Enc) (address : BitVec 64) : Bytes :=
  match w with
  | .w4 => hostEncode arr32_add_len.toNat (arr32_add_conv (cv32 e) address).toNat
  | .w8 => hostEncode arr64_add_len.toNat (arr64_add_conv (cv64 e) address).toNat

/-- `add_entry(address)` -/
def addEntry (w : W) (e : Enc) (b : SecBuf) (address : BitVec 64) : M SecBuf :=
  b.appendData (entryBytes w e address)

end Arr
end ElfioVerif
