/-
Reading and writing one integer field of an on-disk record the way ELFIO does it:
`memcpy` into / out of a host struct (host byte order) and `(*convertor)(FIELD)`,
where the convertor is the *generated* swap (Gen/Funcs.lean `conv16/32/64`).
`rdField_eq` / `wrField_eq` tie this to the specification codec (`decodeInt`/`encodeInt`).
-/
import ElfioVerif.Lemmas.Bits
namespace ElfioVerif
open Gen

/-- `endianness_convertor::setup` : conversion is needed iff file order ≠ host order -/
def needConv (e : Enc) : Bool :=
  match e with
  | .lsb => !hostIsLittle
  | .msb => hostIsLittle

/-- `(*convertor)(x)` for an `n`-byte unsigned field (1-byte overloads are the identity) -/
def conv (nbytes : Nat) (need : Bool) (x : Nat) : Nat :=
  if nbytes = 2 then (conv16 (BitVec.ofNat 16 x) need).toNat
  else if nbytes = 4 then (conv32 (BitVec.ofNat 32 x) need).toNat
  else if nbytes = 8 then (conv64 (BitVec.ofNat 64 x) need).toNat
  else x

/-- value of a host-order (little-endian host) field -/
def hostDecode (bs : Bytes) : Nat := if hostIsLittle then leDecode bs else beDecode bs
def hostEncode (n x : Nat) : Bytes := if hostIsLittle then leEncode n x else beEncode n x

/-- getter: `(*convertor)(FIELD)` on the bytes of the field -/
def rdField (e : Enc) (bs : Bytes) : Nat := conv bs.length (needConv e) (hostDecode bs)

/-- setter: `FIELD = decltype(FIELD)(value); FIELD = (*convertor)(FIELD)`, as bytes -/
def wrField (e : Enc) (nbytes : Nat) (x : Nat) : Bytes :=
  hostEncode nbytes (conv nbytes (needConv e) (x % 2 ^ (8 * nbytes)))

theorem bv8_toNat (b : UInt8) : b.toBitVec.toNat = b.toNat := rfl

theorem leDecode2 (a b : UInt8) : BitVec.ofNat 16 (leDecode [a, b]) = b.toBitVec ++ a.toBitVec := by
  apply BitVec.eq_of_toNat_eq
  have ha := a.toNat_lt; have hb := b.toNat_lt
  simp only [leDecode, BitVec.toNat_ofNat, toNat_append8, bv8_toNat, Nat.reducePow] at *
  omega

theorem leDecode4 (a b c d : UInt8) :
    BitVec.ofNat 32 (leDecode [a, b, c, d]) = d.toBitVec ++ c.toBitVec ++ b.toBitVec ++ a.toBitVec := by
  apply BitVec.eq_of_toNat_eq
  have ha := a.toNat_lt; have hb := b.toNat_lt; have hc := c.toNat_lt; have hd := d.toNat_lt
  simp only [leDecode, BitVec.toNat_ofNat, toNat_append8, bv8_toNat, Nat.reducePow] at *
  omega

theorem leDecode8 (a b c d e f g h : UInt8) :
    BitVec.ofNat 64 (leDecode [a, b, c, d, e, f, g, h]) =
      h.toBitVec ++ g.toBitVec ++ f.toBitVec ++ e.toBitVec ++ d.toBitVec ++ c.toBitVec ++ b.toBitVec ++ a.toBitVec := by
  apply BitVec.eq_of_toNat_eq
  have ha := a.toNat_lt; have hb := b.toNat_lt; have hc := c.toNat_lt; have hd := d.toNat_lt
  have he := e.toNat_lt; have hf := f.toNat_lt; have hg := g.toNat_lt; have hh := h.toNat_lt
  simp only [leDecode, BitVec.toNat_ofNat, toNat_append8, bv8_toNat, Nat.reducePow] at *
  omega

/-- the generated swap turns a little-endian read into the big-endian value -/
theorem conv_le_be (bs : Bytes) (h : bs.length = 1 ∨ bs.length = 2 ∨ bs.length = 4 ∨ bs.length = 8) :
    conv bs.length true (leDecode bs) = beDecode bs := by
  rcases h with h | h | h | h
  · match bs, h with
    | [a], _ => simp [conv, beDecode, leDecode]
  · match bs, h with
    | [a, b], _ =>
      have ha := a.toNat_lt; have hb := b.toNat_lt
      simp only [conv, List.length_cons, List.length_nil, if_true]
      rw [leDecode2, conv16_bytes]
      simp only [toNat_append8, bv8_toNat, beDecode, List.reverse_cons, List.reverse_nil,
        List.nil_append, List.cons_append, leDecode]
      omega
  · match bs, h with
    | [a, b, c, d], _ =>
      simp only [conv, List.length_cons, List.length_nil]
      rw [if_neg (by decide), if_pos (by decide), leDecode4, conv32_bytes]
      simp only [toNat_append8, bv8_toNat, beDecode, List.reverse_cons, List.reverse_nil,
        List.nil_append, List.cons_append, leDecode]
      omega
  · match bs, h with
    | [a, b, c, d, e, f, g, i], _ =>
      simp only [conv, List.length_cons, List.length_nil]
      rw [if_neg (by decide), if_neg (by decide), if_pos (by decide), leDecode8, conv64_bytes]
      simp only [toNat_append8, bv8_toNat, beDecode, List.reverse_cons, List.reverse_nil,
        List.nil_append, List.cons_append, leDecode]
      omega

theorem conv_false (n x : Nat) (h : x < 2 ^ (8 * n)) : conv n false x = x := by
  unfold conv
  split
  · subst n; simp only [conv16_false, BitVec.toNat_ofNat]; exact Nat.mod_eq_of_lt (by simpa using h)
  · split
    · subst n; simp only [conv32_false, BitVec.toNat_ofNat]; exact Nat.mod_eq_of_lt (by simpa using h)
    · split
      · subst n; simp only [conv64_false, BitVec.toNat_ofNat]; exact Nat.mod_eq_of_lt (by simpa using h)
      · rfl

/-- **getter = specification decoder** for the field widths ELF uses -/
theorem rdField_eq (e : Enc) (bs : Bytes)
    (h : bs.length = 1 ∨ bs.length = 2 ∨ bs.length = 4 ∨ bs.length = 8) :
    rdField e bs = decodeInt e bs := by
  unfold rdField hostDecode needConv decodeInt
  have hl : hostIsLittle = true := rfl
  cases e
  · simp only [hl, Bool.not_true, if_true]
    exact conv_false _ _ (leDecode_lt bs)
  · simp only [hl, if_true]
    exact conv_le_be bs h

theorem conv_invol (n : Nat) (b : Bool) (x : Nat) (h : x < 2 ^ (8 * n)) :
    conv n b (conv n b x) = x := by
  unfold conv
  split
  · subst n
    simp only [BitVec.ofNat_toNat, BitVec.setWidth_eq, conv16_invol, BitVec.toNat_ofNat]
    exact Nat.mod_eq_of_lt (by simpa using h)
  · split
    · subst n
      simp only [BitVec.ofNat_toNat, BitVec.setWidth_eq, conv32_invol, BitVec.toNat_ofNat]
      exact Nat.mod_eq_of_lt (by simpa using h)
    · split
      · subst n
        simp only [BitVec.ofNat_toNat, BitVec.setWidth_eq, conv64_invol, BitVec.toNat_ofNat]
        exact Nat.mod_eq_of_lt (by simpa using h)
      · rfl

theorem conv_lt (n : Nat) (b : Bool) (x : Nat) (h : x < 2 ^ (8 * n)) : conv n b x < 2 ^ (8 * n) := by
  unfold conv
  split
  · subst n; exact (conv16 _ _).isLt
  · split
    · subst n; exact (conv32 _ _).isLt
    · split
      · subst n; exact (conv64 _ _).isLt
      · exact h

/-- **setter = specification encoder** -/
theorem wrField_eq (e : Enc) (n x : Nat) (h : n = 1 ∨ n = 2 ∨ n = 4 ∨ n = 8) :
    wrField e n x = encodeInt e n x := by
  have hl : hostIsLittle = true := rfl
  have hx : x % 2 ^ (8 * n) < 2 ^ (8 * n) := Nat.mod_lt _ (Nat.pow_pos (by decide))
  -- decode both sides with the spec decoder and use injectivity of fixed-length encodings
  have key : decodeInt e (wrField e n x) = x % 2 ^ (8 * n) := by
    have hlen : (wrField e n x).length = n := by simp [wrField, hostEncode, hl]
    rw [← rdField_eq e _ (by rw [hlen]; exact h)]
    unfold rdField hostDecode
    rw [hlen]
    simp only [wrField, hostEncode, hl, if_true, leDecode_leEncode]
    rw [Nat.mod_eq_of_lt (conv_lt n _ _ hx)]
    exact conv_invol n _ _ hx
  have hlen : (wrField e n x).length = n := by simp [wrField, hostEncode, hl]
  have := encode_decodeInt e (wrField e n x)
  rw [hlen, key] at this
  rw [← this]
  cases e <;> simp only [encodeInt]
  · -- leEncode n (x % 2^(8n)) = leEncode n x
    have : ∀ n x, leEncode n (x % 2 ^ (8 * n)) = leEncode n x := by
      intro n
      induction n with
      | zero => intro x; rfl
      | succ k ih =>
        intro x
        simp only [leEncode]
        have e1 : 2 ^ (8 * (k + 1)) = 256 * 2 ^ (8 * k) := by
          rw [Nat.mul_add, Nat.pow_add]; simp [Nat.mul_comm]
        rw [e1, Nat.mod_mul_right_mod, Nat.mod_mul_right_div_self, ih]
    exact this n x
  · have : ∀ n x, leEncode n (x % 2 ^ (8 * n)) = leEncode n x := by
      intro n
      induction n with
      | zero => intro x; rfl
      | succ k ih =>
        intro x
        simp only [leEncode]
        have e1 : 2 ^ (8 * (k + 1)) = 256 * 2 ^ (8 * k) := by
          rw [Nat.mul_add, Nat.pow_add]; simp [Nat.mul_comm]
        rw [e1, Nat.mod_mul_right_mod, Nat.mod_mul_right_div_self, ih]
    simp only [beEncode, this n x]

end ElfioVerif
