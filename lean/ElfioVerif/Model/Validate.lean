/-
`elfio::validate()` : complaints as data (the text is not modelled).
  overlap i j   — "Sections <i> and <j> overlap in file"
  conflict h    — "Virtual address of segment h (…) conflicts with address of section …"
-/
import ElfioVerif.Model.Obj
import ElfioVerif.Gen.SitesValidate
namespace ElfioVerif
open Gen

inductive Complaint
  | overlap (i j : Nat)
  | conflict (seg : Nat)
  deriving DecidableEq, Repr

def overlapPair (a b : SecBuf) : Bool :=
  validate_overlap a.stype b.stype a.size b.size a.offset b.offset

/-- the nested `for i … for j = i+1 …` loops over the section list -/
def overlapComplaints : List SecBuf → Nat → List Complaint
  | [], _ => []
  | a :: rest, i =>
    ((rest.zipIdx (i + 1)).filterMap fun (b, j) => if overlapPair a b then some (.overlap i j) else none)
      ++ overlapComplaints rest (i + 1)

/-- `find_prog_section_for_offset` -/
def findProgSection (secs : List SecBuf) (off : BitVec 64) : Option SecBuf :=
  secs.find? fun s => find_prog_section_match s.stype off s.offset s.size

/-- the body of the segment loop: `sec = find_prog_section_for_offset( seg->get_offset() )`, the gate
    `seg->get_type() == PT_LOAD && seg->get_file_size() > 0 && sec != nullptr`, and inside it
    `sec_addr = get_virtual_addr( seg->get_offset(), sec )`, `sec_addr != seg->get_virtual_address()` -/
def segConflict (secs : List SecBuf) (g : Seg) : Bool :=
  let sec := findProgSection secs g.offset
  if validate_seg_gate g.stype g.filesz sec.isSome then
    match sec with
    | some s => validate_addr_ne (validate_sec_addr g.offset s.addr s.offset) g.vaddr
    | none => false      -- not reached: `sec != nullptr` is part of the gate
  else false

def validate (o : Obj) : List Complaint :=
  overlapComplaints o.secs 0 ++
    (o.segs.zipIdx.filterMap fun (g, h) => if segConflict o.secs g then some (.conflict h) else none)

end ElfioVerif
