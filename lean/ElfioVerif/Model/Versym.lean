/-
Model of the three accessors of elfio_versym.hpp.

* `versym_section_accessor` (`.gnu.version`): the constructor takes only the section, so the
  accessor has no byte-order convertor: entries are stored and read in *host* order
  (finding F4, kept in the model).  The entry count is cached at construction and
  incremented by `add_entry`.
* `versym_r_section_accessor` / `versym_d_section_accessor` (`.gnu.version_r/_d`): walk the
  chain through file-provided offsets without any bounds check (here: checked reads, a
  fault is what the C++ would do wrong); every field goes through the convertor of the
  owning `elfio` (after fixes/05).  The generated sites are applied with *named* arguments
  (`verneed_vn_aux := …`): the parameter names are the C++ field names, so a change of the field an
  expression reads makes the model fail to build.  The entry count is `DT_VERNEEDNUM` / `DT_VERDEFNUM` of
  `.dynamic`, read by the dynamic accessor (C12) and a parameter here.
-/
import ElfioVerif.Model.Array
namespace ElfioVerif
open Gen

namespace Versym

/-- constructor: cached entry count -/
def mk (b : SecBuf) : BitVec 32 := if vs_ctor_guard true then vs_count (section_size := b.size) else 0

/-- `get_entries_num()` -/
def entriesNum (num : BitVec 32) : BitVec 32 := if vs_num_guard true then num else 0

/-- `get_entry(no, value)` on the section after `get_data()`; `none` = returns false -/
def getEntry (b : SecBuf) (num : BitVec 32) (no : BitVec 32) : M (Option (BitVec 16)) :=
  if vs_get_guard true no (entriesNum num) then do
    let bs ← rdRange "versym/get_entry" b.getData.data (vs_get_off no).toNat 2
    pure (some (BitVec.ofNat 16 (hostDecode bs)))
  else pure none

/-- `add_entry(value)` : the host bytes of `value` are appended as they are -/
def addEntry (b : SecBuf) (num : BitVec 32) (value : BitVec 16) : M (SecBuf × BitVec 32) :=
  if vs_add_guard true then pure (b, num) else do
    let b' ← b.appendData (hostEncode vs_add_len.toNat value.toNat)
    pure (b', num + 1)

end Versym

/-- `string_section_accessor::get_string(index)` on the linked section (bounded `memchr`);
    `none` = nullptr -/
def strLookup (s : Option SecBuf) (idx : BitVec 32) : Option Bytes :=
  match s with
  | none => none
  | some s =>
    match s.getData.data with
    | none => none
    | some a =>
      if s.size.toNat ≤ idx.toNat then none else
      let rest := (a.take s.size.toNat).drop idx.toNat
      let str := rest.takeWhile (· ≠ 0)
      if str.length < rest.length then some str else none

/-- `std::string = get_string(..)` : assigning a null pointer is a fault -/
def strAssign (site : String) (s : Option SecBuf) (idx : BitVec 32) : M Bytes :=
  match strLookup s idx with
  | none => throw (.nullDeref site)
  | some x => pure x

def rd16 (site : String) (data : Option Bytes) (off : Nat) : M (BitVec 16) := do
  let bs ← rdRange site data off 2
  pure (BitVec.ofNat 16 (hostDecode bs))

def rd32 (site : String) (data : Option Bytes) (off : Nat) : M (BitVec 32) := do
  let bs ← rdRange site data off 4
  pure (BitVec.ofNat 32 (hostDecode bs))

namespace Verneed

structure View where
  version : BitVec 16
  file : Bytes
  hash : BitVec 32
  flags : BitVec 16
  other : BitVec 16
  name : Bytes
  deriving Repr, DecidableEq

/-- loop body: `verneed += vn_next; veraux = verneed + vn_aux` (offsets from the section data) -/
def step (e : Enc) (data : Option Bytes) (vn : Nat) : M (Nat × Nat) := do
  let nx ← rd32 "verneed/vn_next" data (vn + Elfxx_Verneed.vn_next_off)
  let vn' := vn + (vr_next_off (cv32 e) (verneed_vn_next := nx)).toNat
  let ax ← rd32 "verneed/vn_aux" data (vn' + Elfxx_Verneed.vn_aux_off)
  pure (vn', vn' + (vr_aux_off1 (cv32 e) (verneed_vn_aux := ax)).toNat)

/-- `for (Elf_Word i = 0; i < no; ++i)` -/
def loop (e : Enc) (data : Option Bytes) (no : BitVec 32) : Nat → BitVec 32 → Nat × Nat → M (Nat × Nat)
  | 0, _, _ => throw (.fuel "verneed/loop")
  | f + 1, i, p =>
    if vr_loop_cond i no then do
      let p' ← step e data p.1
      loop e data no f (vr_i_incr i) p'
    else pure p

/-- `get_entry(no, …)`; `num` = cached DT_VERNEEDNUM, `str` = `sections[get_link()]` -/
def getEntry (e : Enc) (b : SecBuf) (str : Option SecBuf) (num no : BitVec 32) : M (Option View) :=
  if vr_guard true no num then pure none else do
    let data := b.getData.data
    let ax ← rd32 "verneed/vn_aux" data Elfxx_Verneed.vn_aux_off
    let (vn, va) ← loop e data no (no.toNat + 1) vr_i_init (0, (vr_aux_off0 (cv32 e) (verneed_vn_aux := ax)).toNat)
    let version ← rd16 "verneed/vn_version" data (vn + Elfxx_Verneed.vn_version_off)
    let fidx ← rd32 "verneed/vn_file" data (vn + Elfxx_Verneed.vn_file_off)
    let file ← strAssign "verneed/file_name" str (vr_file_idx (cv32 e) (verneed_vn_file := fidx))
    let hash ← rd32 "verneed/vna_hash" data (va + Elfxx_Vernaux.vna_hash_off)
    let flags ← rd16 "verneed/vna_flags" data (va + Elfxx_Vernaux.vna_flags_off)
    let other ← rd16 "verneed/vna_other" data (va + Elfxx_Vernaux.vna_other_off)
    let nidx ← rd32 "verneed/vna_name" data (va + Elfxx_Vernaux.vna_name_off)
    let name ← strAssign "verneed/dep_name" str (vr_name_idx (cv32 e) (veraux_vna_name := nidx))
    pure (some { version := vr_version (cv16 e) (verneed_vn_version := version), file, hash := vr_hash (cv32 e) (veraux_vna_hash := hash),
                 flags := vr_flags (cv16 e) (veraux_vna_flags := flags), other := vr_other (cv16 e) (veraux_vna_other := other), name })

end Verneed

namespace Verdef

structure View where
  flags : BitVec 16
  ndx : BitVec 16
  hash : BitVec 32
  name : Bytes
  deriving Repr, DecidableEq

def step (e : Enc) (data : Option Bytes) (vd : Nat) : M (Nat × Nat) := do
  let nx ← rd32 "verdef/vd_next" data (vd + Elfxx_Verdef.vd_next_off)
  let vd' := vd + (vd_next_off (cv32 e) (verdef_vd_next := nx)).toNat
  let ax ← rd32 "verdef/vd_aux" data (vd' + Elfxx_Verdef.vd_aux_off)
  pure (vd', vd' + (vd_aux_off1 (cv32 e) (verdef_vd_aux := ax)).toNat)

def loop (e : Enc) (data : Option Bytes) (no : BitVec 32) : Nat → BitVec 32 → Nat × Nat → M (Nat × Nat)
  | 0, _, _ => throw (.fuel "verdef/loop")
  | f + 1, i, p =>
    if vd_loop_cond i no then do
      let p' ← step e data p.1
      loop e data no f (vd_i_incr i) p'
    else pure p

def getEntry (e : Enc) (b : SecBuf) (str : Option SecBuf) (num no : BitVec 32) : M (Option View) :=
  if vd_guard true no num then pure none else do
    let data := b.getData.data
    let ax ← rd32 "verdef/vd_aux" data Elfxx_Verdef.vd_aux_off
    let (vd, va) ← loop e data no (no.toNat + 1) vd_i_init (0, (vd_aux_off0 (cv32 e) (verdef_vd_aux := ax)).toNat)
    let flags ← rd16 "verdef/vd_flags" data (vd + Elfxx_Verdef.vd_flags_off)
    let ndx ← rd16 "verdef/vd_ndx" data (vd + Elfxx_Verdef.vd_ndx_off)
    let hash ← rd32 "verdef/vd_hash" data (vd + Elfxx_Verdef.vd_hash_off)
    let nidx ← rd32 "verdef/vda_name" data (va + Elfxx_Verdaux.vda_name_off)
    let name ← strAssign "verdef/dep_name" str (vd_name_idx (cv32 e) (verdaux_vda_name := nidx))
    pure (some { flags := vd_flags (cv16 e) (verdef_vd_flags := flags), ndx := vd_ndx (cv16 e) (verdef_vd_ndx := ndx),
                 hash := vd_hash (cv32 e) (verdef_vd_hash := hash), name })

end Verdef
end ElfioVerif
