/-
Output stream as `elfio::save` uses it (`seekp`, `tellp`, `write`, `good`), string-backed
(`std::ostringstream`: a seek beyond the end fails — hence `adjust_stream_size` zero-fills first),
optionally with a byte budget: the stream accepts exactly `budget` bytes, then fails (C16).
-/
import ElfioVerif.Basic
namespace ElfioVerif

structure OStream where
  content : Bytes := []
  pos : Nat := 0
  budget : Option Nat := none
  fail : Bool := false
  deriving Repr, Inhabited

namespace OStream

/-- `write(p, n)` -/
def write (s : OStream) (bs : Bytes) : OStream :=
  if s.fail then s else
  let room := match s.budget with
    | none => bs.length
    | some k => min bs.length (k - s.pos)
  let acc := bs.take room
  let c := if s.pos + acc.length ≤ s.content.length then wr s.content s.pos acc
           else s.content.take s.pos ++ acc
  { s with content := c, pos := s.pos + acc.length, fail := decide (room < bs.length) }

/-- `seekp(pos)` with a signed position -/
def seekp (s : OStream) (p : Int) : OStream :=
  if s.fail then s
  else if p < 0 ∨ p.toNat > s.content.length then { s with fail := true }
  else { s with pos := p.toNat }

def seekEnd (s : OStream) : OStream := if s.fail then s else { s with pos := s.content.length }

def tellp (s : OStream) : Int := if s.fail then -1 else Int.ofNat s.pos

/-- `adjust_stream_size(stream, offset)` -/
def adjust (s : OStream) (offset : Int) : OStream :=
  let s := s.seekEnd
  let s := if s.tellp < offset then s.write (List.replicate (offset - s.tellp).toNat 0) else s
  s.seekp offset

/-! ### failure is sticky (C16) -/

theorem write_of_fail {s : OStream} (h : s.fail = true) (bs : Bytes) : s.write bs = s := by
  simp [write, h]

theorem seekp_of_fail {s : OStream} (h : s.fail = true) (p : Int) : s.seekp p = s := by
  simp [seekp, h]

theorem seekEnd_of_fail {s : OStream} (h : s.fail = true) : s.seekEnd = s := by
  simp [seekEnd, h]

theorem adjust_eq (s : OStream) (off : Int) :
    s.adjust off =
      (if s.seekEnd.tellp < off then
          s.seekEnd.write (List.replicate (off - s.seekEnd.tellp).toNat 0)
        else s.seekEnd).seekp off := rfl

theorem adjust_of_fail {s : OStream} (h : s.fail = true) (off : Int) : s.adjust off = s := by
  rw [adjust_eq, seekEnd_of_fail h]
  split
  · rw [write_of_fail h, seekp_of_fail h]
  · rw [seekp_of_fail h]

/-- What the driver executes for `adjust`: on a failed stream the real `adjust_stream_size` builds a
    string of `offset + 1` zeros (`tellp() == -1`) and then writes nothing; the compiled model skips
    building it.  Equal to `adjust` by `adjust_of_fail` (the replacement is the proved equation below,
    not an assumption). -/
def adjustImpl (s : OStream) (offset : Int) : OStream :=
  if s.fail then s else
  let s := s.seekEnd
  let s := if s.tellp < offset then s.write (List.replicate (offset - s.tellp).toNat 0) else s
  s.seekp offset

@[csimp] theorem adjust_eq_adjustImpl : @adjust = @adjustImpl := by
  funext s off
  unfold adjustImpl
  cases h : s.fail with
  | true => simp only [↓reduceIte]; exact adjust_of_fail h off
  | false => simp only [Bool.false_eq_true, ↓reduceIte]; rfl

end OStream
end ElfioVerif
