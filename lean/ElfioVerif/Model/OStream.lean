/-
Output stream as `elfio::save` uses it (`seekp`, `tellp`, `write`, `good`), string-backed
(`std::ostringstream`: a seek beyond the end fails — hence `adjust_stream_size` zero-fills first),
optionally with a byte budget: the stream accepts exactly `budget` bytes, then fails (C16).
-/
import ElfioVerif.Basic
namespace ElfioVerif

structure OStream where
  content : Bytes := []
  pos : Nat := 0
  budget : Option Nat := none
  fail : Bool := false
  deriving Repr, Inhabited

namespace OStream

/-- `write(p, n)` -/
def write (s : OStream) (bs : Bytes) : OStream :=
  if s.fail then s else
  let room := match s.budget with
    | none => bs.length
    | some k => min bs.length (k - s.pos)
  let acc := bs.take room
  let c := if s.pos + acc.length ≤ s.content.length then wr s.content s.pos acc
           else s.content.take s.pos ++ acc
  { s with content := c, pos := s.pos + acc.length, fail := decide (room < bs.length) }

/-- `seekp(pos)` with a signed position -/
def seekp (s : OStream) (p : Int) : OStream :=
  if s.fail then s
  else if p < 0 ∨ p.toNat > s.content.length then { s with fail := true }
  else { s with pos := p.toNat }

def seekEnd (s : OStream) : OStream := if s.fail then s else { s with pos := s.content.length }

def tellp (s : OStream) : Int := if s.fail then -1 else Int.ofNat s.pos

/-- `adjust_stream_size(stream, offset)` -/
def adjust (s : OStream) (offset : Int) : OStream :=
  let s := s.seekEnd
  let s := if s.tellp < offset then s.write (List.replicate (offset - s.tellp).toNat 0) else s
  s.seekp offset

end OStream
end ElfioVerif
