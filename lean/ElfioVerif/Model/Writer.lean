/-
Building objects through the public API (`create`, `sections.add`, `segments.add`, the setters,
`add_section_index`) and `elfio::save(std::ostream&)`: segment ordering, the three layout
passes, and the stream writes.  Layout arithmetic is the generated code (Gen/SitesWriter.lean).
-/
import ElfioVerif.Model.Load
import ElfioVerif.Model.OStream
import ElfioVerif.Gen.SitesWriter
import ElfioVerif.Gen.SitesC16
namespace ElfioVerif
open Gen

/-! ### raw header setters -/
namespace Hdr
def setF (c : Cls) (enc : Enc) (h : Bytes) (o32 w32 o64 w64 : Nat) (v : Nat) : Bytes :=
  match c with
  | .c32 => wr h o32 (wrField enc w32 v)
  | .c64 => wr h o64 (wrField enc w64 v)
def set_phnum (c enc h) (v : Nat) := setF c enc h Elf32_Ehdr.e_phnum_off 2 Elf64_Ehdr.e_phnum_off 2 v
def set_shnum (c enc h) (v : Nat) := setF c enc h Elf32_Ehdr.e_shnum_off 2 Elf64_Ehdr.e_shnum_off 2 v
def set_phoff (c enc h) (v : Nat) := setF c enc h Elf32_Ehdr.e_phoff_off 4 Elf64_Ehdr.e_phoff_off 8 v
def set_shoff (c enc h) (v : Nat) := setF c enc h Elf32_Ehdr.e_shoff_off 4 Elf64_Ehdr.e_shoff_off 8 v
def set_shstrndx (c enc h) (v : Nat) := setF c enc h Elf32_Ehdr.e_shstrndx_off 2 Elf64_Ehdr.e_shstrndx_off 2 v
def set_type (c enc h) (v : Nat) := setF c enc h Elf32_Ehdr.e_type_off 2 Elf64_Ehdr.e_type_off 2 v
def set_machine (c enc h) (v : Nat) := setF c enc h Elf32_Ehdr.e_machine_off 2 Elf64_Ehdr.e_machine_off 2 v
def set_version (c enc h) (v : Nat) := setF c enc h Elf32_Ehdr.e_version_off 4 Elf64_Ehdr.e_version_off 4 v
def set_flags (c enc h) (v : Nat) := setF c enc h Elf32_Ehdr.e_flags_off 4 Elf64_Ehdr.e_flags_off 4 v
def set_entry (c enc h) (v : Nat) := setF c enc h Elf32_Ehdr.e_entry_off 4 Elf64_Ehdr.e_entry_off 8 v
def set_ident (h : Bytes) (i : Nat) (v : Nat) : Bytes := wr h i [UInt8.ofNat v]
end Hdr

/-- truncation of a 64-bit setter argument to the class's address-sized field -/
def truncA (c : Cls) (v : BitVec 64) : BitVec 64 :=
  match c with | .c32 => (v.setWidth 32).setWidth 64 | .c64 => v

/-! ### section header record -/
def encodeShdr (c : Cls) (enc : Enc) (b : SecBuf) : Bytes :=
  match c with
  | .c32 =>
    wrField enc 4 b.nameOff.toNat ++ wrField enc 4 b.stype.toNat ++ wrField enc 4 b.flags.toNat ++
    wrField enc 4 b.addr.toNat ++ wrField enc 4 b.offset.toNat ++ wrField enc 4 b.size.toNat ++
    wrField enc 4 b.link.toNat ++ wrField enc 4 b.info.toNat ++ wrField enc 4 b.addrAlign.toNat ++
    wrField enc 4 b.entSize.toNat
  | .c64 =>
    wrField enc 4 b.nameOff.toNat ++ wrField enc 4 b.stype.toNat ++ wrField enc 8 b.flags.toNat ++
    wrField enc 8 b.addr.toNat ++ wrField enc 8 b.offset.toNat ++ wrField enc 8 b.size.toNat ++
    wrField enc 4 b.link.toNat ++ wrField enc 4 b.info.toNat ++ wrField enc 8 b.addrAlign.toNat ++
    wrField enc 8 b.entSize.toNat

def encodePhdr (c : Cls) (enc : Enc) (g : Seg) : Bytes :=
  match c with
  | .c32 =>
    wrField enc 4 g.stype.toNat ++ wrField enc 4 g.offset.toNat ++ wrField enc 4 g.vaddr.toNat ++
    wrField enc 4 g.paddr.toNat ++ wrField enc 4 g.filesz.toNat ++ wrField enc 4 g.memsz.toNat ++
    wrField enc 4 g.flags.toNat ++ wrField enc 4 g.align.toNat
  | .c64 =>
    wrField enc 4 g.stype.toNat ++ wrField enc 4 g.flags.toNat ++ wrField enc 8 g.offset.toNat ++
    wrField enc 8 g.vaddr.toNat ++ wrField enc 8 g.paddr.toNat ++ wrField enc 8 g.filesz.toNat ++
    wrField enc 8 g.memsz.toNat ++ wrField enc 8 g.align.toNat

/-! ### construction through the API -/

/-- `string_section_accessor::add_string(str)` on a section; returns the index -/
def addString (b : SecBuf) (str : Bytes) : M (SecBuf × BitVec 32) := do
  let cur : BitVec 32 := b.size.setWidth 32
  let (b, cur) ← if cur == 0 then do
      let b ← b.appendData [0]
      pure (b, cur + 1)
    else pure (b, cur)
  -- strlen: the C string ends at the first NUL
  let s := str.takeWhile (· ≠ 0)
  let appendSize : BitVec 32 := BitVec.ofNat 32 (s.length + 1)
  if BitVec.ult (4294967295#32 - cur) appendSize then pure (b, 0) else do
  let b ← b.appendData (s ++ [0])
  pure (b, cur)

def encByte (e : Enc) : Nat := match e with | .lsb => ELFDATA2LSB | .msb => ELFDATA2MSB

/-- `create_section()` : appended with its index -/
def newSection (o : Obj) : SecBuf :=
  { SecBuf.fresh o.cls 0 with index := o.secs.length % 65536, translatorEmpty := o.trans.isEmpty }

/-- `sections.add(name)` -/
def sectionsAdd (o : Obj) (name : Bytes) : M Obj := do
  let nb := { newSection o with name := name }
  let secs := o.secs ++ [nb]
  let h := o.hdr.getD []
  let strIdx := (Hdr.e_shstrndx o.cls o.enc h).toNat
  match secs[strIdx]? with
  | none => throw (.vecOob "sections.add/sections_[str_index]")
  | some st => do
    let (st, pos) ← addString st (name.takeWhile (· ≠ 0))
    let secs := secs.set strIdx st
    let idx := secs.length - 1
    let secs := match secs[idx]? with
      | some x => secs.set idx { x with nameOff := pos }
      | none => secs
    pure { o with secs := secs }

/-- `elfio::create(file_class, encoding)` -/
def create (o : Obj) (c : Cls) (e : Enc) : M Obj := do
  let h := Hdr.create c e (encByte e)
  let o : Obj := { o with cls := c, enc := e, hdr := some h, secs := [], segs := [] }
  let sec0 := { newSection o with index := 0, name := [], nameOff := 0 }
  let h := Hdr.set_shstrndx c e h 1
  let o := { o with secs := [sec0], hdr := some h }
  let o ← sectionsAdd o ".shstrtab".toUTF8.toList
  -- shstrtab->set_type(SHT_STRTAB); set_addr_align(1)
  let secs := match o.secs[1]? with
    | some s => o.secs.set 1 { s with stype := BitVec.ofNat 32 SHT_STRTAB, addrAlign := 1 }
    | none => o.secs
  pure { o with secs := secs }

/-- `segments.add()` -/
def segmentsAdd (o : Obj) : Obj :=
  { o with segs := o.segs ++ [{ index := o.segs.length % 65536 }] }

/-- `segment::add_section_index(index, addr_align)` -/
def segAddSection (g : Seg) (idx : BitVec 16) (align : BitVec 64) : Seg :=
  let g := { g with secs := g.secs ++ [idx] }
  -- `if ( addr_align > get_align() )`; the ELF32 instantiation has the same condition
  -- (`save_segadd_raise32`, Lemmas/WriterSites.lean)
  if save_segadd_raise align g.align then { g with align := align } else g

/-! ### save: ordering -/

/-- `std::includes(l2, l1)` exactly as the algorithm runs (no sortedness assumed) -/
def stdIncludes : List (BitVec 16) → List (BitVec 16) → Bool
  | _, [] => true
  | [], _ :: _ => false
  | a :: r1, b :: r2 =>
    if BitVec.ult b a then false
    else if !(BitVec.ult a b) then stdIncludes r1 r2
    else stdIncludes r1 (b :: r2)

/-- `is_subsequence_of(seg1, seg2)` -/
def isSubsequenceOf (s1 s2 : Seg) : Bool :=
  if save_subseq_shorter (BitVec.ofNat 64 s1.secs.length) (BitVec.ofNat 64 s2.secs.length) then
    stdIncludes s2.secs s1.secs
  else false

/-- first loop of `get_ordered_segments`: bring offset-0 segments to the front -/
def orderFront (wl : Array Seg) : M (Array Seg) := do
  let n := wl.size
  let rec go (i nextSlot : Nat) (wl : Array Seg) (fuel : Nat) : M (Array Seg) :=
    match fuel with
    | 0 => pure wl
    | fuel + 1 =>
      if i ≥ n then pure wl else
      match wl[i]? with
      | none => throw (.vecOob "get_ordered_segments/worklist[i]")
      | some si =>
        if save_gos_front (BitVec.ofNat 64 i) (BitVec.ofNat 64 nextSlot) si.offsetSet si.offset then
          match wl[nextSlot]? with
          | none => throw (.vecOob "get_ordered_segments/worklist[nextSlot]")
          | some sn =>
            let nextSlot := if save_gos_slot_zero sn.offset then nextSlot + 1 else nextSlot
            match wl[nextSlot]? with
            | none => throw (.vecOob "get_ordered_segments/swap")
            | some sn2 =>
              let wl := (wl.set! i sn2).set! nextSlot si
              go (i + 1) (nextSlot + 1) wl fuel
        else go (i + 1) nextSlot wl fuel
  go 0 0 wl (n + 1)

/-- second loop: a segment whose member list is a strict `includes`-subsequence of a later one waits -/
def orderTopo : List Seg → List Seg → Nat → M (List Seg)
  | [], res, _ => pure res.reverse
  | _, _, 0 => throw (.fuel "get_ordered_segments")
  | seg :: wl, res, fuel + 1 =>
    if wl.any (isSubsequenceOf seg) then orderTopo (wl ++ [seg]) res fuel
    else orderTopo wl (seg :: res) fuel

def orderedSegments (segs : List Seg) : M (List Seg) := do
  let wl ← orderFront segs.toArray
  orderTopo wl.toList [] (segs.length * segs.length + segs.length + 1)

/-! ### save: layout -/

structure Layout where
  secs : List SecBuf
  pos : BitVec 64
  gen : List Bool          -- section_generated

/-- `sec->get_index()` (an `Elf_Half`) as the generated `0 != sec->get_index()` tests receive it.
    `SecBuf.index` is a `Nat` that creation and loading keep below 65536; it is handed over saturated
    at the largest `Elf_Half`, so that "not 0" means `index ≠ 0` for every value of the field. -/
def secIndexHalf (b : SecBuf) : BitVec 16 := BitVec.ofNat 16 (min b.index 65535)

/-- `if ( 0 != sec->get_index() ) sec->set_offset( v );` of `write_segment_data` -/
def setOffset (c : Cls) (b : SecBuf) (v : BitVec 64) : SecBuf :=
  if wsd_index_nonzero (secIndexHalf b) then { b with offset := truncA c v } else b

/-- the same statement in `layout_sections_without_segments` -/
def setOffsetLoose (c : Cls) (b : SecBuf) (v : BitVec 64) : SecBuf :=
  if lsws_index_nonzero (secIndexHalf b) then { b with offset := truncA c v } else b

/-- `calc_segment_alignment` -/
def calcSegAlign (secs : List SecBuf) (g : Seg) : M Seg :=
  g.secs.foldlM (fun g idx =>
    match secs[idx.toNat]? with
    | none => throw (.vecOob "calc_segment_alignment/sections_[index]")
    | some s => pure (if save_csa_raise s.addrAlign g.align then { g with align := s.addrAlign } else g)) g

/-- state of `write_segment_data`'s loop -/
structure WsdSt where
  lay : Layout
  mem : BitVec 64
  file : BitVec 64

/-- one member of `write_segment_data`; `none` = the save is aborted (`return false`) -/
def wsdStep (c : Cls) (g : Seg) (segStart : BitVec 64) (st : WsdSt) (idx : BitVec 16) : M (Option WsdSt) :=
  match st.lay.secs[idx.toNat]?, st.lay.gen[idx.toNat]? with
  | none, _ => throw (.nullDeref "write_segment_data/sections[index]")
  | _, none => throw (.vecOob "write_segment_data/section_generated[index]")
  | some sec, some generated =>
    let i := idx.toNat
    if wsd_is_null sec.stype then
      pure (some { st with lay := { st.lay with gen := st.lay.gen.set i true } })
    else
    let pos := st.lay.pos
    -- section_align
    let gapR : Option (BitVec 64) :=
      if wsd_addr_branch generated sec.addrSet sec.stype sec.size then
        let req := wsd_req_offset sec.addr g.vaddr
        let cur := wsd_cur_offset pos segStart
        if wsd_req_lt_cur req cur then none else some (wsd_gap_addr req cur)
      else if wsd_align_branch generated sec.addrSet then
        let al := if wsd_align_zero sec.addrAlign then wsd_align_one else sec.addrAlign
        some (wsd_gap_align al (wsd_error pos al))
      else if wsd_generated_branch generated then some (wsd_gap_generated sec.offset segStart st.file)
      else some wsd_gap_default
    match gapR with
    | none => pure none
    | some gap =>
      let mem := if wsd_counts_mem sec.flags g.stype sec.stype then wsd_mem_add st.mem sec.size gap else st.mem
      let file := if wsd_counts_file sec.stype then wsd_file_add st.file sec.size gap else st.file
      if wsd_generated_skip generated then pure (some { st with mem := mem, file := file }) else
      let pos := wsd_cursor_gap pos gap
      let sec := if wsd_addr_missing sec.addrSet then
          { sec with addr := truncA c (wsd_new_addr g.vaddr pos segStart), addrSet := true } else sec
      let sec := setOffset c sec pos
      let pos := if wsd_occupies sec.stype then wsd_advance pos sec.size else pos
      pure (some { lay := { secs := st.lay.secs.set i sec, pos := pos, gen := st.lay.gen.set i true },
                   mem := mem, file := file })

def wsdLoop (c : Cls) (g : Seg) (segStart : BitVec 64) : List (BitVec 16) → WsdSt → M (Option WsdSt)
  | [], st => pure (some st)
  | idx :: rest, st => do
    match ← wsdStep c g segStart st idx with
    | none => pure none
    | some st' => wsdLoop c g segStart rest st'

/-- `seg->get_sections_num()` as the three `get_sections_num() > 0` tests of
    `layout_segments_and_their_sections` receive it.  The model keeps the member list as a `List`
    and iterates over all of it; the count handed to the generated conditions is saturated at the
    largest `Elf_Half`, so that "has members" means "the list is not empty" for every list (a
    segment with 65536 or more members — where the C++ count wraps — is outside what the
    correspondence generates, before and after this definition existed). -/
def segMemberCount (g : Seg) : BitVec 16 := BitVec.ofNat 16 (min g.secs.length 65535)

/-- one iteration of `layout_segments_and_their_sections`; returns the updated segment -/
def layoutSegment (c : Cls) (hdrPhoff : BitVec 64) (phentsize phnum : BitVec 16) (lay : Layout) (g : Seg) :
    M (Option (Layout × Seg)) := do
  let nsec : BitVec 16 := BitVec.ofNat 16 g.secs.length
  let nmem : BitVec 16 := segMemberCount g
  let first : Option (BitVec 16) := g.secs.head?
  let firstGen ← match first with
    | none => pure false
    | some f => match lay.gen[f.toNat]? with
      | some b => pure b
      | none => throw (.vecOob "layout_segments/section_generated[first]")
  let (lay, segStart, mem0, file0) ←
    if lseg_is_phdr g.stype nsec then
      let sz := lseg_phdr_size phentsize phnum
      pure (lay, hdrPhoff, sz, sz)
    else if lseg_offset0 g.offsetSet g.offset then
      pure (lay, (0 : BitVec 64), (if lseg_has_members0 nmem then lay.pos else 0), (if lseg_has_members0 nmem then lay.pos else 0))
    else if lseg_fresh nmem firstGen then
      let al := lseg_align g.align
      let adj := lseg_adjustment (lseg_req_page g.vaddr al) (lseg_cur_page lay.pos al)
      let pos := lseg_advance lay.pos g.align adj al
      pure ({ lay with pos := pos }, pos, (0 : BitVec 64), (0 : BitVec 64))
    else if lseg_has_members nmem then
      match first with
      | some f => match lay.secs[f.toNat]? with
        | some s => pure (lay, s.offset, (0 : BitVec 64), (0 : BitVec 64))
        | none => throw (.nullDeref "layout_segments/sections[first]")
      | none => pure (lay, lay.pos, (0 : BitVec 64), (0 : BitVec 64))
    else pure (lay, lay.pos, (0 : BitVec 64), (0 : BitVec 64))
  match ← wsdLoop c g segStart g.secs { lay := lay, mem := mem0, file := file0 } with
  | none => pure none
  | some st =>
    let g := { g with filesz := truncA c st.file }
    let g := if lseg_memsz_lt g.memsz st.mem then { g with memsz := truncA c st.mem } else g
    let g := { g with offset := truncA c segStart, offsetSet := true }
    pure (some (st.lay, g))

/-- `is_section_without_segment(i)`: the two nested loops stop at the first hit (`!found && …`), i.e.
    `any`; the comparison `get_section_index_at( k ) == section_index` (an `Elf_Half` against the
    `unsigned int` parameter) and the result `!found` are the generated expressions.  The position `i`
    is handed over as the C++ `unsigned int` it is, saturated at `UINT_MAX` (the loop counter of
    `layout_sections_without_segments` cannot exceed it). -/
def withoutSegment (segs : List Seg) (i : Nat) : Bool :=
  lsws_not_found (segs.any fun g => g.secs.any fun k => lsws_found k (BitVec.ofNat 32 (min i 4294967295)))

/-- `layout_sections_without_segments` -/
def layoutLoose (c : Cls) (segs : List Seg) : List SecBuf → Nat → BitVec 64 → List SecBuf → List SecBuf × BitVec 64
  | [], _, pos, acc => (acc.reverse, pos)
  | s :: rest, i, pos, acc =>
    if withoutSegment segs i then
      let pos := if lsws_need_align s.addrAlign pos then lsws_aligned pos s.addrAlign else pos
      let s := setOffsetLoose c s pos
      let pos := if lsws_occupies s.stype then lsws_advance pos s.size else pos
      layoutLoose c segs rest (i + 1) pos (s :: acc)
    else layoutLoose c segs rest (i + 1) pos (s :: acc)

/-! ### save: writing -/

/-- `get_type() != SHT_NOBITS && get_type() != SHT_NULL && get_size() != 0 && get_data() != nullptr` of
    `section_impl<T>::save` (`b` is the section after that `get_data()`) -/
def secWritesData (c : Cls) (b : SecBuf) : Bool :=
  match c with
  | .c32 => save_sec_writes_data32 b.stype b.size b.data.isNone
  | .c64 => save_sec_writes_data b.stype b.size b.data.isNone

/-- the first three conjuncts of that condition: `get_data()` — which makes lazily loaded data
    resident — is only evaluated when they hold (`&&` short-circuit) -/
def secWantsData (c : Cls) (b : SecBuf) : Bool :=
  match c with
  | .c32 => save_sec_wants_data32 b.stype b.size
  | .c64 => save_sec_wants_data b.stype b.size

def saveSection (c : Cls) (enc : Enc) (shoff : BitVec 64) (shentsize : BitVec 16) (os : OStream) (b : SecBuf) : OStream :=
  let hp : Int := shoff.toInt + (Int.ofNat shentsize.toNat) * (Int.ofNat b.index)
  let os := (os.adjust hp).write (encodeShdr c enc b)
  -- `b` is the section after the `get_data()` that `section_impl::save` performs
  if secWritesData c b then
    (os.adjust b.offset.toInt).write ((b.data.getD []).take b.size.toNat)
  else os

/-- What the driver executes for `saveSection`: once the stream has failed none of the four stream
    operations changes it, so the compiled model does not build their arguments (the header record,
    the copy of the data).  Equal to `saveSection` by the proved equation below. -/
def saveSectionImpl (c : Cls) (enc : Enc) (shoff : BitVec 64) (shentsize : BitVec 16) (os : OStream) (b : SecBuf) : OStream :=
  if os.fail then os else
  let hp : Int := shoff.toInt + (Int.ofNat shentsize.toNat) * (Int.ofNat b.index)
  let os := (os.adjust hp).write (encodeShdr c enc b)
  if secWritesData c b then
    (os.adjust b.offset.toInt).write ((b.data.getD []).take b.size.toNat)
  else os

@[csimp] theorem saveSection_eq_saveSectionImpl : @saveSection = @saveSectionImpl := by
  funext c enc shoff shentsize os b
  unfold saveSectionImpl
  cases h : os.fail with
  | true =>
    simp only [↓reduceIte]
    unfold saveSection
    simp only [OStream.adjust_of_fail h, OStream.write_of_fail h]
    split <;> rfl
  | false => simp only [Bool.false_eq_true, ↓reduceIte]; rfl

/-- the `get_data()` calls of `save_sections` (they make lazily loaded data resident); the data
    request only happens for sections that would be written -/
def residentForSave (c : Cls) (tr : List Trans) : List SecBuf → LoadSt → List SecBuf → List SecBuf × LoadSt
  | [], ls, acc => (acc.reverse, ls)
  | b :: rest, ls, acc =>
    if secWantsData c b then
      let (ls, b) := secGetData c tr ls b
      residentForSave c tr rest ls (b :: acc)
    else residentForSave c tr rest ls (b :: acc)

def saveSegment (c : Cls) (enc : Enc) (phoff : BitVec 64) (phentsize : BitVec 16) (os : OStream) (g : Seg) : OStream :=
  let hp : Int := phoff.toInt + (Int.ofNat phentsize.toNat) * (Int.ofNat g.index)
  (os.adjust hp).write (encodePhdr c enc g)

/-- `get_data()` on every section, in order -/
def allResident (c : Cls) (tr : List Trans) : List SecBuf → LoadSt → List SecBuf → List SecBuf × LoadSt
  | [], ls, acc => (acc.reverse, ls)
  | b :: rest, ls, acc =>
    let (ls, b) := secGetData c tr ls b
    allResident c tr rest ls (b :: acc)

structure SaveRes where
  obj : Obj
  os : OStream
  ok : Bool

/-- `is_still_good` after the three layout passes of `save`:
    `bool is_still_good = layout_segments_and_their_sections();`
    `is_still_good = is_still_good && layout_sections_without_segments();`
    `is_still_good = is_still_good && layout_section_table();`
    `segsOk` is the result of the first pass; the other two passes always return `true` (their generated
    `return` expressions).  With `segsOk = false` the `&&` do not evaluate their right operands — the
    model does not run those passes either. -/
def saveGoodAfterLayout (segsOk : Bool) : Bool :=
  save_good2 (save_good1 (save_good_init segsOk) lsws_result) lst_result

/-- One stream operation of the write phase of `save` (C16). -/
inductive StreamOp
  | seekp (p : Int)
  | write (bs : Bytes)
  | adjust (offset : Int)
  deriving Repr

def StreamOp.run (os : OStream) : StreamOp → OStream
  | .seekp p => os.seekp p
  | .write bs => os.write bs
  | .adjust off => os.adjust off

def runStreamOps (ops : List StreamOp) (os : OStream) : OStream := ops.foldl StreamOp.run os

/-- The write phase of `elfio::save(std::ostream&)`, entered when the three layout passes have
    succeeded (`is_still_good` is true): `save_header`, `save_sections`, `save_segments` chained
    with short-circuit `&&`, `stream.flush()` (no effect on a stream without buffer), and the
    final `return is_still_good && !stream.fail()`.  The four result expressions are the
    generated ones (Gen/SitesC16.lean). `h` is the header after layout, `secs`/`segs` the laid
    out sections/segments, `pos` the final cursor. -/
def saveWrite (o : Obj) (h : Bytes) (secs : List SecBuf) (segs : List Seg) (pos : BitVec 64) (os : OStream) : SaveRes :=
  let c := o.cls; let e := o.enc
  -- save_header: header->save(stream) = seekp, write, `return stream.good()`
  let os := (os.seekp (trApply o.trans 0)).write h
  let o := { o with hdr := some h, secs := secs, segs := segs, curPos := pos }
  -- is_still_good = is_still_good && save_header( stream );
  let good := match c with
    | .c32 => save_good3 (saveGoodAfterLayout true) (save_header_result32 (!os.fail))
    | .c64 => save_good3 (saveGoodAfterLayout true) (save_header_result (!os.fail))
  if !good then { obj := o, os := os, ok := save_result good os.fail } else
  -- save_sections
  let shoff := Hdr.e_shoff c e h
  let (secs, ls) := residentForSave c o.trans secs { st := o.stream } []
  let o := { o with secs := secs, stream := ls.st }
  let os := secs.foldl (saveSection c e shoff (Hdr.e_shentsize c e h)) os
  let good := save_good4 good save_sections_result
  if !good then { obj := o, os := os, ok := save_result good os.fail } else
  -- save_segments
  let os := segs.foldl (saveSegment c e (Hdr.e_phoff c e h) (Hdr.e_phentsize c e h)) os
  let good := save_good5 good save_segments_result
  { obj := o, os := os, ok := save_result good os.fail }

/-- `elfio::save(std::ostream&)` -/
def save (o : Obj) (os : OStream) : M SaveRes := do
  -- `if ( !stream || header == nullptr ) return false;`
  if save_entry_refused os.fail o.hdr.isSome then pure { obj := o, os := os, ok := false } else
  match o.hdr with
  | none => pure { obj := o, os := os, ok := false }      -- not reached: refused above
  | some h =>
  let c := o.cls; let e := o.enc
  -- `for (sec : sections_) sec->get_data();` : lazily loaded data is read before the layout
  let (secs0, ls0) := allResident c o.trans o.secs { st := o.stream } []
  let o := { o with secs := secs0, stream := ls0.st }
  let nseg := o.segs.length % 65536
  let nsec := o.secs.length % 65536
  let h := Hdr.set_phnum c e h nseg
  let h := Hdr.set_phoff c e h (save_phoff (BitVec.ofNat 16 nseg) (Hdr.e_ehsize c e h)).toNat
  let h := Hdr.set_shnum c e h nsec
  let h := Hdr.set_shoff c e h save_shoff0.toNat
  let pos0 := save_cursor0 (Hdr.e_ehsize c e h) (Hdr.e_phentsize c e h) (Hdr.e_phnum c e h)
  -- calc_segment_alignment
  let segs ← o.segs.mapM (calcSegAlign o.secs)
  -- layout_segments_and_their_sections
  let ordered ← orderedSegments segs
  let lay0 : Layout := { secs := o.secs, pos := pos0, gen := List.replicate nsec false }
  let step (acc : Option (Layout × List Seg)) (g : Seg) : M (Option (Layout × List Seg)) :=
    match acc with
    | none => pure none
    | some (lay, done) => do
      match ← layoutSegment c (Hdr.e_phoff c e h) (Hdr.e_phentsize c e h) (Hdr.e_phnum c e h) lay g with
      | none => pure none
      | some (lay, g) => pure (some (lay, done ++ [g]))
  match ← ordered.foldlM step (some (lay0, [])) with
  | none =>
    -- layout aborted: the object keeps whatever was laid out so far (not observable through save's result)
    pure { obj := { o with hdr := some h, segs := segs, curPos := pos0 }, os := os,
           ok := save_result (saveGoodAfterLayout false) os.fail }
  | some (lay, done) =>
    -- put the updated segments back at their indices
    let segs := segs.map fun g => (done.find? (fun d => d.index == g.index)).getD g
    let (secs, pos) := layoutLoose c segs lay.secs 0 lay.pos []
    -- layout_section_table
    let pos := lst_cursor pos (lst_error pos)
    let h := Hdr.set_shoff c e h pos.toNat
    -- save_header, save_sections, save_segments, flush, result
    pure (saveWrite o h secs segs pos os)

end ElfioVerif
