/-
Model of `string_section_accessor_template<section>` (elfio_strings.hpp) over the section
model `SecBuf`.  Every condition and every piece of arithmetic of `get_string` / `add_string`
is the generated expression (Gen/SitesC08.lean); `memchr` is a checked sequential read; the
two `append_data` calls are `SecBuf.appendData` (Model/SecBuf.lean).

Hand-written (pointer-valued, not translatable): the `string_section` / `str` null tests, the
`nullptr == data` disjunct, `str = data + index`, and the final `end != nullptr &&
end < str + remaining_size` (rendered on offsets).
-/
import ElfioVerif.Model.SecBuf
import ElfioVerif.Gen.SitesC08
namespace ElfioVerif
open Gen

/-- `memchr(buf + off, c, n)` : the offset (relative to `off`) of the first `c` among the next
    `n` bytes.  C11 7.24.5.1: reads sequentially and stops at the first match, so the access
    leaves the allocation only if no match lies in the part of the window that is inside it. -/
def memchr (site : String) (buf : Option Bytes) (off : Nat) (c : UInt8) (n : Nat) : M (Option Nat) :=
  match buf with
  | none => if n = 0 then pure none else throw (.nullDeref site)
  | some a =>
    if ((slice a off n).takeWhile (· != c)).length < (slice a off n).length then
      pure (some ((slice a off n).takeWhile (· != c)).length)
    else if off + n ≤ a.length then pure none
    else throw (.oobRead site)

/-- `strlen(str)` bytes of the caller's string, i.e. the C string a `const char*` denotes -/
def cstrOf (raw : Bytes) : Bytes := raw.takeWhile (· != 0)

namespace StrSec

/-- the `int` handed to `memchr`, converted to `unsigned char` -/
def searchByte : UInt8 := UInt8.ofNat (str_get_memchr_chr.toNat % 256)

/-- last step of `get_string`: `end != nullptr && end < str + remaining_size ? str : nullptr` -/
def getFinish (b : SecBuf) (index : Nat) (remaining : Nat) : Option Nat → Option Bytes
  | none => none
  | some k => if k < remaining then some (slice (b.data.getD []) index k) else none

/-- `get_string(index)` after `const char* data = string_section->get_data()` -/
def getStringCore (b : SecBuf) (index : BitVec 32) : M (SecBuf × Option Bytes) :=
  let sectionSize := str_get_section_size b.size
  if str_get_idx_ge_size index sectionSize || b.data.isNone then pure (b, none) else
  let remaining := str_get_remaining sectionSize index
  if str_get_underflow remaining sectionSize then pure (b, none) else
  match memchr "get_string/memchr" b.data index.toNat searchByte (str_get_memchr_n remaining).toNat with
  | .error e => .error e
  | .ok r => pure (b, getFinish b index.toNat remaining.toNat r)

/-- `get_string(index)`; returns the section state (`get_data()` may load lazily) and the
    string behind the returned pointer (`none` = nullptr) -/
def getString (b : SecBuf) (index : BitVec 32) : M (SecBuf × Option Bytes) :=
  getStringCore b.getData index

/-- `add_string` from `size_t str_len = strlen(str)` on -/
def addTail (b : SecBuf) (cur : BitVec 32) (cstr : Bytes) : M (SecBuf × BitVec 32) :=
  let strLen : BitVec 64 := BitVec.ofNat 64 cstr.length
  if str_add_too_long strLen then pure (b, str_add_too_long_ret) else
  let appendSize := str_add_append_size strLen
  if str_add_ovf appendSize cur then pure (b, str_add_ovf_ret) else
  -- `append_data( str, append_size )` reads `append_size` bytes of the caller's string
  match rdRange "add_string/str" (some (cstr ++ [0])) 0 (str_add_append_arg appendSize).toNat with
  | .error e => .error e
  | .ok src =>
    match b.appendData src with
    | .error e => .error e
    | .ok b' => pure (b', str_add_ret cur)

/-- `add_string(const char* str)`; `none` is a null pointer, `some raw` a buffer whose C string
    is `cstrOf raw` (the `std::string` overload passes `c_str()`) -/
def addString (b : SecBuf) (str : Option Bytes) : M (SecBuf × BitVec 32) :=
  match str with
  | none => pure (b, str_add_null_ret)
  | some raw =>
    let cur := str_add_cur b.size
    if str_add_is_empty cur then
      -- `char empty_string = '\0'; append_data( &empty_string, 1 ); current_position++`
      match rdRange "add_string/seed" (some [UInt8.ofNat str_add_seed_byte.toNat]) 0 str_add_seed_size.toNat with
      | .error e => .error e
      | .ok seed =>
        match b.appendData seed with
        | .error e => .error e
        | .ok b1 => addTail b1 (str_add_cur_incr cur) (cstrOf raw)
    else addTail b cur (cstrOf raw)

end StrSec
end ElfioVerif
