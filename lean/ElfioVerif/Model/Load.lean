/-
`elfio::load(std::istream&, bool is_lazy)` and everything under it:
header gate, `elf_header_impl::load`, `load_sections` (section header + data, eager or lazy,
name resolution through the section-name string table), `load_segments` (program header +
data, membership).  Every integer / boolean decision of these functions (gate tests, loop
conditions, class dispatch, bounds tests, null tests, completion tests) and the size computations are
the generated expressions (Gen/Sites.lean, Gen/SitesLoad.lean, Gen/SitesC08.lean), reached through
small class-dispatch helpers; their hand forms, and the structural reference loops the proofs use,
are in Lemmas/LoadTie.lean.  Hand-modelled: statement order, the stream calls themselves
(Model/IStream.lean), `std::vector` / `unique_ptr` bookkeeping, the address translator lookup, the
`Int` arithmetic of the header offsets (tied to the generated expression by
`LoadTie.load_sections_hdr_off_val`), allocation failure and decompression (not modelled).
Allocation requests (`new (nothrow) char[n]`) are logged.
-/
import ElfioVerif.Model.Obj
import ElfioVerif.Gen.SitesC08
namespace ElfioVerif
open Gen

/-- stream + allocation log threaded through the loader -/
structure LoadSt where
  st : IStream
  allocs : List Nat := []
  deriving Repr

def u64max : BitVec 64 := 18446744073709551615#64

/-- the first lines of `section_impl::load` / `segment_impl::load`:
    `was_failed = stream.fail(); seekg(0,end); stream_size = size_t(tellg());`
    `if (!translator->empty() && !was_failed && stream.fail()) stream.clear();`
    The stream's real size is recorded with or without a translation table (translated offsets are
    stream positions).  The `clear()` branch serves streams that cannot seek to their end
    (/proc/<pid>/mem); for the stream kinds modelled here it is dead (`streamSizeOf_eq`, Lemmas/LoadSafety). -/
def streamSizeOf (tr : List Trans) (st : IStream) : IStream × BitVec 64 :=
  let st1 := st.seekEnd
  let (st2, p) := st1.tellg
  let st3 := if sec64_load_unseekable tr.isEmpty st.fail st2.fail then st2.clear else st2
  (st3, sec64_load_stream_size (BitVec.ofInt 64 p))

/-- `segment_impl::load` has the same guard as `section_impl::load` -/
theorem seg64_load_unseekable_eq : seg64_load_unseekable = sec64_load_unseekable := rfl

/-! ### class dispatch of the generated conditions (one definition per template instantiation) -/

/-- `section_impl<T>::load` : `static_cast<size_t>( stream.gcount() ) != sizeof( header )` -/
def secShortHdr (c : Cls) (gcount : BitVec 64) : Bool :=
  match c with | .c32 => sec32_load_short_hdr gcount | .c64 => sec64_load_short_hdr gcount
/-- `section_impl<T>::load` : `!( is_lazy || is_loaded )` -/
def secEager (c : Cls) (isLazy isLoaded : Bool) : Bool :=
  match c with | .c32 => sec32_load_eager isLazy isLoaded | .c64 => sec64_load_eager isLazy isLoaded
/-- `segment_impl<T>::load` : `!( is_lazy || is_loaded )` -/
def segEager (c : Cls) (isLazy isLoaded : Bool) : Bool :=
  match c with | .c32 => seg32_load_eager isLazy isLoaded | .c64 => seg64_load_eager isLazy isLoaded
/-- `segment_impl<T>::load_data` : `pstream->seekg( p_offset )` -/
def segSeekTo (c : Cls) (off : BitVec 64) : BitVec 64 :=
  match c with | .c32 => seg32_load_data_seek off | .c64 => seg64_load_data_seek off
/-- `segment_impl<T>::load_data` : `pstream->read( data.get(), size )` -/
def segReadN (c : Cls) (size : BitVec 64) : BitVec 64 :=
  match c with | .c32 => seg32_load_data_readn size | .c64 => seg64_load_data_readn size
/-- `segment_impl<T>::load_data` : `if ( is_complete )` -/
def segDataOk (c : Cls) (isComplete : Bool) : Bool :=
  match c with | .c32 => seg32_load_data_ok isComplete | .c64 => seg64_load_data_ok isComplete

/-- `section_impl<T>::load_data` : `nullptr == data && SHT_NULL != get_type() && SHT_NOBITS != get_type()` -/
def secNeedsLoad (c : Cls) (dataIsNull : Bool) (ty : BitVec 32) : Bool :=
  match c with | .c32 => sec32_load_data_need dataIsNull ty | .c64 => sec64_load_data_need dataIsNull ty
/-- `section_impl<T>::load_data` : `size > numeric_limits<size_t>::max() - 1` -/
def secSizeT (c : Cls) (size : BitVec 64) : Bool :=
  match c with | .c32 => sec32_load_data_sizet size | .c64 => sec64_load_data_sizet size
/-- `section_impl<T>::load_data` : `new (std::nothrow) char[size_t(size) + 1]` -/
def secAllocN (c : Cls) (size : BitVec 64) : BitVec 64 :=
  match c with | .c32 => sec32_load_data_alloc size | .c64 => sec64_load_data_alloc size
/-- `section_impl<T>::load_data` : `(0 != size) && (nullptr != data)` -/
def secDoRead (c : Cls) (size : BitVec 64) (dataIsNull : Bool) : Bool :=
  match c with | .c32 => sec32_load_data_do_read size dataIsNull | .c64 => sec64_load_data_do_read size dataIsNull
/-- `section_impl<T>::load_data` : `pstream->seekg(sh_offset)` -/
def secSeekTo (c : Cls) (off : BitVec 64) : BitVec 64 :=
  match c with | .c32 => sec32_load_data_seek off | .c64 => sec64_load_data_seek off
/-- `section_impl<T>::load_data` : `pstream->read(data.get(), size)` -/
def secReadN (c : Cls) (size : BitVec 64) : BitVec 64 :=
  match c with | .c32 => sec32_load_data_readn size | .c64 => sec64_load_data_readn size
/-- `section_impl<T>::load_data` : `if (!is_complete)` -/
def secIncomplete (c : Cls) (isComplete : Bool) : Bool :=
  match c with | .c32 => sec32_load_data_incomplete isComplete | .c64 => sec64_load_data_incomplete isComplete
/-- `section_impl<T>::load_data` : `if (size != 0)` after a failed allocation -/
def secAllocFailed (c : Cls) (size : BitVec 64) : Bool :=
  match c with | .c32 => sec32_load_data_alloc_failed size | .c64 => sec64_load_data_alloc_failed size
/-- `section_impl<T>::load_data` :
    `is_loaded = (nullptr != data) || (SHT_NULL == get_type()) || (SHT_NOBITS == get_type())` -/
def secLoadedAfter (c : Cls) (dataIsNull : Bool) (ty : BitVec 32) : Bool :=
  match c with | .c32 => sec32_load_data_loaded dataIsNull ty | .c64 => sec64_load_data_loaded dataIsNull ty

def isNullOrNobitsTy (t : BitVec 32) : Bool :=
  t == BitVec.ofNat 32 SHT_NULL || t == BitVec.ofNat 32 SHT_NOBITS

/-- a read of `n` bytes at absolute position `off` that neither depends on nor forgets an
    earlier failure (the `clear(); seekg; read; setstate(earlier)` sequence of
    `section_impl::load_data`); the third component is
    `is_complete = static_cast<Elf_Xword>(pstream->gcount()) == size` (the same expression in both
    instantiations, `LoadTie.sec32_load_data_complete_eq`) -/
def isolatedRead (st : IStream) (off : BitVec 64) (n : BitVec 64) : IStream × Bytes × Bool :=
  let st1 := (st.clear).seekg off.toInt
  let (st2, got) :=
    if n.toInt < 0 then (st1.readNeg, ([] : Bytes))
    else
      let r := st1.read n.toNat
      (r.1, r.2)
  ({ st2 with eof := st2.eof || st.eof, fail := st2.fail || st.fail }, got,
   sec64_load_data_complete (BitVec.ofNat 64 st2.gcount) n)

/-- `section_impl::load_data()` -/
def secLoadData (c : Cls) (tr : List Trans) (ls : LoadSt) (b : SecBuf) : LoadSt × SecBuf × Bool :=
  let off : BitVec 64 := BitVec.ofInt 64 (trApply tr b.offset.toInt)
  let size := b.size
  let offGt := match c with
    | .c32 => sec32_load_data_off_gt off b.streamSize
    | .c64 => sec64_load_data_off_gt off b.streamSize
  if offGt then (ls, b, false) else
  let sizeGt := match c with
    | .c32 => sec32_load_data_size_gt size b.streamSize off
    | .c64 => sec64_load_data_size_gt size b.streamSize off
  if sizeGt then (ls, b, false) else
  if secNeedsLoad c b.data.isNone b.stype then
    if secSizeT c size then (ls, b, false) else
    let n := (secAllocN c size).toNat
    let ls := { ls with allocs := ls.allocs ++ [n] }
    -- allocation failure is not modelled: `data` is non-null after the `reset`
    if secDoRead c size false then
      let (st, got, complete) := isolatedRead ls.st (secSeekTo c off) (secReadN c size)
      let ls := { ls with st := st }
      if secIncomplete c complete then (ls, { b with data := none, dataSize := 0 }, false)
      else (ls, { b with data := some (got ++ [0]), dataSize := size, isLoaded := true }, true)
    else if secAllocFailed c size then
      -- `return false; // Failed to allocate required memory` : dead with a non-null `data`
      (ls, { b with data := some (alloc 1), dataSize := 0 }, false)
    else (ls, { b with data := some (alloc 1), dataSize := 0, isLoaded := true }, true)
  else
    let l := secLoadedAfter c b.data.isNone b.stype
    (ls, { b with isLoaded := l }, l)

/-- `section_impl::get_data()` against the real stream -/
def secGetData (c : Cls) (tr : List Trans) (ls : LoadSt) (b : SecBuf) : LoadSt × SecBuf :=
  if !b.isLoaded && b.canLoad then
    let (ls, b, ok) := secLoadData c tr ls b
    (ls, if ok then b else { b with canLoad := false })
  else (ls, b)

/-- what a later lazy `get_data()` would deliver (used to fill `SecBuf.fileData`) -/
def fileDataOf (c : Cls) (tr : List Trans) (st : IStream) (b : SecBuf) : Option Bytes :=
  let r := secLoadData c tr { st := st } { b with data := none, isLoaded := false }
  if r.2.2 then (match r.2.1.data with
    | some d => if b.size = 0 then some [] else some (d.take b.size.toNat)
    | none => some [])   -- NULL / NOBITS: nothing to read
  else none

/-- `section_impl::load(stream, header_offset, is_lazy)` followed by
    `set_address(get_address())` -/
def secLoad (c : Cls) (enc : Enc) (tr : List Trans) (ls : LoadSt) (hdrOff : Int) (isLazy : Bool)
    (idx : Nat) : LoadSt × SecBuf :=
  let (st, ss) := streamSizeOf tr ls.st
  let st := st.seekg (trApply tr hdrOff)
  let (st, got) := st.read (shdrSize c)
  let b0 : SecBuf := { cls := c, stype := 0, size := 0, data := none, dataSize := 0, streamSize := ss,
                       translatorEmpty := tr.isEmpty, isLazy := isLazy, index := idx }
  let ls := { ls with st := st }
  if secShortHdr c (BitVec.ofNat 64 st.gcount) then
    (ls, { b0 with addrSet := true })
  else
    let b := decodeShdr c enc got b0
    let b := { b with fileData := fileDataOf c tr st b }
    if secEager c isLazy b.isLoaded then
      let (ls, b) := secGetData c tr ls b
      (ls, { b with addrSet := true })
    else (ls, { b with addrSet := true })

/-- `segment_impl::is_file_range_valid()` : the file range of the segment lies inside the stream
    (`PT_NULL` / empty segments have nothing to read).  Asked by `load_data()` before it allocates and
    by the lazy path of `load()`: both modes accept and refuse the same program headers. -/
def segRangeOk (c : Cls) (tr : List Trans) (g : Seg) : Bool :=
  let skip := match c with
    | .c32 => seg32_range_skip g.stype g.filesz
    | .c64 => seg64_range_skip g.stype g.filesz
  if skip then true else
  let off : BitVec 64 := BitVec.ofInt 64 (trApply tr g.offset.toInt)
  let size := g.filesz
  let offGt := match c with
    | .c32 => seg32_range_off_gt off g.streamSize
    | .c64 => seg64_range_off_gt off g.streamSize
  if offGt then false else
  let sizeGt := match c with
    | .c32 => seg32_range_size_gt size g.streamSize off
    | .c64 => seg64_range_size_gt size g.streamSize off
  if sizeGt then false else
  let st' := match c with | .c32 => seg32_range_sizet size | .c64 => seg64_range_sizet size
  if st' then false else true

/-- `segment_impl<T>::load_data` : `if ( !is_file_range_valid() )` -/
def segRangeBad (c : Cls) (rangeOk : Bool) : Bool :=
  match c with | .c32 => seg32_load_data_range_bad rangeOk | .c64 => seg64_load_data_range_bad rangeOk
/-- `segment_impl<T>::load` : `return is_loaded || is_file_range_valid();` (the lazy path) -/
def segLazyRet (c : Cls) (isLoaded rangeOk : Bool) : Bool :=
  match c with | .c32 => seg32_load_lazy_ret isLoaded rangeOk | .c64 => seg64_load_lazy_ret isLoaded rangeOk

/-- `segment_impl::load_data()` -/
def segLoadData (c : Cls) (tr : List Trans) (ls : LoadSt) (g : Seg) : LoadSt × Seg × Bool :=
  let skip := match c with
    | .c32 => seg32_load_data_skip g.stype g.filesz
    | .c64 => seg64_load_data_skip g.stype g.filesz
  if skip then (ls, g, true) else
  if segRangeBad c (segRangeOk c tr g) then (ls, { g with data := none }, false) else
  let off : BitVec 64 := BitVec.ofInt 64 (trApply tr g.offset.toInt)
  let size := g.filesz
  let n := (match c with | .c32 => seg32_load_data_alloc size | .c64 => seg64_load_data_alloc size).toNat
  let ls := { ls with allocs := ls.allocs ++ [n] }
  -- `pstream->read(...)` converted to bool: the stream must not be failed after the read
  let st1 := (ls.st.clear).seekg (segSeekTo c off).toInt
  let (st2, got) :=
    if (segReadN c size).toInt < 0 then (st1.readNeg, ([] : Bytes)) else st1.read (segReadN c size).toNat
  let isComplete := !st2.fail
  let st3 := { st2 with eof := st2.eof || ls.st.eof, fail := st2.fail || ls.st.fail }
  let ls := { ls with st := st3 }
  if segDataOk c isComplete then (ls, { g with data := some (got ++ [0]), isLoaded := true }, true)
  else (ls, { g with data := none }, false)

def segGetData (c : Cls) (tr : List Trans) (ls : LoadSt) (g : Seg) : LoadSt × Seg :=
  if !g.isLoaded then
    let (ls, g, _) := segLoadData c tr ls g
    (ls, g)
  else (ls, g)

/-- `segment_impl::load(stream, header_offset, is_lazy)` : returns the success flag (a lazy load reads no
    data but answers what the range tests of an eager load answer) -/
def segLoad (c : Cls) (enc : Enc) (tr : List Trans) (ls : LoadSt) (hdrOff : Int) (isLazy : Bool) :
    LoadSt × Seg × Bool :=
  let (st, ss) := streamSizeOf tr ls.st
  let st := st.seekg (trApply tr hdrOff)
  let (st, got) := st.read (phdrSize c)
  -- a short read leaves the untouched part of the zero-initialised struct
  let raw := wr (List.replicate (phdrSize c) 0) 0 got
  let g : Seg := decodePhdr c enc raw { streamSize := ss, isLazy := isLazy, offsetSet := true }
  let ls := { ls with st := st }
  if segEager c isLazy g.isLoaded then
    let (ls, g, ok) := segLoadData c tr ls g
    (ls, g, ok)
  else (ls, g, segLazyRet c g.isLoaded (segRangeOk c tr g))

/-! ### bounded string lookup used for section names (`string_section_accessor::get_string`) -/

/-- `memchr( data + idx, '\0', n )` as a checked read: the bytes from `idx` up to (excluding) the
    first NUL among the next `n`; it faults only if it would leave the allocation before finding a
    terminator -/
def cstrScan (site : String) (data : Bytes) (idx n : Nat) : M (Option Bytes) :=
  let avail := slice data idx n
  match avail.idxOf? (0 : UInt8) with
  | some k => pure (some (avail.take k))
  | none => if avail.length < n then throw (.oobRead site) else pure none

/-- `get_string(index)` on a section (state after the implied `get_data()`): the bounds tests and the
    size arithmetic are the generated expressions of `get_string` (Gen/SitesC08.lean) -/
def getString (b : SecBuf) (index : BitVec 32) : M (Option Bytes) :=
  let sectionSize := str_get_section_size b.size
  if str_get_idx_ge_size index sectionSize || b.data.isNone then pure none else
  let remaining := str_get_remaining sectionSize index
  if str_get_underflow remaining sectionSize then pure none else
  match b.data with
  | none => pure none
  | some d => cstrScan "get_string/memchr" d index.toNat (str_get_memchr_n remaining).toNat

/-! ### the loader -/

structure LoadRes where
  obj : Obj
  ok : Bool
  allocs : List Nat
  deriving Repr

def clsOfByte (b : Nat) : Option Cls :=
  if b = ELFCLASS64 then some .c64 else if b = ELFCLASS32 then some .c32 else none
def encOfByte (b : Nat) : Option Enc :=
  if b = ELFDATA2LSB then some .lsb else if b = ELFDATA2MSB then some .msb else none

/-- `elf_header_impl<T>::load` : `return ( stream.gcount() == sizeof( header ) );` -/
def hdrLoadOk (c : Cls) (gcount : BitVec 64) : Bool :=
  match c with | .c32 => hdr32_load_ok gcount | .c64 => hdr64_load_ok gcount

/-- `e_ident[i]` as the `char` the C++ reads -/
def identChar (ident : Bytes) (i : Nat) : BitVec 8 := BitVec.ofNat 8 (ident.getD i 0).toNat

/-- the first `for ( Elf_Half i = 0; i < num; ++i )` of `elfio::load_sections`: create and load one
    section per header.  The loop condition is the generated one; `fuel` only makes the recursion
    structural (`num` iterations suffice: `LoadTie.loadSectionsLoopG_eq`).  The header offset
    `streamoff(offset) + streampos(i) * entry_size` is computed over `Int`; it equals the generated
    `load_sections_hdr_off` whenever the C++ addition does not overflow (`LoadTie.load_sections_hdr_off_val`). -/
def loadSectionsLoopG (c : Cls) (enc : Enc) (tr : List Trans) (isLazy : Bool) (shoff : Int) (entsize : Nat)
    (num : BitVec 16) : Nat → BitVec 16 → LoadSt → List SecBuf → LoadSt × List SecBuf
  | 0, _, ls, acc => (ls, acc.reverse)
  | fuel + 1, i, ls, acc =>
    if load_sections_for i num then
      let (ls, b) := secLoad c enc tr ls (shoff + (Int.ofNat i.toNat) * (Int.ofNat entsize)) isLazy i.toNat
      loadSectionsLoopG c enc tr isLazy shoff entsize num fuel (i + 1) ls (b :: acc)
    else (ls, acc.reverse)

def setAt {α} (l : List α) (i : Nat) (x : α) : List α := l.set i x

/-- the second `for ( Elf_Half i = 0; i < num; ++i )` of `load_sections`, over `sections[i]` (a null
    `sections[i]` would be dereferenced); `fuel` as in `loadSectionsLoopG`.  On the `num` sections just
    created it is `resolveNames` (`LoadTie.resolveNamesG_eq`). -/
def resolveNamesG (strtab : SecBuf) (num : BitVec 16) : Nat → BitVec 16 → List SecBuf → M (List SecBuf)
  | 0, _, secs => pure secs
  | fuel + 1, i, secs =>
    if load_sections_names_for i num then
      match secs[i.toNat]? with
      | none => throw (.nullDeref "load_sections/sections[i]")
      | some b =>
        getString strtab b.nameOff >>= fun r =>
          let b := if load_sections_name_found r.isSome then
                     (match r with | some s => { b with name := s } | none => b)
                   else b
          resolveNamesG strtab num fuel (i + 1) (secs.set i.toNat b)
    else pure secs

/-- What the driver executes for `resolveNamesG`: the same loop over an `Array` (`sections[i]` and the
    write-back are O(1) instead of O(i) on a list — 65535 zeroed sections made the list version take
    minutes).  Equal to `resolveNamesG` by the proved equation below, not by assumption. -/
def resolveNamesA (strtab : SecBuf) (num : BitVec 16) : Nat → BitVec 16 → Array SecBuf → M (Array SecBuf)
  | 0, _, secs => pure secs
  | fuel + 1, i, secs =>
    if load_sections_names_for i num then
      match secs[i.toNat]? with
      | none => throw (.nullDeref "load_sections/sections[i]")
      | some b =>
        getString strtab b.nameOff >>= fun r =>
          let b := if load_sections_name_found r.isSome then
                     (match r with | some s => { b with name := s } | none => b)
                   else b
          resolveNamesA strtab num fuel (i + 1) (secs.setIfInBounds i.toNat b)
    else pure secs

def resolveNamesGImpl (strtab : SecBuf) (num : BitVec 16) (fuel : Nat) (i : BitVec 16) (secs : List SecBuf) :
    M (List SecBuf) :=
  (resolveNamesA strtab num fuel i secs.toArray).map Array.toList

theorem resolveNamesA_toList (strtab : SecBuf) (num : BitVec 16) (fuel : Nat) (i : BitVec 16) (a : Array SecBuf) :
    (resolveNamesA strtab num fuel i a).map Array.toList = resolveNamesG strtab num fuel i a.toList := by
  induction fuel generalizing i a with
  | zero => rfl
  | succ n ih =>
    unfold resolveNamesA resolveNamesG
    split
    · rw [← Array.getElem?_toList]
      cases h : a.toList[i.toNat]? with
      | none => rfl
      | some b =>
        dsimp only
        cases hg : getString strtab b.nameOff with
        | error e => rfl
        | ok r =>
          show (resolveNamesA strtab num n (i + 1) _).map Array.toList = resolveNamesG strtab num n (i + 1) _
          rw [ih, Array.toList_setIfInBounds]
    · rfl

@[csimp] theorem resolveNamesG_eq_impl : @resolveNamesG = @resolveNamesGImpl := by
  funext strtab num fuel i secs
  unfold resolveNamesGImpl
  rw [resolveNamesA_toList]

def memberOf (g : Seg) (b : SecBuf) : Bool :=
  let segEndOff := load_segments_seg_end_off g.offset g.filesz
  let segEndAddr := load_segments_seg_end_addr g.vaddr g.memsz
  load_segments_member b.flags b.addr b.size g.vaddr segEndAddr b.offset g.offset segEndOff
    && !(load_segments_tls_skip g.stype b.flags)

/-- `if ( file_class == ELFCLASS64 ) new segment_impl<Elf64_Phdr> else if ( file_class == ELFCLASS32 )
    new segment_impl<Elf32_Phdr> else { pop_back; return false; }` : the instantiation chosen -/
def segClassOf (fileClass : BitVec 8) : Option Cls :=
  if load_segments_is64 fileClass then some .c64
  else if load_segments_is32 fileClass then some .c32
  else none

/-- the `for ( Elf_Half i = 0; i < num; ++i )` of `elfio::load_segments` (loop condition, class
    dispatch and failure test are the generated ones; `fuel` as in `loadSectionsLoopG`) -/
def loadSegmentsLoopG (enc : Enc) (tr : List Trans) (isLazy : Bool) (phoff : Int) (entsize : Nat)
    (secs : List SecBuf) (fileClass : BitVec 8) (num : BitVec 16) :
    Nat → BitVec 16 → LoadSt → List Seg → LoadSt × List Seg × Bool
  | 0, _, ls, acc => (ls, acc.reverse, true)
  | fuel + 1, i, ls, acc =>
    if load_segments_for i num then
      match segClassOf fileClass with
      | none => (ls, (acc.drop 1).reverse, false)
      | some c =>
        let (ls, g, ok) := segLoad c enc tr ls (phoff + (Int.ofNat i.toNat) * (Int.ofNat entsize)) isLazy
        if load_segments_failed ok ls.st.fail then (ls, acc.reverse, false)
        else
          let members := (secs.filter (memberOf g)).map (fun b => BitVec.ofNat 16 b.index)
          let g := { g with index := i.toNat, secs := members }
          loadSegmentsLoopG enc tr isLazy phoff entsize secs fileClass num fuel (i + 1) ls (g :: acc)
    else (ls, acc.reverse, true)

/-- `elfio::load_sections( stream, is_lazy )` on the loaded header `hdr` (its `bool` result is ignored
    by `load`) -/
def loadSectionsM (c : Cls) (enc : Enc) (tr : List Trans) (isLazy : Bool) (hdr : Bytes) (st : IStream) :
    M (LoadSt × List SecBuf) :=
  let num := Hdr.e_shnum c enc hdr
  let entsize := Hdr.e_shentsize c enc hdr
  let shoff := Hdr.e_shoff c enc hdr
  let fileClass : BitVec 8 := Hdr.ident hdr EI_CLASS
  let ls : LoadSt := { st := st }
  if load_sections_entsize_bad num fileClass entsize then pure (ls, ([] : List SecBuf)) else
  let (ls, secs) := loadSectionsLoopG c enc tr isLazy shoff.toInt entsize.toNat num num.toNat 0 ls []
  let shstrndx := Hdr.e_shstrndx c enc hdr
  if load_sections_has_strtab shstrndx then
    -- `string_section_accessor str_reader( sections[shstrndx] )` : a null section yields no names
    match secs[shstrndx.toNat]? with
    | none => pure (ls, secs)
    | some strtab =>
      let (ls, strtab) := secGetData c tr ls strtab
      let secs := secs.set shstrndx.toNat strtab
      (resolveNamesG strtab num num.toNat 0 secs) >>= fun secs => pure (ls, secs)
  else pure (ls, secs)

/-- `elfio::load_segments( stream, is_lazy )` -/
def loadSegmentsM (c : Cls) (enc : Enc) (tr : List Trans) (isLazy : Bool) (hdr : Bytes) (ls : LoadSt)
    (secs : List SecBuf) : Option (LoadSt × List Seg × Bool) :=
  let pnum := Hdr.e_phnum c enc hdr
  let pentsize := Hdr.e_phentsize c enc hdr
  let phoff := Hdr.e_phoff c enc hdr
  let fileClass : BitVec 8 := Hdr.ident hdr EI_CLASS
  if load_segments_entsize_bad pnum fileClass pentsize then none
  else some (loadSegmentsLoopG enc tr isLazy phoff.toInt pentsize.toNat secs fileClass pnum pnum.toNat 0 ls [])

/-- `load_sections( stream, is_lazy ); bool is_still_good = load_segments( stream, is_lazy );`
    `return is_still_good;` on the object `o` whose header struct is `hdr` -/
def loadTables (o : Obj) (c : Cls) (enc : Enc) (hdr : Bytes) (st : IStream) (isLazy : Bool) : M LoadRes :=
  loadSectionsM c enc o.trans isLazy hdr st >>= fun p =>
    match loadSegmentsM c enc o.trans isLazy hdr p.1 p.2 with
    | none => pure { obj := { o with secs := p.2, stream := p.1.st }, ok := false, allocs := p.1.allocs }
    | some r =>
      pure { obj := { o with secs := p.2, segs := r.2.1, stream := r.1.st }, ok := r.2.2, allocs := r.1.allocs }

/-- `elfio::load(stream, is_lazy)` on an object `o` (its header/convertor survive a failed gate) -/
def load (o : Obj) (st : IStream) (isLazy : Bool) : M LoadRes := do
  let o := { o with secs := [], segs := [] }
  let st := st.seekg (trApply o.trans 0)
  let (st, ident) := st.read 16
  let fail (o : Obj) (st : IStream) (al : List Nat) : M LoadRes :=
    pure { obj := { o with stream := st }, ok := false, allocs := al }
  let idc := identChar ident
  if load_bad_magic (BitVec.ofNat 64 st.gcount) (idc EI_MAG0) (idc EI_MAG1) (idc EI_MAG2) (idc EI_MAG3) then
    fail o st [] else
  if load_bad_class (idc EI_CLASS) then fail o st [] else
  if load_bad_enc (idc EI_DATA) then fail o st [] else
  let idb (i : Nat) : Nat := (ident.getD i 0).toNat
  -- convertor.setup; create_header (nullptr for an unknown class)
  if load_no_header (clsOfByte (idb EI_CLASS)).isNone then fail o st [] else
  match clsOfByte (idb EI_CLASS), encOfByte (idb EI_DATA) with
  | none, _ => fail o st []
  | some _, none => fail o st []
  | some c, some enc =>
    -- header->load
    let st := st.seekg (trApply o.trans 0)
    let (st, got) := st.read (ehdrSize c)
    let hdr := wr (Hdr.create c enc (idb EI_DATA)) 0 got
    let o := { o with cls := c, enc := enc, hdr := some hdr }
    if load_hdr_failed (hdrLoadOk c (BitVec.ofNat 64 st.gcount)) then fail o st [] else
    loadTables o c enc hdr st isLazy

end ElfioVerif
