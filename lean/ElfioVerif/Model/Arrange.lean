/-
Model of `symbol_section_accessor::arrange_local_symbols` (elfio_symbols.hpp) and of
`relocation_section_accessor::swap_symbols` (elfio_relocation.hpp), the usual swap callback.

Every loop condition, the ELF_ST_BIND tests, the `first_not_local < count && current < count`
decision, the pointer offset `index * entry_size`, the callback arguments, the value handed to
`set_info`, the return value, and swap_symbols' comparisons / new indices / r_info packing are
the *generated* expressions of Gen/SitesC10.lean.  Hand-written: the control skeleton (two inner
scans inside `while (true)`), the `convertor` applied to the one-byte `st_info` (the generated
8-bit overload `arr_conv8`, the identity), `std::swap(*p1, *p2)` as two checked reads followed by two checked writes of `sizeof(T)` bytes,
and the field reads/writes through `rdField` / `wrField`.

Integer state has the C++ widths: `first_not_local : Elf_Word` (BitVec 32), `current`,
`count : Elf_Xword` (BitVec 64).  `p1`/`p2` are byte offsets into the section's buffer
(`none` = nullptr); dereferencing goes through `rdRange`/`wrRange`.
Loops carry fuel; `Lemmas/ArrangeBytes.lean` proves it never runs out on tables of fewer than
2^32 - 1 symbols (beyond that `first_not_local` wraps and the C++ loop need not terminate).
-/
import ElfioVerif.Model.SecBuf
import ElfioVerif.Model.Field
import ElfioVerif.Gen.SitesC10
namespace ElfioVerif
open Gen

namespace Arrange

/-- `elf_file.get_class()` as the byte the generated class tests compare with -/
def clsByte (c : Cls) : BitVec 8 :=
  match c with
  | .c32 => BitVec.ofNat 8 ELFCLASS32
  | .c64 => BitVec.ofNat 8 ELFCLASS64

/-- the expressions of one instantiation `generic_*<T>` -/
structure SymSites where
  symSize : Nat                                   -- sizeof(T)
  infoOff : Nat                                   -- offsetof(T, st_info)
  minSize : BitVec 64                             -- get_symbols_num: minimum_symbol_size
  ptrOk : Bool → BitVec 64 → BitVec 64 → Bool
  ptrSmall : BitVec 64 → Bool
  ptrOff : BitVec 64 → BitVec 64 → BitVec 64
  fnlInit : BitVec 32
  p1Index : BitVec 32 → BitVec 64
  p2Index : BitVec 64 → BitVec 64
  scan1Cond : BitVec 32 → BitVec 64 → Bool
  scan1NonLocal : BitVec 8 → Bool
  curInit : BitVec 32 → BitVec 64
  fnlIncr : BitVec 32 → BitVec 32                 -- `++first_not_local`
  curIncr : BitVec 64 → BitVec 64                 -- `++current`
  scan2Cond : BitVec 64 → BitVec 64 → Bool
  scan2Local : BitVec 8 → Bool
  both : BitVec 32 → BitVec 64 → BitVec 64 → Bool
  forever : Bool                                  -- the condition of the outer `while ( true )`
  hasCb : Bool → Bool                             -- `if ( func )`
  cbFirst : BitVec 32 → BitVec 64
  cbSecond : BitVec 64 → BitVec 64
  setInfo : BitVec 32 → BitVec 32
  ret : BitVec 32 → BitVec 64

def sites32 : SymSites :=
  { symSize := sizeof_Elf32_Sym, infoOff := Elf32_Sym.st_info_off, minSize := arr_min32,
    ptrOk := arr32_ptr_ok, ptrSmall := arr32_ptr_small, ptrOff := arr32_ptr_off,
    fnlInit := arr32_fnl_init, p1Index := arr32_p1_index, p2Index := arr32_p2_index,
    scan1Cond := arr32_scan1_cond, scan1NonLocal := arr32_scan1_nonlocal arr_conv8,
    curInit := arr32_cur_init, scan2Cond := arr32_scan2_cond, scan2Local := arr32_scan2_local arr_conv8,
    fnlIncr := arr32_fnl_incr, curIncr := arr32_cur_incr,
    both := arr32_both, forever := arr32_forever, hasCb := arr32_has_cb, cbFirst := arr32_cb_first, cbSecond := arr32_cb_second,
    setInfo := arr32_set_info, ret := arr32_ret }

def sites64 : SymSites :=
  { symSize := sizeof_Elf64_Sym, infoOff := Elf64_Sym.st_info_off, minSize := arr_min64,
    ptrOk := arr64_ptr_ok, ptrSmall := arr64_ptr_small, ptrOff := arr64_ptr_off,
    fnlInit := arr64_fnl_init, p1Index := arr64_p1_index, p2Index := arr64_p2_index,
    scan1Cond := arr64_scan1_cond, scan1NonLocal := arr64_scan1_nonlocal arr_conv8,
    curInit := arr64_cur_init, scan2Cond := arr64_scan2_cond, scan2Local := arr64_scan2_local arr_conv8,
    fnlIncr := arr64_fnl_incr, curIncr := arr64_cur_incr,
    both := arr64_both, forever := arr64_forever, hasCb := arr64_has_cb, cbFirst := arr64_cb_first, cbSecond := arr64_cb_second,
    setInfo := arr64_set_info, ret := arr64_ret }

/-- `arrange_local_symbols` dispatches on `elf_file.get_class() == ELFCLASS32` -/
def sitesOf (c : Cls) : SymSites := if arr_is32 (clsByte c) then sites32 else sites64

/-- `get_symbols_num()` : `switch ( elf_file.get_class() )` choosing `minimum_symbol_size` -/
def minSymSize (c : Cls) : BitVec 64 :=
  match c with
  | .c32 => arr_min32
  | .c64 => arr_min64

/-- `get_symbols_num()`.  The division is guarded by `entry_size >= sizeof(Sym) > 0`. -/
def symbolsNum (s : SecBuf) : BitVec 64 :=
  if arr_num_ok s.entSize (minSymSize s.cls) s.size s.streamSize then arr_num_div s.size s.entSize
  else 0

/-- `generic_get_symbol_ptr<T>(index)` : the section after `get_data()` and the byte offset of
    the record (`none` = nullptr) -/
def symPtr (k : SymSites) (s : SecBuf) (index : BitVec 64) : SecBuf × Option Nat :=
  let s := s.getData
  if k.ptrOk s.data.isNone index (symbolsNum s) then
    if k.ptrSmall s.entSize then (s, none)
    else (s, some (k.ptrOff index s.entSize).toNat)
  else (s, none)

/-- `p->st_info` : one byte read through the record pointer -/
def readInfo (site : String) (k : SymSites) (s : SecBuf) (p : Option Nat) : M (BitVec 8) :=
  match p with
  | none => throw (.nullDeref site)
  | some off =>
    match rdRange site s.data (off + k.infoOff) 1 with
    | .error e => .error e
    | .ok bs => .ok (bs.headD 0).toBitVec

/-- first inner loop: advance `first_not_local` over local symbols -/
def scan1 (k : SymSites) : Nat → SecBuf → BitVec 64 → BitVec 32 → Option Nat →
    M (SecBuf × BitVec 32 × Option Nat)
  | 0, _, _, _, _ => throw (.fuel "arrange_local_symbols/scan-local")
  | fuel + 1, s, count, fnl, p1 =>
    if k.scan1Cond fnl count then
      let (s, p1) := symPtr k s (k.p1Index fnl)
      match readInfo "arrange_local_symbols/p1->st_info" k s p1 with
      | .error e => .error e
      | .ok info =>
        if k.scan1NonLocal info then .ok (s, fnl, p1)
        else scan1 k fuel s count (k.fnlIncr fnl) p1
    else .ok (s, fnl, p1)

/-- second inner loop: advance `current` over non-local symbols -/
def scan2 (k : SymSites) : Nat → SecBuf → BitVec 64 → BitVec 64 → Option Nat →
    M (SecBuf × BitVec 64 × Option Nat)
  | 0, _, _, _, _ => throw (.fuel "arrange_local_symbols/scan-nonlocal")
  | fuel + 1, s, count, cur, p2 =>
    if k.scan2Cond cur count then
      let (s, p2) := symPtr k s (k.p2Index cur)
      match readInfo "arrange_local_symbols/p2->st_info" k s p2 with
      | .error e => .error e
      | .ok info =>
        if k.scan2Local info then .ok (s, cur, p2)
        else scan2 k fuel s count (k.curIncr cur) p2
    else .ok (s, cur, p2)

/-- `std::swap(*p1, *p2)` : `T tmp = *p1; *p1 = *p2; *p2 = tmp;` on `sizeof(T)` bytes -/
def swapRecs (k : SymSites) (s : SecBuf) (p1 p2 : Option Nat) : M SecBuf :=
  match p1, p2 with
  | some o1, some o2 =>
    match rdRange "arrange_local_symbols/swap-tmp" s.data o1 k.symSize with
    | .error e => .error e
    | .ok r1 =>
      match rdRange "arrange_local_symbols/swap-src" s.data o2 k.symSize with
      | .error e => .error e
      | .ok r2 =>
        match wrRange "arrange_local_symbols/swap-p1" s.data o1 r2 with
        | .error e => .error e
        | .ok d =>
          match wrRange "arrange_local_symbols/swap-p2" d o2 r1 with
          | .error e => .error e
          | .ok d => .ok { s with data := d }
  | _, _ => throw (.nullDeref "arrange_local_symbols/swap")

/-- the `while (true)` loop; `cb` is the callback acting on its own state `σ`
    (`fun st _ _ => pure st` when `func` is empty, so the generated `if ( func )` gate is applied to `true`) -/
def loop {σ : Type} (k : SymSites) (cb : σ → BitVec 64 → BitVec 64 → M σ) :
    Nat → SecBuf → σ → BitVec 64 → BitVec 32 → M (SecBuf × σ × BitVec 32)
  | 0, _, _, _, _ => throw (.fuel "arrange_local_symbols")
  | fuel + 1, s, st, count, fnl =>
    if !k.forever then .ok (s, st, fnl) else
    match scan1 k (count.toNat + 1) s count fnl none with
    | .error e => .error e
    | .ok (s, fnl, p1) =>
      match scan2 k (count.toNat + 1) s count (k.curInit fnl) none with
      | .error e => .error e
      | .ok (s, cur, p2) =>
        if k.both fnl count cur then
          match (if k.hasCb true then cb st (k.cbFirst fnl) (k.cbSecond cur) else .ok st) with
          | .error e => .error e
          | .ok st =>
            match swapRecs k s p1 p2 with
            | .error e => .error e
            | .ok s => loop k cb fuel s st count fnl
        else
          .ok ({ s with info := k.setInfo fnl }, st, fnl)

/-- `arrange_local_symbols(func)` : new symbol section, callback state, return value -/
def arrange {σ : Type} (cb : σ → BitVec 64 → BitVec 64 → M σ) (s : SecBuf) (st : σ) :
    M (SecBuf × σ × BitVec 64) :=
  let k := sitesOf s.cls
  let count := symbolsNum s
  match loop k cb (count.toNat + 1) s st count k.fnlInit with
  | .error e => .error e
  | .ok (s, st, fnl) => .ok (s, st, k.ret fnl)

/-- no callback (`func == nullptr`) -/
def noCallback : Unit → BitVec 64 → BitVec 64 → M Unit := fun _ _ _ => pure ()

/-! ### relocation tables: `swap_symbols` -/

/-- the expressions of one record type `Elf{32,64}_{Rel,Rela}` -/
structure RelSites where
  recSize : Nat
  offOff : Nat
  offW : Nat
  infoOff : Nat
  infoW : Nat
  addend : Option (Nat × Nat)                     -- (offset, width) of r_addend for RELA
  small : BitVec 64 → Bool
  getOff : BitVec 64 → BitVec 64 → BitVec 64
  setOff : BitVec 64 → BitVec 64 → BitVec 64
  rSym : BitVec 64 → BitVec 32                     -- get_sym_and_type<T>::get_r_sym
  rType : BitVec 64 → BitVec 32
  /-- r_info packing of the branch `generic_set_entry_*<T>` takes for T's own class -/
  info : BitVec 32 → BitVec 32 → Nat
  truncOffset : BitVec 64 → Nat
  truncAddend : BitVec 64 → Nat

def rel32 : RelSites :=
  { recSize := sizeof_Elf32_Rel, offOff := Elf32_Rel.r_offset_off, offW := Elf32_Rel.r_offset_w,
    infoOff := Elf32_Rel.r_info_off, infoW := Elf32_Rel.r_info_w, addend := none,
    small := rsw_rel32_small, getOff := rsw_rel32_get_off, setOff := rsw_rel32_set_off,
    rSym := rel32_r_sym, rType := rel32_r_type,
    info := fun s t => (rsw_rel32_info s t).toNat,
    truncOffset := fun o => (rsw_rel32_trunc_offset o).toNat, truncAddend := fun _ => 0 }

def rela32 : RelSites :=
  { recSize := sizeof_Elf32_Rela, offOff := Elf32_Rela.r_offset_off, offW := Elf32_Rela.r_offset_w,
    infoOff := Elf32_Rela.r_info_off, infoW := Elf32_Rela.r_info_w,
    addend := some (Elf32_Rela.r_addend_off, Elf32_Rela.r_addend_w),
    small := rsw_rela32_small, getOff := rsw_rela32_get_off, setOff := rsw_rela32_set_off,
    rSym := rela32_r_sym, rType := rela32_r_type,
    info := fun s t => (rsw_rela32_info s t).toNat,
    truncOffset := fun o => (rsw_rela32_trunc_offset o).toNat,
    truncAddend := fun a => (rsw_rela32_trunc_addend a).toNat }

def rel64 : RelSites :=
  { recSize := sizeof_Elf64_Rel, offOff := Elf64_Rel.r_offset_off, offW := Elf64_Rel.r_offset_w,
    infoOff := Elf64_Rel.r_info_off, infoW := Elf64_Rel.r_info_w, addend := none,
    small := rsw_rel64_small, getOff := rsw_rel64_get_off, setOff := rsw_rel64_set_off,
    rSym := rel64_r_sym, rType := rel64_r_type,
    info := fun s t => (rsw_rel64_info s t).toNat,
    truncOffset := fun o => (rsw_rel64_trunc_offset o).toNat, truncAddend := fun _ => 0 }

def rela64 : RelSites :=
  { recSize := sizeof_Elf64_Rela, offOff := Elf64_Rela.r_offset_off, offW := Elf64_Rela.r_offset_w,
    infoOff := Elf64_Rela.r_info_off, infoW := Elf64_Rela.r_info_w,
    addend := some (Elf64_Rela.r_addend_off, Elf64_Rela.r_addend_w),
    small := rsw_rela64_small, getOff := rsw_rela64_get_off, setOff := rsw_rela64_set_off,
    rSym := rela64_r_sym, rType := rela64_r_type,
    info := fun s t => (rsw_rela64_info s t).toNat,
    truncOffset := fun o => (rsw_rela64_trunc_offset o).toNat,
    truncAddend := fun a => (rsw_rela64_trunc_addend a).toNat }

/-- what `get_entry` hands back through its reference parameters -/
structure RelEntry where
  offset : BitVec 64 := 0
  symbol : BitVec 32 := 0
  rtype : BitVec 32 := 0
  addend : BitVec 64 := 0        -- Elf_Sxword, as a bit pattern
  deriving Repr, DecidableEq

/-- `get_entries_num()` -/
def entriesNum (r : SecBuf) : BitVec 64 :=
  if rsw_num_nz r.entSize then rsw_num_div r.size r.entSize else rsw_num_init

/-- the class / section-type dispatch shared by `get_entry` and `set_entry`
    (`none`: unknown relocation section type) -/
def relDispatch (is32 : BitVec 8 → Bool) (relA relaA relB relaB : BitVec 32 → Bool)
    (r : SecBuf) : Option RelSites :=
  if is32 (clsByte r.cls) then
    if relA r.stype then some rel32 else if relaA r.stype then some rela32 else none
  else
    if relB r.stype then some rel64 else if relaB r.stype then some rela64 else none

/-- sign extension of an `nbytes`-wide two's complement value to 64 bits -/
def sext64 (nbytes : Nat) (x : Nat) : BitVec 64 :=
  if nbytes = 4 then (BitVec.ofNat 32 x).signExtend 64 else BitVec.ofNat 64 x

/-- `generic_get_entry_rel/rela<T>` (`none` = returned false, outputs untouched) -/
def genericGetEntry (e : Enc) (k : RelSites) (r : SecBuf) (index : BitVec 64) :
    M (SecBuf × Option RelEntry) :=
  if k.small r.entSize then .ok (r, none) else
  let r := r.getData
  let p := (k.getOff index r.entSize).toNat
  match rdRange "relocation/get_entry r_offset" r.data (p + k.offOff) k.offW with
  | .error er => .error er
  | .ok bo =>
    match rdRange "relocation/get_entry r_info" r.data (p + k.infoOff) k.infoW with
    | .error er => .error er
    | .ok bi =>
      let tmp : BitVec 64 := BitVec.ofNat 64 (rdField e bi)
      match k.addend with
      | none =>
        .ok (r, some { offset := BitVec.ofNat 64 (rdField e bo), symbol := k.rSym tmp,
                       rtype := k.rType tmp, addend := 0 })
      | some (ao, aw) =>
        match rdRange "relocation/get_entry r_addend" r.data (p + ao) aw with
        | .error er => .error er
        | .ok ba =>
          .ok (r, some { offset := BitVec.ofNat 64 (rdField e bo), symbol := k.rSym tmp,
                         rtype := k.rType tmp, addend := sext64 aw (rdField e ba) })

/-- `get_entry(index, offset, symbol, type, addend)` -/
def getEntry (e : Enc) (r : SecBuf) (index : BitVec 64) : M (SecBuf × Option RelEntry) :=
  if rsw_get_bad_index index (entriesNum r) then .ok (r, none) else
  match relDispatch rsw_get_is32 rsw_get_rel_a rsw_get_rela_a rsw_get_rel_b rsw_get_rela_b r with
  | none => .ok (r, none)
  | some k => genericGetEntry e k r index

/-- `generic_set_entry_rel/rela<T>` : the three field stores (no entry-size check in the code) -/
def genericSetEntry (e : Enc) (k : RelSites) (r : SecBuf) (index : BitVec 64) (v : RelEntry) :
    M SecBuf :=
  let r := r.getData
  let p := (k.setOff index r.entSize).toNat
  match wrRange "relocation/set_entry r_info" r.data (p + k.infoOff)
      (wrField e k.infoW (k.info v.symbol v.rtype)) with
  | .error er => .error er
  | .ok d =>
    match wrRange "relocation/set_entry r_offset" d (p + k.offOff)
        (wrField e k.offW (k.truncOffset v.offset)) with
    | .error er => .error er
    | .ok d =>
      match k.addend with
      | none => .ok { r with data := d }
      | some (ao, aw) =>
        match wrRange "relocation/set_entry r_addend" d (p + ao)
            (wrField e aw (k.truncAddend v.addend)) with
        | .error er => .error er
        | .ok d => .ok { r with data := d }

/-- `set_entry(index, offset, symbol, type, addend)` -/
def setEntry (e : Enc) (r : SecBuf) (index : BitVec 64) (v : RelEntry) : M SecBuf :=
  if rsw_set_bad_index index (entriesNum r) then .ok r else
  match relDispatch rsw_set_is32 rsw_set_rel_a rsw_set_rela_a rsw_set_rel_b rsw_set_rela_b r with
  | none => .ok r
  | some k => genericSetEntry e k r index v

/-- one iteration of `swap_symbols`' loop body; `cur` are the locals
    `offset, symbol, rtype, addend` (they keep their previous values when `get_entry` fails) -/
def swapStep (e : Enc) (r : SecBuf) (cur : RelEntry) (i : BitVec 32) (first second : BitVec 64) :
    M (SecBuf × RelEntry) :=
  match getEntry e r (rsw_get_index i) with
  | .error er => .error er
  | .ok (r, got) =>
    let cur := got.getD cur
    match (if rsw_is_first cur.symbol first
           then setEntry e r (rsw_set_index_a i) { cur with symbol := rsw_new_second second }
           else .ok r) with
    | .error er => .error er
    | .ok r =>
      match (if rsw_is_second cur.symbol second
             then setEntry e r (rsw_set_index_b i) { cur with symbol := rsw_new_first first }
             else .ok r) with
      | .error er => .error er
      | .ok r => .ok (r, cur)

/-- `for ( Elf_Word i = 0; i < get_entries_num(); i++ )` -/
def swapLoop (e : Enc) : Nat → SecBuf → RelEntry → BitVec 32 → BitVec 64 → BitVec 64 → M SecBuf
  | 0, _, _, _, _, _ => throw (.fuel "swap_symbols")
  | fuel + 1, r, cur, i, first, second =>
    if rsw_loop_cond i (entriesNum r) then
      match swapStep e r cur i first second with
      | .error er => .error er
      | .ok (r, cur) => swapLoop e fuel r cur (rsw_i_incr i) first second
    else .ok r

/-- `relocation_section_accessor::swap_symbols(first, second)` -/
def swapSymbols (e : Enc) (r : SecBuf) (first second : BitVec 64) : M SecBuf :=
  swapLoop e ((entriesNum r).toNat + 1) r
    { offset := rsw_init_offset, symbol := rsw_init_symbol, rtype := rsw_init_rtype, addend := rsw_init_addend }
    rsw_i_init first second

/-- the callback `[&](Elf_Xword a, Elf_Xword b){ for (auto& r : tables) r.swap_symbols(a, b); }` -/
def relCallback (e : Enc) : List SecBuf → BitVec 64 → BitVec 64 → M (List SecBuf)
  | [], _, _ => .ok []
  | r :: rs, a, b =>
    match swapSymbols e r a b with
    | .error er => .error er
    | .ok r' =>
      match relCallback e rs a b with
      | .error er => .error er
      | .ok rs' => .ok (r' :: rs')

/-! ### building tables (`generic_add_symbol`, `generic_add_entry`) — used by the driver and by
the non-vacuity examples; the accessors themselves are the subject of C09 / C11 -/

/-- the bytes of one `Elf32_Sym` / `Elf64_Sym` as `generic_add_symbol` stores them -/
def encodeSym (c : Cls) (e : Enc) (name value size info other shndx : Nat) : Bytes :=
  match c with
  | .c32 => wrField e 4 name ++ wrField e 4 value ++ wrField e 4 size ++ wrField e 1 info ++
            wrField e 1 other ++ wrField e 2 shndx
  | .c64 => wrField e 4 name ++ wrField e 1 info ++ wrField e 1 other ++ wrField e 2 shndx ++
            wrField e 8 value ++ wrField e 8 size

/-- `add_symbol(name, value, size, info, other, shndx)` incl. the implicit null symbol -/
def addSymbol (e : Enc) (s : SecBuf) (name value size info other shndx : Nat) : M (SecBuf × Nat) :=
  let step (s : SecBuf) (bs : Bytes) : M SecBuf := s.appendData bs
  let s0 : M SecBuf := if s.size = 0 then step s (encodeSym s.cls e 0 0 0 0 0 0) else .ok s
  match s0 with
  | .error er => .error er
  | .ok s =>
    match step s (encodeSym s.cls e name value size info other shndx) with
    | .error er => .error er
    | .ok s =>
      let sz := match s.cls with | .c32 => sizeof_Elf32_Sym | .c64 => sizeof_Elf64_Sym
      .ok (s, (s.size.toNat / sz - 1) % 4294967296)

/-- r_info as the `add_entry(offset, symbol, type[, addend])` overloads pack it -/
def packInfo (c : Cls) (symbol rtype : Nat) : Nat :=
  match c with
  | .c32 => (rsw_rel32_info (BitVec.ofNat 32 symbol) (BitVec.ofNat 32 rtype)).toNat
  | .c64 => (rsw_rel64_info (BitVec.ofNat 32 symbol) (BitVec.ofNat 32 rtype)).toNat

/-- `add_entry(offset, symbol, type)` / `add_entry(offset, symbol, type, addend)` -/
def addRel (e : Enc) (r : SecBuf) (rela : Bool) (offset symbol rtype addend : Nat) : M SecBuf :=
  let w := match r.cls with | .c32 => 4 | .c64 => 8
  let bs := wrField e w offset ++ wrField e w (packInfo r.cls symbol rtype) ++
            (if rela then wrField e w addend else [])
  r.appendData bs

end Arrange
end ElfioVerif
