/-
Model of `note_section_accessor_template<S, F_get_size>` (elfio_note.hpp), after the proposed
fixes 03 (index gate on the number of notes) and 04 (64-bit `advance`).

The accessor object is: the byte order of the file, a *source* (`S* notes` seen through
`get_data()` and the size getter `F_get_size` — `section::get_size` for the section accessor,
`segment::get_file_size` for the segment accessor) and the vector `note_start_positions`, computed
once by the constructor (`process`).  Every guard, offset and size computation is the generated
expression of Gen/SitesC13.lean; every raw read is a checked `rdRange`; `note_start_positions[index]`
is a checked vector access (`Fault.vecOob`).
-/
import ElfioVerif.Model.SecBuf
import ElfioVerif.Model.Field
import ElfioVerif.Gen.SitesC13
namespace ElfioVerif
open Gen

/-- what the accessor sees of its section / segment: `get_data()` and `(notes->*F_get_size)()` -/
structure NoteSrc where
  data : Option Bytes
  size : BitVec 64
  deriving Repr

/-- result of a successful `get_note` (`desc = none` is the null pointer returned for descSize 0;
    otherwise the `descSize` bytes the caller finds at the returned pointer) -/
structure NoteOut where
  type : BitVec 32
  name : Bytes
  desc : Option Bytes
  descSize : BitVec 32
  deriving Repr, DecidableEq

/-- the section accessor's source (after `get_data()` made the bytes resident) -/
def SecBuf.noteSrc (b : SecBuf) : NoteSrc := ⟨b.data, b.size⟩

namespace Note

/-- `convertor( *(const Elf_Word*)( p ) )` -/
def rd32 (site : String) (e : Enc) (data : Option Bytes) (off : Nat) : M (BitVec 32) := do
  let bs ← rdRange site data off 4
  pure (BitVec.ofNat 32 (rdField e bs))

/-- `v[i]` on a `std::vector` -/
def vecIdx {α : Type} (site : String) (v : List α) (i : Nat) : M α :=
  match v[i]? with
  | some x => pure x
  | none => throw (.vecOob site)

/-- the `while` loop of `process_section`, from position `cur`; returns the positions recorded
    from here on.  `fuel` bounds the number of iterations (see `Props/C13.lean: walk_fuel`). -/
def walk (e : Enc) (src : NoteSrc) : Nat → BitVec 64 → M (List (BitVec 64))
  | 0, _ => throw (.fuel "process_section")
  | fuel + 1, cur =>
    if note_walk_cond cur note_walk_align src.size then do
      let namesz ← rd32 "process_section/namesz" e src.data (note_walk_namesz_off cur).toNat
      let descsz ← rd32 "process_section/descsz" e src.data (note_walk_descsz_off cur).toNat
      let advance := note_walk_advance namesz note_walk_align descsz
      if note_walk_accept namesz src.size descsz cur advance then do
        let rest ← walk e src fuel (note_walk_next cur advance)
        pure (cur :: rest)
      else pure []
    else pure []

/-- iterations the loop can need: every accepted note advances by at least 12 -/
def walkFuel (src : NoteSrc) : Nat := src.size.toNat / 12 + 1

/-- `process_section()` : the constructor's computation of `note_start_positions` -/
def process (e : Enc) (src : NoteSrc) : M (List (BitVec 64)) :=
  if note_walk_empty src.data.isNone src.size then pure []
  else walk e src (walkFuel src) note_walk_start

/-- `get_notes_num()` -/
def num (pos : List (BitVec 64)) : BitVec 32 := note_num (BitVec.ofNat 64 pos.length)

/-- `get_note` after its index gate -/
def getBody (e : Enc) (src : NoteSrc) (pos : List (BitVec 64)) (index : BitVec 32) :
    M (Option NoteOut) := do
  let p ← vecIdx "get_note/note_start_positions" pos index.toNat
  let base := (note_get_pdata_off p).toNat
  let type ← rd32 "get_note/type" e src.data (base + (note_get_type_off note_get_align).toNat)
  let namesz ← rd32 "get_note/namesz" e src.data (base + note_get_namesz_off.toNat)
  let descSize ← rd32 "get_note/descsz" e src.data (base + note_get_descsz_off.toNat)
  let maxNameSize := note_get_max src.size p
  if note_get_reject namesz maxNameSize descSize then pure none
  else do
    let name ← rdRange "get_note/name" src.data (base + (note_get_name_off note_get_align).toNat)
      (note_get_name_len namesz).toNat
    if note_get_desc_null descSize then
      pure (some ⟨type, name, none, descSize⟩)
    else do
      -- the pointer handed to the caller, and the caller's read of `descSize` bytes through it
      let d ← rdRange "get_note/desc(caller)" src.data
        (base + (note_get_desc_off note_get_align namesz).toNat) descSize.toNat
      pure (some ⟨type, name, some d, descSize⟩)

/-- `get_note(index, type, name, desc, descSize)`; `none` = returns false -/
def get (e : Enc) (src : NoteSrc) (pos : List (BitVec 64)) (index : BitVec 32) : M (Option NoteOut) :=
  if note_get_gate index (BitVec.ofNat 64 pos.length) then pure none
  else getBody e src pos index

/-- `buffer.append( pad, n )` : `n` bytes of the four-byte zero array `pad` -/
def padBytes (site : String) (n : BitVec 64) : M Bytes := rdRange site (some [0, 0, 0, 0]) 0 n.toNat

/-- `if ( len % align != 0 ) buffer.append( pad, align - len % align )` -/
def padIf (site : String) (unaligned : Bool) (n : BitVec 64) : M Bytes :=
  if unaligned then padBytes site n else pure []

/-- the descriptor part of the buffer (`desc = none` is a null pointer) -/
def descPart (desc : Option Bytes) (descSize : BitVec 32) : M Bytes :=
  if note_add_has_desc desc.isNone descSize then do
    let d ← rdRange "add_note/desc" desc 0 (note_add_desc_len descSize).toNat
    let dpad ← padIf "add_note/desc-pad" (note_add_desc_unaligned descSize note_add_align)
      (note_add_desc_pad note_add_align descSize)
    pure (d ++ dpad)
  else pure []

/-- the `std::string buffer` that `add_note` builds -/
def encodeBuf (e : Enc) (type : BitVec 32) (name : Bytes) (desc : Option Bytes) (descSize : BitVec 32) :
    M Bytes := do
  let nameLen := note_add_namelen (BitVec.ofNat 64 name.length)
  let head := wrField e 4 nameLen.toNat ++ wrField e (note_add_descsz_len note_add_align).toNat descSize.toNat ++
    wrField e (note_add_type_len note_add_align).toNat type.toNat ++
    name ++ List.replicate note_add_nul_count.toNat (UInt8.ofBitVec note_add_nul_char)
  let npad ← padIf "add_note/name-pad" (note_add_name_unaligned nameLen note_add_align)
    (note_add_name_pad note_add_align nameLen)
  let tail ← descPart desc descSize
  pure (head ++ npad ++ tail)

/-- `section::append_data( const std::string& )` : the length goes through `(Elf_Word)` -/
def appendStr (b : SecBuf) (s : Bytes) : M SecBuf :=
  let n := if b.cls == .c32 then sec32_append_str_len (BitVec.ofNat 64 s.length)
           else sec64_append_str_len (BitVec.ofNat 64 s.length)
  b.appendData (s.take n.toNat)

/-- `add_note(type, name, desc, descSize)` on the section accessor:
    `note_start_positions.emplace_back( get_size() ); notes->append_data( buffer )` -/
def add (e : Enc) (b : SecBuf) (pos : List (BitVec 64)) (type : BitVec 32) (name : Bytes)
    (desc : Option Bytes) (descSize : BitVec 32) : M (SecBuf × List (BitVec 64)) := do
  let buf ← encodeBuf e type name desc descSize
  let b' ← appendStr b buf
  pure (b', pos ++ [note_add_start b.size])

/-- the constructor on a section: `get_data()` (which makes lazily loaded bytes resident), then
    the walk -/
def construct (e : Enc) (b : SecBuf) : SecBuf × M (List (BitVec 64)) :=
  let b := b.getData
  (b, process e b.noteSrc)

/-- What a loaded `PT_NOTE` segment whose file bytes are `content` presents to its accessor:
    `segment_impl::load_data` allocates `filesz + 1` bytes, NUL-terminates, and loads nothing when
    `filesz = 0`.  (Abstraction of the loader, tied to the real code by the correspondence runs.) -/
def segSrc (content : Bytes) : NoteSrc :=
  if content.isEmpty then ⟨none, 0⟩ else ⟨some (content ++ [0]), BitVec.ofNat 64 content.length⟩

end Note
end ElfioVerif
