/-
Input stream as ELFIO uses it (libstdc++ 12 semantics, validated by the correspondence
check, not proved): `seekg`, `seekg(0,end)`, `tellg`, `read`, `gcount`, `fail`.
No code in ELFIO ever calls `clear()` except where a fix: commit added it.
 * `seekg` first clears eofbit; if the stream is then not good it only (re)sets failbit;
   a string-backed stream fails a seek outside `[0,len]`, a file-backed one only a negative one.
 * `tellg` on a failed stream is -1.
 * `read` on a stream that is not good sets failbit and reads nothing; a short read sets
   eofbit|failbit and stores what was available.
-/
import ElfioVerif.Basic
namespace ElfioVerif

inductive StreamKind | str | file
  deriving DecidableEq, Repr, Inhabited

structure IStream where
  data : Bytes
  pos : Nat := 0
  eof : Bool := false
  fail : Bool := false
  gcount : Nat := 0
  kind : StreamKind := .str
  deriving Repr, Inhabited

namespace IStream

def good (s : IStream) : Bool := !s.eof && !s.fail

/-- `seekg(pos)` with a signed 64-bit position -/
def seekg (s : IStream) (p : Int) : IStream :=
  let s := { s with eof := false }
  if s.fail then s
  else if p < 0 then { s with fail := true }
  else
    match s.kind with
    | .str => if p.toNat ≤ s.data.length then { s with pos := p.toNat } else { s with fail := true }
    | .file => { s with pos := p.toNat }

/-- `seekg(0, std::ios::end)` -/
def seekEnd (s : IStream) : IStream :=
  let s := { s with eof := false }
  if s.fail then s else { s with pos := s.data.length }

/-- `tellg()` as a signed value (-1 when failed); the stream is returned because the sentry
    sets failbit on a stream that is not good -/
def tellg (s : IStream) : IStream × Int :=
  if s.good then (s, Int.ofNat s.pos)
  else ({ s with fail := true }, -1)

/-- `read(buf, n)` : returns the bytes stored into the buffer (`gcount` of them) -/
def read (s : IStream) (n : Nat) : IStream × Bytes :=
  if !s.good then ({ s with fail := true, gcount := 0 }, [])
  else if (slice s.data s.pos n).length = n then
    ({ s with pos := s.pos + n, gcount := n }, slice s.data s.pos n)
  else
    ({ s with pos := s.pos + (slice s.data s.pos n).length, gcount := (slice s.data s.pos n).length,
              eof := true, fail := true }, slice s.data s.pos n)

/-- `read` with a negative count (a size ≥ 2^63 converted to `streamsize`) reads nothing and fails -/
def readNeg (s : IStream) : IStream :=
  if !s.good then { s with fail := true, gcount := 0 }
  else { s with gcount := 0, eof := true, fail := true }

/-- `clear()` -/
def clear (s : IStream) : IStream := { s with eof := false, fail := false }

theorem read_length_le (s : IStream) (n : Nat) : (s.read n).2.length ≤ n := by
  unfold read; split
  · simp
  · split <;> simp [slice] <;> omega

/-- whatever `read` stores are bytes of the stream at the read position -/
theorem read_sub (s : IStream) (n : Nat) :
    (s.read n).2 = [] ∨ (s.read n).2 = slice s.data s.pos n := by
  unfold read; split
  · simp
  · right; split <;> rfl

theorem read_full (s : IStream) (n : Nat) (h : (s.read n).1.gcount = n) (hn : 0 < n) :
    (s.read n).2 = slice s.data s.pos n ∧ s.pos + n ≤ s.data.length := by
  unfold read at h ⊢
  split at h
  · simp at h; omega
  · rename_i hg
    split at h
    · rename_i hl
      simp only [hg, hl, if_false, if_true, Bool.false_eq_true]
      refine ⟨trivial, ?_⟩
      simp [slice] at hl; omega
    · rename_i hl
      simp only [] at h; exact absurd h hl

end IStream
end ElfioVerif
