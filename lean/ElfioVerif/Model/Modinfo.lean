/-
Model of `modinfo_section_accessor_template<S>` (elfio_modinfo.hpp).

The accessor parses the section once, in its constructor, into a vector of (field, value)
pairs; `add_attribute` appends to the section *and* to that vector; the getters only look
at the vector.  The parser reads C strings (`std::string info = pdata + i`), i.e. up to the
first NUL of the *allocation*, not of the section: it relies on every record being
terminated inside the section or on the terminator the loader puts behind loaded data.
The model reads exactly that (`cstr`) and faults when the C++ would run off the allocation.
A record without `=` yields field = value = the whole record (`npos + 1` wraps to 0).
-/
import ElfioVerif.Model.SecBuf
import ElfioVerif.Gen.SitesC14
namespace ElfioVerif
open Gen
namespace Modinfo

abbrev Attr := Bytes × Bytes

/-- `std::string info = pdata + i` : the bytes from `i` up to the first NUL of the allocation -/
def cstr (site : String) (data : Option Bytes) (i : Nat) : M Bytes :=
  match data with
  | none => throw (.nullDeref site)
  | some a =>
    let rest := a.drop i
    let s := rest.takeWhile (· ≠ 0)
    if s.length < rest.length then pure s else throw (.oobRead site)

/-- `info.find('=')` : position of the first `=`, or `npos` -/
def findEq (info : Bytes) : BitVec 64 :=
  let p := info.takeWhile (· ≠ 61)
  if p.length < info.length then BitVec.ofNat 64 p.length else BitVec.allOnes 64

/-- `(info.substr(0, loc), info.substr(loc + 1))` -/
def splitRecord (info : Bytes) : Attr :=
  let loc := findEq info
  ((info.drop mod_field_start.toNat).take (mod_field_len loc).toNat, info.drop (mod_value_start loc).toNat)

/-- `!pdata[i]` on the byte the checked read delivered -/
def skipByteIsNul (c : Bytes) : Bool :=
  match c with
  | [x] => mod_skip_isnul x.toBitVec
  | _ => false

/-- `while (i < size && !pdata[i]) i++` -/
def skipNul (data : Option Bytes) (size : BitVec 64) : Nat → BitVec 64 → M (BitVec 64)
  | 0, _ => throw (.fuel "modinfo/skip")
  | f + 1, i =>
    if mod_skip_cond i size then do
      let c ← rdRange "modinfo/skip" data i.toNat 1
      if skipByteIsNul c then skipNul data size f (mod_skip_incr i) else pure i
    else pure i

/-- the outer loop of `process_section` -/
def parseLoop (data : Option Bytes) (size : BitVec 64) : Nat → BitVec 64 → List Attr → M (List Attr)
  | 0, _, _ => throw (.fuel "modinfo/parse")
  | f + 1, i, acc =>
    if mod_loop_cond i size then do
      let i ← skipNul data size (size.toNat + 1) i
      if mod_rec_cond i size then do
        let info ← cstr "modinfo/record" data i.toNat
        parseLoop data size f (mod_advance i (BitVec.ofNat 64 info.length)) (acc ++ [splitRecord info])
      else parseLoop data size f i acc
    else pure acc

/-- the constructor: `process_section()` on the section after `get_data()` -/
def parse (b : SecBuf) : M (List Attr) :=
  let data := b.getData.data
  if mod_has_data data.isSome then parseLoop data b.size (b.size.toNat + 2) mod_start [] else pure []

/-- `get_attribute_num()` -/
def num (content : List Attr) : BitVec 32 := mod_num (BitVec.ofNat 64 content.length)

/-- `get_attribute(no, field, value)` -/
def getByIndex (content : List Attr) (no : BitVec 32) : Option Attr :=
  if mod_get_guard no (BitVec.ofNat 64 content.length) then content[no.toNat]? else none

/-- `get_attribute(field_name, value)` : first match -/
def getByName : List Attr → Bytes → Option Bytes
  | [], _ => none
  | a :: as, f => if f = a.1 then some a.2 else getByName as f

/-- `add_attribute(field, value)` : position, new section state, new vector -/
def addAttribute (b : SecBuf) (content : List Attr) (field value : Bytes) :
    M (BitVec 32 × SecBuf × List Attr) :=
  if mod_add_guard true then do
    let pos := mod_add_pos (modinfo_section_size := b.size)
    let b' ← b.appendData (field ++ 61 :: (value ++ [0]))
    pure (pos, b', content ++ [(field, value)])
  else pure (0, b, content)

end Modinfo
end ElfioVerif
