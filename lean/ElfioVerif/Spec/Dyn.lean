/-
Reference semantics of dynamic sections (C12), written from the gABI chapter "Dynamic Section"
and the property text — not from ELFIO's code.

* An entry is `ElfN_Dyn { d_tag : signed class-width; d_un : unsigned class-width }`.
* The API carries tags and values as 64-bit patterns.  `d_tag` is *signed* (`Elf32_Sword` /
  `Elf64_Sxword`), so a tag is a signed class-width value: an ELF32 tag whose bit 31 is set reads
  back sign-extended to 64 bits (`sextTag`); tags are "returned unchanged" exactly when they are the
  64-bit pattern of a signed class-width value (`TagFits`).
* `d_un` of DT_NULL, DT_SYMBOLIC, DT_TEXTREL, DT_BIND_NOW is "ignored" by the gABI: it is written
  and read as 0.
* DT_NEEDED, DT_SONAME, DT_RPATH, DT_RUNPATH hold string table offsets (`stringValued`).
* The array ends at the first DT_NULL: the reported count runs up to and including it.
-/
import ElfioVerif.Basic
namespace ElfioVerif.Spec

/-- bytes of `d_tag` and of `d_un` -/
def dynWord (c : Cls) : Nat := match c with | .c32 => 4 | .c64 => 8
/-- `sizeof(ElfN_Dyn)` -/
def dynSize (c : Cls) : Nat := match c with | .c32 => 8 | .c64 => 16

/-- the 64-bit pattern of the signed value of the low class-width bits of `t` -/
def sextTag (c : Cls) (t : Nat) : Nat :=
  match c with
  | .c32 => if t % 4294967296 < 2147483648 then t % 4294967296
            else t % 4294967296 + 18446744069414584320
  | .c64 => t % 18446744073709551616

/-- `d_un` truncated to the class width -/
def truncVal (c : Cls) (v : Nat) : Nat :=
  match c with
  | .c32 => v % 4294967296
  | .c64 => v % 18446744073709551616

/-- tags whose `d_un` is ignored: DT_NULL, DT_SYMBOLIC, DT_TEXTREL, DT_BIND_NOW -/
def dUnIgnored (t : Nat) : Bool := t == 0 || t == 16 || t == 22 || t == 24

/-- tags whose `d_val` is a string table offset: DT_NEEDED, DT_SONAME, DT_RPATH, DT_RUNPATH -/
def stringValued (t : Nat) : Bool := t == 1 || t == 14 || t == 15 || t == 29

/-- a dynamic entry as the API sees it (64-bit patterns) -/
structure DynEntry where
  tag : Nat
  val : Nat
  deriving DecidableEq, Repr

/-- the tag is the 64-bit pattern of a signed class-width value -/
def TagFits (c : Cls) (t : Nat) : Prop := sextTag c t = t
/-- the value fits the class width -/
def ValFits (c : Cls) (v : Nat) : Prop := truncVal c v = v

/-- what is stored in `d_un` for `(tag, value)` -/
def storedVal (c : Cls) (e : DynEntry) : Nat := if dUnIgnored e.tag then 0 else truncVal c e.val

/-- what a reader gets back for an entry a writer was given -/
def normEntry (c : Cls) (e : DynEntry) : DynEntry :=
  ⟨sextTag c e.tag, if dUnIgnored (sextTag c e.tag) then 0 else truncVal c e.val⟩

/-- gABI encoder: `d_tag` then `d_un`, each in the file's byte order (low class-width bits) -/
def encodeDyn (cfg : Cfg) (tag val : Nat) : Bytes :=
  encodeInt cfg.enc (dynWord cfg.cls) tag ++ encodeInt cfg.enc (dynWord cfg.cls) val

/-- gABI decoder of one record -/
def decodeDyn (cfg : Cfg) (bs : Bytes) : DynEntry :=
  ⟨sextTag cfg.cls (decodeInt cfg.enc (bs.take (dynWord cfg.cls))),
   decodeInt cfg.enc ((bs.drop (dynWord cfg.cls)).take (dynWord cfg.cls))⟩

/-- the reader's view of a record: an ignored `d_un` reads as 0 -/
def readEntry (cfg : Cfg) (bs : Bytes) : DynEntry :=
  let e := decodeDyn cfg bs
  ⟨e.tag, if dUnIgnored e.tag then 0 else e.val⟩

/-- the records of a section: `size / entsize` consecutive chunks -/
def entriesOf (cfg : Cfg) (c : Bytes) : List DynEntry :=
  (List.range (c.length / dynSize cfg.cls)).map fun i =>
    readEntry cfg (slice c (i * dynSize cfg.cls) (dynSize cfg.cls))

/-- index of the first DT_NULL entry (`es.length` if there is none) -/
def firstNull (es : List DynEntry) : Nat := es.findIdx (fun e => e.tag == 0)

/-- **reported number of entries**: up to and including the first DT_NULL, never more than held -/
def dynCount (es : List DynEntry) : Nat := min es.length (firstNull es + 1)

/-! ### string table (gABI "String Table") -/

/-- a C string: up to the first NUL -/
def dynCstr (s : Bytes) : Bytes := s.takeWhile (· != 0)

/-- the NUL-terminated string at offset `off`, if the table holds one -/
def dynStrAt (tbl : Bytes) (off : Nat) : Option Bytes :=
  if off < tbl.length then
    if (tbl.drop off).contains 0 then some (dynCstr (tbl.drop off)) else none
  else none

/-- adding a string: offset 0 is reserved for the empty string, strings are appended;
    returns the new table and the offset of the string -/
def strAdd (tbl : Bytes) (s : Bytes) : Bytes × Nat :=
  let t0 := if tbl.length = 0 then [0] else tbl
  (t0 ++ (dynCstr s ++ [0]), t0.length)

/-! ### observable behaviour of an accessor -/

inductive GetOut
  | invalid                          -- index beyond the reported count
  | nostr (tag val : Nat)            -- string-valued tag whose offset holds no string
  | ok (tag val : Nat) (s : Bytes)
  deriving DecidableEq, Repr

/-- what a reader reports for entry `e`: string-valued tags resolve through the linked table
    (`none`: no table).  ELFIO's string accessor takes 32-bit offsets, hence `% 2^32`
    (tables are < 4 GiB). -/
def resolve (tbl : Option Bytes) (e : DynEntry) : GetOut :=
  if stringValued e.tag then
    match tbl.bind (fun t => dynStrAt t (e.val % 4294967296)) with
    | some s => .ok e.tag e.val s
    | none => .nostr e.tag e.val
  else .ok e.tag e.val []

/-- entry `i` by index: valid below the reported count -/
def dynGet (es : List DynEntry) (tbl : Option Bytes) (i : Nat) : GetOut :=
  if i < dynCount es then
    match es[i]? with
    | none => .invalid
    | some e => resolve tbl e
  else .invalid

inductive DynOp
  | add (tag val : Nat)
  | addStr (tag : Nat) (s : Bytes)
  | num
  | get (i : Nat)
  deriving Repr

inductive DynOut
  | unit
  | num (n : Nat)
  | got (g : GetOut)
  deriving DecidableEq, Repr

/-- abstract state: the entries a reader sees and the linked string table -/
structure DynSt where
  es : List DynEntry
  tbl : Option Bytes

def dynStep (c : Cls) (st : DynSt) : DynOp → DynSt × DynOut
  | .add t v => ({ st with es := st.es ++ [normEntry c ⟨t, v⟩] }, .unit)
  | .addStr t s =>
    match st.tbl with
    | none => ({ st with es := st.es ++ [normEntry c ⟨t, 0⟩] }, .unit)
    | some tb => ({ es := st.es ++ [normEntry c ⟨t, (strAdd tb s).2⟩], tbl := some (strAdd tb s).1 }, .unit)
  | .num => (st, .num (dynCount st.es))
  | .get i => (st, .got (dynGet st.es st.tbl i))

def dynRun (c : Cls) (st : DynSt) : List DynOp → DynSt × List DynOut
  | [] => (st, [])
  | op :: ops =>
    let r := dynStep c st op
    let r2 := dynRun c r.1 ops
    (r2.1, r.2 :: r2.2)

/-- the bytes a sequence of operations appends to the dynamic section: one gABI record per add -/
def dynAppend (cfg : Cfg) : Option Bytes → List DynOp → Bytes
  | _, [] => []
  | tbl, .add t v :: r => encodeDyn cfg t (storedVal cfg.cls ⟨t, v⟩) ++ dynAppend cfg tbl r
  | none, .addStr t _ :: r => encodeDyn cfg t (storedVal cfg.cls ⟨t, 0⟩) ++ dynAppend cfg none r
  | some tb, .addStr t s :: r =>
    encodeDyn cfg t (storedVal cfg.cls ⟨t, (strAdd tb s).2⟩) ++ dynAppend cfg (some (strAdd tb s).1) r
  | tbl, .num :: r => dynAppend cfg tbl r
  | tbl, .get _ :: r => dynAppend cfg tbl r

/-- what the user added, in order -/
inductive Added
  | val (tag val : Nat)
  | str (tag : Nat) (s : Bytes)
  deriving Repr

def addsOf : List DynOp → List Added
  | [] => []
  | .add t v :: r => .val t v :: addsOf r
  | .addStr t s :: r => .str t s :: addsOf r
  | _ :: r => addsOf r

end ElfioVerif.Spec
