/-
Reference semantics for C14, written from the property text and the GNU ABI (never from
ELFIO's code):

* an init/fini/ctor-style *array section* is a sequence of fixed-width unsigned integers
  (4 or 8 bytes, independent of the ELF class) in the file's declared byte order;
* a *module-info section* is a sequence of NUL-terminated strings `field=value`;
  a reader splits on NUL and then at the first `=`;
* a *symbol-version section* (`.gnu.version`) is a sequence of `Elf_Half` in declared order;
* *version-need / version-definition sections* are chains of `Verneed`/`Verdef` records, each
  with a chain of auxiliary records, linked by byte offsets relative to the record.
-/
import ElfioVerif.Basic
namespace ElfioVerif.Spec

/-! ### fixed-width integer tables -/

/-- the table with entries `vs`, each `w` bytes, in declared order `e` -/
def encodeArrTable (e : Enc) (w : Nat) (vs : List Nat) : Bytes :=
  match vs with
  | [] => []
  | v :: vs => encodeInt e w v ++ encodeArrTable e w vs

/-- `k`-th entry of a table, if the table has one -/
def tableEntry (e : Enc) (w : Nat) (bs : Bytes) (k : Nat) : Option Nat :=
  if (k + 1) * w ≤ bs.length then some (decodeInt e (slice bs (k * w) w)) else none

@[simp] theorem encodeTable_length (e : Enc) (w : Nat) (vs : List Nat) :
    (encodeArrTable e w vs).length = w * vs.length := by
  induction vs with
  | nil => simp [encodeArrTable]
  | cons v vs ih => simp [encodeArrTable, ih, Nat.mul_add, Nat.add_comm]

/-! ### module information -/

def eqSign : UInt8 := 61

/-- one attribute record: `field=value\0` -/
def encodeAttr (a : Bytes × Bytes) : Bytes := a.1 ++ eqSign :: (a.2 ++ [0])

def encodeModinfo : List (Bytes × Bytes) → Bytes
  | [] => []
  | a :: as => encodeAttr a ++ encodeModinfo as

/-- pieces between NUL bytes; empty pieces are dropped (structural on the input) -/
def splitNulAux : Bytes → Bytes → List Bytes
  | [], cur => if cur.isEmpty then [] else [cur.reverse]
  | c :: rest, cur =>
    if c = 0 then (if cur.isEmpty then splitNulAux rest [] else cur.reverse :: splitNulAux rest [])
    else splitNulAux rest (c :: cur)

def splitNul (bs : Bytes) : List Bytes := splitNulAux bs []

/-- split a record at its first `=` -/
def splitFirstEq (s : Bytes) : Bytes × Bytes :=
  (s.takeWhile (· ≠ eqSign), (s.dropWhile (· ≠ eqSign)).drop 1)

/-- the reader the property has in mind (for records that contain a `=`) -/
def parseModinfo (bs : Bytes) : List (Bytes × Bytes) := (splitNul bs).map splitFirstEq

/-- lookup by field name: first match -/
def lookupFirst (as : List (Bytes × Bytes)) (f : Bytes) : Option Bytes :=
  match as with
  | [] => none
  | a :: as => if a.1 = f then some a.2 else lookupFirst as f

/-- a field name may not contain `=` or NUL, a value may not contain NUL -/
def AttrOk (a : Bytes × Bytes) : Prop :=
  (∀ c ∈ a.1, c ≠ eqSign ∧ c ≠ 0) ∧ (∀ c ∈ a.2, c ≠ 0)

/-! ### GNU symbol versioning records (all fields unsigned, declared byte order) -/

structure Verneed where
  version : Nat   -- vn_version  Half @0
  cnt : Nat       -- vn_cnt      Half @2
  file : Nat      -- vn_file     Word @4   (offset of the file name in the linked string table)
  aux : Nat       -- vn_aux      Word @8   (byte offset from this record to its first Vernaux)
  next : Nat      -- vn_next     Word @12  (byte offset from this record to the next Verneed; 0 = last)
  deriving Repr, DecidableEq

structure Vernaux where
  hash : Nat      -- vna_hash    Word @0
  flags : Nat     -- vna_flags   Half @4
  other : Nat     -- vna_other   Half @6
  name : Nat      -- vna_name    Word @8
  next : Nat      -- vna_next    Word @12
  deriving Repr, DecidableEq

structure Verdef where
  version : Nat   -- vd_version  Half @0
  flags : Nat     -- vd_flags    Half @2
  ndx : Nat       -- vd_ndx      Half @4
  cnt : Nat       -- vd_cnt      Half @6
  hash : Nat      -- vd_hash     Word @8
  aux : Nat       -- vd_aux      Word @12
  next : Nat      -- vd_next     Word @16
  deriving Repr, DecidableEq

structure Verdaux where
  name : Nat      -- vda_name    Word @0
  next : Nat      -- vda_next    Word @4
  deriving Repr, DecidableEq

/-- unsigned field of `w` bytes at `off`, if it lies inside `bs` -/
def tabField (e : Enc) (bs : Bytes) (off w : Nat) : Option Nat :=
  if off + w ≤ bs.length then some (decodeInt e (slice bs off w)) else none

def decodeVerneed (e : Enc) (bs : Bytes) (off : Nat) : Option Verneed := do
  let version ← tabField e bs off 2
  let cnt ← tabField e bs (off + 2) 2
  let file ← tabField e bs (off + 4) 4
  let aux ← tabField e bs (off + 8) 4
  let next ← tabField e bs (off + 12) 4
  pure { version, cnt, file, aux, next }

def decodeVernaux (e : Enc) (bs : Bytes) (off : Nat) : Option Vernaux := do
  let hash ← tabField e bs off 4
  let flags ← tabField e bs (off + 4) 2
  let other ← tabField e bs (off + 6) 2
  let name ← tabField e bs (off + 8) 4
  let next ← tabField e bs (off + 12) 4
  pure { hash, flags, other, name, next }

def decodeVerdef (e : Enc) (bs : Bytes) (off : Nat) : Option Verdef := do
  let version ← tabField e bs off 2
  let flags ← tabField e bs (off + 2) 2
  let ndx ← tabField e bs (off + 4) 2
  let cnt ← tabField e bs (off + 6) 2
  let hash ← tabField e bs (off + 8) 4
  let aux ← tabField e bs (off + 12) 4
  let next ← tabField e bs (off + 16) 4
  pure { version, flags, ndx, cnt, hash, aux, next }

def decodeVerdaux (e : Enc) (bs : Bytes) (off : Nat) : Option Verdaux := do
  let name ← tabField e bs off 4
  let next ← tabField e bs (off + 4) 4
  pure { name, next }

/-- offset of the `k`-th Verneed record of the chain that starts at `off` -/
def verneedOff (e : Enc) (bs : Bytes) : Nat → Nat → Option Nat
  | 0, off => some off
  | k + 1, off => do
    let r ← decodeVerneed e bs off
    verneedOff e bs k (off + r.next)

def verdefOff (e : Enc) (bs : Bytes) : Nat → Nat → Option Nat
  | 0, off => some off
  | k + 1, off => do
    let r ← decodeVerdef e bs off
    verdefOff e bs k (off + r.next)

/-- NUL-terminated string at `idx` of a string table -/
def tabStrAt (tab : Bytes) (idx : Nat) : Option Bytes :=
  let rest := tab.drop idx
  let s := rest.takeWhile (· ≠ 0)
  if s.length < rest.length then some s else none

/-- what a reader reports for the `k`-th version requirement: the record and its *first*
    auxiliary record, names resolved in the linked string table -/
structure NeedView where
  version : Nat
  file : Bytes
  hash : Nat
  flags : Nat
  other : Nat
  name : Bytes
  deriving Repr, DecidableEq

def needView (e : Enc) (bs tab : Bytes) (k : Nat) : Option NeedView := do
  let off ← verneedOff e bs k 0
  let r ← decodeVerneed e bs off
  let a ← decodeVernaux e bs (off + r.aux)
  let file ← tabStrAt tab r.file
  let name ← tabStrAt tab a.name
  pure { version := r.version, file, hash := a.hash, flags := a.flags, other := a.other, name }

structure DefView where
  flags : Nat
  ndx : Nat
  hash : Nat
  name : Bytes
  deriving Repr, DecidableEq

def defView (e : Enc) (bs tab : Bytes) (k : Nat) : Option DefView := do
  let off ← verdefOff e bs k 0
  let r ← decodeVerdef e bs off
  let a ← decodeVerdaux e bs (off + r.aux)
  let name ← tabStrAt tab a.name
  pure { flags := r.flags, ndx := r.ndx, hash := r.hash, name }

end ElfioVerif.Spec
