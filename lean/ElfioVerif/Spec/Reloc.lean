/-
Reference semantics of relocation entries (C11), written from the ELF gABI
("Relocation", Figure 4-21/4-22 and the ELF32_R_* / ELF64_R_* definitions), not from ELFIO:

  Elf32_Rel  { Elf32_Addr r_offset; Elf32_Word  r_info; }                      8 bytes
  Elf32_Rela { Elf32_Addr r_offset; Elf32_Word  r_info; Elf32_Sword  r_addend; }  12 bytes
  Elf64_Rel  { Elf64_Addr r_offset; Elf64_Xword r_info; }                     16 bytes
  Elf64_Rela { Elf64_Addr r_offset; Elf64_Xword r_info; Elf64_Sxword r_addend; }  24 bytes

  ELF32: r_info = (sym << 8) + (type & 0xff)          sym = info >> 8,  type = info & 0xff
  ELF64: r_info = (sym << 32) + (type & 0xffffffff)   sym = info >> 32, type = info & 0xffffffff

every member in the byte order of the file, `r_addend` in two's complement.
-/
import ElfioVerif.Basic
namespace ElfioVerif.Spec

inductive RelKind | rel | rela
  deriving DecidableEq, Repr, Inhabited

/-- a relocation as the gABI describes it (mathematical integers) -/
structure RelocEntry where
  offset : Nat
  sym : Nat
  type : Nat
  addend : Int
  deriving DecidableEq, Repr, Inhabited

/-- width in bytes of `r_offset`, `r_info` and `r_addend` -/
def wordBytes : Cls → Nat
  | .c32 => 4
  | .c64 => 8

def hasAddend : RelKind → Bool
  | .rel => false
  | .rela => true

/-- size of one table entry -/
def entSize (c : Cls) (k : RelKind) : Nat :=
  match k with
  | .rel => 2 * wordBytes c
  | .rela => 3 * wordBytes c

/-- the ABI packing of symbol index and type -/
def rInfo : Cls → Nat → Nat → Nat
  | .c32, s, t => s * 256 + t % 256
  | .c64, s, t => s * 4294967296 + t % 4294967296

def rSym : Cls → Nat → Nat
  | .c32, i => i / 256
  | .c64, i => i / 4294967296

def rType : Cls → Nat → Nat
  | .c32, i => i % 256
  | .c64, i => i % 4294967296

/-- two's-complement bit pattern of `v` in `8*n` bits -/
def twos (nbytes : Nat) (v : Int) : Nat := (v % ((2 ^ (8 * nbytes) : Nat) : Int)).toNat

/-- value of an `8*n`-bit two's-complement bit pattern -/
def untwos (nbytes : Nat) (x : Nat) : Int :=
  if 2 * (x % 2 ^ (8 * nbytes)) < 2 ^ (8 * nbytes) then ((x % 2 ^ (8 * nbytes) : Nat) : Int)
  else ((x % 2 ^ (8 * nbytes) : Nat) : Int) - ((2 ^ (8 * nbytes) : Nat) : Int)

/-- the bytes of a record with the given member values -/
def encodeRaw (c : Cfg) (k : RelKind) (offset info : Nat) (addend : Int) : Bytes :=
  let w := wordBytes c.cls
  encodeInt c.enc w offset ++ encodeInt c.enc w info ++
    (if hasAddend k then encodeInt c.enc w (twos w addend) else [])

/-- the bytes of one entry -/
def encodeEntry (c : Cfg) (k : RelKind) (e : RelocEntry) : Bytes :=
  encodeRaw c k e.offset (rInfo c.cls e.sym e.type) e.addend

/-- the entry a record of `entSize` bytes stands for (REL: addend 0) -/
def decodeEntry (c : Cfg) (k : RelKind) (bs : Bytes) : RelocEntry :=
  let w := wordBytes c.cls
  let info := decodeInt c.enc (slice bs w w)
  { offset := decodeInt c.enc (slice bs 0 w)
    sym := rSym c.cls info
    type := rType c.cls info
    addend := if hasAddend k then untwos w (decodeInt c.enc (slice bs (2 * w) w)) else 0 }

/-- the table a section's bytes stand for: consecutive entries -/
def encodeRelTable (c : Cfg) (k : RelKind) (es : List RelocEntry) : Bytes :=
  es.flatMap (encodeEntry c k)

/-- what is representable: the entry as it comes back (offset and addend reduced to the
    class width; symbol and type are required to fit, see `Fits`) -/
def normalize (c : Cls) (k : RelKind) (e : RelocEntry) : RelocEntry :=
  let w := wordBytes c
  { e with offset := e.offset % 2 ^ (8 * w)
           addend := if hasAddend k then untwos w (twos w e.addend) else 0 }

/-- the quantifier's ranges: symbol < 2^24 and type < 2^8 (ELF32); both < 2^32 (ELF64) -/
def Fits (c : Cls) (e : RelocEntry) : Prop :=
  match c with
  | .c32 => e.sym < 16777216 ∧ e.type < 256
  | .c64 => e.sym < 4294967296 ∧ e.type < 4294967296

/-- exchanging two symbol indices in one entry / in a table -/
def swapSym (a b : Nat) (e : RelocEntry) : RelocEntry :=
  if e.sym = a then { e with sym := b } else if e.sym = b then { e with sym := a } else e

def swapTable (a b : Nat) (es : List RelocEntry) : List RelocEntry := es.map (swapSym a b)

theorem swapSym_involutive (a b : Nat) (e : RelocEntry) : swapSym a b (swapSym a b e) = e := by
  unfold swapSym
  by_cases h1 : e.sym = a
  · by_cases h2 : b = a
    · simp [h1, h2]; cases e; simp_all
    · simp [h1, h2]; cases e; simp_all
  · by_cases h2 : e.sym = b
    · simp [h1, h2]; cases e; simp_all
    · simp [h1, h2]

theorem swapTable_involutive (a b : Nat) (es : List RelocEntry) :
    swapTable a b (swapTable a b es) = es := by
  induction es with
  | nil => rfl
  | cons e es ih => simp only [swapTable, List.map_cons, List.map_map] at *; rw [ih]; simp [swapSym_involutive]

end ElfioVerif.Spec
