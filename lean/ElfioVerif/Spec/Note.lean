/-
Reference semantics of ELF notes (C13), written from the gABI text ("Note Section") and the
property statement — not from ELFIO's code:

  a note is  namesz : word, descsz : word, type : word, name, desc
  * namesz counts the name's bytes *including* its terminating NUL,
  * descsz counts the descriptor's bytes,
  * name and descriptor are each padded with zero bytes to a multiple of four (the padding is not
    counted in namesz / descsz),
  * words are 4 bytes in the file's byte order, in both ELF classes (the Oracle/Linux reading that
    ELFIO documents it follows).
-/
import ElfioVerif.Basic
namespace ElfioVerif.Spec

structure Note where
  type : Nat
  name : Bytes        -- without the terminator
  desc : Bytes
  deriving Repr, DecidableEq

/-- number of zero bytes that bring `n` up to a multiple of four -/
def pad4 (n : Nat) : Nat := (4 - n % 4) % 4

/-- `n` rounded up to a multiple of four -/
def up4 (n : Nat) : Nat := n + pad4 n

def padTo4 (bs : Bytes) : Bytes := bs ++ List.replicate (pad4 bs.length) 0

/-- the ABI encoding of one note -/
def encodeNote (e : Enc) (n : Note) : Bytes :=
  encodeInt e 4 (n.name.length + 1) ++ encodeInt e 4 n.desc.length ++ encodeInt e 4 n.type ++
    padTo4 (n.name ++ [0]) ++ padTo4 n.desc

/-- a note section / segment is the concatenation of its notes -/
def encodeNotes (e : Enc) : List Note → Bytes
  | [] => []
  | n :: ns => encodeNote e n ++ encodeNotes e ns

/-- byte offsets at which the notes of `encodeNotes e ns` start, the first one at `base` -/
def noteStarts (e : Enc) (base : Nat) : List Note → List Nat
  | [] => []
  | n :: ns => base :: noteStarts e (base + (encodeNote e n).length) ns

/-- fields fit their 32-bit words -/
def Note.Fits (n : Note) : Prop :=
  n.type < 4294967296 ∧ n.name.length + 1 < 4294967296 ∧ n.desc.length < 4294967296

instance (n : Note) : Decidable n.Fits := by unfold Note.Fits; exact inferInstance

/-- reference decoder of one note at the start of `bs`: the note and the number of bytes it
    occupies; `none` when `bs` does not start with a complete note -/
def decodeNote (e : Enc) (bs : Bytes) : Option (Note × Nat) :=
  if 12 ≤ bs.length then
    let namesz := decodeInt e (slice bs 0 4)
    let descsz := decodeInt e (slice bs 4 4)
    let type := decodeInt e (slice bs 8 4)
    let total := 12 + up4 namesz + up4 descsz
    if 1 ≤ namesz ∧ total ≤ bs.length then
      some (⟨type, slice bs 12 (namesz - 1), slice bs (12 + up4 namesz) descsz⟩, total)
    else none
  else none

theorem pad4_lt (n : Nat) : pad4 n < 4 := by unfold pad4; omega
theorem up4_mod (n : Nat) : up4 n % 4 = 0 := by unfold up4 pad4; omega
theorem up4_eq (n : Nat) : up4 n = (n + 3) / 4 * 4 := by unfold up4 pad4; omega

@[simp] theorem padTo4_length (bs : Bytes) : (padTo4 bs).length = up4 bs.length := by
  simp [padTo4, up4]

theorem encodeNote_length (e : Enc) (n : Note) :
    (encodeNote e n).length = 12 + up4 (n.name.length + 1) + up4 n.desc.length := by
  simp [encodeNote]; omega

end ElfioVerif.Spec
