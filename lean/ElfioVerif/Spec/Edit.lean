/- Reference semantics of byte-string editing (C07): written from the property text. -/
import ElfioVerif.Basic
namespace ElfioVerif.Spec

inductive EditOp
  | replace (bs : Bytes)
  | append (bs : Bytes)
  | insert (pos : Nat) (bs : Bytes)
  deriving Repr

/-- insert at a position beyond the current size changes nothing -/
def insertAt (l : Bytes) (pos : Nat) (bs : Bytes) : Bytes :=
  if pos ≤ l.length then l.take pos ++ bs ++ l.drop pos else l

def edit (l : Bytes) : EditOp → Bytes
  | .replace bs => bs
  | .append bs => l ++ bs
  | .insert pos bs => insertAt l pos bs

theorem insertAt_length_eq_append (l bs : Bytes) : insertAt l l.length bs = l ++ bs := by
  simp [insertAt]

end ElfioVerif.Spec
