/-
Reference post-condition of "arranging local symbols" (C10), written from the property text:
the table holds exactly the same symbols, every local symbol precedes every non-local one, the
null symbol stays first, the reported count is the index of the first non-local symbol; and a
relocation table whose symbol indices were updated refers to the same symbols by content.
Nothing here mentions ELFIO's algorithm.
-/
import ElfioVerif.Basic
namespace ElfioVerif.Spec

/-- `after` is `before` arranged, with `r` the reported number of leading local symbols -/
structure Arranged {α : Type} (isLocal : α → Bool) (before after : List α) (r : Nat) : Prop where
  /-- exactly the same symbols (as a multiset) -/
  perm : after.Perm before
  /-- every index below `r` holds a local symbol -/
  locals : ∀ i a, i < r → after[i]? = some a → isLocal a = true
  /-- every index from `r` on holds a non-local symbol -/
  globals : ∀ i a, r ≤ i → after[i]? = some a → isLocal a = false
  /-- the null symbol stays first -/
  null : after[0]? = before[0]?
  /-- `r` is the index of the first non-local symbol (the table length if there is none) -/
  first : r = (after.takeWhile isLocal).length

/-- every relocation (given by its symbol index before / after) refers to the same symbol -/
def OnTarget {α : Type} (before after : List α) (syms syms' : List Nat) : Prop :=
  syms'.length = syms.length ∧
  ∀ (e s s' : Nat), syms[e]? = some s → syms'[e]? = some s' → after[s']? = before[s]?

/-- a partition point inside the table is the index of the first non-local element -/
theorem takeWhile_length_of_partition {α : Type} (p : α → Bool) (l : List α) (r : Nat)
    (hr : r ≤ l.length)
    (hl : ∀ i a, i < r → l[i]? = some a → p a = true)
    (hg : ∀ i a, r ≤ i → l[i]? = some a → p a = false) :
    (l.takeWhile p).length = r := by
  induction l generalizing r with
  | nil => simp at hr; simp [hr]
  | cons x xs ih =>
    cases r with
    | zero =>
      have := hg 0 x (Nat.le_refl _) (by simp)
      simp [List.takeWhile, this]
    | succ r =>
      have hx := hl 0 x (Nat.succ_pos _) (by simp)
      simp only [List.takeWhile, hx, List.length_cons]
      congr 1
      apply ih r (by simpa using hr)
      · intro i a hi h; exact hl (i + 1) a (by omega) (by simpa using h)
      · intro i a hi h; exact hg (i + 1) a (by omega) (by simpa using h)

end ElfioVerif.Spec
