/-
Reference semantics for symbol tables (C09), written from the ELF gABI (chapter "Symbol Table",
figures 4-15/4-16 and the `ELF32_ST_*`/`ELF64_ST_*` macros; chapter "Hash Table" with the
`elf_hash` listing) and from the GNU hash description (`dl_new_hash`: h = 5381; h = h*33 + c),
never from ELFIO's code.
-/
import ElfioVerif.Basic
namespace ElfioVerif.Spec

/-! ### the Sym record -/

/-- one symbol-table entry as the gABI names its members (all values as naturals) -/
structure SymRec where
  name : Nat      -- st_name  : index into the string table
  value : Nat     -- st_value
  size : Nat      -- st_size
  info : Nat      -- st_info  : binding and type
  other : Nat     -- st_other : visibility
  shndx : Nat     -- st_shndx
  deriving DecidableEq, Repr, Inhabited

/-- the entry of index 0 (`STN_UNDEF`): all members zero -/
def nullSym : SymRec := ⟨0, 0, 0, 0, 0, 0⟩

/-- size of an entry: 16 bytes (Elf32_Sym), 24 bytes (Elf64_Sym) -/
def symSize : Cls → Nat
  | .c32 => 16
  | .c64 => 24

/-- width of `st_value` / `st_size` : Elf32_Addr / Elf32_Word vs Elf64_Addr / Elf64_Xword -/
def addrBytes : Cls → Nat
  | .c32 => 4
  | .c64 => 8

/-- gABI figure 4-15: Elf32_Sym = name, value, size, info, other, shndx;
    Elf64_Sym = name, info, other, shndx, value, size.  Integers in the file's data encoding. -/
def encodeSym (c : Cfg) (s : SymRec) : Bytes :=
  match c.cls with
  | .c32 => encodeInt c.enc 4 s.name ++ encodeInt c.enc 4 s.value ++ encodeInt c.enc 4 s.size ++
            encodeInt c.enc 1 s.info ++ encodeInt c.enc 1 s.other ++ encodeInt c.enc 2 s.shndx
  | .c64 => encodeInt c.enc 4 s.name ++ encodeInt c.enc 1 s.info ++ encodeInt c.enc 1 s.other ++
            encodeInt c.enc 2 s.shndx ++ encodeInt c.enc 8 s.value ++ encodeInt c.enc 8 s.size

/-- decoder for the same figure (on a string of `symSize` bytes) -/
def decodeSym (c : Cfg) (b : Bytes) : SymRec :=
  match c.cls with
  | .c32 => { name := decodeInt c.enc (slice b 0 4), value := decodeInt c.enc (slice b 4 4),
              size := decodeInt c.enc (slice b 8 4), info := decodeInt c.enc (slice b 12 1),
              other := decodeInt c.enc (slice b 13 1), shndx := decodeInt c.enc (slice b 14 2) }
  | .c64 => { name := decodeInt c.enc (slice b 0 4), info := decodeInt c.enc (slice b 4 1),
              other := decodeInt c.enc (slice b 5 1), shndx := decodeInt c.enc (slice b 6 2),
              value := decodeInt c.enc (slice b 8 8), size := decodeInt c.enc (slice b 16 8) }

/-- what a record becomes when stored in the member widths of class `c` -/
def truncSym (c : Cls) (s : SymRec) : SymRec :=
  { name := s.name % 2 ^ 32, value := s.value % 2 ^ (8 * addrBytes c), size := s.size % 2 ^ (8 * addrBytes c),
    info := s.info % 2 ^ 8, other := s.other % 2 ^ 8, shndx := s.shndx % 2 ^ 16 }

/-- `ELF32_ST_INFO(b,t) = ((b)<<4) + ((t)&0xf)` (identical for ELF64), as an `unsigned char` -/
def stInfo (b t : BitVec 8) : BitVec 8 := (b <<< 4) + (t &&& 0xf)
/-- `ELF32_ST_BIND(i) = (i)>>4` -/
def stBind (i : BitVec 8) : BitVec 8 := i >>> 4
/-- `ELF32_ST_TYPE(i) = (i)&0xf` -/
def stType (i : BitVec 8) : BitVec 8 := i &&& 0xf

/-- the whole table: concatenation of the entries -/
def encodeSymTable (c : Cfg) (l : List SymRec) : Bytes := (l.map (encodeSym c)).flatten

/-! ### string tables (what symbol names refer to) -/

/-- the NUL-terminated string starting at `off`, if `off` is inside the table and a terminator
    follows before the end -/
def symStrAt (tbl : Bytes) (off : Nat) : Option Bytes :=
  if off < tbl.length then
    let rest := tbl.drop off
    if rest.contains 0 then some (rest.takeWhile (· ≠ 0)) else none
  else none

/-- string table holding `names` in order, after the leading NUL; and the offset of each -/
def strtabBytes : List Bytes → Bytes
  | [] => []
  | ns => 0 :: (ns.map (· ++ [0])).flatten

def strtabOffsets (start : Nat) : List Bytes → List Nat
  | [] => []
  | n :: ns => start :: strtabOffsets (start + n.length + 1) ns

/-! ### hash functions -/

/-- gABI "Hash Table", figure 5-13 (32-bit `unsigned long`):
    ```
    h = 0;
    while (*name) { h = (h << 4) + *name++;
                    if (g = h & 0xf0000000) h ^= g >> 24;
                    h &= ~g; }
    ``` -/
def sysvStep (h : BitVec 32) (c : BitVec 8) : BitVec 32 :=
  let h := (h <<< 4) + c.setWidth 32
  let g := h &&& 0xf0000000#32
  let h := if g ≠ 0 then h ^^^ (g >>> 24) else h
  h &&& ~~~g

def sysvHash (name : List (BitVec 8)) : BitVec 32 := name.foldl sysvStep 0

/-- the same function in plain arithmetic: append a base-16·16 digit, fold the top nibble into
    bits 4..7, drop it -/
def sysvStepNat (h c : Nat) : Nat :=
  let h1 := (h * 16 + c) % 4294967296
  let top := h1 / 268435456
  (h1 ^^^ (top * 16)) % 268435456

/-- GNU hash (`dl_new_hash`): `h = 5381; for each c: h = h * 33 + c` modulo 2^32 -/
def gnuStep (h : BitVec 32) (c : BitVec 8) : BitVec 32 := h * 33 + c.setWidth 32
def gnuHash (name : List (BitVec 8)) : BitVec 32 := name.foldl gnuStep 5381

def gnuHashNat (name : List Nat) : Nat := name.foldl (fun h c => (h * 33 + c) % 4294967296) 5381

/-! ### hash sections built from the ABI definitions -/

/-- gABI figure 5-12/5-13, the usual construction: symbols are entered in index order, each at
    the head of its bucket's chain.  `hs` = hash values of the symbols 1, 2, … (index 0 is the
    null symbol and is not entered). -/
def sysvInsert (nb : Nat) (st : List Nat × List Nat) (ih : Nat × Nat) : List Nat × List Nat :=
  (st.1.set (ih.2 % nb) ih.1, st.2.set ih.1 (st.1.getD (ih.2 % nb) 0))

def sysvTables (nb : Nat) (hs : List Nat) : List Nat × List Nat :=
  ((List.range' 1 hs.length).zip hs).foldl (sysvInsert nb) (List.replicate nb 0, List.replicate (hs.length + 1) 0)

/-- the words of the section: nbucket, nchain, buckets, chains -/
def sysvWords (nb : Nat) (hs : List Nat) : List Nat :=
  [nb, hs.length + 1] ++ (sysvTables nb hs).1 ++ (sysvTables nb hs).2

def buildSysv (e : Enc) (nb : Nat) (hs : List Nat) : Bytes :=
  ((sysvWords nb hs).map (encodeInt e 4)).flatten

/-- the SysV section for an *empty* symbol table: `nchain = 0`, all buckets empty -/
def buildSysvEmpty (e : Enc) (nb : Nat) : Bytes :=
  (([nb, 0] ++ List.replicate nb 0).map (encodeInt e 4)).flatten

/-- GNU hash section (as `ld --hash-style=gnu` lays it out): `hs` = GNU hash values of the symbols
    `so, so+1, …` (grouped by bucket for lookups to be complete; well-formedness does not need it).
    Bloom word width `8*W` bits. -/
def gnuBloomBits (C shift h : Nat) : Nat := (1 <<< (h % C)) ||| (1 <<< ((h >>> shift) % C))

def gnuBloom (C bs shift : Nat) (hs : List Nat) : List Nat :=
  hs.foldl (fun bl h => bl.set ((h / C) % bs) (bl.getD ((h / C) % bs) 0 ||| gnuBloomBits C shift h))
    (List.replicate bs 0)

def gnuBucketStep (nbk so : Nat) (bk : List Nat) (kh : Nat × Nat) : List Nat :=
  if bk.getD (kh.2 % nbk) 0 = 0 then bk.set (kh.2 % nbk) (so + kh.1) else bk

def gnuBuckets (nbk so : Nat) (hs : List Nat) : List Nat :=
  ((List.range' 0 hs.length).zip hs).foldl (gnuBucketStep nbk so) (List.replicate nbk 0)

/-- chain words: the hash with bit 0 replaced by "last of its bucket" -/
def gnuChain (nbk : Nat) : List Nat → List Nat
  | [] => []
  | [h] => [h / 2 * 2 + 1]
  | h :: h' :: rest => (h / 2 * 2 + (if h' % nbk ≠ h % nbk then 1 else 0)) :: gnuChain nbk (h' :: rest)

def buildGnu (e : Enc) (W : Nat) (nbk so bs shift : Nat) (hs : List Nat) : Bytes :=
  (([nbk, so, bs, shift].map (encodeInt e 4)).flatten ++
   ((gnuBloom (8 * W) bs shift hs).map (encodeInt e W)).flatten ++
   ((gnuBuckets nbk so hs).map (encodeInt e 4)).flatten) ++
   ((gnuChain nbk hs).map (encodeInt e 4)).flatten

/-! ### reference lookup: linear scan -/

/-- index of the first entry for which `p` holds -/
def firstIdx {α} (p : α → Bool) : List α → Option Nat
  | [] => none
  | a :: as => if p a then some 0 else (firstIdx p as).map (· + 1)

def lookupName (names : List Bytes) (n : Bytes) : Option Nat := firstIdx (· == n) names
def lookupValue (values : List Nat) (v : Nat) : Option Nat := firstIdx (· == v) values

theorem firstIdx_some {α} {p : α → Bool} {l : List α} {i : Nat} (h : firstIdx p l = some i) :
    ∃ a, l[i]? = some a ∧ p a = true ∧ ∀ j, j < i → ∀ b, l[j]? = some b → p b = false := by
  induction l generalizing i with
  | nil => simp [firstIdx] at h
  | cons a as ih =>
    simp only [firstIdx] at h
    by_cases hp : p a = true
    · simp only [hp, if_true, Option.some.injEq] at h
      subst h
      exact ⟨a, by simp, hp, by intro j hj; omega⟩
    · simp only [hp, Bool.false_eq_true, if_false, Option.map_eq_some_iff] at h
      obtain ⟨k, hk, rfl⟩ := h
      obtain ⟨x, hx, hpx, hmin⟩ := ih hk
      refine ⟨x, by simpa using hx, hpx, ?_⟩
      intro j hj b hb
      cases j with
      | zero => simp at hb; subst hb; simpa using hp
      | succ j => exact hmin j (by omega) b (by simpa using hb)

theorem firstIdx_none {α} {p : α → Bool} {l : List α} (h : firstIdx p l = none) :
    ∀ a ∈ l, p a = false := by
  induction l with
  | nil => simp
  | cons a as ih =>
    simp only [firstIdx] at h
    by_cases hp : p a = true
    · simp [hp] at h
    · simp only [hp, Bool.false_eq_true, if_false, Option.map_eq_none_iff] at h
      intro x hx
      rcases List.mem_cons.mp hx with rfl | hx
      · simpa using hp
      · exact ih h x hx

end ElfioVerif.Spec
