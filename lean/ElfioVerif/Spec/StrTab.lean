/-
Reference semantics of an ELF string table (C08), written from the property text and the gABI
("String Table": NUL-terminated byte sequences referenced by index; index 0 is the empty string).
A table is nothing but its byte string.
-/
import ElfioVerif.Basic
namespace ElfioVerif.Spec

/-- what a caller's `const char*` denotes: the bytes before the first NUL -/
def cstr (s : Bytes) : Bytes := s.takeWhile (· != 0)

/-- the string at index `i`: the bytes from `i` up to the first NUL — provided `i` lies inside
    the table and that NUL lies inside the table as well -/
def strAt (t : Bytes) (i : Nat) : Option Bytes :=
  if (cstr (t.drop i)).length < (t.drop i).length then some (cstr (t.drop i)) else none

/-- adding a string: an empty table first receives the leading NUL; the string and its
    terminator go to the end; the index is where the string starts -/
def addStr (t : Bytes) (s : Bytes) : Bytes × Nat :=
  let t0 : Bytes := if t.length = 0 then [0] else t
  (t0 ++ cstr s ++ [0], t0.length)

/-- adding a sequence of strings; returns the table and the indices, in order -/
def addAll (t : Bytes) : List Bytes → Bytes × List Nat
  | [] => (t, [])
  | s :: ss => ((addAll (addStr t s).1 ss).1, (addStr t s).2 :: (addAll (addStr t s).1 ss).2)

end ElfioVerif.Spec
