/-
Value semantics of `elfio` objects (property C19), written from the property text:

  an object is a *value*; move-construction / move-assignment transfer the value to the
  destination and leave the source empty-but-valid; destroying, re-initialising or re-using the
  source afterwards has no effect on the destination; `create`/`load` on any object (fresh,
  used, moved-from) depend on nothing but their arguments and the object's address translation.

The contents of an object (ELF header + sections + segments) and what can be done with them are
a parameter (`Ops`): this file, the ownership model (Model/Heap.lean) and the theorems
(Props/C19.lean) are about *who owns what*, not about ELF.  The driver instantiates `Ops` with
the validated object model (Model/Obj.lean, Load.lean, Writer.lean).
-/
import ElfioVerif.Basic
namespace ElfioVerif.Own

/-- result of `load(stream)` as far as it depends on the image only -/
structure LoadOut (C S : Type) where
  /-- `none`: the image was not recognised as ELF (magic / class / encoding gate): nothing was
      rebuilt; `some (e, c)`: `convertor.setup(e)`, header re-created, contents `c` -/
  res : Option (Enc × C)
  /-- state of the input stream after the call -/
  stream : S
  out : String

/-- result of an observation / edit / save on a non-empty object -/
structure RunOut (C S : Type) where
  content : C
  /-- state of the stream lazily loaded parts were read from (if there is one) -/
  stream : Option S
  out : String

/-- what the header, the sections and the segments see through their pointers -/
structure Env (T S : Type) where
  enc : Enc
  trans : T
  stream : Option S

/-- The content algebra: everything the ownership layer does not look into. -/
structure Ops where
  /-- header + sections + segments (what the `unique_ptr`s own) -/
  C : Type
  /-- observations, edits, save -/
  Cmd : Type
  /-- address translation table -/
  T : Type
  /-- input stream state -/
  S : Type
  noTrans : T
  /-- an `ifstream` whose `open` failed -/
  noStream : S
  /-- `create(cls, enc)`: header + mandatory sections -/
  create : Cls → Enc → M C
  /-- `sections_.clear(); segments_.clear()` (the header stays) -/
  clear : C → C
  /-- `load(stream, lazy)` on a stream holding the image; reads the translation table only -/
  load : T → Bytes → Bool → M (LoadOut C S)
  /-- an observation / edit / save on a non-empty object -/
  run : Env T S → Cmd → C → M (RunOut C S)
  /-- the same on an object without header (every getter returns 0, `save` returns false) -/
  emptyOut : Cmd → String

/-- faults of a history -/
inductive HFault
  /-- the history names an object that does not exist (never constructed, or destroyed) -/
  | noObject (id : Nat)
  /-- the history constructs an object where one already lives -/
  | illFormed (what : String)
  /-- a pointer into freed storage was dereferenced (rendered as `Fault.useAfterFree`) -/
  | dangling (what : String)
  /-- a fault of the content operations themselves -/
  | content (f : Fault)
  deriving DecidableEq, Repr

def HFault.toFault : HFault → Fault
  | .noObject id => .nullDeref s!"no object {id}"
  | .illFormed w => .nullDeref w
  | .dangling w => .useAfterFree w
  | .content f => f

abbrev HM := Except HFault

def liftC {α : Type} : M α → HM α
  | .ok a => .ok a
  | .error f => .error (.content f)

/-- operations of a history; objects are named by numbers -/
inductive Op (Cmd T : Type)
  /-- `new elfio` / `new elfio(compression)` -/
  | construct (id : Nat) (withCompression : Bool)
  | create (id : Nat) (cls : Cls) (enc : Enc)
  | setTrans (id : Nat) (t : T)
  /-- `load(file_name, lazy)` of a file holding `img` -/
  | load (id : Nat) (img : Bytes) (isLazy : Bool)
  /-- `load(file_name, lazy)` of a file that cannot be opened -/
  | loadMissing (id : Nat) (isLazy : Bool)
  /-- `new (dst) elfio(std::move(src))` -/
  | moveConstruct (dst src : Nat)
  /-- `dst = std::move(src)` -/
  | moveAssign (dst src : Nat)
  | destroy (id : Nat)
  /-- freed storage is allocated again and overwritten -/
  | reuse
  /-- observe / edit / save -/
  | run (id : Nat) (cmd : Cmd)

def upd {α : Type} (f : Nat → α) (i : Nat) (x : α) : Nat → α := fun j => if j = i then x else f j

@[simp] theorem upd_same {α : Type} (f : Nat → α) (i : Nat) (x : α) : upd f i x i = x := by simp [upd]
@[simp] theorem upd_other {α : Type} (f : Nat → α) {i j : Nat} (x : α) (h : j ≠ i) : upd f i x j = f j := by
  simp [upd, h]

/-! ### values -/

structure Filled (ops : Ops) where
  enc : Enc
  stream : Option ops.S
  content : ops.C

structure Value (ops : Ops) where
  trans : ops.T
  filled : Option (Filled ops)

/-- a moved-from object: valid, no header, no sections, no address translation -/
def Value.empty (ops : Ops) : Value ops := { trans := ops.noTrans, filled := none }

abbrev SHeap (ops : Ops) := Nat → Option (Value ops)

def sget {ops : Ops} (s : SHeap ops) (id : Nat) : HM (Value ops) :=
  match s id with
  | some v => .ok v
  | none => .error (.noObject id)

/-- what remains of a value when the file is not recognised / cannot be opened -/
def Filled.cleared {ops : Ops} (f : Filled ops) : Filled ops :=
  { f with content := ops.clear f.content, stream := none }

def Filled.afterRun {ops : Ops} (f : Filled ops) (r : RunOut ops.C ops.S) : Filled ops :=
  { f with content := r.content,
           stream := match f.stream, r.stream with
             | some _, some x => some x
             | x, _ => x }

/-- one operation in value semantics -/
def sstep (ops : Ops) (s : SHeap ops) : Op ops.Cmd ops.T → HM (SHeap ops × String)
  | .construct id _ =>
    if (s id).isSome then .error (.illFormed "construct: the object exists") else
    match liftC (ops.create .c32 .lsb) with
    | .error e => .error e
    | .ok c => .ok (upd s id (some { trans := ops.noTrans, filled := some { enc := .lsb, stream := none, content := c } }), "ok")
  | .create id cls enc =>
    match sget s id with
    | .error e => .error e
    | .ok v =>
      match liftC (ops.create cls enc) with
      | .error e => .error e
      | .ok c => .ok (upd s id (some { v with filled := some { enc := enc, stream := none, content := c } }), "ok")
  | .setTrans id t =>
    match sget s id with
    | .error e => .error e
    | .ok v => .ok (upd s id (some { v with trans := t }), "ok")
  | .load id img isLazy =>
    match sget s id with
    | .error e => .error e
    | .ok v =>
      match liftC (ops.load v.trans img isLazy) with
      | .error e => .error e
      | .ok r =>
        let filled := match r.res with
          | some (e, c) => some { enc := e, stream := if isLazy then some r.stream else none, content := c }
          | none => v.filled.map Filled.cleared
        .ok (upd s id (some { v with filled := filled }), r.out)
  | .loadMissing id _ =>
    match sget s id with
    | .error e => .error e
    | .ok v => .ok (upd s id (some { v with filled := v.filled.map Filled.cleared }), "load=false")
  | .moveConstruct dst src =>
    if (s dst).isSome then .error (.illFormed "move-construct: the destination exists") else
    match sget s src with
    | .error e => .error e
    | .ok v => .ok (upd (upd s dst (some v)) src (some (Value.empty ops)), "ok")
  | .moveAssign dst src =>
    match sget s dst with
    | .error e => .error e
    | .ok _ =>
      match sget s src with
      | .error e => .error e
      | .ok v =>
        if dst = src then .ok (s, "ok")
        else .ok (upd (upd s dst (some v)) src (some (Value.empty ops)), "ok")
  | .destroy id =>
    match sget s id with
    | .error e => .error e
    | .ok _ => .ok (upd s id none, "ok")
  | .reuse => .ok (s, "ok")
  | .run id cmd =>
    match sget s id with
    | .error e => .error e
    | .ok v =>
      match v.filled with
      | none => .ok (s, ops.emptyOut cmd)
      | some f =>
        match liftC (ops.run { enc := f.enc, trans := v.trans, stream := f.stream } cmd f.content) with
        | .error e => .error e
        | .ok r => .ok (upd s id (some { v with filled := some (f.afterRun r) }), r.out)

/-- a history: the outputs so far are kept, the first fault ends it -/
def srun (ops : Ops) : SHeap ops → List (Op ops.Cmd ops.T) → HM (SHeap ops × List String)
  | s, [] => .ok (s, [])
  | s, op :: rest =>
    match sstep ops s op with
    | .error e => .error e
    | .ok (s', out) =>
      match srun ops s' rest with
      | .error e => .error e
      | .ok (s'', outs) => .ok (s'', out :: outs)

/-- the objects an operation needs alive / needs absent -/
def Op.wfIn {Cmd T : Type} (live : Nat → Bool) : Op Cmd T → Prop
  | .construct id _ => live id = false
  | .create id _ _ => live id = true
  | .setTrans id _ => live id = true
  | .load id _ _ => live id = true
  | .loadMissing id _ => live id = true
  | .moveConstruct dst src => live dst = false ∧ live src = true
  | .moveAssign dst src => live dst = true ∧ live src = true
  | .destroy id => live id = true
  | .reuse => True
  | .run id _ => live id = true

end ElfioVerif.Own
