/-
The ELF gABI's header records as data: field name, offset, width per class, transcribed from
the specification (System V ABI, "ELF Header", "Section Header", "Program Header").
`Spec.get` reads a field with the specification codec (`decodeInt`) — no ELFIO code involved.
-/
import ElfioVerif.Basic
namespace ElfioVerif.Spec

abbrev Layout := List (String × Nat × Nat)

def ehdr32 : Layout := [("e_ident", 0, 16), ("e_type", 16, 2), ("e_machine", 18, 2), ("e_version", 20, 4),
  ("e_entry", 24, 4), ("e_phoff", 28, 4), ("e_shoff", 32, 4), ("e_flags", 36, 4), ("e_ehsize", 40, 2),
  ("e_phentsize", 42, 2), ("e_phnum", 44, 2), ("e_shentsize", 46, 2), ("e_shnum", 48, 2), ("e_shstrndx", 50, 2)]
def ehdr64 : Layout := [("e_ident", 0, 16), ("e_type", 16, 2), ("e_machine", 18, 2), ("e_version", 20, 4),
  ("e_entry", 24, 8), ("e_phoff", 32, 8), ("e_shoff", 40, 8), ("e_flags", 48, 4), ("e_ehsize", 52, 2),
  ("e_phentsize", 54, 2), ("e_phnum", 56, 2), ("e_shentsize", 58, 2), ("e_shnum", 60, 2), ("e_shstrndx", 62, 2)]
def shdr32 : Layout := [("sh_name", 0, 4), ("sh_type", 4, 4), ("sh_flags", 8, 4), ("sh_addr", 12, 4),
  ("sh_offset", 16, 4), ("sh_size", 20, 4), ("sh_link", 24, 4), ("sh_info", 28, 4), ("sh_addralign", 32, 4),
  ("sh_entsize", 36, 4)]
def shdr64 : Layout := [("sh_name", 0, 4), ("sh_type", 4, 4), ("sh_flags", 8, 8), ("sh_addr", 16, 8),
  ("sh_offset", 24, 8), ("sh_size", 32, 8), ("sh_link", 40, 4), ("sh_info", 44, 4), ("sh_addralign", 48, 8),
  ("sh_entsize", 56, 8)]
def phdr32 : Layout := [("p_type", 0, 4), ("p_offset", 4, 4), ("p_vaddr", 8, 4), ("p_paddr", 12, 4),
  ("p_filesz", 16, 4), ("p_memsz", 20, 4), ("p_flags", 24, 4), ("p_align", 28, 4)]
def phdr64 : Layout := [("p_type", 0, 4), ("p_flags", 4, 4), ("p_offset", 8, 8), ("p_vaddr", 16, 8),
  ("p_paddr", 24, 8), ("p_filesz", 32, 8), ("p_memsz", 40, 8), ("p_align", 48, 8)]

def ehdrL (c : Cls) : Layout := match c with | .c32 => ehdr32 | .c64 => ehdr64
def shdrL (c : Cls) : Layout := match c with | .c32 => shdr32 | .c64 => shdr64
def phdrL (c : Cls) : Layout := match c with | .c32 => phdr32 | .c64 => phdr64
def ehdrSize (c : Cls) : Nat := match c with | .c32 => 52 | .c64 => 64
def shdrSize (c : Cls) : Nat := match c with | .c32 => 40 | .c64 => 64
def phdrSize (c : Cls) : Nat := match c with | .c32 => 32 | .c64 => 56

/-- offset and width of a named field (`(0,0)` if the name is not in the table) -/
def field (l : Layout) (name : String) : Nat × Nat :=
  match l.find? (fun e => e.1 == name) with
  | some e => e.2
  | none => (0, 0)

/-- value of field `name` of the record at offset `base` of `img`, per the specification -/
def get (l : Layout) (e : Enc) (img : Bytes) (base : Nat) (name : String) : Nat :=
  let (o, w) := field l name
  decodeInt e (slice img (base + o) w)

/-- identification constants of the specification -/
def ELFMAG : Bytes := [0x7f, 0x45, 0x4c, 0x46]
def EI_CLASS := 4
def EI_DATA := 5
def ELFCLASS32 := 1
def ELFCLASS64 := 2
def ELFDATA2LSB := 1
def ELFDATA2MSB := 2
def SHT_NULL := 0
def SHT_NOBITS := 8
def SHF_ALLOC := 2
def SHF_TLS := 0x400
def PT_NULL := 0
def PT_TLS := 7
def SHN_UNDEF := 0

/-- bytes from `off` up to the first NUL of `d` (none if no terminator follows) -/
def cstrAt (d : Bytes) (off : Nat) : Option Bytes :=
  if off ≥ d.length then none else
  match (d.drop off).idxOf? (0 : UInt8) with
  | some k => some ((d.drop off).take k)
  | none => none

/-- section-in-segment rule of the property text (unbounded naturals: no wrap-around) -/
def inSegment (flags sAddr sOff sSize : Nat) (pType pOff pVaddr pFilesz pMemsz : Nat) : Bool :=
  let tlsS := flags / SHF_TLS % 2 == 1
  let tlsG := pType == PT_TLS
  if tlsS != tlsG then false else
  let alloc := flags / SHF_ALLOC % 2 == 1
  let b := if alloc then sAddr else sOff
  let lo := if alloc then pVaddr else pOff
  let hi := if alloc then pVaddr + pMemsz else pOff + pFilesz
  decide (lo ≤ b) && decide (b + sSize ≤ hi) && decide (b < hi)

end ElfioVerif.Spec
