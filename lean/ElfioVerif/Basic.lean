/-
Basic vocabulary of the ELFIO model: bytes, fixed-width wrap-around, LE/BE integer
codecs and byte-string slicing, with the lemmas every layer above uses.
Core Lean + Std only (no Mathlib) so that the driver links as a native executable.
-/
namespace ElfioVerif

abbrev Bytes := List UInt8

/-- `w n x` : the value of a C++ unsigned `n`-byte integer holding `x`. -/
@[simp] def wrapB (nbytes : Nat) (x : Nat) : Nat := x % 2 ^ (8 * nbytes)
def w8  (x : Nat) : Nat := x % 256
def w16 (x : Nat) : Nat := x % 65536
def w32 (x : Nat) : Nat := x % 4294967296
def w64 (x : Nat) : Nat := x % 18446744073709551616

theorem w8_lt (x) : w8 x < 256 := Nat.mod_lt _ (by decide)
theorem w16_lt (x) : w16 x < 65536 := Nat.mod_lt _ (by decide)
theorem w32_lt (x) : w32 x < 4294967296 := Nat.mod_lt _ (by decide)
theorem w64_lt (x) : w64 x < 18446744073709551616 := Nat.mod_lt _ (by decide)
theorem w32_of_lt {x} (h : x < 4294967296) : w32 x = x := Nat.mod_eq_of_lt h
theorem w64_of_lt {x} (h : x < 18446744073709551616) : w64 x = x := Nat.mod_eq_of_lt h
theorem w16_of_lt {x} (h : x < 65536) : w16 x = x := Nat.mod_eq_of_lt h
theorem w8_of_lt {x} (h : x < 256) : w8 x = x := Nat.mod_eq_of_lt h

/-- Little-endian value of a byte string. -/
def leDecode : Bytes → Nat
  | [] => 0
  | b :: bs => b.toNat + 256 * leDecode bs

/-- Big-endian value of a byte string. -/
def beDecode (bs : Bytes) : Nat := leDecode bs.reverse

/-- `n` little-endian bytes of `x` (truncating). -/
def leEncode : Nat → Nat → Bytes
  | 0, _ => []
  | n + 1, x => UInt8.ofNat (x % 256) :: leEncode n (x / 256)

def beEncode (n x : Nat) : Bytes := (leEncode n x).reverse

@[simp] theorem leEncode_length (n x : Nat) : (leEncode n x).length = n := by
  induction n generalizing x with
  | zero => rfl
  | succ n ih => simp [leEncode, ih]

@[simp] theorem beEncode_length (n x : Nat) : (beEncode n x).length = n := by
  simp [beEncode]

theorem leDecode_lt (bs : Bytes) : leDecode bs < 2 ^ (8 * bs.length) := by
  induction bs with
  | nil => simp [leDecode]
  | cons b bs ih =>
    simp only [leDecode, List.length_cons]
    have hb : b.toNat < 256 := by
      have := b.toNat_lt; simpa using this
    have : 2 ^ (8 * (bs.length + 1)) = 256 * 2 ^ (8 * bs.length) := by
      rw [Nat.mul_add, Nat.pow_add]; simp [Nat.mul_comm]
    omega

theorem leDecode_leEncode (n x : Nat) : leDecode (leEncode n x) = x % 2 ^ (8 * n) := by
  induction n generalizing x with
  | zero => simp [leEncode, leDecode, Nat.mod_one]
  | succ n ih =>
    simp only [leEncode, leDecode, ih]
    have h1 : (UInt8.ofNat (x % 256)).toNat = x % 256 := by
      simp [UInt8.toNat_ofNat']
    rw [h1]
    have : 2 ^ (8 * (n + 1)) = 256 * 2 ^ (8 * n) := by
      rw [Nat.mul_add, Nat.pow_add]; simp [Nat.mul_comm]
    rw [this, Nat.mod_mul]

theorem leEncode_leDecode (bs : Bytes) : leEncode bs.length (leDecode bs) = bs := by
  induction bs with
  | nil => rfl
  | cons b bs ih =>
    simp only [List.length_cons, leEncode, leDecode]
    have hb : b.toNat < 256 := by
      have := b.toNat_lt; simpa using this
    have h1 : (b.toNat + 256 * leDecode bs) % 256 = b.toNat := by omega
    have h2 : (b.toNat + 256 * leDecode bs) / 256 = leDecode bs := by omega
    rw [h1, h2, ih]
    simp

theorem beDecode_beEncode (n x : Nat) : beDecode (beEncode n x) = x % 2 ^ (8 * n) := by
  simp [beDecode, beEncode, leDecode_leEncode]

theorem beEncode_beDecode (bs : Bytes) : beEncode bs.length (beDecode bs) = bs := by
  have := leEncode_leDecode bs.reverse
  simp only [List.length_reverse] at this
  simp [beEncode, beDecode, this]

/-- `slice bs off len` = the bytes `[off, off+len)` (shorter when `bs` ends early). -/
def slice (bs : Bytes) (off len : Nat) : Bytes := (bs.drop off).take len

@[simp] theorem slice_length (bs : Bytes) (off len : Nat) :
    (slice bs off len).length = min len (bs.length - off) := by
  simp [slice]

theorem slice_length_of_le {bs : Bytes} {off len : Nat} (h : off + len ≤ bs.length) :
    (slice bs off len).length = len := by
  simp [slice]; omega

theorem slice_take {bs : Bytes} {k off len : Nat} (h : off + len ≤ k) :
    slice (bs.take k) off len = slice bs off len := by
  unfold slice
  rw [List.drop_take, List.take_take]
  congr 1; omega

/-- split every `if`, then close each leaf by reflexivity / index arithmetic -/
macro "ite_omega" : tactic =>
  `(tactic| ((repeat' split) <;> first | rfl | omega | (exfalso; omega) | (congr 1; omega) | simp_all))

/-- `wr b off src` : `b` with `src` written at `off` (the result of `std::copy` into a buffer) -/
def wr (b : Bytes) (off : Nat) (src : Bytes) : Bytes := b.take off ++ src ++ b.drop (off + src.length)

theorem wr_getElem? (b src : Bytes) (off i : Nat) (h : off + src.length ≤ b.length) :
    (wr b off src)[i]? =
      if i < off then b[i]? else if i < off + src.length then src[i - off]? else b[i]? := by
  unfold wr
  simp only [List.getElem?_append, List.getElem?_take, List.getElem?_drop, List.length_append,
    List.length_take]
  ite_omega

@[simp] theorem wr_length (b src : Bytes) (off : Nat) (h : off + src.length ≤ b.length) :
    (wr b off src).length = b.length := by
  unfold wr; simp; omega

/-- File encoding of an ELF integer. -/
inductive Enc | lsb | msb
  deriving DecidableEq, Repr, Inhabited

def decodeInt (e : Enc) (bs : Bytes) : Nat :=
  match e with | .lsb => leDecode bs | .msb => beDecode bs
def encodeInt (e : Enc) (n x : Nat) : Bytes :=
  match e with | .lsb => leEncode n x | .msb => beEncode n x

@[simp] theorem encodeInt_length (e n x) : (encodeInt e n x).length = n := by
  cases e <;> simp [encodeInt]

theorem decode_encodeInt (e n x) : decodeInt e (encodeInt e n x) = x % 2 ^ (8 * n) := by
  cases e <;> simp [decodeInt, encodeInt, leDecode_leEncode, beDecode_beEncode]

theorem encode_decodeInt (e) (bs : Bytes) : encodeInt e bs.length (decodeInt e bs) = bs := by
  cases e <;> simp [decodeInt, encodeInt, leEncode_leDecode, beEncode_beDecode]

inductive Cls | c32 | c64
  deriving DecidableEq, Repr, Inhabited

structure Cfg where
  cls : Cls
  enc : Enc
  deriving DecidableEq, Repr, Inhabited

/-- Faults of the checked-memory model: what the C++ would do wrong. -/
inductive Fault
  | nullDeref (site : String)
  | oobRead (site : String)
  | oobWrite (site : String)
  | vecOob (site : String)
  | divZero (site : String)
  | useAfterFree (site : String)
  | fuel (site : String)
  deriving DecidableEq, Repr, Inhabited

abbrev M := Except Fault

def Fault.render : Fault → String
  | .nullDeref s => s!"FAULT null-deref {s}"
  | .oobRead s => s!"FAULT oob-read {s}"
  | .oobWrite s => s!"FAULT oob-write {s}"
  | .vecOob s => s!"FAULT vector-oob {s}"
  | .divZero s => s!"FAULT div-zero {s}"
  | .useAfterFree s => s!"FAULT use-after-free {s}"
  | .fuel s => s!"FAULT no-return {s}"

end ElfioVerif
