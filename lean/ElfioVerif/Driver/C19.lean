/- Driver for family c19: histories of construct / create / load(file name) / move / destroy /
   container growth / observe / edit / save over several `elfio` objects.  The ownership layer is
   Model/Heap.lean (variant: all repairs applied = the code as it is after fixes/06-08); the
   contents are the object model of the loader/writer families (Obj, load, create, save), plugged
   in as the content algebra `objOps`.  Same protocol as harness/c19.cpp. -/
import ElfioVerif.Driver.Load
import ElfioVerif.Model.Heap
namespace ElfioVerif.Drv.C19
open ElfioVerif ElfioVerif.Drv ElfioVerif.Own

/-- contents = an `Obj` whose convertor setting, translation table, stream and layout cursor are
    blanked (they live in the ownership layer / are dead state) -/
def fromObj (o : Obj) : Obj :=
  { o with enc := .lsb, trans := [], stream := { data := [] }, curPos := 0 }

def toObj (env : Env (List Trans) IStream) (c : Obj) : Obj :=
  { c with enc := env.enc, trans := env.trans, stream := env.stream.getD { data := [] } }

/-- `obs`: header line, every section (with `get_data()`), every segment (with `get_data()`) -/
def observeAll (o : Obj) : Obj × String :=
  let rec secs (n i : Nat) (o : Obj) (acc : List String) : Obj × List String :=
    match n with
    | 0 => (o, acc)
    | n + 1 =>
      let (o, l) := Load.step o ["sec", toString i]
      secs n (i + 1) o (l :: acc)
  let rec segs (n i : Nat) (o : Obj) (acc : List String) : Obj × List String :=
    match n with
    | 0 => (o, acc)
    | n + 1 =>
      let (o, l) := Load.step o ["seg", toString i]
      segs n (i + 1) o (l :: acc)
  let h := Load.hdrLine o
  let (o, a) := secs (o.secs.length % 65536) 0 o [h]
  let (o, a) := segs (o.segs.length % 65536) 0 o a
  (o, " | ".intercalate a.reverse)

def objOps : Ops where
  C := Obj
  Cmd := List String
  T := List Trans
  S := IStream
  noTrans := []
  noStream := { data := [], fail := true, kind := .file }
  create := fun c e => (ElfioVerif.create {} c e).map fromObj
  clear := fun o => { o with secs := [], segs := [] }
  load := fun tr img isLazy => do
    -- what is rebuilt does not depend on what the object held: run the loader on an object without header
    let r ← ElfioVerif.load { trans := tr } { data := img, kind := .file } isLazy
    pure { res := if r.obj.hdr.isSome then some (r.obj.enc, fromObj r.obj) else none,
           stream := r.obj.stream, out := s!"load={r.ok}" }
  run := fun env cmd c =>
    let o := toObj env c
    let fin (o' : Obj) (out : String) : RunOut Obj IStream :=
      { content := fromObj o', stream := env.stream.map (fun _ => o'.stream), out := out }
    match cmd with
    | ["obs"] => let (o', out) := observeAll o; pure (fin o' out)
    | _ =>
      match Load.wstep { o := o } cmd with
      | some r => do let (d, out) ← r; pure (fin d.o out)
      | none => pure (fin o "bad-op")
  emptyOut := fun cmd =>
    match cmd with
    | ["obs"] => Load.hdrLine {}
    | "save" :: _ => "save=false bytes=-"
    | _ => "empty"

structure St where
  heap : Heap objOps := Heap.empty objOps
  vec : Vec := { next := 1000 }

def nameId (st : St) (n : String) : Option Nat :=
  if n.startsWith "o" then some (parseNat (n.drop 1).toString)
  else if n.startsWith "v" then st.vec.elems[parseNat (n.drop 1).toString]?
  else none

/-- the model operations one protocol line stands for, and the new vector state -/
def opsOf (st : St) (t : List String) : Option (Vec × List (Op objOps.Cmd objOps.T) × String) :=
  let one (n : String) (f : Nat → Op objOps.Cmd objOps.T) :=
    (nameId st n).map fun i => (st.vec, [f i], "")
  match t with
  | "new" :: n :: rest => one n (fun i => .construct i (kvn rest "comp" 0 == 1))
  | "create" :: n :: rest => one n (fun i => .create i (Load.clsOf rest) (Load.encOf rest))
  | "trans" :: n :: rest => one n (fun i => .setTrans i (Load.sortTrans (Load.parseTrans rest)))
  | "load" :: n :: h :: rest => one n (fun i => .load i (bytesOfHex h) (kvn rest "lazy" 0 == 1))
  | "loadmissing" :: n :: rest => one n (fun i => .loadMissing i (kvn rest "lazy" 0 == 1))
  | ["mc", d, s] => (nameId st d).bind fun di => (nameId st s).map fun si => (st.vec, [.moveConstruct di si], "")
  | ["ma", d, s] => (nameId st d).bind fun di => (nameId st s).map fun si => (st.vec, [.moveAssign di si], "")
  | ["del", n] => one n (fun i => .destroy i)
  | ["reuse"] => some (st.vec, [.reuse], "")
  | ["vnew"] =>
    let (v, ops) := st.vec.push none
    some (v, ops, s!" cap={v.cap}")
  | ["vpush", s] => (nameId st s).map fun si =>
    let (v, ops) := st.vec.push (some si)
    (v, ops, s!" cap={v.cap}")
  | "obs" :: n :: _ => one n (fun i => .run i ["obs"])
  | "save" :: n :: rest => one n (fun i => .run i ("save" :: rest))
  | "ed" :: n :: rest => one n (fun i => .run i rest)
  | _ => none

def runCase (lines : List (List String)) : List String :=
  let rec go (st : St) (ls : List (List String)) (acc : List String) : List String :=
    match ls with
    | [] => ("teardown=ok" :: acc).reverse
    | t :: rest =>
      match opsOf st t with
      | none => go st rest ("bad-op" :: acc)
      | some (vec, ops, sfx) =>
        match runOps Variant.fixed st.heap ops with
        | .ok (h, outs) => go { heap := h, vec := vec } rest ((outs.getLastD "ok" ++ sfx) :: acc)
        | .error (.noObject _) => go st rest ("no-object" :: acc)
        | .error (.illFormed _) => go st rest ("no-object" :: acc)
        | .error e => (e.toFault.render :: acc).reverse
  go {} lines []

end ElfioVerif.Drv.C19
