/- Driver for the symbol-table family (C09): same line protocol as harness/c09.cpp. -/
import ElfioVerif.Driver.Common
import ElfioVerif.Model.Symbols
import ElfioVerif.Spec.Symbols
namespace ElfioVerif.Drv.C09
open ElfioVerif ElfioVerif.Drv ElfioVerif.Gen

/-- the sentinels harness/c09.cpp puts into the out-parameters -/
def sentinel : Attrs :=
  { value := 0x1111111111111111#64, size := 0x2222222222222222#64, bind := 0x33#8, typ := 0x44#8,
    shndx := 0x5555#16, other := 0x66#8 }

def renderAttrs (name : Option Bytes) (withValue : Bool) (a : Attrs) : String :=
  "true" ++ (match name with | some n => s!" name={hexOfBytes n}" | none => "")
    ++ (if withValue then s!" value={a.value.toNat}" else "")
    ++ s!" size={a.size.toNat} bind={a.bind.toNat} type={a.typ.toNat} shndx={a.shndx.toNat} other={a.other.toNat}"

structure St where
  tab : SymTab
  saved : Option (Bytes × Bytes × Option Bytes) := none   -- views of symtab, strtab, hash at `save`

def cfgOf (t : List String) : Cfg :=
  { cls := if kvn t "cls" 64 == 32 then .c32 else .c64,
    enc := if kv? t "enc" == some "msb" then .msb else .lsb }

def cstrOf (b : Bytes) : Bytes := b.takeWhile (· ≠ 0)

/-- the bytes a section contributes to the saved file / shows after `get_data()` -/
def viewOf (s : SecBuf) : Bytes := s.getData.view

def reloadSec (lazy_ : Bool) (s : SecBuf) (d : Bytes) : SecBuf :=
  let ss : BitVec 64 := BitVec.ofNat 64 (2 ^ 62)
  let b := if lazy_ then SecBuf.loadedLazy s.cls s.stype d ss else SecBuf.loadedEager s.cls s.stype d ss
  { b with entSize := s.entSize, link := s.link }

/-- names of the current entries (index order), read through the model -/
def currentNames (tb : SymTab) : List Bytes :=
  match tb.symbolsNum with
  | .error _ => []
  | .ok n => (List.range n.toNat).map fun i =>
      match tb.getSymbol (BitVec.ofNat 64 i) [] {} with
      | .ok r => r.2.1
      | .error _ => []

/-- the section the ABI construction of Spec/Symbols.lean gives for the current table and the
    parameters on a `sethash` line (`none`: the line carries no parameters) -/
def specTable (tb : SymTab) (args : List String) : Option Bytes :=
  match kv? args "nb" with
  | none => none
  | some _ =>
    let names := currentNames tb
    let nb := kvn args "nb" 1
    if kvn args "type" SHT_HASH == SHT_HASH then
      if names.isEmpty then some (Spec.buildSysvEmpty tb.cfg.enc nb)
      else some (Spec.buildSysv tb.cfg.enc nb ((names.drop 1).map fun n => (Spec.sysvHash (SymTab.cName n)).toNat))
    else
      let so := kvn args "so" 1
      let w := match tb.cfg.cls with | .c32 => 4 | .c64 => 8
      some (Spec.buildGnu tb.cfg.enc w nb so (kvn args "bs" 1) (kvn args "sh" 0)
        ((names.drop so).map fun n => (Spec.gnuHash (SymTab.cName n)).toNat))

def step (st : Option St) (t : List String) : Option St × String :=
  match t with
  | ["hash", h] =>
    let s := SymTab.cName (bytesOfHex h)
    (st, s!"elf={(elf_hash s).toNat} gnu={(elf_gnu_hash s).toNat}")
  | "new" :: rest =>
    let cfg := cfgOf rest
    let t0 := SymTab.fresh cfg
    let es := kvn rest "entsize" (SymTab.symSizeOf cfg.cls)
    (some { tab := { t0 with sym := { t0.sym with entSize := BitVec.ofNat 64 es } } }, "ok")
  | op :: args =>
    match st with
    | none => (none, "bad-op no-file")
    | some s =>
      let tb := s.tab
      let fin (r : M (St × String)) : Option St × String :=
        match r with
        | .ok (s', o) => (some s', o)
        | .error f => (none, f.render)
      match op, args with
      | "add", [n, v, z, b, ty, o, x] =>
        fin ((tb.addSymbolStr (cstrOf (bytesOfHex n)) (BitVec.ofNat 64 (parseNat v)) (BitVec.ofNat 64 (parseNat z))
              (BitVec.ofNat 8 (parseNat b)) (BitVec.ofNat 8 (parseNat ty)) (BitVec.ofNat 8 (parseNat o))
              (BitVec.ofNat 16 (parseNat x))) >>= fun (t', i) => pure ({ s with tab := t' }, s!"idx={i.toNat}"))
      | "addi", [n, v, z, i, o, x] =>
        fin ((tb.addSymbol (BitVec.ofNat 32 (parseNat n)) (BitVec.ofNat 64 (parseNat v)) (BitVec.ofNat 64 (parseNat z))
              (BitVec.ofNat 8 (parseNat i)) (BitVec.ofNat 8 (parseNat o)) (BitVec.ofNat 16 (parseNat x)))
             >>= fun (t', i) => pure ({ s with tab := t' }, s!"idx={i.toNat}"))
      | "addbt", [n, v, z, b, ty, o, x] =>
        fin ((tb.addSymbolBT (BitVec.ofNat 32 (parseNat n)) (BitVec.ofNat 64 (parseNat v)) (BitVec.ofNat 64 (parseNat z))
              (BitVec.ofNat 8 (parseNat b)) (BitVec.ofNat 8 (parseNat ty)) (BitVec.ofNat 8 (parseNat o))
              (BitVec.ofNat 16 (parseNat x))) >>= fun (t', i) => pure ({ s with tab := t' }, s!"idx={i.toNat}"))
      | "num", [] => fin (tb.symbolsNum >>= fun n => pure (s, s!"num={n.toNat}"))
      | "get", [i] =>
        fin ((tb.getSymbol (BitVec.ofNat 64 (parseNat i)) [0x3f] sentinel) >>= fun r =>
             pure (s, if r.1 then renderAttrs (some r.2.1) true r.2.2 else "false"))
      | "byname", [n] =>
        fin ((tb.getByName (bytesOfHex n) sentinel) >>= fun r =>
             pure (s, if r.1 then renderAttrs none true r.2 else "false"))
      | "hlookup", [n] =>
        match tb.hash with
        | none => (st, "nohash")
        | some h =>
          fin ((if h.stype == BitVec.ofNat 32 SHT_HASH then tb.hashLookup h (bytesOfHex n) sentinel
                else tb.gnuLookup h (bytesOfHex n) sentinel) >>= fun r =>
               pure (s, if r.1 then renderAttrs none true r.2 else "false"))
      | "byvalue", [v] =>
        fin ((tb.getByValue (BitVec.ofNat 64 (parseNat v)) [0x3f] sentinel) >>= fun r =>
             pure (s, if r.1 then renderAttrs (some r.2.1) false r.2.2 else "false"))
      | "sethash", _ =>
        let d := bytesOfHex ((kv? args "data").getD "-")
        let ty := BitVec.ofNat 32 (kvn args "type" SHT_HASH)
        let h0 : SecBuf := match tb.hash with
          | some h => { h with stype := ty }
          | none => SecBuf.fresh tb.cfg.cls ty
        -- the attached table is compared with the Lean-side ABI construction (ties the generator's
        -- Python construction to `Spec.buildSysv` / `Spec.buildGnu`, about which the theorems speak)
        let verdict := match specTable tb args with
          | none => "ok"
          | some b => if b == d then "ok" else "ok spec-table-differs"
        fin ((h0.setData (some d) (BitVec.ofNat 64 d.length)) >>= fun h =>
             pure ({ s with tab := { tb with hash := some h } }, verdict))
      | "save", [] =>
        let sy := viewOf tb.sym
        let sr := (tb.str.map viewOf).getD []
        (some { s with saved := some (sy, sr, tb.hash.map viewOf) },
         s!"symtab={hexOfBytes sy} strtab={hexOfBytes sr}")
      | "reload", _ =>
        match s.saved with
        | none => (st, "bad-op nothing-saved")
        | some (sy, sr, hs) =>
          let lz := kvn args "lazy" 0 == 1
          let t' : SymTab :=
            { tb with sym := reloadSec lz tb.sym sy,
                      str := tb.str.map (fun x => reloadSec lz x sr),
                      hash := match tb.hash, hs with
                        | some h, some d => some (reloadSec lz h d)
                        | _, _ => none }
          (some { s with tab := t' }, "ok")
      | _, _ => (st, "bad-op")
  | [] => (st, "bad-op")

def runCase (ops : List (List String)) : List String :=
  let rec go (st : Option St) (ops : List (List String)) (acc : List String) : List String :=
    match ops with
    | [] => acc.reverse
    | t :: rest =>
      let (st', out) := step st t
      if out.startsWith "FAULT" then (out :: acc).reverse else go st' rest (out :: acc)
  go none ops []

end ElfioVerif.Drv.C09
