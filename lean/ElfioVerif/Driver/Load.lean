/- Driver for the loader family: same protocol as harness/load.cpp. -/
import ElfioVerif.Driver.Common
import ElfioVerif.Model.Load
import ElfioVerif.Model.Validate
import ElfioVerif.Model.Writer
import ElfioVerif.Model.Inspect
import ElfioVerif.Driver.LoadC18
namespace ElfioVerif.Drv.Load
open ElfioVerif ElfioVerif.Drv

def fnv (bs : Bytes) : Nat :=
  (bs.foldl (fun (h : UInt64) b => (h ^^^ b.toUInt64) * 1099511628211) 1469598103934665603).toNat

def dataStr (d : Option Bytes) (n : Nat) : String :=
  match d with
  | none => "null"
  | some a =>
    let v := a.take n
    if n ≤ 64 then hexOfBytes v else s!"len:{n}:fnv:{fnv v}"

def joinNats (l : List Nat) : String :=
  if l.isEmpty then "-" else ",".intercalate (l.map toString)

def parseTrans : List String → List Trans
  | a :: b :: c :: rest =>
    let toI (s : String) : Int := (BitVec.ofNat 64 (parseNat s)).toInt
    { start := toI a, size := toI b, mappedTo := toI c } :: parseTrans rest
  | _ => []

def sortTrans (l : List Trans) : List Trans :=
  (l.toArray.qsort (fun a b => a.start < b.start)).toList

def hdrLine (o : Obj) : String :=
  match o.hdr with
  | none => "class=0 ver=0 enc=0 version=0 ehsize=0 shentsize=0 phentsize=0 osabi=0 abiver=0 type=0 machine=0 flags=0 entry=0 shoff=0 phoff=0 shstrndx=0 nsec=" ++ toString (o.secs.length % 65536) ++ " nseg=" ++ toString (o.segs.length % 65536)
  | some h =>
    let c := o.cls; let e := o.enc
    s!"class={(Hdr.ident h Gen.EI_CLASS).toNat} ver={(Hdr.ident h Gen.EI_VERSION).toNat} enc={(Hdr.ident h Gen.EI_DATA).toNat} version={(Hdr.e_version c e h).toNat} ehsize={(Hdr.e_ehsize c e h).toNat} shentsize={(Hdr.e_shentsize c e h).toNat} phentsize={(Hdr.e_phentsize c e h).toNat} osabi={(Hdr.ident h Gen.EI_OSABI).toNat} abiver={(Hdr.ident h Gen.EI_ABIVERSION).toNat} type={(Hdr.e_type c e h).toNat} machine={(Hdr.e_machine c e h).toNat} flags={(Hdr.e_flags c e h).toNat} entry={(Hdr.e_entry c e h).toNat} shoff={(Hdr.e_shoff c e h).toNat} phoff={(Hdr.e_phoff c e h).toNat} shstrndx={(Hdr.e_shstrndx c e h).toNat} nsec={o.secs.length % 65536} nseg={o.segs.length % 65536}"

def secLine (b : SecBuf) (withData : Bool) : String :=
  s!"idx={b.index % 65536} name={hexOfBytes b.name} nameoff={b.nameOff.toNat} type={b.stype.toNat} flags={b.flags.toNat} addr={b.addr.toNat} off={b.offset.toNat} size={b.size.toNat} link={b.link.toNat} info={b.info.toNat} align={b.addrAlign.toNat} entsize={b.entSize.toNat} data=" ++
    (if withData then dataStr b.data b.size.toNat else "skipped")

def segLine (g : Seg) (withData : Bool) : String :=
  s!"idx={g.index % 65536} type={g.stype.toNat} flags={g.flags.toNat} off={g.offset.toNat} vaddr={g.vaddr.toNat} paddr={g.paddr.toNat} filesz={g.filesz.toNat} memsz={g.memsz.toNat} align={g.align.toNat} members={joinNats (g.secs.map (·.toNat))} data=" ++
    (if withData then dataStr g.data g.filesz.toNat else "skipped")

def clsOf (t : List String) : Cls := if kvn t "cls" 64 == 32 then .c32 else .c64
def encOf (t : List String) : Enc := if kv? t "enc" == some "msb" then .msb else .lsb

def secSetField (c : Cls) (b : SecBuf) (f : String) (v : Nat) : SecBuf :=
  let v64 : BitVec 64 := BitVec.ofNat 64 v
  match f with
  | "type" => { b with stype := BitVec.ofNat 32 v }
  | "flags" => { b with flags := truncA c v64 }
  | "info" => { b with info := BitVec.ofNat 32 v }
  | "link" => { b with link := BitVec.ofNat 32 v }
  | "align" => { b with addrAlign := truncA c v64 }
  | "entsize" => { b with entSize := truncA c v64 }
  | "addr" => { b with addr := truncA c v64, addrSet := true }
  | "size" => b.setSize v64
  | "nameoff" => { b with nameOff := BitVec.ofNat 32 v }
  | _ => b

/-- the object and the bytes of its last save -/
structure DObj where
  o : Obj
  saved : Bytes := []

def saveLine (r : SaveRes) (sum : Bool) (file : Bool := false) : String :=
  -- `file=1`: file-name overload onto a file limited to `budget` bytes — only the result is compared
  if file then s!"save={r.ok} bytes=-" else
  if sum then s!"save={r.ok} len={r.os.content.length} fnv={fnv r.os.content}"
  else s!"save={r.ok} bytes={hexOfBytes r.os.content}"

/-- ops after which an object is no longer "as built" (they run the layout or replace the object) -/
def isSaveOp (t : List String) : Bool :=
  match t with
  | op :: _ => op == "save" || op == "savefile" || op == "reload" || op == "savefresh"
  | [] => false

def wstep (d : DObj) (t : List String) : Option (M (DObj × String)) :=
  let o := d.o
  match t with
  | "create" :: rest => some do
    let o ← create o (clsOf rest) (encOf rest)
    pure ({ d with o := o }, "ok")
  | ["hset", f, v] =>
    let v := parseNat v
    let c := o.cls; let e := o.enc
    let h := o.hdr.getD []
    let h := match f with
      | "os_abi" => Hdr.set_ident h Gen.EI_OSABI (v % 256)
      | "abi_version" => Hdr.set_ident h Gen.EI_ABIVERSION (v % 256)
      | "type" => Hdr.set_type c e h v
      | "machine" => Hdr.set_machine c e h v
      | "flags" => Hdr.set_flags c e h v
      | "entry" => Hdr.set_entry c e h v
      | _ => h
    some (pure ({ d with o := { o with hdr := o.hdr.map fun _ => h } }, "ok"))
  | "addsec" :: rest => some do
    let o ← sectionsAdd o (bytesOfHex ((kv? rest "name").getD "-"))
    let i := o.secs.length - 1
    match o.secs[i]? with
    | none => pure ({ d with o := o }, "null")
    | some b =>
      let c := o.cls
      let b := secSetField c b "type" (kvn rest "type" 1)
      let b := secSetField c b "flags" (kvn rest "flags" 0)
      let b := secSetField c b "align" (kvn rest "align" 0)
      let b := secSetField c b "entsize" (kvn rest "entsize" 0)
      let b := secSetField c b "link" (kvn rest "link" 0)
      let b := secSetField c b "info" (kvn rest "info" 0)
      let b := match kv? rest "addr" with | some a => secSetField c b "addr" (parseNat a) | none => b
      let b ← match kv? rest "data" with
        | some h => let bs := bytesOfHex h; b.setData (some bs) (BitVec.ofNat 64 bs.length)
        | none => pure b
      let b := match kv? rest "size" with | some a => secSetField c b "size" (parseNat a) | none => b
      pure ({ d with o := { o with secs := o.secs.set i b } }, s!"idx={b.index}")
  | ["secset", i, f, v] =>
    let i := parseNat i
    match o.secs[i]? with
    | none => some (pure (d, "null"))
    | some b => some (pure ({ d with o := { o with secs := o.secs.set i (secSetField o.cls b f (parseNat v)) } }, "ok"))
  | "secedit" :: i :: kind :: rest =>
    let i := parseNat i
    match o.secs[i]? with
    | none => some (pure (d, "null"))
    | some b => some do
      let b ← match kind, rest with
        | "set", [h] => let bs := bytesOfHex h; b.setData (some bs) (BitVec.ofNat 64 bs.length)
        | "app", [h] => b.appendData (bytesOfHex h)
        | "ins", [p, h] => b.insertData (BitVec.ofNat 64 (parseNat p)) (bytesOfHex h)
        | _, _ => pure b
      pure ({ d with o := { o with secs := o.secs.set i b } }, "ok")
  | "addseg" :: rest =>
    let o := segmentsAdd o
    let j := o.segs.length - 1
    match o.segs[j]? with
    | none => some (pure (d, "null"))
    | some g =>
      let c := o.cls
      let g := { g with stype := BitVec.ofNat 32 (kvn rest "type" 1), flags := BitVec.ofNat 32 (kvn rest "flags" 0),
                        align := truncA c (BitVec.ofNat 64 (kvn rest "align" 0)),
                        vaddr := truncA c (BitVec.ofNat 64 (kvn rest "vaddr" 0)),
                        paddr := truncA c (BitVec.ofNat 64 (kvn rest "paddr" 0)) }
      let g := match kv? rest "memsz" with | some a => { g with memsz := truncA c (BitVec.ofNat 64 (parseNat a)) } | none => g
      let g := match kv? rest "filesz" with | some a => { g with filesz := truncA c (BitVec.ofNat 64 (parseNat a)) } | none => g
      some (pure ({ d with o := { o with segs := o.segs.set j g } }, s!"idx={g.index}"))
  | "segadd" :: j :: i :: rest =>
    let j := parseNat j; let i := parseNat i
    match o.segs[j]? with
    | none => some (pure (d, "null"))
    | some g =>
      let al : BitVec 64 := match rest with
        | [a] => BitVec.ofNat 64 (parseNat a)
        | _ => match o.secs[i]? with | some s => s.addrAlign | none => 0
      let g := segAddSection g (BitVec.ofNat 16 i) (truncA o.cls al)
      some (pure ({ d with o := { o with segs := o.segs.set j g } }, s!"n={g.secs.length % 65536}"))
  | "save" :: rest => some do
    let os : OStream := { budget := (kv? rest "budget").map parseNat }
    let r ← save o os
    pure ({ o := r.obj, saved := if kvn rest "file" 0 == 1 then [] else r.os.content },
          saveLine r (kv? rest "out" == some "sum") (kvn rest "file" 0 == 1))
  | "savefile" :: rest =>
    -- `save(const std::string&)`: opening the file is std::filebuf's business (not modelled): by rule an
    -- unopenable path gives false without touching the object, a full device gives false after the
    -- layout ran, a writable path behaves like an unlimited stream
    match kv? rest "kind" with
    | some "ok" => some do
      let r ← save o {}
      pure ({ o := r.obj, saved := r.os.content }, saveLine r (kv? rest "out" == some "sum"))
    | some "full" => some do
      let r ← save o {}
      pure ({ d with o := r.obj }, "save=false bytes=-")
    | _ => some (pure (d, "save=false bytes=-"))
  | "forceoverlap" :: i :: j :: rest =>
    let delta := match rest with | [x] => parseNat x | _ => 0
    let b := d.saved
    if b.length < 64 then some (pure (d, "bad-op")) else
    let c : Cls := if (b.getD 4 0).toNat == 2 then .c64 else .c32
    let e : Enc := if (b.getD 5 0).toNat == 2 then .msb else .lsb
    let i := parseNat i; let j := parseNat j
    let shoff := (Hdr.e_shoff c e b).toNat; let shent := (Hdr.e_shentsize c e b).toNat
    let shnum := (Hdr.e_shnum c e b).toNat
    let fo := match c with | .c64 => 24 | .c32 => 16
    let w := match c with | .c64 => 8 | .c32 => 4
    if i ≥ shnum || j ≥ shnum || shoff + (max i j + 1) * shent > b.length then some (pure (d, "bad-op")) else
    let oi := decodeInt e (slice b (shoff + i * shent + fo) w)
    some (pure ({ d with saved := wr b (shoff + j * shent + fo) (encodeInt e w (oi + delta)) }, "ok"))
  | ["skew", j, dl] =>
    let b := d.saved
    if b.length < 64 then some (pure (d, "bad-op")) else
    let c : Cls := if (b.getD 4 0).toNat == 2 then .c64 else .c32
    let e : Enc := if (b.getD 5 0).toNat == 2 then .msb else .lsb
    let j := parseNat j
    let phoff := (Hdr.e_phoff c e b).toNat; let phent := (Hdr.e_phentsize c e b).toNat
    let phnum := (Hdr.e_phnum c e b).toNat
    let fo := match c with | .c64 => 16 | .c32 => 8
    let w := match c with | .c64 => 8 | .c32 => 4
    if j ≥ phnum || phoff + (j + 1) * phent > b.length then some (pure (d, "bad-op")) else
    let v := decodeInt e (slice b (phoff + j * phent + fo) w)
    some (pure ({ d with saved := wr b (phoff + j * phent + fo) (encodeInt e w (v + parseNat dl)) }, "ok"))
  | "reload" :: rest => some do
    let r ← load o { data := d.saved, kind := .str } (kvn rest "lazy" 0 == 1)
    pure ({ d with o := r.obj }, s!"load={r.ok}")
  | _ => none

-- ---- C01 inspection ops: helpers (same formats as harness/load.cpp) ----

/-- bytes as the harness' `datastr( p, n )` prints them -/
def bytesStr (v : Bytes) : String :=
  if v.length ≤ 64 then hexOfBytes v else s!"len:{v.length}:fnv:{fnv v}"

/-- boundary index set {0,1,count-1,count,count+1,size-1,size,2^32-1[,2^64-1]}, distinct, in this order -/
def bidx (count : Nat) (size : Option Nat) (wide : Bool) : List Nat :=
  let c := [0, 1] ++ (if count ≥ 1 then [count - 1] else []) ++ [count, count + 1] ++
    (match size with
     | some sz => (if sz ≥ 1 then [sz - 1] else []) ++ [sz]
     | none => []) ++ [4294967295] ++ (if wide then [18446744073709551615] else [])
  (c.filter fun v => wide || v ≤ 4294967295).eraseDups

def noteStr : Option NoteOut → String
  | none => "false"
  | some n => s!"{n.type.toNat}/{bytesStr n.name}/" ++
      (match n.desc with | some d => bytesStr d | none => "null") ++ s!"/{n.descSize.toNat}"

def dynStr : GetRes → String
  | .invalid => "false/0/0/-"
  | .nostr t v => s!"false/{t.toNat}/{v.toNat}/-"
  | .ok t v s => s!"true/{t.toNat}/{v.toNat}/{bytesStr s}"

def symStr (r : Inspect.SymOut) : String :=
  s!"{r.ret}/{bytesStr r.name}/{r.attrs.value.toNat}/{r.attrs.size.toNat}/{r.attrs.bind.toNat}/{r.attrs.typ.toNat}/{r.attrs.shndx.toNat}/{r.attrs.other.toNat}"

def attrStr (a : Modinfo.Attr) : String := bytesStr a.1 ++ "=" ++ bytesStr a.2

/-- runs the queries one after the other on the model (`Inspect.inspect`); the first fault ends the op -/
def runQueries (o : Obj) (qs : List Inspect.Query) (render : Inspect.Query → Inspect.Out → String) :
    Obj × Except String (List String) :=
  let rec go (o : Obj) (qs : List Inspect.Query) (acc : List String) : Obj × Except String (List String) :=
    match qs with
    | [] => (o, .ok acc.reverse)
    | q :: rest =>
      match Inspect.inspect o q with
      | .error f => (o, .error f.render)
      | .ok (o1, out) => go o1 rest (render q out :: acc)
  go o qs []

/-- `count query`, then the per-index queries of the boundary set, all through `Inspect.inspect` -/
def countedOp (o : Obj) (name : String) (numQ : Inspect.Query) (size : Obj → Option Nat) (wide : Bool)
    (idxQ : Nat → Inspect.Query) (render : Inspect.Out → String) : Obj × String :=
  match Inspect.inspect o numQ with
  | .error f => (o, f.render)
  | .ok (o1, .num n) =>
    let ks := bidx n (size o1) wide
    match runQueries o1 (ks.map idxQ) (fun _ out => render out) with
    | (o2, .ok outs) =>
      (o2, s!"{name} n={n}" ++ String.join ((ks.zip outs).map fun (k, s) => s!" {k}:{s}"))
    | (o2, .error e) => (o2, e)
  | .ok (o1, _) => (o1, "null")

def modinfoOp (o : Obj) (i : Nat) : Obj × String :=
  match Inspect.inspect o (.modinfo i) with
  | .error f => (o, f.render)
  | .ok (o1, .attrs c) =>
    let n := (Modinfo.num c).toNat
    let ks := bidx n none false
    let names : List Bytes := (match c.head? with | some a => if n > 0 then [a.1] else [] | none => []) ++
      ["zz_absent".toUTF8.toList]
    let qs := ks.map (fun k => Inspect.Query.modinfoGet i (BitVec.ofNat 32 k)) ++
      names.map (fun f => Inspect.Query.modinfoByName i f)
    let render (q : Inspect.Query) (out : Inspect.Out) : String :=
      match q, out with
      | .modinfoGet _ k, .attr (some a) => s!" get:{k.toNat}:{attrStr a}"
      | .modinfoGet _ k, _ => s!" get:{k.toNat}:false"
      | .modinfoByName _ f, .value (some v) => s!" byname:{bytesStr f}={bytesStr v}"
      | .modinfoByName _ f, _ => s!" byname:{bytesStr f}=false"
      | _, _ => ""
    match runQueries o1 qs render with
    | (o2, .ok outs) =>
      (o2, s!"modinfo n={n}" ++ String.join (((c.take n).take 64).map fun a => " " ++ attrStr a) ++ String.join outs)
    | (o2, .error e) => (o2, e)
  | .ok (o1, _) => (o1, "null")

/-- the C01 inspection ops; `none`: not one of them -/
def inspectStep (o : Obj) (t : List String) : Option (Obj × String) :=
  match t with
  | ["notes", i] =>
    let i := parseNat i
    some (countedOp o "notes" (.noteNum i) (fun o => (o.secs[i]?).map (·.size.toNat)) false
      (fun k => .note i (BitVec.ofNat 32 k)) (fun out => match out with | .note r => noteStr r | _ => "?"))
  | ["segnotes", j] =>
    let j := parseNat j
    some (countedOp o "segnotes" (.segNoteNum j) (fun o => (o.segs[j]?).map (·.filesz.toNat)) false
      (fun k => .segNote j (BitVec.ofNat 32 k)) (fun out => match out with | .note r => noteStr r | _ => "?"))
  | ["dyn", i] =>
    let i := parseNat i
    some (countedOp o "dyn" (.dynNum i) (fun _ => none) true
      (fun k => .dyn i (BitVec.ofNat 64 k)) (fun out => match out with | .dyn r => dynStr r | _ => "?"))
  | ["syms", i] =>
    let i := parseNat i
    some (countedOp o "syms" (.symNum i) (fun _ => none) true
      (fun k => .sym i (BitVec.ofNat 64 k)) (fun out => match out with | .sym r => symStr r | _ => "?"))
  | ["modinfo", i] => some (modinfoOp o (parseNat i))
  | ["dump"] =>
    match Inspect.inspect o .dump with
    | .error f => some (o, f.render)
    | .ok (o1, _) => some (o1, "dump=ok")
  | _ => none
-- ---- end of C01 inspection helpers ----

def step (o : Obj) (t : List String) : Obj × String :=
  -- ---- C01 inspection ops (notes, segnotes, dyn, syms, modinfo, dump): Model/Inspect.lean
  match inspectStep o t with
  | some r => r
  | none =>
  match t with
  | "trans" :: rest => ({ o with trans := sortTrans (parseTrans rest) }, "ok")
  | "load" :: h :: rest =>
    let img := bytesOfHex h
    let kind := if kv? rest "kind" == some "file" then StreamKind.file else StreamKind.str
    let isLazy := kvn rest "lazy" 0 == 1
    match load o { data := img, kind := kind } isLazy with
    | .ok r => (r.obj, s!"load={r.ok} allocs={joinNats r.allocs}")
    | .error f => (o, f.render)
  | ["hdr"] => (o, hdrLine o)
  | "sec" :: i :: rest =>
    let i := parseNat i
    match o.secs[i]? with
    | none => (o, "null")
    | some b =>
      if kvn rest "data" 1 == 0 then (o, secLine b false) else
      let (ls, b) := secGetData o.cls o.trans { st := o.stream } b
      ({ o with secs := o.secs.set i b, stream := ls.st }, secLine b true)
  | "seg" :: i :: rest =>
    let i := parseNat i
    match o.segs[i]? with
    | none => (o, "null")
    | some g =>
      if kvn rest "data" 1 == 0 then (o, segLine g false) else
      let (ls, g) := segGetData o.cls o.trans { st := o.stream } g
      ({ o with segs := o.segs.set i g, stream := ls.st }, segLine g true)
  | ["secfree", i] =>
    let i := parseNat i
    match o.secs[i]? with
    | none => (o, "ok")
    | some b => ({ o with secs := o.secs.set i b.freeData }, "ok")
  | ["segfree", i] =>
    let i := parseNat i
    match o.segs[i]? with
    | none => (o, "ok")
    | some g => ({ o with segs := o.segs.set i (if g.isLazy then { g with data := none, isLoaded := false } else g) }, "ok")
  | ["str", i, k] =>
    let i := parseNat i
    match o.secs[i]? with
    | none => (o, "null")
    | some b =>
      let (ls, b) := secGetData o.cls o.trans { st := o.stream } b
      let o := { o with secs := o.secs.set i b, stream := ls.st }
      match getString b (BitVec.ofNat 32 (parseNat k)) with
      | .ok (some s) => (o, s!"str={hexOfBytes s}")
      | .ok none => (o, "str=null")
      | .error f => (o, f.render)
  | ["validate"] =>
    let cs := validate o
    let ov := cs.filter (fun c => match c with | .overlap _ _ => true | _ => false) |>.length
    let cf := cs.filterMap (fun c => match c with | .conflict h => some h | _ => none)
    (o, s!"validate overlaps={ov} conflicts={joinNats cf}")
  | _ => (o, "bad-op")

def runCase (ops : List (List String)) : List String :=
  -- a default-constructed elfio: create(ELFCLASS32, ELFDATA2LSB)
  let o0 : Obj := match create {} .c32 .lsb with | .ok o => o | .error _ => {}
  let d0 : DObj := { o := o0 }
  -- `fresh`: the objects as they would be had no save/savefile/reload been executed (what the
  -- harness rebuilds for `savefresh`); `none` while identical to `objs`
  let rec go (objs : List DObj) (fresh : Option (List DObj)) (flen : Option Nat) (cur : Nat) (ops : List (List String)) (acc : List String) : List String :=
    match ops with
    | [] => acc.reverse
    | ["obj", k] :: rest =>
      let k := parseNat k
      let ext (l : List DObj) := if l.length ≤ k then l ++ List.replicate (k + 1 - l.length) d0 else l
      go (ext objs) (fresh.map ext) none k rest ("ok" :: acc)
    | ("savefresh" :: args) :: rest =>
      let d := (fresh.getD objs).getD cur d0
      -- `rel=r`: budget = length of the complete file + r (r may be negative); the length is cached in `flen`
      let budget : M (Option Nat × Option Nat) := match kv? args "rel" with
        | some r => do
          let len ← match flen with
            | some n => pure n
            | none => do let r0 ← save d.o {}; pure r0.os.content.length
          let ri : Int := if r.startsWith "-" then - Int.ofNat (parseNat (r.drop 1).toString) else Int.ofNat (parseNat r)
          pure (some (Int.ofNat len + ri).toNat, some len)
        | none => pure ((kv? args "budget").map parseNat, flen)
      match budget >>= fun (b, fl) => (save d.o { budget := b }).map fun r => (r, fl) with
      | .ok (r, fl) => go objs fresh fl cur rest (saveLine r (kv? args "out" == some "sum") (kvn args "file" 0 == 1) :: acc)
      | .error f => (f.render :: acc).reverse
    | t :: rest =>
      let d := objs.getD cur d0
      let fresh' : Option (List DObj) :=
        if isSaveOp t then some (fresh.getD objs)
        else match fresh with
          | none => none
          | some fl =>
            let fd := fl.getD cur d0
            match wstep fd t with
            | some (.ok (fd', _)) => some (fl.set cur fd')
            | some (.error _) => some fl
            | none => some (fl.set cur { fd with o := (step fd.o t).1 })
      let flen' := if isSaveOp t then flen else none
      match wstep d t with
      | some (.ok (d', out)) => go (objs.set cur d') fresh' flen' cur rest (out :: acc)
      | some (.error f) => (f.render :: acc).reverse
      | none =>
        -- ---- C18 table query ops (rel, symname, symvalue, arr32, arr64, versym, verneed, verdef, arrange, swap, alarm)
        let (o', out) := match LoadC18.step d.o t with | some r => r | none => step d.o t
        if out.startsWith "FAULT" then (out :: acc).reverse
        else go (objs.set cur { d with o := o' }) fresh' flen' cur rest (out :: acc)
  go [d0] none none 0 ops []

end ElfioVerif.Drv.Load
