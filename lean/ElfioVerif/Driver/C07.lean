/- Driver for the section-buffer family (C07): same line protocol as harness/c07.cpp. -/
import ElfioVerif.Driver.Common
import ElfioVerif.Model.SecBuf
namespace ElfioVerif.Drv.C07
open ElfioVerif ElfioVerif.Drv

def render (b : SecBuf) : String :=
  let d := match b.data with
    | none => "null"
    | some _ => hexOfBytes b.view
  s!"size={b.size.toNat} data={d}"

def clsOf (t : List String) : Cls := if kvn t "cls" 64 == 32 then .c32 else .c64

/-- state: the section under test (none before `new`/`loadsec`) -/
def step (st : Option SecBuf) (t : List String) : Option SecBuf × String :=
  match t with
  | "new" :: rest =>
    let b := SecBuf.fresh (clsOf rest) (BitVec.ofNat 32 (kvn rest "type" 1))
    let b := b.getData
    (some b, render b)
  | "loadsec" :: rest =>
    let d := bytesOfHex ((kv? rest "data").getD "-")
    let ty := BitVec.ofNat 32 (kvn rest "type" 1)
    let ss := BitVec.ofNat 64 (kvn rest "stream" 0)
    let b := if kvn rest "lazy" 0 == 1 then SecBuf.loadedLazy (clsOf rest) ty d ss
             else SecBuf.loadedEager (clsOf rest) ty d ss
    (some b, s!"size={b.size.toNat}")
  | op :: args =>
    match st with
    | none => (none, "bad-op no-section")
    | some b =>
      let r : Option (M SecBuf) := match op, args with
        | "set", [h] => let bs := bytesOfHex h; some (b.setData (some bs) (BitVec.ofNat 64 bs.length))
        | "setnull", [n] => some (b.setData none (BitVec.ofNat 64 (parseNat n)))
        | "sets", [h] => let bs := bytesOfHex h; some (b.setData (some bs) (BitVec.ofNat 64 (w32 bs.length)))
        | "app", [h] => some (b.appendData (bytesOfHex h))
        | "apps", [h] => some (b.appendData (bytesOfHex h))
        | "appself", [o, n] =>
          -- append_data( get_data() + off, n ): by value, the bytes the section holds there
          let g := b.getData
          let off := parseNat o; let n := parseNat n
          if g.data.isNone || off + n > g.size.toNat then none
          else some (g.appendData ((g.view.drop off).take n))
        | "ins", [p, h] => some (b.insertData (BitVec.ofNat 64 (parseNat p)) (bytesOfHex h))
        | "inss", [p, h] => some (b.insertData (BitVec.ofNat 64 (parseNat p)) (bytesOfHex h))
        | "get", [] => some (pure b.getData)
        | "free", [] => some (pure b.freeData)
        | _, _ => none
      match r with
      | none => (st, "bad-op")
      | some (.ok b') => let b' := b'.getData; (some b', render b')
      | some (.error f) => (none, f.render)
  | [] => (st, "bad-op")

def runCase (ops : List (List String)) : List String :=
  let rec go (st : Option SecBuf) (ops : List (List String)) (acc : List String) : List String :=
    match ops with
    | [] => acc.reverse
    | t :: rest =>
      let (st', out) := step st t
      if out.startsWith "FAULT" then (out :: acc).reverse else go st' rest (out :: acc)
  go none ops []

end ElfioVerif.Drv.C07
