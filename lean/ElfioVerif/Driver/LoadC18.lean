/- C18 table query ops of the loader family (same protocol as harness/c18_ops.hpp): the sections involved
   are made resident with the loader model's `secGetData` (= `section::get_data()` against the real
   stream), then the query models of Model/TableQuery.lean run on them. -/
import ElfioVerif.Driver.Common
import ElfioVerif.Model.Load
import ElfioVerif.Model.Dynamic
import ElfioVerif.Model.TableQuery
namespace ElfioVerif.Drv.LoadC18
open ElfioVerif ElfioVerif.Drv Gen

def fnv (bs : Bytes) : Nat :=
  bs.foldl (fun h b => ((h ^^^ b.toNat) * 1099511628211) % 18446744073709551616) 1469598103934665603

/-- bytes as the harness' `datastr( p, n )` prints them -/
def bytesStr (v : Bytes) : String :=
  if v.length ≤ 64 then hexOfBytes v else s!"len:{v.length}:fnv:{fnv v}"

def dataStr (d : Option Bytes) (n : Nat) : String :=
  match d with
  | none => "null"
  | some a => bytesStr (a.take n)

/-- the index set of the property: {0, 1, count-1, count, count+1, 2^32-1}, distinct, in this order -/
def bidx (count : Nat) (wide : Bool) : List Nat :=
  let c := [0, 1] ++ (if count ≥ 1 then [count - 1] else []) ++ [count] ++
    (if count + 1 < 18446744073709551616 then [count + 1] else []) ++ [4294967295]
  (c.filter fun v => wide || v ≤ 4294967295).eraseDups

/-- `sections[i]->get_data()` on the object -/
def settle (o : Obj) (i : Nat) : Option (Obj × SecBuf) :=
  match o.secs[i]? with
  | none => none
  | some b =>
    let r := secGetData o.cls o.trans { st := o.stream } b
    some ({ o with secs := o.secs.set i r.2, stream := r.1.st }, r.2)

def isHashTy (t : BitVec 32) : Bool :=
  t == BitVec.ofNat 32 SHT_HASH || t == BitVec.ofNat 32 SHT_GNU_HASH || t == BitVec.ofNat 32 DT_GNU_HASH

/-- `find_hash_section()` : index of the first section linked to section `idx` with a hash type
    (`hash_section_index`; 0 also means "none") -/
def findHash (o : Obj) (idx : Nat) : Nat :=
  let n := o.secs.length % 65536
  let rec go (l : List SecBuf) (j : Nat) : Nat :=
    match l with
    | [] => 0
    | s :: rest =>
      if j ≥ n then 0
      else if s.link.toNat == idx % 65536 && isHashTy s.stype then j else go rest (j + 1)
  go o.secs 0

/-- `symbol_section_accessor( elf, sections[i] )` : symbol section, `sections[(Elf_Half)sh_link]`, the hash
    section, all made resident -/
def symTabFor (o : Obj) (i : Nat) : Option (Obj × SymTab) :=
  match settle o i with
  | none => none
  | some (o1, b) =>
    let cfg : Cfg := ⟨o1.cls, o1.enc⟩
    let (o2, str) := match settle o1 (b.link.setWidth 16).toNat with
      | none => (o1, none)
      | some (o2, s) => (o2, some s)
    let hi := findHash o2 b.index
    let (o3, hash) := if hi == 0 then (o2, none) else
      match settle o2 hi with
      | none => (o2, none)
      | some (o3, h) => (o3, some h)
    -- (the string / hash section may be section i itself: it is settled already)
    some (o3, { cfg, sym := b, str, hash })

def tf (b : Bool) : String := if b then "true" else "false"

/-- runs `f k` for every index of `ks`, concatenating the pieces; the first fault ends the op -/
def forIdx (ks : List Nat) (f : Nat → M String) : Except String String :=
  let rec go (l : List Nat) (acc : String) : Except String String :=
    match l with
    | [] => .ok acc
    | k :: rest =>
      match f k with
      | .error e => .error e.render
      | .ok s => go rest (acc ++ s)
  go ks ""

def finish (o : Obj) (pre : String) (r : Except String String) : Obj × String :=
  match r with
  | .ok s => (o, pre ++ s)
  | .error e => (o, e)

/-- `DT_VERNEEDNUM` / `DT_VERDEFNUM` as the constructors of the version accessors find it: the dynamic
    accessor (C12's model) on the first section named `.dynamic` -/
def dynNum (o : Obj) (tag : Nat) : M (Obj × BitVec 32) :=
  let nm : Bytes := ".dynamic".toUTF8.toList
  match o.secs.findIdx? (fun s => s.name == nm) with
  | none => pure (o, 0)
  | some di =>
    match settle o di with
    | none => pure (o, 0)
    | some (o1, d) =>
      let (o2, str) := match settle o1 (dyn_strtab_index d.link).toNat with
        | none => (o1, none)
        | some (o2, s) => (o2, some s)
      let a0 : DynAcc := { cfg := ⟨o2.cls, o2.enc⟩, sec := d, str := str }
      match a0.entriesNum with
      | .error f => .error f
      | .ok (a1, n) =>
        let rec go (fuel : Nat) (a : DynAcc) (k : BitVec 64) : M (BitVec 32) :=
          match fuel with
          | 0 => pure 0
          | fuel + 1 =>
            if k.toNat ≥ n.toNat then pure 0 else
            match a.getEntry k with
            | .error f => .error f
            | .ok (a', r) =>
              match r with
              | .ok t v _ => if t.toNat == tag then pure (v.setWidth 32) else go fuel a' (k + 1)
              | _ => go fuel a' (k + 1)
        match go n.toNat a1 0 with
        | .error f => .error f
        | .ok v => pure (o2, v)

def attrsStr (a : Attrs) : String :=
  s!"{a.size.toNat}/{a.bind.toNat}/{a.typ.toNat}/{a.shndx.toNat}/{a.other.toNat}"

/-- the C18 ops; `none`: not one of them -/
def step (o : Obj) (t : List String) : Option (Obj × String) :=
  match t with
  | ["alarm", _] => some (o, "ok")
  | "rel" :: i :: _ =>
    let i := parseNat i
    match settle o i with
    | none => some (o, "null")
    | some (o1, b) =>
      let enc := o1.enc
      let (o2, symtab) := match symTabFor o1 (TQ.relSymtabIndex b) with
        | none => (o1, none)
        | some (o2, st) => (o2, some st)
      match Reloc.entriesNum b with
      | .error f => some (o2, f.render)
      | .ok n =>
        some <| finish o2 s!"rel n={n.toNat}" <| forIdx (bidx n.toNat true) fun k =>
          match TQ.relGet enc b (BitVec.ofNat 64 k) with
          | .error f => .error f
          | .ok p =>
            let e : Reloc.Entry := p.getD { offset := 0, symbol := 0, type := 0, addend := 0 }
            match TQ.relGetResolved enc b symtab (BitVec.ofNat 64 k) with
            | .error f => .error f
            | .ok r =>
              pure (s!" {k}:p:{tf p.isSome}/{e.offset.toNat}/{e.symbol.toNat}/{e.type.toNat}/{e.addend.toNat}" ++
                    s!" {k}:r:{tf r.ret}/{r.offset.toNat}/{r.symValue.toNat}/{bytesStr r.symName}/{r.type.toNat}/{r.addend.toNat}/{r.calcValue.toNat}")
  | "symname" :: i :: h :: _ =>
    match symTabFor o (parseNat i) with
    | none => some (o, "null")
    | some (o1, st) =>
      match TQ.getByName st (bytesOfHex h) {} with
      | .error f => some (o1, f.render)
      | .ok r => some (o1, s!"symname {tf r.1}/{r.2.value.toNat}/{attrsStr r.2}")
  | "symvalue" :: i :: v :: _ =>
    match symTabFor o (parseNat i) with
    | none => some (o, "null")
    | some (o1, st) =>
      match TQ.getByValue st (BitVec.ofNat 64 (parseNat v)) [] {} with
      | .error f => some (o1, f.render)
      | .ok r => some (o1, s!"symvalue {tf r.1}/{bytesStr r.2.1}/{attrsStr r.2.2}")
  | [op, i] =>
    let i := parseNat i
    if op == "arr32" || op == "arr64" then
      match settle o i with
      | none => some (o, "null")
      | some (o1, b) =>
        let w : Arr.W := if op == "arr32" then .w4 else .w8
        let n := (Arr.entriesNum w b).toNat
        some <| finish o1 s!"{op} n={n}" <| forIdx (bidx n true) fun k =>
          match TQ.arrGet w o1.enc b (BitVec.ofNat 64 k) with
          | .error f => .error f
          | .ok r => pure s!" {k}:{tf r.isSome}/{(r.getD 0).toNat}"
    else if op == "versym" then
      match settle o i with
      | none => some (o, "null")
      | some (o1, b) =>
        let num := Versym.mk b
        let n := (Versym.entriesNum num).toNat
        some <| finish o1 s!"versym n={n}" <| forIdx (bidx n false) fun k =>
          match TQ.versymGet b num (BitVec.ofNat 32 k) with
          | .error f => .error f
          | .ok r => pure s!" {k}:{tf r.isSome}/{(r.getD 0).toNat}"
    else if op == "verneed" || op == "verdef" then
      match settle o i with
      | none => some (o, "null")
      | some (o1, b) =>
        let need := op == "verneed"
        match dynNum o1 (if need then DT_VERNEEDNUM else DT_VERDEFNUM) with
        | .error f => some (o1, f.render)
        | .ok (o2, num) =>
          -- (the `.dynamic` lookup may have made section i itself resident: take it from the object)
          let b := (o2.secs[i]?).getD b
          let (o3, str) := match settle o2 b.link.toNat with
            | none => (o2, none)
            | some (o3, s) => (o3, some s)
          let b := (o3.secs[i]?).getD b
          let enc := o3.enc
          some <| finish o3 s!"{op} n={num.toNat}" <| forIdx (bidx num.toNat false) fun k =>
            if need then
              match TQ.needGet enc b str num (BitVec.ofNat 32 k) with
              | .error f => .error f
              | .ok none => pure s!" {k}:false/0/-/0/0/0/-"
              | .ok (some v) =>
                pure s!" {k}:true/{v.version.toNat}/{bytesStr v.file}/{v.hash.toNat}/{v.flags.toNat}/{v.other.toNat}/{bytesStr v.name}"
            else
              match TQ.defGet enc b str num (BitVec.ofNat 32 k) with
              | .error f => .error f
              | .ok none => pure s!" {k}:false/0/0/0/-"
              | .ok (some v) => pure s!" {k}:true/{v.flags.toNat}/{v.ndx.toNat}/{v.hash.toNat}/{bytesStr v.name}"
    else if op == "arrange" then
      match settle o i with
      | none => some (o, "null")
      | some (o1, _) =>
        -- every OTHER relocation section linked to section i, made resident
        let n := o1.secs.length % 65536
        let idxs := (List.range n).filter fun j =>
          match o1.secs[j]? with
          | some r => j != i && (r.stype == BitVec.ofNat 32 SHT_REL || r.stype == BitVec.ofNat 32 SHT_RELA) && r.link.toNat == i
          | none => false
        let o2 := idxs.foldl (fun o j => match settle o j with | some (o', _) => o' | none => o) o1
        let rels := idxs.filterMap fun j => o2.secs[j]?
        match o2.secs[i]? with
        | none => some (o2, "null")
        | some s =>
          match TQ.arrange (TQ.swapAll o2.enc) s rels with
          | .error f => some (o2, f.render)
          | .ok (s', rels', ret) =>
            let secs := (idxs.zip rels').foldl (fun l (p : Nat × SecBuf) => l.set p.1 p.2) (o2.secs.set i s')
            let o3 := { o2 with secs := secs }
            some (o3, s!"arrange ret={ret.toNat} info={s'.info.toNat} data={dataStr s'.data s'.size.toNat}" ++
              String.join ((idxs.zip rels').map fun (p : Nat × SecBuf) => s!" rel{p.2.index % 65536}={dataStr p.2.data p.2.size.toNat}"))
    else none
  | _ => none

end ElfioVerif.Drv.LoadC18
