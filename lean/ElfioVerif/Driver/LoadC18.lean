/- C18 table query ops of the loader family (same protocol as harness/c18_ops.hpp): the sections involved
   are made resident with the loader model's `secGetData` (= `section::get_data()` against the real
   stream), then the query models of Model/TableQuery.lean run on them. -/
import ElfioVerif.Driver.Common
import ElfioVerif.Model.Load
import ElfioVerif.Model.Dynamic
import ElfioVerif.Model.TableQuery
namespace ElfioVerif.Drv.LoadC18
open ElfioVerif ElfioVerif.Drv Gen

def fnv (bs : Bytes) : Nat :=
  bs.foldl (fun h b => ((h ^^^ b.toNat) * 1099511628211) % 18446744073709551616) 1469598103934665603

/-- bytes as the harness' `datastr( p, n )` prints them -/
def bytesStr (v : Bytes) : String :=
  if v.length ≤ 64 then hexOfBytes v else s!"len:{v.length}:fnv:{fnv v}"

def dataStr (d : Option Bytes) (n : Nat) : String :=
  match d with
  | none => "null"
  | some a => bytesStr (a.take n)

/-- the index set of the property: {0, 1, count-1, count, count+1, 2^32-1}, distinct, in this order -/
def bidx (count : Nat) (wide : Bool) : List Nat :=
  let c := [0, 1] ++ (if count ≥ 1 then [count - 1] else []) ++ [count] ++
    (if count + 1 < 18446744073709551616 then [count + 1] else []) ++ [4294967295]
  (c.filter fun v => wide || v ≤ 4294967295).eraseDups

open TQ

def tf (b : Bool) : String := if b then "true" else "false"

/-- runs the queries `qs k` for every index of `ks` one after the other on the object (`TQ.runQuery`),
    concatenating the rendered results; the first fault ends the op -/
def forIdx (o : Obj) (ks : List Nat) (qs : Nat → List Query) (render : Nat → Query → Out → String) :
    Obj × Except String String :=
  let rec goQ (o : Obj) (k : Nat) (l : List Query) (acc : String) : Obj × Except String String :=
    match l with
    | [] => (o, .ok acc)
    | q :: rest =>
      match runQuery o q with
      | .error e => (o, .error e.render)
      | .ok (o1, out) => goQ o1 k rest (acc ++ render k q out)
  let rec go (o : Obj) (l : List Nat) (acc : String) : Obj × Except String String :=
    match l with
    | [] => (o, .ok acc)
    | k :: rest =>
      match goQ o k (qs k) acc with
      | (o1, .error e) => (o1, .error e)
      | (o1, .ok acc1) => go o1 rest acc1
  go o ks ""

def finish (pre : String) (r : Obj × Except String String) : Obj × String :=
  match r with
  | (o, .ok s) => (o, pre ++ s)
  | (o, .error e) => (o, e)

-- `dynNum` (the entry count the version accessors' constructors read from `.dynamic`) is `TQ.dynNum`

def attrsStr (a : Attrs) : String :=
  s!"{a.size.toNat}/{a.bind.toNat}/{a.typ.toNat}/{a.shndx.toNat}/{a.other.toNat}"

def relStr (k : Nat) (p : Option Reloc.Entry) : String :=
  let e : Reloc.Entry := p.getD { offset := 0, symbol := 0, type := 0, addend := 0 }
  s!" {k}:p:{tf p.isSome}/{e.offset.toNat}/{e.symbol.toNat}/{e.type.toNat}/{e.addend.toNat}"

def resolvedStr (k : Nat) (r : TQ.Resolved) : String :=
  s!" {k}:r:{tf r.ret}/{r.offset.toNat}/{r.symValue.toNat}/{bytesStr r.symName}/{r.type.toNat}/{r.addend.toNat}/{r.calcValue.toNat}"

/-- one query whose result is the whole output line -/
def single (o : Obj) (q : Query) (render : Out → String) : Obj × String :=
  match runQuery o q with
  | .error f => (o, f.render)
  | .ok (o1, .null) => (o1, "null")
  | .ok (o1, out) => (o1, render out)

/-- the C18 ops; `none`: not one of them -/
def step (o : Obj) (t : List String) : Option (Obj × String) :=
  match t with
  | ["alarm", _] => some (o, "ok")
  | "rel" :: i :: _ =>
    let i := parseNat i
    match settle o i with
    | none => some (o, "null")
    | some (o1, b) =>
      match Reloc.entriesNum b with
      | .error f => some (o1, f.render)
      | .ok n =>
        some <| finish s!"rel n={n.toNat}" <| forIdx o1 (bidx n.toNat true)
          (fun k => [.relGet i (BitVec.ofNat 64 k), .relGetResolved i (BitVec.ofNat 64 k)])
          (fun k _ out => match out with | .rel p => relStr k p | .resolved r => resolvedStr k r | _ => "?")
  | "symname" :: i :: h :: _ =>
    some <| single o (.symByName (parseNat i) (bytesOfHex h)) fun out =>
      match out with | .byName r => s!"symname {tf r.1}/{r.2.value.toNat}/{attrsStr r.2}" | _ => "?"
  | "symvalue" :: i :: v :: _ =>
    some <| single o (.symByValue (parseNat i) (BitVec.ofNat 64 (parseNat v))) fun out =>
      match out with | .byValue r => s!"symvalue {tf r.1}/{bytesStr r.2.1}/{attrsStr r.2.2}" | _ => "?"
  | ["swap", i, a, b] =>
    let i := parseNat i
    match runQuery o (.swap i (BitVec.ofNat 64 (parseNat a)) (BitVec.ofNat 64 (parseNat b))) with
    | .error f => some (o, f.render)
    | .ok (o1, .swapped) =>
      match o1.secs[i]? with
      | some s' => some (o1, s!"swap data={dataStr s'.data s'.size.toNat}")
      | none => some (o1, "null")
    | .ok (o1, _) => some (o1, "null")
  | [op, i] =>
    let i := parseNat i
    if op == "arr32" || op == "arr64" then
      match settle o i with
      | none => some (o, "null")
      | some (o1, b) =>
        let w : Arr.W := if op == "arr32" then .w4 else .w8
        let n := (Arr.entriesNum w b).toNat
        some <| finish s!"{op} n={n}" <| forIdx o1 (bidx n true) (fun k => [.arrGet w i (BitVec.ofNat 64 k)])
          (fun k _ out => match out with | .addr r => s!" {k}:{tf r.isSome}/{(r.getD 0).toNat}" | _ => "?")
    else if op == "versym" then
      match settle o i with
      | none => some (o, "null")
      | some (o1, b) =>
        let n := (Versym.entriesNum (Versym.mk b)).toNat
        some <| finish s!"versym n={n}" <| forIdx o1 (bidx n false) (fun k => [.versymGet i (BitVec.ofNat 32 k)])
          (fun k _ out => match out with | .half r => s!" {k}:{tf r.isSome}/{(r.getD 0).toNat}" | _ => "?")
    else if op == "verneed" || op == "verdef" then
      match settle o i with
      | none => some (o, "null")
      | some (o1, _) =>
        let need := op == "verneed"
        -- the constructor reads the entry count from `.dynamic` (C12's accessor model)
        match dynNum o1 need with
        | .error f => some (o1, f.render)
        | .ok (o2, num) =>
          some <| finish s!"{op} n={num.toNat}" <| forIdx o2 (bidx num.toNat false)
            (fun k => [if need then .needGet i num (BitVec.ofNat 32 k) else .defGet i num (BitVec.ofNat 32 k)])
            (fun k _ out => match out with
              | .need none => s!" {k}:false/0/-/0/0/0/-"
              | .need (some v) =>
                s!" {k}:true/{v.version.toNat}/{bytesStr v.file}/{v.hash.toNat}/{v.flags.toNat}/{v.other.toNat}/{bytesStr v.name}"
              | .vdef none => s!" {k}:false/0/0/0/-"
              | .vdef (some v) => s!" {k}:true/{v.flags.toNat}/{v.ndx.toNat}/{v.hash.toNat}/{bytesStr v.name}"
              | _ => "?")
    else if op == "arrange" then
      match runQuery o (.arrange i) with
      | .error f => some (o, f.render)
      | .ok (o1, .arranged ret) =>
        match o1.secs[i]? with
        | none => some (o1, "null")
        | some s' =>
          -- (sh_type / sh_link are not changed by the query: the same sections as inside it)
          let rels := (TQ.relsOf o1 i).filterMap fun j => o1.secs[j]?
          some (o1, s!"arrange ret={ret.toNat} info={s'.info.toNat} data={dataStr s'.data s'.size.toNat}" ++
            String.join (rels.map fun r => s!" rel{r.index % 65536}={dataStr r.data r.size.toNat}"))
      | .ok (o1, _) => some (o1, "null")
    else none
  | _ => none

end ElfioVerif.Drv.LoadC18
