/- Driver for the notes family (C13): same line protocol as harness/c13.cpp. -/
import ElfioVerif.Driver.Common
import ElfioVerif.Model.Note
namespace ElfioVerif.Drv.C13
open ElfioVerif ElfioVerif.Drv

structure St where
  enc : Enc
  cls : Cls
  withSeg : Bool
  sec : SecBuf
  pos : List (BitVec 64)
  seg : Option (NoteSrc × List (BitVec 64)) := none

def SHT_NOTE : BitVec 32 := BitVec.ofNat 32 Gen.SHT_NOTE

def clsOf (t : List String) : Cls := if kvn t "cls" 64 == 32 then .c32 else .c64
def encOf (t : List String) : Enc := if (kv? t "enc").getD "lsb" == "msb" then .msb else .lsb

def renderData (b : SecBuf) : String :=
  let d := match b.data with
    | none => "null"
    | some _ => hexOfBytes b.view
  s!"size={b.size.toNat} data={d}"

def renderGet (r : M (Option NoteOut)) : String :=
  match r with
  | .error f => f.render
  | .ok none => "false"
  | .ok (some o) =>
    let d := match o.desc with
      | none => "null"
      | some bs => hexOfBytes bs
    s!"type={o.type.toNat} name={hexOfBytes o.name} desc={d} dsz={o.descSize.toNat}"

def numsOf (st : St) : String :=
  let s := match st.seg with
    | none => "-"
    | some (_, p) => toString (Note.num p).toNat
  s!"num={(Note.num st.pos).toNat} segnum={s}"

/-- accessors on a loaded image whose note section (and covering segment) hold `content` -/
def attach (enc : Enc) (cls : Cls) (withSeg lazy : Bool) (content : Bytes) : M St := do
  let b := if lazy then SecBuf.loadedLazy cls SHT_NOTE content 0 else SecBuf.loadedEager cls SHT_NOTE content 0
  let (b, r) := Note.construct enc b
  let pos ← r
  let seg ← if withSeg then do
      let src := Note.segSrc content
      let p ← Note.process enc src
      pure (some (src, p))
    else pure none
  pure { enc, cls, withSeg, sec := b, pos, seg }

def step (st : Option St) (t : List String) : Option St × String :=
  match t with
  | "new" :: rest =>
    let enc := encOf rest; let cls := clsOf rest
    let (b, r) := Note.construct enc (SecBuf.fresh cls SHT_NOTE)
    match r with
    | .error f => (none, f.render)
    | .ok pos =>
      (some { enc, cls, withSeg := kvn rest "seg" 0 == 1, sec := b, pos }, s!"num={(Note.num pos).toNat}")
  | "loadsec" :: rest =>
    let d := bytesOfHex ((kv? rest "data").getD "-")
    match attach (encOf rest) (clsOf rest) (kvn rest "seg" 0 == 1) (kvn rest "lazy" 0 == 1) d with
    | .error f => (none, f.render)
    | .ok s => (some s, numsOf s)
  | op :: args =>
    match st with
    | none => (none, "bad-op no-section")
    | some s =>
      match op with
      | "add" =>
        let name := bytesOfHex ((kv? args "name").getD "-")
        let desc := bytesOfHex ((kv? args "desc").getD "-")
        let null := kvn args "null" 0 == 1 && desc.isEmpty
        match Note.add s.enc s.sec s.pos (BitVec.ofNat 32 (kvn args "type" 0)) name
            (if null then none else some desc) (BitVec.ofNat 32 desc.length) with
        | .error f => (none, f.render)
        | .ok (b, pos) =>
          let b := b.getData
          let s' := { s with sec := b, pos }
          (some s', s!"num={(Note.num pos).toNat} {renderData b}")
      | "get" =>
        let b := s.sec.getData
        (some { s with sec := b }, renderGet (Note.get s.enc b.noteSrc s.pos (BitVec.ofNat 32 (kvn args "i" 0))))
      | "gets" =>
        match s.seg with
        | none => (st, "bad-op no-segment")
        | some (src, p) => (st, renderGet (Note.get s.enc src p (BitVec.ofNat 32 (kvn args "i" 0))))
      | "num" => (st, s!"num={(Note.num s.pos).toNat}")
      | "nums" =>
        match s.seg with
        | none => (st, "bad-op no-segment")
        | some (_, p) => (st, s!"num={(Note.num p).toNat}")
      | "reacc" =>
        let (b, r) := Note.construct s.enc s.sec
        match r with
        | .error f => (none, f.render)
        | .ok pos => (some { s with sec := b, pos }, s!"num={(Note.num pos).toNat}")
      | "reload" =>
        -- save() writes the resident bytes of the section; the PT_NOTE segment covers exactly them
        let content := s.sec.getData.view
        match attach s.enc s.cls s.withSeg (kvn args "lazy" 0 == 1) content with
        | .error f => (none, f.render)
        | .ok s' =>
          let b := s'.sec.getData
          (some { s' with sec := b }, s!"{numsOf s'} {renderData b}")
      | _ => (st, "bad-op")
  | [] => (st, "bad-op")

def runCase (ops : List (List String)) : List String :=
  let rec go (st : Option St) (ops : List (List String)) (acc : List String) : List String :=
    match ops with
    | [] => acc.reverse
    | t :: rest =>
      let (st', out) := step st t
      if out.startsWith "FAULT" then (out :: acc).reverse else go st' rest (out :: acc)
  go none ops []

end ElfioVerif.Drv.C13
