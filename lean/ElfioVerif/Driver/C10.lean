/- Driver for the arrange-local-symbols family (C10): same line protocol as harness/c10.cpp. -/
import ElfioVerif.Driver.Common
import ElfioVerif.Model.Arrange
namespace ElfioVerif.Drv.C10
open ElfioVerif ElfioVerif.Drv ElfioVerif.Arrange Gen

structure St where
  cls : Cls := .c64
  enc : Enc := .lsb
  strtab : Bytes := []                  -- the string section's bytes (names are only looked up)
  sym : SecBuf := SecBuf.fresh .c64 (BitVec.ofNat 32 SHT_SYMTAB)
  rels : List SecBuf := []              -- in creation order

def symSz (c : Cls) : Nat := match c with | .c32 => sizeof_Elf32_Sym | .c64 => sizeof_Elf64_Sym
def relSz (c : Cls) (rela : Bool) : Nat :=
  match c, rela with
  | .c32, false => sizeof_Elf32_Rel | .c32, true => sizeof_Elf32_Rela
  | .c64, false => sizeof_Elf64_Rel | .c64, true => sizeof_Elf64_Rela

/-- `set_entry_size` truncates to the header field's width -/
def truncEnt (c : Cls) (v : Nat) : BitVec 64 :=
  match c with | .c32 => BitVec.ofNat 64 (v % 4294967296) | .c64 => BitVec.ofNat 64 v

/-- `string_section_accessor::add_string` on a plain byte string -/
def addString (tab : Bytes) (s : Bytes) : Bytes × Nat :=
  let tab := if tab.isEmpty then [0] else tab
  (tab ++ s ++ [0], tab.length)

/-- `get_string(off)` : the NUL-terminated string at `off`, if any -/
def getString (tab : Bytes) (off : Nat) : Option Bytes :=
  if off < tab.length then
    let rest := tab.drop off
    let str := rest.takeWhile (· ≠ 0)
    if str.length < rest.length then some str else none
  else none

def fld (e : Enc) (d : Bytes) (off w : Nat) : Nat := rdField e (slice d off w)

/-- one symbol as `get_symbol(index, name, value, size, bind, type, shndx, other)` reports it -/
def showSym (st : St) (d : Bytes) (i : Nat) : String :=
  let p := i * st.sym.entSize.toNat
  let e := st.enc
  let (nm, value, size, info, other, shndx) := match st.cls with
    | .c32 => (fld e d (p + Elf32_Sym.st_name_off) 4, fld e d (p + Elf32_Sym.st_value_off) 4,
               fld e d (p + Elf32_Sym.st_size_off) 4, fld e d (p + Elf32_Sym.st_info_off) 1,
               fld e d (p + Elf32_Sym.st_other_off) 1, fld e d (p + Elf32_Sym.st_shndx_off) 2)
    | .c64 => (fld e d (p + Elf64_Sym.st_name_off) 4, fld e d (p + Elf64_Sym.st_value_off) 8,
               fld e d (p + Elf64_Sym.st_size_off) 8, fld e d (p + Elf64_Sym.st_info_off) 1,
               fld e d (p + Elf64_Sym.st_other_off) 1, fld e d (p + Elf64_Sym.st_shndx_off) 2)
  let name := match getString st.strtab nm with | some s => hexOfBytes s | none => "-"
  s!"{name}:{value}:{size}:{info / 16}:{info % 16}:{shndx}:{other}"

def showRel (e : Enc) (r : SecBuf) (i : Nat) : String :=
  match getEntry e r (BitVec.ofNat 64 i) with
  | .ok (_, some v) => s!"{v.offset.toNat}:{v.symbol.toNat}:{v.rtype.toNat}:{v.addend.toInt}"
  | .ok (_, none) => "false"
  | .error f => f.render

def dump (st : St) : String :=
  let n := (symbolsNum st.sym).toNat
  let d := (st.sym.getData.data).getD []
  let syms := (List.range n).map (showSym st d)
  let rels := st.rels.map fun r =>
    let m := (entriesNum r).toNat
    s!"rels={m}" ++ String.join ((List.range m).map fun i => " " ++ showRel st.enc r i)
  s!"syms={n}" ++ String.join (syms.map (" " ++ ·)) ++ String.join (rels.map (" " ++ ·))

def updLast (l : List SecBuf) (r : SecBuf) : List SecBuf :=
  match l.reverse with
  | [] => [r]
  | _ :: t => (r :: t).reverse

def step (st : St) (t : List String) : Option St × String :=
  match t with
  | "cfg" :: rest =>
    let cls := if kvn rest "cls" 64 == 32 then Cls.c32 else Cls.c64
    let enc := if (kv? rest "enc").getD "lsb" == "msb" then Enc.msb else Enc.lsb
    let sym := { SecBuf.fresh cls (BitVec.ofNat 32 SHT_SYMTAB) with
                 entSize := BitVec.ofNat 64 (symSz cls), link := 1 }
    (some { cls, enc, sym }, "ok")
  | "sym" :: rest =>
    let (tab, off) := addString st.strtab (bytesOfHex ((kv? rest "name").getD "-"))
    match addSymbol st.enc st.sym off (kvn rest "value") (kvn rest "size") (kvn rest "info")
        (kvn rest "other") (kvn rest "shndx") with
    | .ok (s, idx) => (some { st with strtab := tab, sym := s }, s!"idx={idx}")
    | .error f => (none, f.render)
  | ["symraw", h] =>
    let bs := bytesOfHex h
    match st.sym.setData (some bs) (BitVec.ofNat 64 bs.length) with
    | .ok s => (some { st with sym := s }, "ok")
    | .error f => (none, f.render)
  | ["entsize", n] =>
    (some { st with sym := { st.sym with entSize := truncEnt st.cls (parseNat n) } }, "ok")
  | "rel" :: rest =>
    let rela := (kv? rest "kind").getD "rel" == "rela"
    let r := { SecBuf.fresh st.cls (BitVec.ofNat 32 (if rela then SHT_RELA else SHT_REL)) with
               entSize := BitVec.ofNat 64 (relSz st.cls rela), link := 2 }
    (some { st with rels := st.rels ++ [r] }, "ok")
  | "r" :: rest =>
    match st.rels.getLast? with
    | none => (some st, "bad-op no-table")
    | some r =>
      let rela := r.stype == BitVec.ofNat 32 SHT_RELA
      match addRel st.enc r rela (kvn rest "off") (kvn rest "sym") (kvn rest "type")
          (kvn rest "add") with
      | .ok r' => (some { st with rels := updLast st.rels r' }, s!"n={(entriesNum r').toNat}")
      | .error f => (none, f.render)
  | "arrange" :: rest =>
    if kvn rest "cb" 1 == 1 then
      match arrange (relCallback st.enc) st.sym st.rels with
      | .ok (s, rs, ret) =>
        (some { st with sym := s, rels := rs }, s!"ret={ret.toNat} info={s.info.toNat}")
      | .error f => (none, f.render)
    else
      match arrange noCallback st.sym () with
      | .ok (s, _, ret) => (some { st with sym := s }, s!"ret={ret.toNat} info={s.info.toNat}")
      | .error f => (none, f.render)
  | ["dump"] => (some st, dump st)
  | _ => (some st, "bad-op")

def runCase (ops : List (List String)) : List String :=
  let rec go (st : St) (ops : List (List String)) (acc : List String) : List String :=
    match ops with
    | [] => acc.reverse
    | t :: rest =>
      match step st t with
      | (some st', out) => go st' rest (out :: acc)
      | (none, out) => (out :: acc).reverse
  go {} ops []

end ElfioVerif.Drv.C10
