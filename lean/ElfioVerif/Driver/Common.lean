/- Line-protocol helpers shared by all family drivers. -/
import ElfioVerif.Basic
namespace ElfioVerif.Drv

def hexDigit (n : Nat) : Char :=
  if n < 10 then Char.ofNat (48 + n) else Char.ofNat (87 + n)

def hexOfBytes (bs : Bytes) : String :=
  if bs.isEmpty then "-" else
  String.mk (bs.foldr (fun b acc => hexDigit (b.toNat / 16) :: hexDigit (b.toNat % 16) :: acc) [])

def hexVal (c : Char) : Nat :=
  let n := c.toNat
  if 48 ≤ n ∧ n ≤ 57 then n - 48
  else if 97 ≤ n ∧ n ≤ 102 then n - 87
  else if 65 ≤ n ∧ n ≤ 70 then n - 55
  else 0

def bytesOfHex (s : String) : Bytes :=
  if s == "-" then [] else
  let rec go : List Char → Bytes
    | a :: b :: rest => UInt8.ofNat (hexVal a * 16 + hexVal b) :: go rest
    | _ => []
  go s.toList

/-- decimal or 0x-prefixed hexadecimal -/
def parseNat (s : String) : Nat :=
  if s.startsWith "0x" then (s.drop 2).toString.toList.foldl (fun acc c => acc * 16 + hexVal c) 0
  else s.toNat?.getD 0

/-- value of `key=value` in a token list -/
def kv? (toks : List String) (key : String) : Option String :=
  toks.findSome? fun t =>
    if t.startsWith (key ++ "=") then some (t.drop (key.length + 1)).toString else none

def kvn (toks : List String) (key : String) (dflt : Nat := 0) : Nat :=
  match kv? toks key with
  | some v => parseNat v
  | none => dflt

def splitWords (line : String) : List String :=
  (line.splitOn " ").filter (· ≠ "") |>.map (fun s => (s.trimAscii).toString) |>.filter (· ≠ "")

/-- Splits the input into cases: `case <id>` lines start a new case. -/
def splitCases (lines : List String) : List (String × List (List String)) :=
  let rec go (ls : List String) (cur : Option (String × List (List String)))
      (acc : List (String × List (List String))) : List (String × List (List String)) :=
    match ls with
    | [] => (match cur with | some (i, ops) => (i, ops.reverse) :: acc | none => acc).reverse
    | l :: rest =>
      let t := splitWords l
      match t with
      | [] => go rest cur acc
      | "case" :: i :: _ =>
        let acc := match cur with | some (j, ops) => (j, ops.reverse) :: acc | none => acc
        go rest (some (i, [])) acc
      | _ =>
        if l.startsWith "#" then go rest cur acc else
        match cur with
        | some (i, ops) => go rest (some (i, t :: ops)) acc
        | none => go rest (some ("0", [t])) acc
  go lines none []

partial def readAll (h : IO.FS.Stream) (acc : Array String) : IO (Array String) := do
  let line ← h.getLine
  if line.isEmpty then return acc
  readAll h (acc.push (line.trimAsciiEnd).toString)

/-- Runs `runCase` on every case of stdin and prints the canonical transcript. -/
def mainLoop (runCase : List (List String) → List String) : IO Unit := do
  let stdin ← IO.getStdin
  let lines ← readAll stdin #[]
  let out ← IO.getStdout
  for (i, ops) in splitCases lines.toList do
    out.putStrLn s!"case {i}"
    for l in runCase ops do
      out.putStrLn l
    out.putStrLn "end"
  out.flush

end ElfioVerif.Drv
