/- Driver for the dynamic-section family (C12): same line protocol as harness/c12.cpp. -/
import ElfioVerif.Driver.Common
import ElfioVerif.Model.Dynamic
namespace ElfioVerif.Drv.C12
open ElfioVerif ElfioVerif.Drv ElfioVerif.Gen

/-- index of `.dynstr` in the harness' file: 0 = null section, 1 = .shstrtab, 2 = .dynstr, 3 = .dynamic -/
def strIdx : Nat := 2

def renderGet : GetRes → String
  | .invalid => "invalid"
  | .nostr t v => s!"nostr tag={t.toNat} value={v.toNat}"
  | .ok t v s => s!"ok tag={t.toNat} value={v.toNat} str={hexOfBytes s}"

def renderData (b : SecBuf) : String :=
  match b.data with
  | none => "null"
  | some _ => hexOfBytes b.view

def setup (t : List String) : DynAcc :=
  let cls : Cls := if kvn t "cls" 64 == 32 then .c32 else .c64
  let enc : Enc := if kv? t "enc" == some "msb" then .msb else .lsb
  let cfg : Cfg := ⟨cls, enc⟩
  let link : Nat := match kv? t "link" with
    | some "none" => 999
    | some "wrap" => 65536 + strIdx
    | _ => strIdx
  let linked := (dyn_strtab_index (BitVec.ofNat 32 link)).toNat == strIdx
  let a := DynAcc.create cfg (BitVec.ofNat 32 (kvn t "type" 6)) (BitVec.ofNat 64 (kvn t "entsize" 0)) linked
  { a with sec := { a.sec with link := BitVec.ofNat 32 link } }

def bv (s : String) : BitVec 64 := BitVec.ofNat 64 (parseNat s)

def step (st : Option DynAcc) (t : List String) : Option DynAcc × String :=
  match t with
  | "dyn" :: rest => (some (setup rest), s!"ok stridx={strIdx}")
  | op :: args =>
    match st with
    | none => (none, "bad-op no-section")
    | some a =>
      let r : Option (M (DynAcc × String)) := match op, args with
        | "add", [tg, v] => some do
            let a' ← a.addEntry (bv tg) (bv v)
            pure (a', s!"size={a'.sec.size.toNat}")
        | "adds", [tg, h] => some do
            let a' ← a.addStrEntry (bv tg) (bytesOfHex h)
            let ss := match a'.str with | some s => s!"{s.size.toNat}" | none => "none"
            pure (a', s!"size={a'.sec.size.toNat} strsize={ss}")
        | "num", [] => some do
            let (a', n) ← a.entriesNum
            pure (a', s!"num={n.toNat}")
        | "get", [i] => some do
            let (a', g) ← a.getEntry (bv i)
            pure (a', renderGet g)
        | "fnum", [] => some do
            let (a', n) ← a.fresh.entriesNum
            pure ({ a' with cache := a.cache }, s!"num={n.toNat}")
        | "fget", [i] => some do
            let (a', g) ← a.fresh.getEntry (bv i)
            pure ({ a' with cache := a.cache }, renderGet g)
        | "dump", [] =>
            let a' := { a with sec := a.sec.getData, str := a.str.map SecBuf.getData }
            let ss := match a'.str with | some s => renderData s | none => "none"
            some (pure (a', s!"dyn={renderData a'.sec} str={ss}"))
        | "reload", [] => some (pure (a.reload, "reloaded"))
        | "settype", [ty] => some (pure ({ a with sec := { a.sec with stype := BitVec.ofNat 32 (parseNat ty) } }, "ok"))
        | _, _ => none
      match r with
      | none => (st, "bad-op")
      | some (.ok (a', out)) => (some a', out)
      | some (.error f) => (none, f.render)
  | [] => (st, "bad-op")

def runCase (ops : List (List String)) : List String :=
  let rec go (st : Option DynAcc) (ops : List (List String)) (acc : List String) : List String :=
    match ops with
    | [] => acc.reverse
    | t :: rest =>
      let (st', out) := step st t
      if out.startsWith "FAULT" then (out :: acc).reverse else go st' rest (out :: acc)
  go none ops []

end ElfioVerif.Drv.C12
