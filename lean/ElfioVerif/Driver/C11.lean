/- Driver for the relocation family (C11): same line protocol as harness/c11.cpp. -/
import ElfioVerif.Driver.Common
import ElfioVerif.Model.Reloc
namespace ElfioVerif.Drv.C11
open ElfioVerif ElfioVerif.Drv ElfioVerif.Reloc

structure St where
  enc : Enc
  b : SecBuf

def render (pre : String) (b : SecBuf) : String :=
  let d := match b.data with
    | none => "null"
    | some _ => hexOfBytes b.view
  s!"{pre}size={b.size.toNat} data={d}"

/-- signed decimal (two's complement): `strtoll` -/
def parseS64 (s : String) : BitVec 64 :=
  if s.startsWith "-" then - BitVec.ofNat 64 (parseNat (s.drop 1).toString) else BitVec.ofNat 64 (parseNat s)

def entryStr (r : Option Entry) : String :=
  match r with
  | none => "false"
  | some e => s!"{e.offset.toNat},{e.symbol.toNat},{e.type.toNat},{e.addend.toInt}"

/-- the section's bytes as `save` writes them and `load` finds them again: `section_impl::save`
    writes the data only when `data != nullptr`; a lazily loaded section that was never made
    resident is saved as `size` zero bytes (the zero fill of `adjust_stream_size`) -/
def fileBytes (b : SecBuf) : Bytes :=
  -- `section_impl::save` asks `get_data()` (which loads lazily) since fix f73fbdf
  let b := b.getData
  match b.data with
  | none => List.replicate b.size.toNat 0
  | some _ => b.view

def dumpLoop (enc : Enc) : Nat → SecBuf → Nat → String → M (SecBuf × String)
  | 0, b, _, acc => pure (b, acc)
  | k + 1, b, i, acc => do
    let (b, r) ← getEntry enc b (BitVec.ofNat 64 i)
    dumpLoop enc k b (i + 1) (acc ++ s!" {i}:{entryStr r}")

def finish (st : St) (pre : String) (r : M SecBuf) : Option St × String :=
  match r with
  | .ok b => let b := b.getData; (some { st with b := b }, render pre b)
  | .error f => (none, f.render)

def step (st : Option St) (t : List String) : Option St × String :=
  match t with
  | "new" :: rest =>
    let cls : Cls := if kvn rest "cls" 64 == 32 then .c32 else .c64
    let enc : Enc := if kv? rest "enc" == some "msb" then .msb else .lsb
    let b := SecBuf.fresh cls (BitVec.ofNat 32 (kvn rest "type" 9))
    let b := { b with entSize := BitVec.ofNat 64 (kvn rest "entsize" 0) }
    let b := b.getData
    (some { enc, b }, render "" b)
  | op :: args =>
    match st with
    | none => (none, "bad-op no-section")
    | some st =>
      let n64 (s : String) : BitVec 64 := BitVec.ofNat 64 (parseNat s)
      let n32 (s : String) : BitVec 32 := BitVec.ofNat 32 (parseNat s)
      match op, args with
      | "addrel", [o, s, ty] => finish st "" (addRel st.enc st.b (n64 o) (n32 s) (n32 ty))
      | "addreli", [o, i] => finish st "" (addRelInfo st.enc st.b (n64 o) (n64 i))
      | "addrela", [o, s, ty, a] => finish st "" (addRela st.enc st.b (n64 o) (n32 s) (n32 ty) (parseS64 a))
      | "addrelai", [o, i, a] => finish st "" (addRelaInfo st.enc st.b (n64 o) (n64 i) (parseS64 a))
      | "set", [i, o, s, ty, a] =>
        match setEntry st.enc st.b (n64 i)
            { offset := n64 o, symbol := n32 s, type := n32 ty, addend := parseS64 a } with
        | .ok (b, r) => finish st (if r then "ret=true " else "ret=false ") (pure b)
        | .error f => (none, f.render)
      | "swap", [a, b] => finish st "" (swapSymbols st.enc st.b (n64 a) (n64 b))
      | "get", [i] =>
        match getEntry st.enc st.b (n64 i) with
        | .ok (b, r) => (some { st with b := b }, (if r.isSome then "ok " else "") ++ entryStr r)
        | .error f => (none, f.render)
      | "num", [] =>
        match entriesNum st.b with
        | .ok n => (some st, s!"n={n.toNat}")
        | .error f => (none, f.render)
      | "dump", [] =>
        match entriesNum st.b with
        | .ok n =>
          match dumpLoop st.enc n.toNat st.b 0 s!"n={n.toNat}" with
          | .ok (b, s) => (some { st with b := b }, s)
          | .error f => (none, f.render)
        | .error f => (none, f.render)
      | "reload", rest =>
        let d := fileBytes st.b
        let ss : BitVec 64 := 0
        let b := if kvn rest "lazy" 0 == 1 then SecBuf.loadedLazy st.b.cls st.b.stype d ss
                 else SecBuf.loadedEager st.b.cls st.b.stype d ss
        let b := { b with entSize := st.b.entSize }
        (some { st with b := b }, s!"size={b.size.toNat} saved={hexOfBytes d}")
      | _, _ => (some st, "bad-op")
  | [] => (st, "bad-op")

def runCase (ops : List (List String)) : List String :=
  let rec go (st : Option St) (ops : List (List String)) (acc : List String) : List String :=
    match ops with
    | [] => acc.reverse
    | t :: rest =>
      let (st', out) := step st t
      if out.startsWith "FAULT" then (out :: acc).reverse else go st' rest (out :: acc)
  go none ops []

end ElfioVerif.Drv.C11
