/- Driver for family c14 (array / modinfo / versym / verneed / verdef accessors):
   same line protocol as harness/c14.cpp. -/
import ElfioVerif.Driver.Common
import ElfioVerif.Model.Array
import ElfioVerif.Model.Modinfo
import ElfioVerif.Model.Versym
namespace ElfioVerif.Drv.C14
open ElfioVerif ElfioVerif.Drv

structure St where
  kind : String
  enc : Enc
  w : Arr.W
  b : SecBuf
  str : Option SecBuf := none
  hasAcc : Bool := true
  vsNum : BitVec 32 := 0            -- versym accessor: cached count
  content : List Modinfo.Attr := [] -- modinfo accessor: parsed vector
  vnum : BitVec 32 := 0             -- verneed/verdef accessor: DT_VER*NUM

def dataHex (b : SecBuf) : String :=
  match b.data with
  | none => "null"
  | some _ => hexOfBytes b.view

def clsOf (t : List String) : Cls := if kvn t "cls" 64 == 32 then .c32 else .c64
def encOf (t : List String) : Enc := if kv? t "enc" == some "msb" then .msb else .lsb
def wOf (t : List String) : Arr.W := if kvn t "w" 4 == 8 then .w8 else .w4

/-- (re)create the accessor on the current section: constructor side effects -/
def makeAcc (s : St) : M St :=
  match s.kind with
  | "mod" => do
    let c ← Modinfo.parse s.b
    pure { s with content := c, hasAcc := true, b := s.b.getData }
  | "vs" => pure { s with vsNum := Versym.mk s.b, hasAcc := true }
  | _ => pure { s with hasAcc := true }

def count (s : St) : Nat :=
  match s.kind with
  | "arr" => (Arr.entriesNum s.w s.b).toNat
  | "mod" => (Modinfo.num s.content).toNat
  | "vs" => (Versym.entriesNum s.vsNum).toNat
  | _ => s.vnum.toNat

def typeOf (kind : String) (t : List String) : Nat :=
  match kind with
  | "arr" => kvn t "type" Gen.SHT_INIT_ARRAY
  | "mod" => Gen.SHT_PROGBITS
  | "vs" => Gen.SHT_GNU_versym
  | "vn" => Gen.SHT_GNU_verneed
  | _ => Gen.SHT_GNU_verdef

def injected (cls : Cls) (ty : Nat) (h : String) : M SecBuf :=
  let d := bytesOfHex h
  (SecBuf.fresh cls (BitVec.ofNat 32 ty)).setData (some d) (BitVec.ofNat 64 d.length)

def loaded (cls : Cls) (ty : Nat) (lazy : Bool) (d : Bytes) : SecBuf :=
  if lazy then SecBuf.loadedLazy cls (BitVec.ofNat 32 ty) d 0 else SecBuf.loadedEager cls (BitVec.ofNat 32 ty) d 0

def setup (t : List String) : M St :=
  match t with
  | "file" :: rest => do
    let kind := (kv? rest "kind").getD "arr"
    let cls := clsOf rest
    let lazy := kvn rest "lazy" 0 == 1
    let b := loaded cls (typeOf kind rest) lazy (bytesOfHex ((kv? rest "data").getD "-"))
    let str := if kind == "vn" || kind == "vd" then
        some (loaded cls Gen.SHT_STRTAB lazy (bytesOfHex ((kv? rest "str").getD "-"))) else none
    makeAcc { kind, enc := encOf rest, w := wOf rest, b, str, vnum := BitVec.ofNat 32 (kvn rest "num" 0) }
  | kind :: rest => do
    let cls := clsOf rest
    if kind == "vn" || kind == "vd" then do
      let str ← injected cls Gen.SHT_STRTAB ((kv? rest "str").getD "-")
      let b ← injected cls (typeOf kind rest) ((kv? rest "data").getD "-")
      pure { kind, enc := encOf rest, w := .w4, b, str := some str, vnum := BitVec.ofNat 32 (kvn rest "num" 0) }
    else
      makeAcc { kind, enc := encOf rest, w := wOf rest, b := SecBuf.fresh cls (BitVec.ofNat 32 (typeOf kind rest)) }
  | [] => throw (.fuel "empty")

def optPair (r : Option (Bytes × Bytes)) : String :=
  match r with
  | some (f, v) => s!"true {hexOfBytes f} {hexOfBytes v}"
  | none => "false"

/-- one operation: new state and output line -/
def step (s : St) (t : List String) : M (St × String) :=
  let needAcc := (s.kind == "arr" || s.kind == "mod" || s.kind == "vs") &&
    (t.head? == some "num" || t.head? == some "add" || t.head? == some "get" || t.head? == some "find")
  if needAcc && !s.hasAcc then pure (s, "bad-op no-accessor") else
  match s.kind, t with
  | _, ["num"] => pure (s, s!"num={count s}")
  | _, ["reacc"] => do let s ← makeAcc s; pure (s, s!"num={count s}")
  | _, ["setraw", h] => do
    let d := bytesOfHex h
    let b ← s.b.setData (some d) (BitVec.ofNat 64 d.length)
    let b := b.getData
    pure ({ s with b, hasAcc := false }, s!"data={dataHex b}")
  | _, "reload" :: rest => do
    let lazy := kvn rest "lazy" 0 == 1
    let b := loaded s.b.cls s.b.stype.toNat lazy s.b.view
    let str := s.str.map fun x => loaded x.cls x.stype.toNat lazy x.view
    let s ← makeAcc { s with b, str }
    let b := s.b.getData
    let s := { s with b }
    pure (s, s!"num={count s} data={dataHex b}")
  | "arr", ["add", v] => do
    let b ← Arr.addEntry s.w s.enc s.b (BitVec.ofNat 64 (parseNat v))
    let b := b.getData
    let s := { s with b }
    pure (s, s!"num={count s} data={dataHex b}")
  | "arr", ["get", i] => do
    let r ← Arr.getEntry s.w s.enc s.b (BitVec.ofNat 64 (parseNat i))
    pure ({ s with b := s.b.getData }, match r with | some a => s!"true {a.toNat}" | none => "false")
  | "mod", ["add", f, v] => do
    let (pos, b, c) ← Modinfo.addAttribute s.b s.content (bytesOfHex f) (bytesOfHex v)
    let b := b.getData
    let s := { s with b, content := c }
    pure (s, s!"pos={pos.toNat} num={count s} data={dataHex b}")
  | "mod", ["get", i] => pure (s, optPair (Modinfo.getByIndex s.content (BitVec.ofNat 32 (parseNat i))))
  | "mod", ["find", f] =>
    pure (s, match Modinfo.getByName s.content (bytesOfHex f) with
      | some v => s!"true {hexOfBytes v}" | none => "false")
  | "vs", ["add", v] => do
    let (b, n) ← Versym.addEntry s.b s.vsNum (BitVec.ofNat 16 (parseNat v))
    let b := b.getData
    let s := { s with b, vsNum := n }
    pure (s, s!"true num={count s} data={dataHex b}")
  | "vs", ["get", i] => do
    let r ← Versym.getEntry s.b s.vsNum (BitVec.ofNat 32 (parseNat i))
    pure ({ s with b := s.b.getData }, match r with | some a => s!"true {a.toNat}" | none => "false")
  | "vn", ["get", i] => do
    let r ← Verneed.getEntry s.enc s.b s.str s.vnum (BitVec.ofNat 32 (parseNat i))
    pure ({ s with b := s.b.getData, str := s.str.map (·.getData) }, match r with
      | some v => s!"true ver={v.version.toNat} file={hexOfBytes v.file} hash={v.hash.toNat} flags={v.flags.toNat} other={v.other.toNat} name={hexOfBytes v.name}"
      | none => "false")
  | "vd", ["get", i] => do
    let r ← Verdef.getEntry s.enc s.b s.str s.vnum (BitVec.ofNat 32 (parseNat i))
    pure ({ s with b := s.b.getData, str := s.str.map (·.getData) }, match r with
      | some v => s!"true flags={v.flags.toNat} ndx={v.ndx.toNat} hash={v.hash.toNat} name={hexOfBytes v.name}"
      | none => "false")
  | _, _ => pure (s, "bad-op")

def runCase (ops : List (List String)) : List String :=
  match ops with
  | [] => []
  | first :: rest =>
    match setup first with
    | .error f => [f.render]
    | .ok s0 =>
      let rec go (s : St) (ops : List (List String)) (acc : List String) : List String :=
        match ops with
        | [] => acc.reverse
        | t :: more =>
          match step s t with
          | .ok (s', out) => go s' more (out :: acc)
          | .error f => (f.render :: acc).reverse
      go s0 rest [s!"num={count s0}"]

end ElfioVerif.Drv.C14
