/- Driver for the string-table family (C08): same line protocol as harness/c08.cpp. -/
import ElfioVerif.Driver.Common
import ElfioVerif.Model.Strings
namespace ElfioVerif.Drv.C08
open ElfioVerif ElfioVerif.Drv

structure St where
  b : SecBuf
  ty : BitVec 32
  idxs : Array Nat := #[]

def clsOf (t : List String) : Cls := if kvn t "cls" 64 == 32 then .c32 else .c64

/-- what the loader leaves for a section with bytes `d` (NULL/NOBITS sections never get data) -/
def loaded (cls : Cls) (ty : BitVec 32) (d : Bytes) (lazy : Bool) (size : BitVec 64) : SecBuf :=
  let b := if lazy then SecBuf.loadedLazy cls ty d 0 else SecBuf.loadedEager cls ty d 0
  if b.isNullOrNobits then { b with data := none, dataSize := 0, size := size } else b

def renderGet (index : Nat) : Option Bytes → String
  | none => "null"
  | some s => s!"str off={index} s={hexOfBytes s}"

def doGet (st : St) (index : Nat) : Option St × String :=
  match StrSec.getString st.b (BitVec.ofNat 32 index) with
  | .ok (b', r) => (some { st with b := b' }, renderGet (index % 4294967296) r)
  | .error f => (none, f.render)

def doAdd (st : St) (str : Option Bytes) : Option St × String :=
  match StrSec.addString st.b str with
  | .ok (b', i) => (some { st with b := b', idxs := st.idxs.push i.toNat }, s!"idx={i.toNat} size={b'.size.toNat}")
  | .error f => (none, f.render)

def step (st : Option St) (t : List String) : Option St × String :=
  match t with
  | "new" :: rest =>
    let ty := BitVec.ofNat 32 (kvn rest "type" 3)
    let b := SecBuf.fresh (clsOf rest) ty
    (some { b, ty }, s!"size={b.size.toNat}")
  | "loadsec" :: rest =>
    let d := bytesOfHex ((kv? rest "data").getD "-")
    let ty := BitVec.ofNat 32 (kvn rest "type" 3)
    let b := loaded (clsOf rest) ty d (kvn rest "lazy" 0 == 1) 0
    (some { b, ty }, s!"size={b.size.toNat}")
  | op :: args =>
    match st with
    | none => (none, "bad-op no-section")
    | some s =>
      match op, args with
      | "set", [h] =>
        let bs := bytesOfHex h
        match s.b.setData (some bs) (BitVec.ofNat 64 bs.length) with
        | .ok b' => (some { s with b := b' }, s!"size={b'.size.toNat}")
        | .error f => (none, f.render)
      | "setsize", [n] =>
        let b' := s.b.setSize (BitVec.ofNat 64 (parseNat n))
        (some { s with b := b' }, s!"size={b'.size.toNat}")
      | "add", [h] => doAdd s (some (bytesOfHex h))
      | "adds", [h] => doAdd s (some (bytesOfHex h))
      | "addnull", [] => doAdd s none
      | "addselfr", [k] =>
        -- add_string( get_string( idx ) ): the source aliases the section's buffer; by value it is the string there
        match s.idxs[parseNat k]? with
        | some i =>
          match StrSec.getString s.b (BitVec.ofNat 32 i) with
          | .ok (b', r) => doAdd { s with b := b' } r
          | .error f => (none, f.render)
        | none => (st, "bad-op")
      | "get", [i] => doGet s (parseNat i)
      | "cget", [i] => doGet s (parseNat i)
      | "getr", [k] =>
        match s.idxs[parseNat k]? with
        | some i => doGet s i
        | none => (st, "bad-op")
      | "dump", [] =>
        let b := s.b.getData
        let d := match b.data with | none => "null" | some _ => hexOfBytes b.view
        (some { s with b }, s!"size={b.size.toNat} data={d}")
      | "reload", rest =>
        -- the harness makes the data resident, saves the whole file and loads it again
        let b := s.b.getData
        let d := b.view
        let b' := loaded b.cls s.ty d (kvn rest "lazy" 0 == 1) b.size
        (some { s with b := b' }, s!"size={b'.size.toNat}")
      | _, _ => (st, "bad-op")
  | [] => (st, "bad-op")

def runCase (ops : List (List String)) : List String :=
  let rec go (st : Option St) (ops : List (List String)) (acc : List String) : List String :=
    match ops with
    | [] => acc.reverse
    | t :: rest =>
      let (st', out) := step st t
      if out.startsWith "FAULT" then (out :: acc).reverse else go st' rest (out :: acc)
  go none ops []

end ElfioVerif.Drv.C08
