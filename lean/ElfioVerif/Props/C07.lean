import ElfioVerif.Model.SecBuf
import ElfioVerif.Spec.Edit
namespace ElfioVerif.C07
end ElfioVerif.C07
