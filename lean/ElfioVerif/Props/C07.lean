/-
C07 — section data editing behaves like editing a byte string.

Statements only use: the model (`SecBuf.setData/appendData/insertData`, built from the
generated guards), the reference semantics `Spec.edit`, and explicit, decidable size bounds.
-/
import ElfioVerif.Lemmas.SecBuf
namespace ElfioVerif
open Gen

namespace SecBuf

/-- Size bound under which neither the ELF32 field width nor the 2^64 guards of the capacity
    doubling can fire.  (A section of 4 GiB in ELF32, or of 2 EiB in ELF64, is outside.) -/
def Bound (c : Cls) (k : Nat) : Prop :=
  match c with
  | .c32 => k < 4294967296
  | .c64 => 8 * k < 18446744073709551616

/-- A consistent buffer whose bytes are in memory. -/
structure Resident (b : SecBuf) : Prop where
  notNobits : b.stype ≠ BitVec.ofNat 32 SHT_NOBITS
  pend : b.data = none → (b.isLazy && !b.isLoaded) = false
  buf : (b.data = none ∧ b.size = 0 ∧ b.dataSize = 0) ∨
        (∃ a, b.data = some a ∧ b.size.toNat ≤ b.dataSize.toNat ∧ b.dataSize.toNat ≤ a.length)
  cap : b.dataSize.toNat ≤ 3 * b.size.toNat

/-- A lazily loaded section whose bytes `d` are still only in the file. -/
structure Pending (b : SecBuf) (d : Bytes) : Prop where
  isLazy : b.isLazy = true
  notLoaded : b.isLoaded = false
  canLoad : b.canLoad = true
  noData : b.data = none
  fileData : b.fileData = some d
  len : d.length = b.size.toNat
  typeOk : b.isNullOrNobits = false

/-- The invariant every reachable section satisfies (fresh, loaded eagerly, loaded lazily,
    and after any sequence of edits). -/
def Inv (b : SecBuf) : Prop := b.Resident ∨ ∃ d, b.Pending d

/-- The byte string the section stands for. -/
def content (b : SecBuf) : Bytes :=
  if b.data.isNone && b.isLazy && !b.isLoaded then b.fileData.getD [] else b.view

/-- one editing operation of the reference semantics, executed on the model -/
def applyOp (b : SecBuf) : Spec.EditOp → M SecBuf
  | .replace bs => b.setData (some bs) (BitVec.ofNat 64 bs.length)
  | .append bs => b.appendData bs
  | .insert pos bs => b.insertData (BitVec.ofNat 64 pos) bs

def applyOps (b : SecBuf) : List Spec.EditOp → M SecBuf
  | [] => pure b
  | op :: ops => do let b' ← b.applyOp op; applyOps b' ops

def opChunk : Spec.EditOp → Bytes
  | .replace bs => bs | .append bs => bs | .insert _ bs => bs
def opPos : Spec.EditOp → Nat
  | .insert p _ => p | _ => 0

/-- all intermediate byte strings of the *reference* run stay inside `Bound` -/
def OpsFit (c : Cls) : Bytes → List Spec.EditOp → Prop
  | _, [] => True
  | l, op :: ops =>
    Bound c (l.length + (opChunk op).length) ∧ opPos op < 18446744073709551616 ∧
      OpsFit c (Spec.edit l op) ops

end SecBuf

namespace C07
open SecBuf

/-! ### auxiliary facts -/

theorem view_length {b : SecBuf} (h : b.Resident) : b.view.length = b.size.toNat := by
  unfold SecBuf.view
  rcases h.buf with ⟨hd, hs, _⟩ | ⟨a, hd, h1, h2⟩
  · simp [hd, hs]
  · simp [hd]; omega

theorem bound_lt {c : Cls} {k : Nat} (h : Bound c k) : k < 18446744073709551616 := by
  cases c <;> simp [Bound] at h <;> omega

theorem setSize_toNat (b : SecBuf) (v : BitVec 64) (h : Bound b.cls v.toNat) :
    (b.setSize v).size.toNat = v.toNat := by
  unfold SecBuf.setSize
  cases hc : b.cls <;> simp only [hc, Bound] at h ⊢
  · simp only [sec32_set_size_trunc, BitVec.toNat_setWidth, Nat.reducePow]
    omega
  · simp [sec64_set_size_trunc]

theorem setSize_other (b : SecBuf) (v : BitVec 64) :
    (b.setSize v).data = b.data ∧ (b.setSize v).dataSize = b.dataSize ∧ (b.setSize v).stype = b.stype ∧
    (b.setSize v).cls = b.cls ∧ (b.setSize v).isLazy = b.isLazy ∧ (b.setSize v).isLoaded = b.isLoaded ∧
    (b.setSize v).translatorEmpty = b.translatorEmpty := by
  unfold SecBuf.setSize; cases b.cls <;> simp

theorem rd_ok (site : String) (buf : Option Bytes) (off len : Nat)
    (h0 : buf = none → off = 0 ∧ len = 0) (h1 : off + len ≤ (buf.getD []).length) :
    rdRange site buf off len = .ok (slice (buf.getD []) off len) := by
  cases buf with
  | none => obtain ⟨rfl, rfl⟩ := h0 rfl; simp [rdRange, slice, pure, Except.pure]
  | some b => simp at h1; simp [rdRange, h1, pure, Except.pure]

theorem wr_ok (site : String) (b : Bytes) (off : Nat) (src : Bytes) (h : off + src.length ≤ b.length) :
    wrRange site (some b) off src = .ok (some (wr b off src)) := by
  simp [wrRange, h, pure, Except.pure]

/-- `get_data()` on a buffer that already has data only flips flags -/
theorem getData_some {b : SecBuf} {a : Bytes} (hd : b.data = some a) :
    b.getData.data = some a ∧ b.getData.size = b.size ∧ b.getData.dataSize = b.dataSize ∧
    b.getData.cls = b.cls ∧ b.getData.stype = b.stype ∧
    b.getData.translatorEmpty = b.translatorEmpty ∧ b.getData.streamSize = b.streamSize := by
  unfold SecBuf.getData SecBuf.loadData
  split
  · cases hf : b.fileData with
    | none => simp [hd]
    | some d => simp only [hd, Option.isNone_some, Bool.false_and, Bool.false_eq_true, if_false,
        Option.isSome_some, Bool.true_or, if_true]; simp
  · simp [hd]

theorem getData_pending_eq {b : SecBuf} {d : Bytes} (h : b.Pending d) :
    b.getData = if b.size = 0 then { b with data := some (alloc 1), dataSize := 0, isLoaded := true }
                else { b with data := some (d ++ [0]), dataSize := b.size, isLoaded := true } := by
  unfold SecBuf.getData SecBuf.loadData
  simp only [h.notLoaded, h.canLoad, h.fileData, h.noData, h.typeOk, Bool.not_false, Bool.and_self,
    if_true, Option.isNone_none]
  split <;> simp

/-- `get_data()` on a pending lazy section reads exactly the file bytes -/
theorem getData_pending {b : SecBuf} {d : Bytes} (h : b.Pending d) :
    b.getData.Resident ∧ b.getData.view = d ∧ b.getData.cls = b.cls ∧ b.getData.size = b.size ∧
    b.getData.data.isSome = true := by
  have hnb : b.stype ≠ BitVec.ofNat 32 SHT_NOBITS := by
    have := h.typeOk
    simp only [SecBuf.isNullOrNobits, Bool.or_eq_false_iff] at this
    intro e; rw [e] at this; simp at this
  rw [getData_pending_eq h]
  by_cases hs : b.size = 0
  · have hl : d.length = 0 := by rw [h.len, hs]; rfl
    have hd : d = [] := List.eq_nil_of_length_eq_zero hl
    rw [if_pos hs]
    refine ⟨⟨hnb, by simp, Or.inr ⟨alloc 1, rfl, by simp [hs], by simp⟩, by simp⟩, ?_, rfl, rfl, rfl⟩
    simp [SecBuf.view, hd, hs]
  · rw [if_neg hs]
    refine ⟨⟨hnb, by simp, Or.inr ⟨d ++ [0], rfl, Nat.le_refl _, ?_⟩, by simp; omega⟩, ?_, rfl, rfl, rfl⟩
    · simp [h.len]
    · simp [SecBuf.view, ← h.len]

/-- the buffer facts `insert_data` needs (no flags) -/
structure Core (b : SecBuf) : Prop where
  buf : (b.data = none ∧ b.size = 0 ∧ b.dataSize = 0) ∨
        (∃ a, b.data = some a ∧ b.size.toNat ≤ b.dataSize.toNat ∧ b.dataSize.toNat ≤ a.length)
  cap : b.dataSize.toNat ≤ 3 * b.size.toNat

theorem Core.view_length {b : SecBuf} (h : Core b) : b.view.length = b.size.toNat := by
  unfold SecBuf.view
  rcases h.buf with ⟨hd, hs, _⟩ | ⟨a, hd, h1, h2⟩
  · simp [hd, hs]
  · simp [hd]; omega

theorem wr_opt_ok (site : String) (buf : Option Bytes) (off : Nat) (src : Bytes)
    (h0 : buf = none → off = 0 ∧ src = []) (h1 : off + src.length ≤ (buf.getD []).length) :
    wrRange site buf off src = .ok (buf.map fun b => wr b off src) := by
  cases buf with
  | none => obtain ⟨rfl, rfl⟩ := h0 rfl; simp [wrRange, pure, Except.pure]
  | some b => simp at h1; simp [wrRange, h1, pure, Except.pure]

theorem insertFinish_props (b : SecBuf) (ns n : BitVec 64) (hb : Bound b.cls ns.toNat) :
    (b.insertFinish ns n).size.toNat = ns.toNat ∧ (b.insertFinish ns n).data = b.data ∧
    (b.insertFinish ns n).dataSize = b.dataSize ∧ (b.insertFinish ns n).cls = b.cls ∧
    (b.insertFinish ns n).stype = b.stype ∧ (b.insertFinish ns n).isLazy = b.isLazy ∧
    (b.insertFinish ns n).isLoaded = b.isLoaded := by
  have h1 := setSize_toNat b ns hb
  obtain ⟨h2, h3, h4, h5, h6, h7, h8⟩ := setSize_other b ns
  rw [SecBuf.insertFinish_hand]
  by_cases ht : (b.setSize ns).translatorEmpty = true
  · simp only [ht, if_true]; exact ⟨h1, h2, h3, h5, h4, h6, h7⟩
  · simp only [ht, if_false]; exact ⟨h1, h2, h3, h5, h4, h6, h7⟩

/-- conclusion of the insert lemmas -/
def InsertPost (b b' : SecBuf) (pos : Nat) (raw : Bytes) : Prop :=
  Core b' ∧ b'.cls = b.cls ∧ b'.stype = b.stype ∧ b'.isLazy = b.isLazy ∧ b'.isLoaded = b.isLoaded ∧
    (b'.data = none → b.data = none) ∧ b'.view = Spec.insertAt b.view pos raw

/-- `insert_data` proper on a buffer with an allocation -/
theorem insertBody_some (b : SecBuf) (a : Bytes) (hd : b.data = some a)
    (h1 : b.size.toNat ≤ b.dataSize.toNat) (h2 : b.dataSize.toNat ≤ a.length)
    (hcap : b.dataSize.toNat ≤ 3 * b.size.toNat)
    (pos : BitVec 64) (raw : Bytes) (hb : Bound b.cls (b.size.toNat + raw.length)) :
    ∃ b', b.insertBody pos raw = .ok b' ∧ InsertPost b b' pos.toNat raw := by
  have hlt := bound_lt hb
  have hvl : b.view.length = b.size.toNat := by simp [SecBuf.view, hd]; omega
  have hview : b.view = a.take b.size.toNat := by simp [SecBuf.view, hd]
  have hn : (BitVec.ofNat 64 raw.length).toNat = raw.length := by
    simp only [BitVec.toNat_ofNat, Nat.reducePow]; omega
  have hcore : Core b := ⟨Or.inr ⟨a, hd, h1, h2⟩, hcap⟩
  unfold SecBuf.insertBody
  simp only [s32_pos_gt, s32_ovf_size, s32_new_size, s32_fits, ite_self, g_pos_gt, g_fits]
  by_cases hp : b.size.toNat < pos.toNat
  · simp only [hp, decide_true, if_true]
    refine ⟨b, rfl, hcore, rfl, rfl, rfl, rfl, id, ?_⟩
    simp [Spec.insertAt, hvl]; omega
  · simp only [hp, decide_false, Bool.false_eq_true, if_false]
    have hov : sec64_insert_ovf_size (BitVec.ofNat 64 raw.length) b.size = false :=
      g_ovf_size_false _ _ (by rw [hn]; omega)
    simp only [hov, Bool.false_eq_true, if_false]
    have hns : (sec64_insert_new_size b.size (BitVec.ofNat 64 raw.length)).toNat
        = b.size.toNat + raw.length := by
      rw [g_new_size _ _ (by rw [hn]; omega), hn]
    generalize sec64_insert_new_size b.size (BitVec.ofNat 64 raw.length) = ns at hns
    have hbns : Bound b.cls ns.toNat := by rw [hns]; exact hb
    have hia : Spec.insertAt b.view pos.toNat raw
        = (b.view.take pos.toNat) ++ raw ++ (b.view.drop pos.toNat) := by
      simp [Spec.insertAt, hvl]; omega
    have hl2 : (slice a pos.toNat (b.size.toNat - pos.toNat)).length = b.size.toNat - pos.toNat := by
      simp [slice]; omega
    by_cases hf : ns.toNat ≤ b.dataSize.toNat
    · -- in place
      simp only [hf, decide_true, if_true]
      have hr : rdRange "insert_data/copy_backward-src" b.data pos.toNat (b.size.toNat - pos.toNat)
          = .ok (slice a pos.toNat (b.size.toNat - pos.toNat)) := by
        rw [hd]; exact rdRange_some_ok (by omega)
      have hw1 : wrRange "insert_data/copy_backward" b.data (pos.toNat + raw.length)
          (slice a pos.toNat (b.size.toNat - pos.toNat))
          = .ok (some (wr a (pos.toNat + raw.length) (slice a pos.toNat (b.size.toNat - pos.toNat)))) := by
        rw [hd]; exact wr_ok _ _ _ _ (by rw [hl2]; omega)
      have hlen1 : (wr a (pos.toNat + raw.length) (slice a pos.toNat (b.size.toNat - pos.toNat))).length
          = a.length := wr_length _ _ _ (by rw [hl2]; omega)
      have hw2 := wr_ok "insert_data/copy"
        (wr a (pos.toNat + raw.length) (slice a pos.toNat (b.size.toNat - pos.toNat))) pos.toNat raw
        (by rw [hlen1]; omega)
      simp only [SecBuf.insertInPlace, hr, hw1, hw2, bind, Except.bind, pure, Except.pure]
      obtain ⟨f1, f2, f3, f4, f5, f6, f7⟩ := insertFinish_props
        { b with data := some (wr (wr a (pos.toNat + raw.length)
            (slice a pos.toNat (b.size.toNat - pos.toNat))) pos.toNat raw) }
        ns (BitVec.ofNat 64 raw.length) hbns
      refine ⟨_, rfl, ⟨Or.inr ⟨_, f2, ?_, ?_⟩, ?_⟩, f4, f5, f6, f7, ?_, ?_⟩
      · rw [f1, f3]; exact hf
      · rw [f3, wr_length _ _ _ (by rw [hlen1]; omega), hlen1]; exact h2
      · rw [f1, f3]; show b.dataSize.toNat ≤ 3 * ns.toNat; omega
      · intro e; rw [f2] at e; simp at e
      · rw [hia, hview]
        unfold SecBuf.view
        rw [f1, f2, hns]
        simp only [Option.getD_some]
        exact inplace_view a raw pos.toNat b.size.toNat (by omega) (by omega)
    · -- reallocation
      simp only [hf, decide_false, Bool.false_eq_true, if_false]
      have hg : 2 * b.dataSize.toNat + (BitVec.ofNat 64 raw.length).toNat < 18446744073709551616 := by
        rw [hn]
        cases hc : b.cls <;> simp only [hc, Bound] at hb <;> omega
      rw [growSize_eq _ _ _ hg, hn]
      have hnds : (BitVec.ofNat 64 (2 * b.dataSize.toNat + raw.length)).toNat
          = 2 * b.dataSize.toNat + raw.length := by
        simp only [BitVec.toNat_ofNat, Nat.reducePow]; rw [hn] at hg; omega
      simp only [hnds]
      generalize hN : 2 * b.dataSize.toNat + raw.length = N at hnds
      have hNge : b.size.toNat + raw.length ≤ N := by omega
      have hr1 : rdRange "insert_data/copy-head-src" b.data 0 pos.toNat = .ok (slice a 0 pos.toNat) := by
        rw [hd]; exact rdRange_some_ok (by omega)
      have hr2 : rdRange "insert_data/copy-tail-src" b.data pos.toNat (b.size.toNat - pos.toNat)
          = .ok (slice a pos.toNat (b.size.toNat - pos.toNat)) := by
        rw [hd]; exact rdRange_some_ok (by omega)
      have hl1 : (slice a 0 pos.toNat).length = pos.toNat := by simp [slice]; omega
      have hw1 := wr_ok "insert_data/copy-head" (alloc N) 0 (slice a 0 pos.toNat)
        (by rw [hl1]; simp; omega)
      have hlen1 : (wr (alloc N) 0 (slice a 0 pos.toNat)).length = N := by
        rw [wr_length _ _ _ (by rw [hl1]; simp; omega)]; simp
      have hw2 := wr_ok "insert_data/copy-new" (wr (alloc N) 0 (slice a 0 pos.toNat))
        pos.toNat raw (by rw [hlen1]; omega)
      have hlen2 : (wr (wr (alloc N) 0 (slice a 0 pos.toNat)) pos.toNat raw).length = N := by
        rw [wr_length _ _ _ (by rw [hlen1]; omega)]; exact hlen1
      have hw3 := wr_ok "insert_data/copy-tail"
        (wr (wr (alloc N) 0 (slice a 0 pos.toNat)) pos.toNat raw)
        (pos.toNat + raw.length) (slice a pos.toNat (b.size.toNat - pos.toNat))
        (by rw [hlen2, hl2]; omega)
      simp only [SecBuf.insertGrow, hr1, hr2, hw1, hw2, hw3, bind, Except.bind, pure, Except.pure]
      obtain ⟨f1, f2, f3, f4, f5, f6, f7⟩ := insertFinish_props
        { b with data := some (wr (wr (wr (alloc N) 0 (slice a 0 pos.toNat)) pos.toNat raw)
            (pos.toNat + raw.length) (slice a pos.toNat (b.size.toNat - pos.toNat))),
                 dataSize := BitVec.ofNat 64 N }
        ns (BitVec.ofNat 64 raw.length) hbns
      refine ⟨_, rfl, ⟨Or.inr ⟨_, f2, ?_, ?_⟩, ?_⟩, f4, f5, f6, f7, ?_, ?_⟩
      · rw [f1, f3, hns]; simp only [hnds]; omega
      · rw [f3]; simp only [hnds]
        rw [wr_length _ _ _ (by rw [hlen2, hl2]; omega), hlen2]; exact Nat.le_refl _
      · rw [f1, f3, hns]; simp only [hnds]; omega
      · intro e; rw [f2] at e; simp at e
      · rw [hia, hview]
        unfold SecBuf.view
        rw [f1, f2, hns]
        simp only [Option.getD_some]
        exact grow_view a raw pos.toNat b.size.toNat N (by omega) (by omega) hNge

/-- `insert_data` proper on an empty section without allocation -/
theorem insertBody_none (b : SecBuf) (hd : b.data = none) (hs : b.size = 0) (hds : b.dataSize = 0)
    (pos : BitVec 64) (raw : Bytes) (hb : Bound b.cls (b.size.toNat + raw.length)) :
    ∃ b', b.insertBody pos raw = .ok b' ∧ InsertPost b b' pos.toNat raw := by
  have hlt := bound_lt hb
  have hs0 : b.size.toNat = 0 := by rw [hs]; rfl
  have hds0 : b.dataSize.toNat = 0 := by rw [hds]; rfl
  have hview : b.view = [] := by simp [SecBuf.view, hd]
  have hn : (BitVec.ofNat 64 raw.length).toNat = raw.length := by
    simp only [BitVec.toNat_ofNat, Nat.reducePow]; omega
  have hcore : Core b := ⟨Or.inl ⟨hd, hs, hds⟩, by omega⟩
  unfold SecBuf.insertBody
  simp only [s32_pos_gt, s32_ovf_size, s32_new_size, s32_fits, ite_self, g_pos_gt, g_fits]
  by_cases hp : b.size.toNat < pos.toNat
  · simp only [hp, decide_true, if_true]
    refine ⟨b, rfl, hcore, rfl, rfl, rfl, rfl, id, ?_⟩
    simp [Spec.insertAt, hview]; omega
  · simp only [hp, decide_false, Bool.false_eq_true, if_false]
    have hp0 : pos.toNat = 0 := by omega
    have hov : sec64_insert_ovf_size (BitVec.ofNat 64 raw.length) b.size = false :=
      g_ovf_size_false _ _ (by rw [hn]; omega)
    simp only [hov, Bool.false_eq_true, if_false]
    have hns : (sec64_insert_new_size b.size (BitVec.ofNat 64 raw.length)).toNat
        = b.size.toNat + raw.length := by
      rw [g_new_size _ _ (by rw [hn]; omega), hn]
    generalize sec64_insert_new_size b.size (BitVec.ofNat 64 raw.length) = ns at hns
    have hbns : Bound b.cls ns.toNat := by rw [hns]; exact hb
    have hia : Spec.insertAt b.view pos.toNat raw = raw := by
      simp [Spec.insertAt, hview, hp0]
    by_cases hf : ns.toNat ≤ b.dataSize.toNat
    · -- nothing to insert, nothing allocated
      have hr0 : raw = [] := List.eq_nil_of_length_eq_zero (by omega)
      simp only [hf, decide_true, if_true]
      simp only [SecBuf.insertInPlace, hd, hs0, hp0, hr0, rdRange, wrRange, List.length_nil,
        and_self, if_true, bind, Except.bind, pure, Except.pure, Nat.sub_self, Nat.add_zero]
      obtain ⟨f1, f2, f3, f4, f5, f6, f7⟩ := insertFinish_props { b with data := none }
        ns (0#64) hbns
      refine ⟨_, rfl, ⟨Or.inl ⟨f2, ?_, by rw [f3]; exact hds⟩, ?_⟩, f4, f5, f6, f7, fun _ => hd, ?_⟩
      · apply BitVec.eq_of_toNat_eq; rw [f1]; simp; omega
      · rw [f3]; show b.dataSize.toNat ≤ _; omega
      · unfold SecBuf.view; rw [f2]; simp [Spec.insertAt, hd]
    · simp only [hf, decide_false, Bool.false_eq_true, if_false]
      have hg : 2 * b.dataSize.toNat + (BitVec.ofNat 64 raw.length).toNat < 18446744073709551616 := by
        rw [hn]; omega
      rw [growSize_eq _ _ _ hg, hn]
      have hnds : (BitVec.ofNat 64 (2 * b.dataSize.toNat + raw.length)).toNat
          = 2 * b.dataSize.toNat + raw.length := by
        simp only [BitVec.toNat_ofNat, Nat.reducePow]; rw [hn] at hg; omega
      simp only [hnds]
      generalize hN : 2 * b.dataSize.toNat + raw.length = N at hnds
      have hNe : N = raw.length := by omega
      have hw1 := wr_ok "insert_data/copy-head" (alloc N) 0 ([] : Bytes) (by simp)
      have hlen1 : (wr (alloc N) 0 ([] : Bytes)).length = N := by
        rw [wr_length _ _ _ (by simp)]; simp
      have hw2 := wr_ok "insert_data/copy-new" (wr (alloc N) 0 ([] : Bytes)) 0 raw
        (by rw [hlen1]; omega)
      have hlen2 : (wr (wr (alloc N) 0 ([] : Bytes)) 0 raw).length = N := by
        rw [wr_length _ _ _ (by rw [hlen1]; omega)]; exact hlen1
      have hw3 := wr_ok "insert_data/copy-tail" (wr (wr (alloc N) 0 ([] : Bytes)) 0 raw)
        (0 + raw.length) ([] : Bytes) (by rw [hlen2]; simp; omega)
      simp only [SecBuf.insertGrow, hd, hs0, hp0, rdRange, and_self, if_true, Nat.sub_self,
        hw1, hw2, hw3, bind, Except.bind, pure, Except.pure]
      obtain ⟨f1, f2, f3, f4, f5, f6, f7⟩ := insertFinish_props
        { b with data := some (wr (wr (wr (alloc N) 0 ([] : Bytes)) 0 raw) (0 + raw.length) ([] : Bytes)),
                 dataSize := BitVec.ofNat 64 N }
        ns (BitVec.ofNat 64 raw.length) hbns
      refine ⟨_, rfl, ⟨Or.inr ⟨_, f2, ?_, ?_⟩, ?_⟩, f4, f5, f6, f7, ?_, ?_⟩
      · rw [f1, f3, hns]; simp only [hnds]; omega
      · rw [f3]; simp only [hnds]
        rw [wr_length _ _ _ (by rw [hlen2]; simp; omega), hlen2]; exact Nat.le_refl _
      · rw [f1, f3, hns]; simp only [hnds]; omega
      · intro e; rw [f2] at e; simp at e
      · rw [hp0] at hia; rw [hia]
        unfold SecBuf.view
        rw [f1, f2, hns, hs0]
        simp only [Option.getD_some]
        have := grow_view ([] : Bytes) raw 0 0 N (by omega) (by simp) (by omega)
        simpa [slice] using this

/-- `insert_data` proper on any consistent buffer is list insertion -/
theorem insertBody_core (b : SecBuf) (h : Core b) (pos : BitVec 64) (raw : Bytes)
    (hb : Bound b.cls (b.size.toNat + raw.length)) :
    ∃ b', b.insertBody pos raw = .ok b' ∧ InsertPost b b' pos.toNat raw := by
  rcases h.buf with ⟨hd, hs, hds⟩ | ⟨a, hd, h1, h2⟩
  · exact insertBody_none b hd hs hds pos raw hb
  · exact insertBody_some b a hd h1 h2 h.cap pos raw hb

theorem content_resident {b : SecBuf} (h : b.Resident) : b.content = b.view := by
  unfold SecBuf.content
  cases hd : b.data with
  | none => have := h.pend hd; simp only [Option.isNone_none, Bool.true_and, this]; simp
  | some a => simp

theorem content_pending {b : SecBuf} {d : Bytes} (h : b.Pending d) : b.content = d := by
  unfold SecBuf.content
  simp [h.noData, h.isLazy, h.notLoaded, h.fileData]

theorem content_length {b : SecBuf} (h : b.Inv) : b.content.length = b.size.toNat := by
  rcases h with h | ⟨d, h⟩
  · rw [content_resident h]; exact view_length h
  · rw [content_pending h]; exact h.len

theorem resident_core {b : SecBuf} (h : b.Resident) : Core b := ⟨h.buf, h.cap⟩

/-! ### the property theorems -/

/-- **insert** : on every reachable section that is not NOBITS, `insert_data(pos, chunk)` succeeds
    without leaving its buffers and the section then stands for the byte string with the chunk
    inserted at `pos` — or for the same byte string when `pos` is beyond the size. -/
theorem insert_refines (b : SecBuf) (hI : b.Inv) (pos : BitVec 64) (raw : Bytes)
    (hb : Bound b.cls (b.content.length + raw.length)) :
    ∃ b', b.insertData pos raw = .ok b' ∧ b'.Resident ∧ b'.cls = b.cls ∧
      b'.content = Spec.insertAt b.content pos.toNat raw := by
  rw [content_length hI] at hb
  unfold SecBuf.insertData
  simp only [s32_not_nobits, s32_make_resident, ite_self, g_not_nobits]
  rcases hI with h | ⟨d, h⟩
  · -- resident
    have hnn : (b.stype != BitVec.ofNat 32 SHT_NOBITS) = true := by simpa using h.notNobits
    simp only [hnn, Bool.not_true, Bool.false_eq_true, if_false]
    rw [content_resident h]
    by_cases hp : sec64_insert_make_resident b.isLazy b.isLoaded = true
    · simp only [hp, if_true]
      cases hd : b.data with
      | none =>
        have := h.pend hd
        simp [sec64_insert_make_resident] at hp
        simp [hp] at this
      | some a =>
        obtain ⟨g1, g2, g3, g4, g5, g6, g7⟩ := getData_some hd
        have hc : Core b.getData := by
          rcases h.buf with ⟨e, _, _⟩ | ⟨a', e, e1, e2⟩
          · rw [hd] at e; simp at e
          · rw [hd] at e; cases e
            exact ⟨Or.inr ⟨a, g1, by rw [g2, g3]; exact e1, by rw [g3]; exact e2⟩, by rw [g2, g3]; exact h.cap⟩
        obtain ⟨b', e, c, p1, p2, p3, p4, p5, p6⟩ :=
          insertBody_core b.getData hc pos raw (by rw [g4, g2]; exact hb)
        have hv : b.getData.view = b.view := by simp [SecBuf.view, g1, g2, hd]
        refine ⟨b', e, ⟨by rw [p2, g5]; exact h.notNobits, ?_, c.buf, c.cap⟩, by rw [p1, g4], ?_⟩
        · intro e'; have := p5 e'; rw [g1] at this; simp at this
        · have hr : b'.Resident := ⟨by rw [p2, g5]; exact h.notNobits,
            (fun e' => by have := p5 e'; rw [g1] at this; simp at this), c.buf, c.cap⟩
          rw [content_resident hr, p6, hv]
    · simp only [hp, Bool.false_eq_true, if_false]
      obtain ⟨b', e, c, p1, p2, p3, p4, p5, p6⟩ := insertBody_core b (resident_core h) pos raw hb
      have hr : b'.Resident := ⟨by rw [p2]; exact h.notNobits,
        (fun e' => by rw [p3, p4]; exact h.pend (p5 e')), c.buf, c.cap⟩
      exact ⟨b', e, hr, p1, by rw [content_resident hr, p6]⟩
  · -- lazily loaded, not yet resident: the data is read first
    have hnb : b.stype ≠ BitVec.ofNat 32 SHT_NOBITS := by
      have := h.typeOk
      simp only [SecBuf.isNullOrNobits, Bool.or_eq_false_iff] at this
      intro e; rw [e] at this; simp at this
    have hnn : (b.stype != BitVec.ofNat 32 SHT_NOBITS) = true := by simpa using hnb
    simp only [hnn, Bool.not_true, Bool.false_eq_true, if_false]
    have hp : sec64_insert_make_resident b.isLazy b.isLoaded = true := by
      simp [sec64_insert_make_resident, h.isLazy, h.notLoaded]
    simp only [hp, if_true]
    obtain ⟨r, v, c1, c2, c3⟩ := getData_pending h
    obtain ⟨b', e, c, p1, p2, p3, p4, p5, p6⟩ :=
      insertBody_core b.getData (resident_core r) pos raw (by rw [c1, c2]; exact hb)
    have hr : b'.Resident := ⟨by rw [p2]; exact r.notNobits,
      (fun e' => by have := p5 e'; rw [this] at c3; simp at c3), c.buf, c.cap⟩
    refine ⟨b', e, hr, by rw [p1, c1], ?_⟩
    rw [content_resident hr, p6, v, content_pending h]

/-- **append** -/
theorem append_refines (b : SecBuf) (hI : b.Inv) (raw : Bytes)
    (hb : Bound b.cls (b.content.length + raw.length)) :
    ∃ b', b.appendData raw = .ok b' ∧ b'.Resident ∧ b'.cls = b.cls ∧
      b'.content = b.content ++ raw := by
  obtain ⟨b', e, r, c, v⟩ := insert_refines b hI b.size raw hb
  refine ⟨b', e, r, c, ?_⟩
  rw [v, ← content_length hI, Spec.insertAt_length_eq_append]

theorem setFinish_props (b : SecBuf) (hb : Bound b.cls b.dataSize.toNat) :
    b.setFinish.size.toNat = b.dataSize.toNat ∧ b.setFinish.data = b.data ∧
    b.setFinish.dataSize = b.dataSize ∧ b.setFinish.cls = b.cls ∧
    b.setFinish.stype = b.stype ∧ b.setFinish.isLazy = b.isLazy ∧
    b.setFinish.isLoaded = b.isLoaded := by
  have h1 := setSize_toNat b b.dataSize hb
  obtain ⟨h2, h3, h4, h5, h6, h7, h8⟩ := setSize_other b b.dataSize
  rw [SecBuf.setFinish_hand]
  by_cases ht : (b.setSize b.dataSize).translatorEmpty = true
  · simp only [ht, if_true]; exact ⟨h1, h2, h3, h5, h4, h6, h7⟩
  · simp only [ht, if_false]; exact ⟨h1, h2, h3, h5, h4, h6, h7⟩

/-- **replace** -/
theorem set_refines (b : SecBuf) (hI : b.Inv) (raw : Bytes) (hb : Bound b.cls raw.length) :
    ∃ b', b.setData (some raw) (BitVec.ofNat 64 raw.length) = .ok b' ∧ b'.Resident ∧ b'.cls = b.cls ∧
      b'.content = raw := by
  have hlt := bound_lt hb
  have hn : (BitVec.ofNat 64 raw.length).toNat = raw.length := by
    simp only [BitVec.toNat_ofNat, Nat.reducePow]; omega
  have hnb : b.stype ≠ BitVec.ofNat 32 SHT_NOBITS := by
    rcases hI with h | ⟨d, h⟩
    · exact h.notNobits
    · have := h.typeOk
      simp only [SecBuf.isNullOrNobits, Bool.or_eq_false_iff] at this
      intro e; rw [e] at this; simp at this
  have hnn : sec64_set_data_not_nobits b.stype = true := by
    simpa [sec64_set_data_not_nobits] using hnb
  have hr : rdRange "set_data/copy-src" (some raw) 0 raw.length = .ok raw := by
    rw [rdRange_some_ok (by omega)]; simp [slice]
  have hw := wr_ok "set_data/copy" (alloc raw.length) 0 raw (by simp)
  have hwe : wr (alloc raw.length) 0 raw = raw := by simp [wr]
  rw [SecBuf.setData_hand]
  simp only [s32_sd_not_nobits, s32_sd_alloc, ite_self, hnn, if_true, sec64_set_data_alloc, hn, hr, hw,
    hwe, bind, Except.bind, pure, Except.pure]
  obtain ⟨f1, f2, f3, f4, f5, f6, f7⟩ := setFinish_props
    { b with data := some raw, dataSize := BitVec.ofNat 64 raw.length } (by rw [hn]; exact hb)
  have hr' : ({ b with data := some raw, dataSize := BitVec.ofNat 64 raw.length } : SecBuf).setFinish.Resident :=
    ⟨by rw [f5]; exact hnb, by rw [f2]; simp,
      Or.inr ⟨raw, f2, by rw [f1, f3]; exact Nat.le_refl _, by rw [f3]; show (BitVec.ofNat 64 raw.length).toNat ≤ _; rw [hn]; exact Nat.le_refl _⟩,
      by rw [f1, f3]; omega⟩
  refine ⟨_, rfl, hr', f4, ?_⟩
  rw [content_resident hr']; unfold SecBuf.view; rw [f1, f2]; simp [hn]

/-- **C07, one operation** : every editing operation on a reachable non-NOBITS section succeeds
    (no access outside the buffers) and refines the byte-string operation. -/
theorem edit_refines (b : SecBuf) (hI : b.Inv) (op : Spec.EditOp)
    (hb : Bound b.cls (b.content.length + (opChunk op).length)) (hp : opPos op < 18446744073709551616) :
    ∃ b', b.applyOp op = .ok b' ∧ b'.Inv ∧ b'.cls = b.cls ∧ b'.content = Spec.edit b.content op := by
  cases op with
  | replace bs =>
    have hb' : Bound b.cls bs.length := by
      simp only [opChunk] at hb
      cases hc : b.cls <;> simp only [hc, Bound] at hb ⊢ <;> omega
    obtain ⟨b', e, r, c, v⟩ := set_refines b hI bs hb'
    exact ⟨b', e, Or.inl r, c, v⟩
  | append bs =>
    obtain ⟨b', e, r, c, v⟩ := append_refines b hI bs hb
    exact ⟨b', e, Or.inl r, c, v⟩
  | insert pos bs =>
    obtain ⟨b', e, r, c, v⟩ := insert_refines b hI (BitVec.ofNat 64 pos) bs hb
    refine ⟨b', e, Or.inl r, c, ?_⟩
    have : (BitVec.ofNat 64 pos).toNat = pos := by
      simp only [opPos] at hp
      simp only [BitVec.toNat_ofNat, Nat.reducePow]; omega
    rw [v, this]; rfl

/-- **C07, any sequence** : after any sequence of replace / append / insert operations the section
    stands for the byte string subjected to the same operations (induction over the sequence;
    no bound on its length). -/
theorem edits_refine (b : SecBuf) (hI : b.Inv) (ops : List Spec.EditOp)
    (hfit : OpsFit b.cls b.content ops) :
    ∃ b', b.applyOps ops = .ok b' ∧ b'.Inv ∧ b'.content = ops.foldl Spec.edit b.content := by
  induction ops generalizing b with
  | nil => exact ⟨b, rfl, hI, rfl⟩
  | cons op ops ih =>
    obtain ⟨h1, h2, h3⟩ := hfit
    obtain ⟨b1, e1, i1, c1, v1⟩ := edit_refines b hI op h1 h2
    obtain ⟨b2, e2, i2, v2⟩ := ih b1 i1 (by rw [c1, v1]; exact h3)
    refine ⟨b2, ?_, i2, by rw [v2, v1]; rfl⟩
    simp only [SecBuf.applyOps, e1, bind, Except.bind]
    exact e2

/-- an insert at a position beyond the current size changes nothing -/
theorem insert_beyond_noop (b : SecBuf) (hI : b.Inv) (pos : BitVec 64) (raw : Bytes)
    (hb : Bound b.cls (b.content.length + raw.length)) (hpos : b.content.length < pos.toNat) :
    ∃ b', b.insertData pos raw = .ok b' ∧ b'.content = b.content := by
  obtain ⟨b', e, _, _, v⟩ := insert_refines b hI pos raw hb
  refine ⟨b', e, ?_⟩
  rw [v]; simp [Spec.insertAt]; omega

/-- NOBITS sections never acquire data, whatever is done to them -/
theorem nobits_never_data (b : SecBuf) (hty : b.stype = BitVec.ofNat 32 SHT_NOBITS) (hd : b.data = none) :
    (∀ raw sz b', b.setData raw sz = .ok b' → b'.data = none ∧ b'.stype = b.stype) ∧
    (∀ pos raw, b.insertData pos raw = .ok b) ∧ (∀ raw, b.appendData raw = .ok b) := by
  refine ⟨?_, ?_, ?_⟩
  · intro raw sz b' e
    rw [SecBuf.setData_hand] at e
    simp only [s32_sd_not_nobits, ite_self, sec64_set_data_not_nobits, hty, bne_self_eq_false,
      Bool.false_eq_true, if_false, pure, Except.pure] at e
    cases e
    obtain ⟨s2, s3, s4, s5, s6, s7, s8⟩ := setSize_other b b.dataSize
    rw [SecBuf.setFinish_hand]
    by_cases ht : (b.setSize b.dataSize).translatorEmpty = true
    · simp only [ht, if_true]; exact ⟨by rw [s2]; exact hd, s4⟩
    · simp only [ht, Bool.false_eq_true, if_false]; exact ⟨by rw [s2]; exact hd, s4⟩
  · intro pos raw
    unfold SecBuf.insertData
    simp [g_not_nobits, hty, pure, Except.pure]
  · intro raw
    unfold SecBuf.appendData SecBuf.insertData
    simp [g_not_nobits, hty, pure, Except.pure]

/-- a freshly created section satisfies the invariant and stands for the empty string -/
theorem fresh_inv (cls : Cls) (ty : BitVec 32) (hty : ty ≠ BitVec.ofNat 32 SHT_NOBITS) :
    (SecBuf.fresh cls ty).Inv ∧ (SecBuf.fresh cls ty).content = [] := by
  have r : (SecBuf.fresh cls ty).Resident :=
    ⟨hty, by simp [SecBuf.fresh], Or.inl ⟨rfl, rfl, rfl⟩, by simp [SecBuf.fresh]⟩
  exact ⟨Or.inl r, by rw [content_resident r]; simp [SecBuf.view, SecBuf.fresh]⟩

/-- an eagerly loaded section (data read succeeded) satisfies the invariant and stands for its
    file bytes -/
theorem loaded_inv (cls : Cls) (ty : BitVec 32) (d : Bytes) (ss : BitVec 64)
    (hty : ty ≠ BitVec.ofNat 32 SHT_NOBITS) (hd : d.length < 18446744073709551616) :
    (SecBuf.loadedEager cls ty d ss).Inv ∧ (SecBuf.loadedEager cls ty d ss).content = d := by
  have hn : (BitVec.ofNat 64 d.length).toNat = d.length := by
    simp only [BitVec.toNat_ofNat, Nat.reducePow]; omega
  have r : (SecBuf.loadedEager cls ty d ss).Resident := by
    by_cases h0 : d.length = 0
    · refine ⟨hty, by simp [SecBuf.loadedEager], Or.inr ⟨alloc 1, by simp [SecBuf.loadedEager, h0], ?_, ?_⟩, ?_⟩
        <;> simp [SecBuf.loadedEager, h0]
    · refine ⟨hty, by simp [SecBuf.loadedEager], Or.inr ⟨d ++ [0], by simp [SecBuf.loadedEager, h0], ?_, ?_⟩, ?_⟩
        <;> simp [SecBuf.loadedEager, h0, hn] <;> omega
  refine ⟨Or.inl r, ?_⟩
  rw [content_resident r]
  by_cases h0 : d.length = 0
  · have : d = [] := List.eq_nil_of_length_eq_zero h0
    simp [SecBuf.view, SecBuf.loadedEager, this]
  · simp [SecBuf.view, SecBuf.loadedEager, h0, hn]

/-- a lazily loaded, not yet resident section (readable data) satisfies the invariant and stands
    for its file bytes -/
theorem lazy_inv (cls : Cls) (ty : BitVec 32) (d : Bytes) (ss : BitVec 64)
    (hty : ty ≠ BitVec.ofNat 32 SHT_NOBITS) (hty0 : ty ≠ BitVec.ofNat 32 SHT_NULL)
    (hd : d.length < 18446744073709551616) :
    (SecBuf.loadedLazy cls ty d ss).Inv ∧ (SecBuf.loadedLazy cls ty d ss).content = d := by
  have hn : (BitVec.ofNat 64 d.length).toNat = d.length := by
    simp only [BitVec.toNat_ofNat, Nat.reducePow]; omega
  have p : (SecBuf.loadedLazy cls ty d ss).Pending d :=
    ⟨rfl, rfl, rfl, rfl, rfl, by simp [SecBuf.loadedLazy, hn], by
      simp [SecBuf.isNullOrNobits, SecBuf.loadedLazy, hty, hty0]⟩
  exact ⟨Or.inr ⟨d, p⟩, content_pending p⟩

/-! ### non-vacuity: concrete reachable states meet the hypotheses -/
example : (SecBuf.fresh .c64 1).Inv := (fresh_inv .c64 1 (by decide)).1
example : (SecBuf.loadedLazy .c32 1 [1, 2, 3] 400).Inv := (lazy_inv .c32 1 [1, 2, 3] 400 (by decide) (by decide) (by decide)).1
example : OpsFit .c32 [1, 2, 3] [.insert 1 [9], .append [7, 7], .replace [], .insert 5 [1]] := by
  simp [OpsFit, Bound, opChunk, opPos, Spec.edit, Spec.insertAt]

end C07
end ElfioVerif
