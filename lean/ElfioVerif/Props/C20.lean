import ElfioVerif.Model.Validate
namespace ElfioVerif.C20
end ElfioVerif.C20
