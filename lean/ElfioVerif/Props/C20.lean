/-
C20 — `validate()`.

  * `validate_overlap`      two non-empty, non-NOBITS sections with non-zero offsets whose file
                            ranges intersect are reported (and `validate_overlap_only_if`: nothing
                            else is reported as an overlap)
  * `validate_skew`         a PT_LOAD segment with file size > 0 whose virtual address disagrees
                            with the address of the program section found at its file offset is
                            reported (and `validate_skew_only_if`)
  * `validate_overlap_witness_prefix`   the condition before commit deacba8 (`(type & SHT_NOBITS) == 0`)
                            did not report two SHT_REL sections at the same offset (F10)
  * `validate_silent`       no complaint for an object whose layout satisfies `LayoutOk`
                            (pairwise disjoint file ranges; program sections at the same distance
                            from a loadable segment's start in file and memory) — the predicate
                            that C04's `layout_disjoint` / `member_equidistant` establish for the
                            object left by a successful `save`.

The overlap condition, `find_prog_section_for_offset`'s match and the address comparison are the
generated expressions (Gen/SitesValidate.lean, Gen/Funcs.lean).
-/
import ElfioVerif.Lemmas.ValidateL
import ElfioVerif.Props.C04
namespace ElfioVerif.C20
open ElfioVerif Gen

/-! ### overlaps are reported -/

/-- whenever two non-empty sections that occupy file space (type ≠ SHT_NOBITS; offsets > 0, as the
    code demands) intersect in the file, `validate` reports the pair -/
theorem validate_overlap (o : Obj) (i j : Nat) (a b : SecBuf)
    (hij : i < j) (hi : o.secs[i]? = some a) (hj : o.secs[j]? = some b)
    (hta : a.stype ≠ BitVec.ofNat 32 SHT_NOBITS) (htb : b.stype ≠ BitVec.ofNat 32 SHT_NOBITS)
    (hsa : 0 < a.size.toNat) (hsb : 0 < b.size.toNat)
    (hoa : 0 < a.offset.toNat) (hob : 0 < b.offset.toNat)
    (hwa : a.offset.toNat + a.size.toNat < 18446744073709551616)
    (hwb : b.offset.toNat + b.size.toNat < 18446744073709551616)
    (hint : RangesIntersect a b) :
    Complaint.overlap i j ∈ validate o := by
  have hp : overlapPair a b = true :=
    (overlapPair_iff a b hwa hwb).2 ⟨hta, htb, hsa, hsb, hoa, hob, hint⟩
  have := mem_overlapComplaints o.secs 0 i j a b hij hi hj hp
  simp only [Nat.zero_add] at this
  exact List.mem_append_left _ this

/-- and only such pairs: an overlap complaint names `i < j` meeting the code's condition; without
    wrap-around that condition is exactly "both occupy file space, non-empty, offsets > 0, ranges
    intersect" -/
theorem validate_overlap_only_if (o : Obj) (p q : Nat) (h : Complaint.overlap p q ∈ validate o) :
    ∃ a b, p < q ∧ o.secs[p]? = some a ∧ o.secs[q]? = some b ∧ overlapPair a b = true ∧
      (a.offset.toNat + a.size.toNat < 18446744073709551616 →
       b.offset.toNat + b.size.toNat < 18446744073709551616 →
        a.stype ≠ BitVec.ofNat 32 SHT_NOBITS ∧ b.stype ≠ BitVec.ofNat 32 SHT_NOBITS ∧
        0 < a.size.toNat ∧ 0 < b.size.toNat ∧ 0 < a.offset.toNat ∧ 0 < b.offset.toNat ∧
        RangesIntersect a b) := by
  unfold validate at h
  rw [List.mem_append] at h
  rcases h with h | h
  · obtain ⟨i, j, a, b, hp, hq, hij, hi, hj, ho⟩ := of_mem_overlapComplaints o.secs 0 p q h
    simp only [Nat.zero_add] at hp hq
    subst hp; subst hq
    exact ⟨a, b, hij, hi, hj, ho, fun hwa hwb => (overlapPair_iff a b hwa hwb).1 ho⟩
  · rw [List.mem_filterMap] at h
    obtain ⟨⟨g, k⟩, -, he⟩ := h
    split at he <;> simp at he

/-- non-vacuity: two PROGBITS sections at offsets 100 (size 20) and 110 (size 4) -/
example :
    let s1 : SecBuf := { SecBuf.fresh .c64 0 with stype := 1, size := 20, offset := 100 }
    let s2 : SecBuf := { SecBuf.fresh .c64 0 with stype := 1, size := 4, offset := 110 }
    let o : Obj := { secs := [SecBuf.fresh .c64 0, s1, s2] }
    Complaint.overlap 1 2 ∈ validate o := by
  intro s1 s2 o
  exact validate_overlap o 1 2 s1 s2 (by decide) rfl rfl (by decide) (by decide) (by decide) (by decide)
    (by decide) (by decide) (by decide) (by decide) (by decide)

/-! ### F10: the condition before the fix -/

/-- `validate`'s overlap condition as it was before commit deacba8 (documentation only):
    `(a->get_type() & SHT_NOBITS) == 0` instead of `a->get_type() != SHT_NOBITS` -/
def validate_overlap_prefix (a_type b_type : BitVec 32) (a_size b_size a_offset b_offset : BitVec 64) : Bool :=
  ((a_type &&& BitVec.ofNat 32 SHT_NOBITS) == 0) && ((b_type &&& BitVec.ofNat 32 SHT_NOBITS) == 0) &&
  BitVec.ult 0 a_size && BitVec.ult 0 b_size && BitVec.ult 0 a_offset && BitVec.ult 0 b_offset &&
  (is_offset_in_section a_offset b_offset b_size || is_offset_in_section (a_offset + a_size - 1) b_offset b_size ||
   is_offset_in_section b_offset a_offset a_size || is_offset_in_section (b_offset + b_size - 1) a_offset a_size)

/-- F10 (fixed by deacba8): two SHT_REL sections (type 9 has bit 3 set) at the same offset were not
    reported by the old condition, and are reported by the present one -/
theorem validate_overlap_witness_prefix :
    validate_overlap_prefix (BitVec.ofNat 32 SHT_REL) (BitVec.ofNat 32 SHT_REL) 16 16 64 64 = false ∧
    Gen.validate_overlap (BitVec.ofNat 32 SHT_REL) (BitVec.ofNat 32 SHT_REL) 16 16 64 64 = true := by
  decide

/-! ### address conflicts are reported -/

/-- a loadable segment with file size > 0 whose virtual address differs from the address that the
    program section found at its file offset assigns to that offset is reported -/
theorem validate_skew (o : Obj) (h : Nat) (g : Seg) (s : SecBuf)
    (hg : o.segs[h]? = some g)
    (hload : g.stype = BitVec.ofNat 32 PT_LOAD) (hfs : 0 < g.filesz.toNat)
    (hfind : findProgSection o.secs g.offset = some s)
    (hne : s.addr + (g.offset - s.offset) ≠ g.vaddr) :
    Complaint.conflict h ∈ validate o := by
  unfold validate
  apply List.mem_append_right
  rw [List.mem_filterMap]
  refine ⟨(g, h), ?_, ?_⟩
  · rw [List.mem_zipIdx_iff_getElem?]; exact hg
  · have hc : segConflict o.secs g = true := by
      unfold segConflict
      rw [hfind]
      simp only [hload, beq_self_eq_true, hfs, decide_true, Bool.and_self, Bool.true_and,
        validate_addr_ne, get_virtual_addr, bne_iff_ne, ne_eq]
      intro he; apply hne; rw [← he]
      rw [bv_add_sub_assoc]
    simp [hc]

/-- and only such segments are reported -/
theorem validate_skew_only_if (o : Obj) (h : Nat) (hc : Complaint.conflict h ∈ validate o) :
    ∃ g s, o.segs[h]? = some g ∧ g.stype = BitVec.ofNat 32 PT_LOAD ∧ 0 < g.filesz.toNat ∧
      findProgSection o.secs g.offset = some s ∧ s.addr + (g.offset - s.offset) ≠ g.vaddr := by
  unfold validate at hc
  rw [List.mem_append] at hc
  rcases hc with hc | hc
  · exact absurd hc (conflict_not_mem_overlapComplaints _ _ _)
  · rw [List.mem_filterMap] at hc
    obtain ⟨⟨g, k⟩, hm, he⟩ := hc
    rw [List.mem_zipIdx_iff_getElem?] at hm
    by_cases hcf : segConflict o.secs g = true
    · simp only [hcf, if_true, Option.some.injEq, Complaint.conflict.injEq] at he
      subst he
      unfold segConflict at hcf
      split at hcf
      · exact Bool.noConfusion hcf
      · rename_i s hs
        simp only [Bool.and_eq_true, beq_iff_eq, decide_eq_true_eq, validate_addr_ne,
          get_virtual_addr, bne_iff_ne, ne_eq] at hcf
        refine ⟨g, s, hm, hcf.1.1, hcf.1.2, hs, ?_⟩
        intro he; apply hcf.2; rw [← he, bv_add_sub_assoc]
    · simp [hcf] at he

/-- non-vacuity: a PT_LOAD at offset 4096 whose vaddr is one byte off -/
example :
    let s1 : SecBuf := { SecBuf.fresh .c64 0 with stype := 1, size := 20, offset := 4096, addr := 0x401000 }
    let g : Seg := { stype := 1, offset := 4096, vaddr := 0x401001, filesz := 20 }
    let o : Obj := { secs := [SecBuf.fresh .c64 0, s1], segs := [g] }
    Complaint.conflict 0 ∈ validate o := by
  intro s1 g o
  exact validate_skew o 0 g s1 rfl (by decide) (by decide) rfl (by decide)

/-! ### silence on well laid out objects -/

theorem validate_silent (o : Obj) (h : LayoutOk o) : validate o = [] := by
  unfold validate
  rw [List.append_eq_nil_iff]
  constructor
  · apply overlapComplaints_eq_nil
    intro i j a b hij hi hj
    have ha : a ∈ o.secs := List.mem_of_getElem? hi
    have hb : b ∈ o.secs := List.mem_of_getElem? hj
    cases hp : overlapPair a b with
    | false => rfl
    | true =>
      exfalso
      -- the guard part of the condition does not depend on wrap-around
      have hg : a.stype ≠ BitVec.ofNat 32 SHT_NOBITS ∧ b.stype ≠ BitVec.ofNat 32 SHT_NOBITS ∧
          0 < a.size.toNat ∧ 0 < b.size.toNat := by
        unfold overlapPair Gen.validate_overlap at hp
        simp only [Bool.and_eq_true, bne_iff_ne, ne_eq] at hp
        have e0 : (BitVec.signExtend 64 0#32) = 0#64 := by decide
        rw [e0] at hp
        have pos : ∀ x : BitVec 64, BitVec.ult 0#64 x = true → 0 < x.toNat := by
          intro x; simp [BitVec.ult]
        exact ⟨hp.1.1.1.1.1.1, hp.1.1.1.1.1.2, pos _ hp.1.1.1.1.2, pos _ hp.1.1.1.2⟩
      have hwa := h.nowrap a ha hg.1 hg.2.2.1
      have hwb := h.nowrap b hb hg.2.1 hg.2.2.2
      obtain ⟨h1, h2, h3, h4, h5, h6, h7⟩ := (overlapPair_iff a b hwa hwb).1 hp
      exact h.disjoint i j a b hij hi hj h1 h2 h3 h4 h5 h6 h7
  · rw [List.filterMap_eq_nil_iff]
    rintro ⟨g, k⟩ hm
    have hgm : g ∈ o.segs := by
      rw [List.mem_zipIdx_iff_getElem?] at hm; exact List.mem_of_getElem? hm
    have hcf : segConflict o.secs g = false := by
      unfold segConflict
      split
      · rfl
      · rename_i s hs
        cases hl : (g.stype == BitVec.ofNat 32 PT_LOAD) with
        | false => simp
        | true =>
          cases hf : decide (0 < g.filesz.toNat) with
          | false => simp
          | true =>
            simp only [Bool.and_self, Bool.true_and, validate_addr_ne, get_virtual_addr,
              bne_eq_false_iff_eq]
            have hl' : g.stype = BitVec.ofNat 32 PT_LOAD := by simpa using hl
            have hf' : 0 < g.filesz.toNat := by simpa using hf
            unfold findProgSection at hs
            have hsm := List.mem_of_find?_eq_some hs
            have hsp := List.find?_some hs
            simp only [find_prog_section_match, Bool.and_eq_true, beq_iff_eq] at hsp
            have hsz : 0 < s.size.toNat := by
              have := hsp.2
              simp only [is_offset_in_section, Bool.and_eq_true, BitVec.ule, BitVec.ult,
                decide_eq_true_eq, BitVec.toNat_add, Nat.reducePow] at this
              have h1 := s.offset.isLt
              rcases Nat.eq_zero_or_pos s.size.toNat with hz | hz
              · rw [hz, Nat.add_zero, Nat.mod_eq_of_lt h1] at this; omega
              · exact hz
            have hnb : s.stype ≠ BitVec.ofNat 32 SHT_NOBITS := by rw [hsp.1]; decide
            have hw := h.nowrap s hsm hnb hsz
            have hin := (is_offset_in_section_iff _ _ _ hw).1 hsp.2
            have := h.equidistant g hgm hl' hf' s hsm hsp.1 hin.1 hin.2
            rw [← this, bv_add_sub_assoc]
    simp [hcf]

/-- non-vacuity: header, one PROGBITS member of a PT_LOAD, one loose section -/
example :
    let s1 : SecBuf := { SecBuf.fresh .c64 0 with stype := 1, size := 20, offset := 4096, addr := 0x401000 }
    let s2 : SecBuf := { SecBuf.fresh .c64 0 with stype := 3, size := 11, offset := 4116 }
    let g : Seg := { stype := 1, offset := 4096, vaddr := 0x401000, filesz := 20, memsz := 20, secs := [1] }
    let o : Obj := { secs := [SecBuf.fresh .c64 0, s1, s2], segs := [g] }
    validate o = [] := by
  decide

/-! ### silence after `save` -/

/-- **`validate()` returns no complaint for the object left by a successful `save`** of a flat
    writer-domain object (C04's `save_layoutOk` supplies `LayoutOk`): any number of sections and
    segments; fewer than 2^16 sections; sections that occupy file space do not carry index 0 and
    SHT_NULL-typed sections are empty; no cursor wrap-around (`layoutNW`); distinct segment
    indices; writer-domain side conditions at every selected segment (`layoutDomB false false sel`:
    members count towards the memory size, members not generated before the segment's turn, no
    PHDR/offset-0 segment with members), where the selection contains every PT_LOAD segment with
    file size > 0 (nested PT_NOTE/PT_TLS/… segments need not be selected: `validate` ignores them). -/
theorem validate_silent_save (o : Obj) (os : OStream) (r : SaveRes) (hdr : Bytes)
    (hs : save o os = .ok r) (hok : r.ok = true) (hh : o.hdr = some hdr)
    (hn : o.secs.length < 65536)
    (h0 : ∀ (i : Nat) (s : SecBuf), o.secs[i]? = some s → s.Occ → s.index ≠ 0)
    (hnull0 : ∀ s ∈ o.secs, s.stype = BitVec.ofNat 32 SHT_NULL → s.size = 0)
    (hnw : layoutNW (preSave o) hdr = true) (hnd : (o.segs.map (·.index)).Nodup)
    (sel : Nat → Bool) (hdom : layoutDomB false false sel (preSave o) hdr = true)
    (hsel : ∀ g ∈ r.obj.segs, g.stype = BitVec.ofNat 32 PT_LOAD → 0 < g.filesz.toNat → sel g.index = true) :
    validate r.obj = [] :=
  validate_silent r.obj (C04.save_layoutOk o os r hdr hs hok hh hn h0 hnull0 hnw hnd sel hdom hsel)

/-- **Silence for the reloaded form**, relative to the loader: if the object obtained by loading the
    saved bytes reports the same type/size/offset/address for every section and the same
    type/file size/offset/virtual address for every segment as the object `save` left (C02:
    the reader reports what the bytes say; C03/C05: the bytes say what the object holds), then
    `validate` is silent on it too — `validate` reads nothing else (`validate_congr`; in particular
    the section membership recomputed by the loader is irrelevant).  The composition with the loader
    model itself is not done here; the correspondence check runs `save, validate, reload, validate`
    on every generated program. -/
theorem validate_silent_reloaded (o : Obj) (os : OStream) (r : SaveRes) (hdr : Bytes) (o' : Obj)
    (hs : save o os = .ok r) (hok : r.ok = true) (hh : o.hdr = some hdr)
    (hn : o.secs.length < 65536)
    (h0 : ∀ (i : Nat) (s : SecBuf), o.secs[i]? = some s → s.Occ → s.index ≠ 0)
    (hnull0 : ∀ s ∈ o.secs, s.stype = BitVec.ofNat 32 SHT_NULL → s.size = 0)
    (hnw : layoutNW (preSave o) hdr = true) (hnd : (o.segs.map (·.index)).Nodup)
    (sel : Nat → Bool) (hdom : layoutDomB false false sel (preSave o) hdr = true)
    (hsel : ∀ g ∈ r.obj.segs, g.stype = BitVec.ofNat 32 PT_LOAD → 0 < g.filesz.toNat → sel g.index = true)
    (hsecs : o'.secs.map vkey = r.obj.secs.map vkey) (hsegs : o'.segs.map vgkey = r.obj.segs.map vgkey) :
    validate o' = [] := by
  rw [validate_congr r.obj o' hsecs hsegs]
  exact validate_silent_save o os r hdr hs hok hh hn h0 hnull0 hnw hnd sel hdom hsel

/-- **Silence after `save`, nested PT_LOAD segments included** (`C04.save_layoutOk_nested`): as
    `validate_silent_save`, but a PT_LOAD segment with file size > 0 may also be nested in another
    segment (`selN`: at its turn its first member had been generated, so it starts at that member's
    offset) as long as that first member occupies file space and carries the segment's virtual
    address — the writer domain's "a nested segment starts at a member's address". -/
theorem validate_silent_save_nested (o : Obj) (os : OStream) (r : SaveRes) (hdr : Bytes)
    (hs : save o os = .ok r) (hok : r.ok = true) (hh : o.hdr = some hdr)
    (hn : o.secs.length < 65536)
    (h0 : ∀ (i : Nat) (s : SecBuf), o.secs[i]? = some s → s.Occ → s.index ≠ 0)
    (hnull0 : ∀ s ∈ o.secs, s.stype = BitVec.ofNat 32 SHT_NULL → s.size = 0)
    (hnw : layoutNW (preSave o) hdr = true) (hnd : (o.segs.map (·.index)).Nodup)
    (sel selN : Nat → Bool) (hdom : layoutDomB false false sel (preSave o) hdr = true)
    (hnest : layoutSelB segNestedStartB selN (preSave o) hdr = true)
    (hsel : ∀ g ∈ r.obj.segs, g.stype = BitVec.ofNat 32 PT_LOAD → 0 < g.filesz.toNat →
      sel g.index = true ∨
      (selN g.index = true ∧ ∀ f sf, g.secs.head? = some f → r.obj.secs[f.toNat]? = some sf →
        sf.Occ ∧ g.vaddr = sf.addr)) :
    validate r.obj = [] :=
  validate_silent r.obj (C04.save_layoutOk_nested o os r hdr hs hok hh hn h0 hnull0 hnw hnd sel selN hdom hnest hsel)

/-- the reloaded form of the same (cf. `validate_silent_reloaded`) -/
theorem validate_silent_reloaded_nested (o : Obj) (os : OStream) (r : SaveRes) (hdr : Bytes) (o' : Obj)
    (hs : save o os = .ok r) (hok : r.ok = true) (hh : o.hdr = some hdr)
    (hn : o.secs.length < 65536)
    (h0 : ∀ (i : Nat) (s : SecBuf), o.secs[i]? = some s → s.Occ → s.index ≠ 0)
    (hnull0 : ∀ s ∈ o.secs, s.stype = BitVec.ofNat 32 SHT_NULL → s.size = 0)
    (hnw : layoutNW (preSave o) hdr = true) (hnd : (o.segs.map (·.index)).Nodup)
    (sel selN : Nat → Bool) (hdom : layoutDomB false false sel (preSave o) hdr = true)
    (hnest : layoutSelB segNestedStartB selN (preSave o) hdr = true)
    (hsel : ∀ g ∈ r.obj.segs, g.stype = BitVec.ofNat 32 PT_LOAD → 0 < g.filesz.toNat →
      sel g.index = true ∨
      (selN g.index = true ∧ ∀ f sf, g.secs.head? = some f → r.obj.secs[f.toNat]? = some sf →
        sf.Occ ∧ g.vaddr = sf.addr))
    (hsecs : o'.secs.map vkey = r.obj.secs.map vkey) (hsegs : o'.segs.map vgkey = r.obj.segs.map vgkey) :
    validate o' = [] := by
  rw [validate_congr r.obj o' hsecs hsegs]
  exact validate_silent_save_nested o os r hdr hs hok hh hn h0 hnull0 hnw hnd sel selN hdom hnest hsel

/-- a PT_LOAD over `.text` and `.data` and a second PT_LOAD *nested* in it over `.data` alone
    (its `p_vaddr` is `.data`'s explicit address) -/
def exNestedLoad : Obj :=
  { cls := .c64, enc := .lsb, hdr := some C04.exHdr,
    secs := [ { SecBuf.fresh .c64 0 with index := 0 },
              { SecBuf.fresh .c64 3 with index := 1, size := 17, addrAlign := 1 },
              { SecBuf.fresh .c64 1 with index := 2, size := 24, addrAlign := 16, flags := 6,
                                         addr := 0x401000, addrSet := true },
              { SecBuf.fresh .c64 1 with index := 3, size := 10, addrAlign := 4, flags := 3,
                                         addr := 0x401020, addrSet := true } ],
    segs := [ { stype := 1, vaddr := 0x401000, align := 0x1000, secs := [2, 3], index := 0 },
              { stype := 1, vaddr := 0x401020, align := 4, secs := [3], index := 1 } ] }

/-- what the last hypothesis of `validate_silent_save_nested` asks of the saved `exNestedLoad` -/
def exNestedLoadSel (o : Obj) : Bool :=
  o.segs.all fun g =>
    g.index == 0 ||
      (g.index == 1 && match g.secs.head? with
        | some f => (match o.secs[f.toNat]? with
          | some sf => decide sf.Occ && g.vaddr == sf.addr
          | none => true)
        | none => true)

/-- non-vacuity: `exNestedLoad` meets every hypothesis (segment 0 flat, segment 1 nested), its `save`
    succeeds, and `validate` is indeed silent on the saved object -/
example :
    layoutNW (preSave exNestedLoad) C04.exHdr = true ∧ (exNestedLoad.segs.map (·.index)).Nodup ∧
    layoutDomB false false (fun i => i == 0) (preSave exNestedLoad) C04.exHdr = true ∧
    layoutSelB segNestedStartB (fun i => i == 1) (preSave exNestedLoad) C04.exHdr = true ∧
    (match save exNestedLoad {} with
     | .ok r => r.ok && exNestedLoadSel r.obj && (validate r.obj).isEmpty &&
         r.obj.segs.map (fun g => (g.offset, g.filesz)) == [(0x1000, 42), (0x1020, 10)]
     | .error _ => false) = true := by
  refine ⟨by decide +kernel, by decide, by decide +kernel, by decide +kernel, by decide +kernel⟩

/-- non-vacuity: `C04.exObj` (two members of a PT_LOAD, one with an explicit address, and two
    loose sections) meets every hypothesis, and its `save` succeeds -/
example : ∀ r, save C04.exObj {} = .ok r → r.ok = true → validate r.obj = [] := by
  intro r hs hok
  refine validate_silent_save C04.exObj {} r C04.exHdr hs hok rfl (by decide) ?_ (by decide) (by decide)
    (by decide) (fun _ => true) (by decide) (fun _ _ _ _ => rfl)
  intro i s hs ho hi
  have : ∀ t ∈ C04.exObj.secs, t.index = 0 → ¬ t.Occ := by decide
  exact this s (List.mem_of_getElem? hs) hi ho

set_option maxRecDepth 100000 in
example : (match save C04.exObj {} with | .ok r => r.ok | _ => false) = true := by decide

end ElfioVerif.C20
