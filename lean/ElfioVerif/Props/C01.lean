/-
C01 — loading and inspecting arbitrary bytes is memory-safe and terminates.

Everything here is about the checked-memory model of the loader (Model/Load.lean: every buffer
access is a checked read, so "the model returns `.ok`" means "no access left a buffer, no null
was dereferenced"), for ALL byte strings, both stream kinds, both `isLazy` values, any initial
object, any address-translation table unless a hypothesis says otherwise.  Termination is by
construction (all model functions are structurally recursive).

  load_total        the loader never faults
  load_inv          every section / segment of the result satisfies `LoadedSec` / `LoadedSeg`
  load_alloc_bound  no allocation request exceeds len+1   (len < 2^64; with or without an address
                    translation table — `len` is the length of the stream that is read)
  load_alloc_shape  every request is size+1 for a byte range inside the input, so a request of
                    exactly len+1 bytes is for the range [0, len) (finding F11)
  getData_inv       arbitrary interleavings of (lazy) data requests and free_data() keep the
                    invariants, and their allocation requests obey the same bound
  getString_total   the string reader is safe for EVERY 32-bit index on every loaded section;
                    what it returns is a NUL-free run of bytes of the input inside [0,size)
  exposes_only_file_bytes (also used by C17)

Remark (`validate_total`): `validate` (Model/Validate.lean) is a total pure function on `Obj`
(no `M`, no fuel), so "validate() always returns and touches no buffer" holds by construction.
-/
import ElfioVerif.Lemmas.LoadSafety
import ElfioVerif.Lemmas.Inspect
import ElfioVerif.Model.Validate
namespace ElfioVerif.C01
open ElfioVerif Gen

/-! ### the loader -/

/-- Loading ANY byte string (eagerly or lazily, string- or file-backed stream, any stream state,
    any address translation table, any previous object) never faults: the only checked access of
    the loader, the section-name lookup, stays inside the string-table buffer. -/
theorem load_total (o : Obj) (img : Bytes) (kind : StreamKind) (isLazy : Bool) :
    ∃ r, load o { data := img, kind := kind } isLazy = .ok r := by
  obtain ⟨r, hr, -⟩ := load_spec o { data := img, kind := kind } isLazy
  exact ⟨r, hr⟩

/-- the same for a stream in an arbitrary state (position, eof/fail bits) -/
theorem load_total_anyStream (o : Obj) (st : IStream) (isLazy : Bool) :
    ∃ r, load o st isLazy = .ok r := by
  obtain ⟨r, hr, -⟩ := load_spec o st isLazy
  exact ⟨r, hr⟩

/-- Every section and segment of a loaded object satisfies the loader invariants
    (`LoadedSec`, `LoadedSeg`: Lemmas/LoadSafety.lean), and the object keeps the input stream. -/
theorem load_inv (o : Obj) (img : Bytes) (kind : StreamKind) (isLazy : Bool) (r : LoadRes)
    (h : load o { data := img, kind := kind } isLazy = .ok r) :
    (∀ b ∈ r.obj.secs, LoadedSec o.trans b img) ∧ (∀ g ∈ r.obj.segs, LoadedSeg o.trans g img) ∧
    r.obj.stream.data = img ∧ r.obj.stream.kind = kind ∧ r.obj.trans = o.trans := by
  obtain ⟨r', hr, hp⟩ := load_spec o { data := img, kind := kind } isLazy
  rw [h] at hr
  cases hr
  exact ⟨hp.secs, hp.segs, hp.sdata, hp.skind, hp.trans⟩

/-- `section_impl::load` establishes `LoadedSec` whatever the bytes and the stream state. -/
theorem secLoad_inv (c : Cls) (enc : Enc) (tr : List Trans) (st : IStream) (hdrOff : Int)
    (isLazy : Bool) (idx : Nat) :
    LoadedSec tr (secLoad c enc tr { st := st } hdrOff isLazy idx).2 st.data :=
  (secLoad_spec c enc tr { st := st } hdrOff isLazy idx st.data st.kind
    ⟨rfl, rfl, fun a ha => by cases ha⟩).2

/-- `segment_impl::load` establishes `LoadedSeg`. -/
theorem segLoad_inv (c : Cls) (enc : Enc) (tr : List Trans) (st : IStream) (hdrOff : Int)
    (isLazy : Bool) :
    LoadedSeg tr (segLoad c enc tr { st := st } hdrOff isLazy).2.1 st.data :=
  (segLoad_spec c enc tr { st := st } hdrOff isLazy st.data st.kind
    ⟨rfl, rfl, fun a ha => by cases ha⟩).2

/-! ### what the invariant gives the accessor families -/

/-- a resident buffer is strictly longer than the section size (room for the terminator) -/
theorem LoadedSec.size_lt {tr img} {b : SecBuf} (h : LoadedSec tr b img) {d : Bytes}
    (hd : b.data = some d) : b.size.toNat < d.length := h.bufOk d hd

/-- the `buf` / `cap` facts of `SecBuf.Resident` (Props/C07.lean) for a resident loaded buffer -/
theorem LoadedSec.resident_facts {tr img} {b : SecBuf} (h : LoadedSec tr b img) {d : Bytes}
    (hd : b.data = some d) :
    b.size.toNat ≤ b.dataSize.toNat ∧ b.dataSize.toNat ≤ d.length ∧
    b.dataSize.toNat ≤ 3 * b.size.toNat := by
  have h1 := h.len d hd
  have h2 := h.dsz d hd
  rw [h2]; omega

/-- a checked read of any range inside `[0, size]` of a resident loaded section succeeds -/
theorem LoadedSec.rdRange_ok {tr img} {b : SecBuf} (h : LoadedSec tr b img) {d : Bytes}
    (hd : b.data = some d) (site : String) (off len : Nat) (hr : off + len ≤ b.size.toNat + 1) :
    rdRange site b.data off len = .ok (slice d off len) := by
  rw [hd]
  exact rdRange_some_ok (by have := h.len d hd; omega)

/-- No section ever exposes bytes that are not in the input: the `size` visible bytes of a
    resident buffer are one contiguous slice of the input (at the translated offset). -/
theorem exposes_only_file_bytes {tr img} {b : SecBuf} (h : LoadedSec tr b img) {d : Bytes}
    (hd : b.data = some d) :
    d.take b.size.toNat = slice img (dataOff tr b.offset).toNat b.size.toNat ∧
    (dataOff tr b.offset).toNat + b.size.toNat ≤ img.length ∨ b.size = 0 := by
  by_cases hz : b.size = 0
  · exact Or.inr hz
  · left
    obtain ⟨h1, h2⟩ := h.bytes d hd
    refine ⟨h1, ?_⟩
    have hpos : 0 < b.size.toNat := by
      rcases Nat.eq_zero_or_pos b.size.toNat with h0 | h0
      · exact absurd (BitVec.eq_of_toNat_eq (by simpa using h0)) hz
      · exact h0
    rw [slice_length] at h2
    omega

theorem seg_exposes_only_file_bytes {tr img} {g : Seg} (h : LoadedSeg tr g img) {d : Bytes}
    (hd : g.data = some d) :
    d.take g.filesz.toNat = slice img (dataOff tr g.offset).toNat g.filesz.toNat ∧
    (slice img (dataOff tr g.offset).toNat g.filesz.toNat).length = g.filesz.toNat :=
  h.bytes d hd

/-! ### allocation requests -/

/-- Every allocation request of a load is `size + 1` bytes for a byte range `[off, off+size)`
    inside the input; in particular it is at most `len + 1`, and it equals `len + 1` only for
    the range `[0, len)` — a section or segment that covers the whole input (finding F11: the
    loader's NUL terminator makes the literal "not larger than the input" fail by one byte). -/
theorem load_alloc_shape (o : Obj) (img : Bytes) (kind : StreamKind) (isLazy : Bool) (r : LoadRes)
    (hlen : img.length < 18446744073709551616)
    (h : load o { data := img, kind := kind } isLazy = .ok r) :
    ∀ a ∈ r.allocs, ∃ off size : Nat, a = size + 1 ∧ off + size ≤ img.length ∧
      (a = img.length + 1 ↔ off = 0 ∧ size = img.length) := by
  obtain ⟨r', hr, hp⟩ := load_spec o { data := img, kind := kind } isLazy
  rw [h] at hr
  cases hr
  intro a ha
  obtain ⟨off, size, h1, h2⟩ := hp.allocs a ha
  have h3 : off + size ≤ img.length := h2 hlen
  exact ⟨off, size, h1, h3, by omega⟩

/-- No single data buffer requested during a load is larger than the input plus one byte. -/
theorem load_alloc_bound (o : Obj) (img : Bytes) (kind : StreamKind) (isLazy : Bool) (r : LoadRes)
    (hlen : img.length < 18446744073709551616)
    (h : load o { data := img, kind := kind } isLazy = .ok r) :
    ∀ a ∈ r.allocs, a ≤ img.length + 1 := by
  intro a ha
  obtain ⟨off, size, h1, h2, -⟩ := load_alloc_shape o img kind isLazy r hlen h a ha
  omega

/-! ### data requests after the load (lazy loads mutate the object) -/

/-- the data-side requests of the inspection interface -/
inductive Req
  | secData (i : Nat)      -- sections[i]->get_data()
  | segData (i : Nat)      -- segments[i]->get_data()
  | secFree (i : Nat)      -- sections[i]->free_data()
  | segFree (i : Nat)      -- segments[i]->free_data()
  deriving Repr

/-- `segment_impl::free_data()` -/
def segFree (g : Seg) : Seg := if g.isLazy then { g with data := none, isLoaded := false } else g

/-- one request against the object (as Driver/Load.lean executes it); the second component is
    the list of allocation requests it made -/
def request (o : Obj) : Req → Obj × List Nat
  | .secData i =>
    match o.secs[i]? with
    | none => (o, [])
    | some b =>
      let r := secGetData o.cls o.trans { st := o.stream } b
      ({ o with secs := o.secs.set i r.2, stream := r.1.st }, r.1.allocs)
  | .segData i =>
    match o.segs[i]? with
    | none => (o, [])
    | some g =>
      let r := segGetData o.cls o.trans { st := o.stream } g
      ({ o with segs := o.segs.set i r.2, stream := r.1.st }, r.1.allocs)
  | .secFree i =>
    match o.secs[i]? with
    | none => (o, [])
    | some b => ({ o with secs := o.secs.set i b.freeData }, [])
  | .segFree i =>
    match o.segs[i]? with
    | none => (o, [])
    | some g => ({ o with segs := o.segs.set i (segFree g) }, [])

def requests (o : Obj) : List Req → Obj × List Nat
  | [] => (o, [])
  | q :: qs =>
    let r := request o q
    let r' := requests r.1 qs
    (r'.1, r.2 ++ r'.2)

/-- the object-level invariant: what `load_inv` establishes -/
structure ObjInv (o : Obj) (img : Bytes) : Prop where
  sdata : o.stream.data = img
  secs : ∀ b ∈ o.secs, LoadedSec o.trans b img
  segs : ∀ g ∈ o.segs, LoadedSeg o.trans g img

theorem load_objInv (o : Obj) (img : Bytes) (kind : StreamKind) (isLazy : Bool) (r : LoadRes)
    (h : load o { data := img, kind := kind } isLazy = .ok r) : ObjInv r.obj img := by
  obtain ⟨h1, h2, h3, -, h5⟩ := load_inv o img kind isLazy r h
  exact ⟨h3, h5 ▸ h1, h5 ▸ h2⟩

theorem freeData_inv {tr img} {b : SecBuf} (h : LoadedSec tr b img) : LoadedSec tr b.freeData img := by
  unfold SecBuf.freeData
  split
  · refine ⟨fun d hd => (by simp at hd), fun d hd => (by simp at hd), fun d hd => (by simp at hd), ?_⟩
    rcases h.ss with h1 | ⟨h1, h2, -⟩
    · exact Or.inl h1
    · exact Or.inr ⟨h1, h2, rfl⟩
  · exact h

theorem segFree_inv {tr img} {g : Seg} (h : LoadedSeg tr g img) : LoadedSeg tr (segFree g) img := by
  unfold segFree
  split
  · exact h.dropData.of_same rfl rfl rfl rfl rfl
  · exact h

theorem mem_set {α} {l : List α} {i : Nat} {x y : α} (h : y ∈ l.set i x) : y ∈ l ∨ y = x :=
  List.mem_or_eq_of_mem_set h

/-- one request keeps the object invariant; its allocation requests are fine -/
theorem request_inv (o : Obj) (img : Bytes) (q : Req) (h : ObjInv o img) :
    ObjInv (request o q).1 img ∧ (request o q).1.trans = o.trans ∧
    ∀ a ∈ (request o q).2, AllocOk o.trans img a := by
  have hs0 : StOk o.trans img o.stream.kind { st := o.stream } := ⟨h.sdata, rfl, fun a ha => by cases ha⟩
  cases q with
  | secData i =>
    dsimp only [request]
    split
    · exact ⟨h, rfl, fun a ha => by cases ha⟩
    · rename_i b hget
      obtain ⟨h1, h2, -⟩ := secGetData_spec o.cls o.trans _ b img _ hs0 (h.secs b (List.mem_of_getElem? hget))
      refine ⟨⟨h1.data, ?_, h.segs⟩, rfl, h1.allocs⟩
      intro b' hb'
      rcases mem_set hb' with hb' | rfl
      · exact h.secs b' hb'
      · exact h2
  | segData i =>
    dsimp only [request]
    split
    · exact ⟨h, rfl, fun a ha => by cases ha⟩
    · rename_i g hget
      obtain ⟨h1, h2, -⟩ := segGetData_spec o.cls o.trans _ g img _ hs0 (h.segs g (List.mem_of_getElem? hget))
      refine ⟨⟨h1.data, h.secs, ?_⟩, rfl, h1.allocs⟩
      intro g' hg'
      rcases mem_set hg' with hg' | rfl
      · exact h.segs g' hg'
      · exact h2
  | secFree i =>
    dsimp only [request]
    split
    · exact ⟨h, rfl, fun a ha => by cases ha⟩
    · rename_i b hget
      refine ⟨⟨h.sdata, ?_, h.segs⟩, rfl, fun a ha => by cases ha⟩
      intro b' hb'
      rcases mem_set hb' with hb' | rfl
      · exact h.secs b' hb'
      · exact freeData_inv (h.secs b (List.mem_of_getElem? hget))
  | segFree i =>
    dsimp only [request]
    split
    · exact ⟨h, rfl, fun a ha => by cases ha⟩
    · rename_i g hget
      refine ⟨⟨h.sdata, h.secs, ?_⟩, rfl, fun a ha => by cases ha⟩
      intro g' hg'
      rcases mem_set hg' with hg' | rfl
      · exact h.segs g' hg'
      · exact segFree_inv (h.segs g (List.mem_of_getElem? hget))

/-- Arbitrary interleavings of section/segment data requests and `free_data()` calls, with
    arbitrary indices, keep the invariants (lazy loads mutate the object and the stream), and
    every allocation they request is `size+1` for a range inside the input. -/
theorem getData_inv (img : Bytes) (qs : List Req) :
    ∀ (o : Obj), ObjInv o img →
      ObjInv (requests o qs).1 img ∧ ∀ a ∈ (requests o qs).2, AllocOk o.trans img a := by
  induction qs with
  | nil => intro o h; exact ⟨h, fun a ha => by cases ha⟩
  | cons q qs ih =>
    intro o h
    obtain ⟨h1, h2, h3⟩ := request_inv o img q h
    obtain ⟨h4, h5⟩ := ih _ h1
    refine ⟨h4, ?_⟩
    intro a ha
    rcases List.mem_append.mp ha with ha | ha
    · exact h3 a ha
    · exact h2 ▸ h5 a ha

/-- … in particular none of them exceeds `len + 1` (with or without address translation). -/
theorem getData_alloc_bound (img : Bytes) (qs : List Req) (o : Obj) (h : ObjInv o img)
    (hlen : img.length < 18446744073709551616) :
    ∀ a ∈ (requests o qs).2, a ≤ img.length + 1 := by
  intro a ha
  obtain ⟨off, size, h1, h2⟩ := (getData_inv img qs o h).2 a ha
  have := h2 hlen
  omega

/-! ### the string reader on loaded sections -/

theorem slice_slice (bs : Bytes) (a n b k : Nat) (h : b + k ≤ n) :
    slice (slice bs a n) b k = slice bs (a + b) k := by
  unfold slice
  rw [List.drop_take, List.take_take, List.drop_drop]
  congr 1; omega

/-- On any section satisfying `LoadedSec`, `get_string(idx)` is memory-safe for EVERY 32-bit
    index; a returned string lies inside `[0, size)` (terminator included), contains no NUL, and
    is a run of bytes of the input file. -/
theorem getString_total {tr img} (b : SecBuf) (hb : LoadedSec tr b img) (idx : BitVec 32) :
    ∃ r, getString b idx = .ok r ∧
      ∀ s, r = some s →
        idx.toNat + s.length < b.size.toNat ∧ (0 : UInt8) ∉ s ∧
        s = slice img ((dataOff tr b.offset).toNat + idx.toNat) s.length := by
  obtain ⟨r, hr, hs⟩ := getString_total' b hb.bufOk idx
  refine ⟨r, hr, ?_⟩
  intro s h
  obtain ⟨d, hd, hc⟩ := hs s h
  refine ⟨hc.inside, hc.noNul, ?_⟩
  have h1 := (hb.bytes d hd).1
  have h2 : s = slice (d.take b.size.toNat) idx.toNat s.length := by
    rw [slice_take (by have := hc.inside; omega)]; exact hc.bytes
  rw [h1, slice_slice _ _ _ _ _ (by have := hc.inside; omega)] at h2
  exact h2

/-! ### the inspection interface (Model/Inspect.lean) -/

open Inspect in
/-- `sections[i]->get_data()` on the object keeps the invariant; the section handed to the
    accessors satisfies `LoadedSec` and is settled -/
theorem secResident_spec (o : Obj) (img : Bytes) (h : ObjInv o img) (i : Nat) :
    secResident o i = none ∨
    ∃ o1 b1, secResident o i = some (o1, b1) ∧ ObjInv o1 img ∧ LoadedSec o1.trans b1 img ∧ Settled b1 ∧
      Frame o o1 := by
  unfold secResident
  cases hget : o.secs[i]? with
  | none => exact Or.inl rfl
  | some b =>
    right
    have hs0 : StOk o.trans img o.stream.kind { st := o.stream } := ⟨h.sdata, rfl, fun a ha => by cases ha⟩
    obtain ⟨h1, h2, -⟩ := secGetData_spec o.cls o.trans _ b img _ hs0 (h.secs b (List.mem_of_getElem? hget))
    refine ⟨_, _, rfl, ⟨h1.data, ?_, h.segs⟩, h2, secGetData_settled _ _ _ _, Frame.of_secs (by simp) rfl⟩
    intro b' hb'
    rcases mem_set hb' with hb' | rfl
    · exact h.secs b' hb'
    · exact h2

open Inspect in
theorem segResident_spec (o : Obj) (img : Bytes) (h : ObjInv o img) (j : Nat) :
    segResident o j = none ∨
    ∃ o1 g1, segResident o j = some (o1, g1) ∧ ObjInv o1 img ∧ LoadedSeg o1.trans g1 img ∧ Frame o o1 := by
  unfold segResident
  cases hget : o.segs[j]? with
  | none => exact Or.inl rfl
  | some g =>
    right
    have hs0 : StOk o.trans img o.stream.kind { st := o.stream } := ⟨h.sdata, rfl, fun a ha => by cases ha⟩
    obtain ⟨h1, h2, -⟩ := segGetData_spec o.cls o.trans _ g img _ hs0 (h.segs g (List.mem_of_getElem? hget))
    refine ⟨_, _, rfl, ⟨h1.data, h.secs, ?_⟩, h2, rfl, ?_⟩
    · intro g' hg'
      rcases mem_set hg' with hg' | rfl
      · exact h.segs g' hg'
      · exact h2
    · intro g' hg'
      rcases mem_set hg' with hg' | rfl
      · exact ⟨g', hg', rfl⟩
      · exact ⟨g, List.mem_of_getElem? hget, segGetData_secs _ _ _ _⟩

/-- the size bound the note reader needs (`C13.get_note_total`): the input is at most 2^32 - 3
    bytes long (every resident section / segment is then at most that large) -/
def InputBound (img : Bytes) : Prop := img.length ≤ 4294967293

open Inspect in
/-- the note accessor on a loaded, resident section: constructor and every index -/
theorem secNotes_total {tr img} (e : Enc) {b : SecBuf} (hL : LoadedSec tr b img) (hlen : InputBound img) :
    ∃ pos, Note.process e b.noteSrc = .ok pos ∧ ∀ k : BitVec 32, ∃ r, Note.get e b.noteSrc pos k = .ok r :=
  notes_total e b.noteSrc (secNoteSrc_ok hL) (fun a ha => by
    have := LoadedSec.size_le hL (d := a) ha
    unfold InputBound at hlen
    simp only [SecBuf.noteSrc] at *
    omega)

open Inspect in
theorem segNotes_total {tr img} (e : Enc) {g : Seg} (hL : LoadedSeg tr g img) (hlen : InputBound img) :
    ∃ pos, Note.process e (segNoteSrc g) = .ok pos ∧
      ∀ k : BitVec 32, ∃ r, Note.get e (segNoteSrc g) pos k = .ok r :=
  notes_total e (segNoteSrc g) (segNoteSrc_ok hL) (fun a ha => by
    have := LoadedSeg.size_le hL (d := a) ha
    unfold InputBound at hlen
    simp only [segNoteSrc] at *
    omega)

open Inspect in
/-- the dynamic accessor's two sections after `dynSetup` -/
theorem dynSetup_spec (o : Obj) (img : Bytes) (h : ObjInv o img) (i : Nat) :
    dynSetup o i = none ∨
    ∃ o1 a, dynSetup o i = some (o1, a) ∧ ObjInv o1 img ∧ DynReady a ∧ Frame o o1 := by
  unfold dynSetup
  rcases secResident_spec o img h i with e | ⟨o1, b, e, h1, hL, hS, hf1⟩
  · rw [e]; exact Or.inl rfl
  · simp only [e]
    right
    rcases secResident_spec o1 img h1 (dynStrIdx b) with e2 | ⟨o2, s, e2, h2, hL2, hS2, hf2⟩
    · simp only [e2]
      exact ⟨_, _, rfl, h1, ⟨hS, hL.bufOk, fun s hs => (by cases hs), Nat.zero_le _⟩, hf1⟩
    · simp only [e2]
      refine ⟨_, _, rfl, h2, ⟨hS, hL.bufOk, ?_, Nat.zero_le _⟩, hf1.trans hf2⟩
      intro s' hs'
      simp only [mkDyn, Option.some.injEq] at hs'
      subst hs'
      exact ⟨hS2, hL2.bufOk⟩

open Inspect in
theorem symSetup_spec (o : Obj) (img : Bytes) (h : ObjInv o img) (i : Nat) :
    symSetup o i = none ∨
    ∃ o1 t, symSetup o i = some (o1, t) ∧ ObjInv o1 img ∧ SymReady t ∧ Frame o o1 := by
  unfold symSetup
  rcases secResident_spec o img h i with e | ⟨o1, b, e, h1, hL, hS, hf1⟩
  · rw [e]; exact Or.inl rfl
  · simp only [e]
    right
    rcases secResident_spec o1 img h1 (symStrIdx b) with e2 | ⟨o2, s, e2, h2, hL2, hS2, hf2⟩
    · simp only [e2]
      exact ⟨_, _, rfl, h1, ⟨hS, hL.bufOk, fun s hs => (by cases hs)⟩, hf1⟩
    · simp only [e2]
      refine ⟨_, _, rfl, h2, ⟨hS, hL.bufOk, ?_⟩, hf1.trans hf2⟩
      intro s' hs'
      simp only [Option.some.injEq] at hs'
      subst hs'
      exact ⟨hS2, hL2.bufOk⟩

/-- the invariant of an object under inspection: the loader invariant of every section/segment
    (`ObjInv`) and valid segment member lists (`MembersOk`) — both established by `load` -/
structure InspInv (o : Obj) (img : Bytes) : Prop where
  obj : ObjInv o img
  mem : MembersOk o

theorem load_inspInv (o : Obj) (img : Bytes) (kind : StreamKind) (isLazy : Bool) (r : LoadRes)
    (h : load o { data := img, kind := kind } isLazy = .ok r) : InspInv r.obj img :=
  ⟨load_objInv o img kind isLazy r h, load_members o _ isLazy r h⟩

open Inspect in
theorem InspInv.step {o o1 : Obj} {img : Bytes} (h : InspInv o img) (h1 : ObjInv o1 img) (f : Frame o o1) :
    InspInv o1 img := ⟨h1, f.members h.mem⟩

/-! #### the read trace of `dump` -/

open Inspect in
theorem dumpSymSec_total (img : Bytes) (o : Obj) (i : Nat) (h : InspInv o img) :
    ∃ o', dumpSymSec o i = .ok o' ∧ InspInv o' img := by
  unfold dumpSymSec
  cases hget : o.secs[i]? with
  | none => exact ⟨o, rfl, h⟩
  | some b =>
    dsimp only
    split
    · rcases symSetup_spec o img h.obj i with e | ⟨o1, t, e, h1, hR, hf⟩
      · simp only [e]; exact ⟨o, rfl, h⟩
      · simp only [e]
        obtain ⟨n, hn, -⟩ := sym_num_total t
        simp only [hn, allSyms_total t hR]
        exact ⟨o1, rfl, h.step h1 hf⟩
    · exact ⟨o, rfl, h⟩

open Inspect in
theorem dumpNoteSec_total (img : Bytes) (hlen : InputBound img) (o : Obj) (i : Nat) (h : InspInv o img) :
    ∃ o', dumpNoteSec o i = .ok o' ∧ InspInv o' img := by
  unfold dumpNoteSec
  cases hget : o.secs[i]? with
  | none => exact ⟨o, rfl, h⟩
  | some b =>
    dsimp only
    split
    · rcases secResident_spec o img h.obj i with e | ⟨o1, b1, e, h1, hL, -, hf⟩
      · simp only [e]; exact ⟨o, rfl, h⟩
      · simp only [e]
        obtain ⟨pos, hp, hg⟩ := secNotes_total o1.enc hL hlen
        simp only [hp, allNotes_total _ _ _ hg]
        exact ⟨o1, rfl, h.step h1 hf⟩
    · exact ⟨o, rfl, h⟩

open Inspect in
theorem dumpNoteSeg_total (img : Bytes) (hlen : InputBound img) (o : Obj) (j : Nat) (h : InspInv o img) :
    ∃ o', dumpNoteSeg o j = .ok o' ∧ InspInv o' img := by
  unfold dumpNoteSeg
  cases hget : o.segs[j]? with
  | none => exact ⟨o, rfl, h⟩
  | some g =>
    dsimp only
    split
    · rcases segResident_spec o img h.obj j with e | ⟨o1, g1, e, h1, hL, hf⟩
      · simp only [e]; exact ⟨o, rfl, h⟩
      · simp only [e]
        obtain ⟨pos, hp, hg⟩ := segNotes_total o1.enc hL hlen
        simp only [hp, allNotes_total _ _ _ hg]
        exact ⟨o1, rfl, h.step h1 hf⟩
    · exact ⟨o, rfl, h⟩

open Inspect in
theorem dumpModinfo_total (img : Bytes) (o : Obj) (h : InspInv o img) :
    ∃ o', dumpModinfo o = .ok o' ∧ InspInv o' img := by
  unfold dumpModinfo
  cases hfi : o.secs.findIdx? (fun b => b.name == modinfoName) with
  | none => exact ⟨o, rfl, h⟩
  | some i =>
    dsimp only
    rcases secResident_spec o img h.obj i with e | ⟨o1, b1, e, h1, hL, hS, hf⟩
    · simp only [e]; exact ⟨o, rfl, h⟩
    · simp only [e]
      obtain ⟨c, hc⟩ := modinfo_total (ready_of_loaded hL hS)
      simp only [hc]
      exact ⟨o1, rfl, h.step h1 hf⟩

open Inspect in
theorem dumpDynSec_total (img : Bytes) (o : Obj) (i : Nat) (h : InspInv o img) :
    ∃ o', dumpDynSec o i = .ok o' ∧ InspInv o' img := by
  unfold dumpDynSec
  cases hget : o.secs[i]? with
  | none => exact ⟨o, rfl, h⟩
  | some b =>
    dsimp only
    split
    · rcases dynSetup_spec o img h.obj i with e | ⟨o1, a, e, h1, hR, hf⟩
      · simp only [e]; exact ⟨o, rfl, h⟩
      · simp only [e]
        obtain ⟨n, hn, hle⟩ := dyn_entriesNum_total a hR
        simp only [hn, dynDumpLoop_total n n.toNat _ 0 (hR.withCache n hle)]
        exact ⟨o1, rfl, h.step h1 hf⟩
    · exact ⟨o, rfl, h⟩

open Inspect in
theorem dumpSecData_total (img : Bytes) (o : Obj) (i : Nat) (h : InspInv o img) :
    ∃ o', dumpSecData o i = .ok o' ∧ InspInv o' img := by
  unfold dumpSecData
  cases hget : o.secs[i]? with
  | none => exact ⟨o, rfl, h⟩
  | some b =>
    dsimp only
    split
    · exact ⟨o, rfl, h⟩
    · rcases secResident_spec o img h.obj i with e | ⟨o1, b1, e, h1, hL, -, hf⟩
      · simp only [e]; exact ⟨o, rfl, h⟩
      · simp only [e]
        cases hd : b1.data with
        | none => exact ⟨o1, rfl, h.step h1 hf⟩
        | some d =>
          simp only [Option.isSome_some, if_true]
          rw [rdRange_some_ok (by have := hL.len d hd; omega)]
          exact ⟨o1, rfl, h.step h1 hf⟩

open Inspect in
theorem dumpSegData_total (img : Bytes) (o : Obj) (j : Nat) (h : InspInv o img) :
    ∃ o', dumpSegData o j = .ok o' ∧ InspInv o' img := by
  unfold dumpSegData
  rcases segResident_spec o img h.obj j with e | ⟨o1, g1, e, h1, hL, hf⟩
  · simp only [e]; exact ⟨o, rfl, h⟩
  · simp only [e]
    cases hd : g1.data with
    | none => exact ⟨o1, rfl, h.step h1 hf⟩
    | some d =>
      simp only [Option.isSome_some, if_true]
      rw [rdRange_some_ok (by have := hL.len d hd; omega)]
      exact ⟨o1, rfl, h.step h1 hf⟩

open Inspect in
/-- **dump_total** : every read the dump facility performs on a loaded object — the lookup of every
    segment's member sections, the symbol, note (every descriptor byte), modinfo and dynamic readers
    on every section / segment it selects, the first 64 data bytes of every section and segment —
    stays inside the buffers and meets no null pointer, and the object keeps the invariant (lazily
    loaded parts became resident). -/
theorem dump_total (img : Bytes) (hlen : InputBound img) (o : Obj) (h : InspInv o img) :
    ∃ o', Inspect.dump o = .ok o' ∧ InspInv o' img := by
  unfold Inspect.dump
  have e0 := dumpSegMembers_total o h.mem
  obtain ⟨o1, e1, h1⟩ := forIdx_total (fun o => InspInv o img) dumpSymSec
    (fun s i hs => dumpSymSec_total img s i hs) (List.range o.secs.length) o h
  obtain ⟨o2, e2, h2⟩ := forIdx_total (fun o => InspInv o img) dumpNoteSec
    (fun s i hs => dumpNoteSec_total img hlen s i hs) (List.range o1.secs.length) o1 h1
  obtain ⟨o3, e3, h3⟩ := forIdx_total (fun o => InspInv o img) dumpNoteSeg
    (fun s i hs => dumpNoteSeg_total img hlen s i hs) (List.range (half o2.segs.length)) o2 h2
  obtain ⟨o4, e4, h4⟩ := dumpModinfo_total img o3 h3
  obtain ⟨o5, e5, h5⟩ := forIdx_total (fun o => InspInv o img) dumpDynSec
    (fun s i hs => dumpDynSec_total img s i hs) (List.range o4.secs.length) o4 h4
  obtain ⟨o6, e6, h6⟩ := forIdx_total (fun o => InspInv o img) dumpSecData
    (fun s i hs => dumpSecData_total img s i hs) ((List.range (half o5.secs.length)).drop 1) o5 h5
  obtain ⟨o7, e7, h7⟩ := forIdx_total (fun o => InspInv o img) dumpSegData
    (fun s i hs => dumpSegData_total img s i hs) (List.range (half o6.segs.length)) o6 h6
  refine ⟨o7, ?_, h7⟩
  simp only [bindM, e0, e1, e2, e3, e4, e5, e6, e7]

/-! #### one query, sequences of queries -/

open Inspect in
/-- **inspect_total** : on an object satisfying the invariant `InspInv` (what `load` establishes:
    `load_inspInv`), for an input of at most 2^32 - 3 bytes, EVERY query of the inspection interface —
    header/section/segment getters and data, `free_data`, the string, note (section and segment),
    dynamic, symbol-by-index and modinfo readers with ARBITRARY section/segment and entry indices,
    `validate()`, and the read trace of the dump facility — returns without a fault (no access outside
    a buffer, no null dereference, no division by zero, no exhausted fuel), and the invariant holds of
    the resulting object. -/
theorem inspect_total (img : Bytes) (hlen : InputBound img) (o : Obj) (h : InspInv o img) (q : Query) :
    ∃ o' out, inspect o q = .ok (o', out) ∧ InspInv o' img := by
  cases q with
  | hdr => exact ⟨o, _, rfl, h⟩
  | sec i data =>
    simp only [inspect]
    cases hget : o.secs[i]? with
    | none => exact ⟨o, _, rfl, h⟩
    | some b =>
      dsimp only
      split
      · rcases secResident_spec o img h.obj i with e | ⟨o1, b1, e, h1, -, -, hf⟩
        · simp only [e]; exact ⟨o, _, rfl, h⟩
        · simp only [e]; exact ⟨o1, _, rfl, h.step h1 hf⟩
      · exact ⟨o, _, rfl, h⟩
  | seg j data =>
    simp only [inspect]
    cases hget : o.segs[j]? with
    | none => exact ⟨o, _, rfl, h⟩
    | some g =>
      dsimp only
      split
      · rcases segResident_spec o img h.obj j with e | ⟨o1, g1, e, h1, -, hf⟩
        · simp only [e]; exact ⟨o, _, rfl, h⟩
        · simp only [e]; exact ⟨o1, _, rfl, h.step h1 hf⟩
      · exact ⟨o, _, rfl, h⟩
  | secFree i =>
    have := request_inv o img (.secFree i) h.obj
    simp only [inspect]
    simp only [request] at this
    cases hget : o.secs[i]? with
    | none => exact ⟨o, _, rfl, h⟩
    | some b =>
      rw [hget] at this
      exact ⟨_, _, rfl, h.step this.1 (Frame.of_secs (by simp) rfl)⟩
  | segFree j =>
    have := request_inv o img (.segFree j) h.obj
    simp only [inspect]
    simp only [request] at this
    cases hget : o.segs[j]? with
    | none => exact ⟨o, _, rfl, h⟩
    | some g =>
      rw [hget] at this
      refine ⟨_, _, rfl, h.step this.1 ⟨rfl, ?_⟩⟩
      intro g' hg'
      rcases mem_set hg' with hg' | rfl
      · exact ⟨g', hg', rfl⟩
      · refine ⟨g, List.mem_of_getElem? hget, ?_⟩
        unfold Inspect.segFree; split <;> rfl
  | str i k =>
    simp only [inspect]
    rcases secResident_spec o img h.obj i with e | ⟨o1, b1, e, h1, hL, -, hf⟩
    · simp only [e]; exact ⟨o, _, rfl, h⟩
    · simp only [e]
      obtain ⟨r, hr, -⟩ := getString_total' b1 hL.bufOk k
      simp only [hr]
      exact ⟨o1, _, rfl, h.step h1 hf⟩
  | noteNum i =>
    simp only [inspect]
    rcases secResident_spec o img h.obj i with e | ⟨o1, b1, e, h1, hL, -, hf⟩
    · simp only [e]; exact ⟨o, _, rfl, h⟩
    · simp only [e]
      obtain ⟨pos, hp, -⟩ := secNotes_total o1.enc hL hlen
      simp only [hp]
      exact ⟨o1, _, rfl, h.step h1 hf⟩
  | note i k =>
    simp only [inspect]
    rcases secResident_spec o img h.obj i with e | ⟨o1, b1, e, h1, hL, -, hf⟩
    · simp only [e]; exact ⟨o, _, rfl, h⟩
    · simp only [e]
      obtain ⟨pos, hp, hg⟩ := secNotes_total o1.enc hL hlen
      obtain ⟨r, hr⟩ := hg k
      simp only [hp, hr]
      exact ⟨o1, _, rfl, h.step h1 hf⟩
  | segNoteNum j =>
    simp only [inspect]
    rcases segResident_spec o img h.obj j with e | ⟨o1, g1, e, h1, hL, hf⟩
    · simp only [e]; exact ⟨o, _, rfl, h⟩
    · simp only [e]
      obtain ⟨pos, hp, -⟩ := segNotes_total o1.enc hL hlen
      simp only [hp]
      exact ⟨o1, _, rfl, h.step h1 hf⟩
  | segNote j k =>
    simp only [inspect]
    rcases segResident_spec o img h.obj j with e | ⟨o1, g1, e, h1, hL, hf⟩
    · simp only [e]; exact ⟨o, _, rfl, h⟩
    · simp only [e]
      obtain ⟨pos, hp, hg⟩ := segNotes_total o1.enc hL hlen
      obtain ⟨r, hr⟩ := hg k
      simp only [hp, hr]
      exact ⟨o1, _, rfl, h.step h1 hf⟩
  | dynNum i =>
    simp only [inspect]
    rcases dynSetup_spec o img h.obj i with e | ⟨o1, a, e, h1, hR, hf⟩
    · simp only [e]; exact ⟨o, _, rfl, h⟩
    · simp only [e]
      obtain ⟨n, hn, -⟩ := dyn_entriesNum_total a hR
      simp only [hn]
      exact ⟨o1, _, rfl, h.step h1 hf⟩
  | dyn i k =>
    simp only [inspect]
    rcases dynSetup_spec o img h.obj i with e | ⟨o1, a, e, h1, hR, hf⟩
    · simp only [e]; exact ⟨o, _, rfl, h⟩
    · simp only [e]
      obtain ⟨n, r, hr, -⟩ := dyn_getEntry_total a hR k
      simp only [hr]
      exact ⟨o1, _, rfl, h.step h1 hf⟩
  | modinfo i =>
    simp only [inspect]
    rcases secResident_spec o img h.obj i with e | ⟨o1, b1, e, h1, hL, hS, hf⟩
    · simp only [e]; exact ⟨o, _, rfl, h⟩
    · simp only [e]
      obtain ⟨c, hc⟩ := modinfo_total (ready_of_loaded hL hS)
      simp only [hc]
      exact ⟨o1, _, rfl, h.step h1 hf⟩
  | modinfoGet i k =>
    simp only [inspect]
    rcases secResident_spec o img h.obj i with e | ⟨o1, b1, e, h1, hL, hS, hf⟩
    · simp only [e]; exact ⟨o, _, rfl, h⟩
    · simp only [e]
      obtain ⟨c, hc⟩ := modinfo_total (ready_of_loaded hL hS)
      simp only [hc]
      exact ⟨o1, _, rfl, h.step h1 hf⟩
  | modinfoByName i f =>
    simp only [inspect]
    rcases secResident_spec o img h.obj i with e | ⟨o1, b1, e, h1, hL, hS, hf⟩
    · simp only [e]; exact ⟨o, _, rfl, h⟩
    · simp only [e]
      obtain ⟨c, hc⟩ := modinfo_total (ready_of_loaded hL hS)
      simp only [hc]
      exact ⟨o1, _, rfl, h.step h1 hf⟩
  | symNum i =>
    simp only [inspect]
    rcases symSetup_spec o img h.obj i with e | ⟨o1, t, e, h1, hR, hf⟩
    · simp only [e]; exact ⟨o, _, rfl, h⟩
    · simp only [e]
      obtain ⟨n, hn, -⟩ := sym_num_total t
      simp only [hn]
      exact ⟨o1, _, rfl, h.step h1 hf⟩
  | sym i k =>
    simp only [inspect]
    rcases symSetup_spec o img h.obj i with e | ⟨o1, t, e, h1, hR, hf⟩
    · simp only [e]; exact ⟨o, _, rfl, h⟩
    · simp only [e]
      obtain ⟨r, hr⟩ := getSym_total t hR k
      simp only [hr]
      exact ⟨o1, _, rfl, h.step h1 hf⟩
  | validate => exact ⟨o, _, rfl, h⟩
  | dump =>
    simp only [inspect]
    obtain ⟨o1, e, h1⟩ := dump_total img hlen o h
    simp only [e]
    exact ⟨o1, _, rfl, h1⟩

open Inspect in
/-- **inspect_seq_total** : … hence every finite sequence of queries (lazy loads mutate the object;
    the state is threaded) returns, and the invariant holds at the end. -/
theorem inspect_seq_total (img : Bytes) (hlen : InputBound img) (qs : List Query) :
    ∀ (o : Obj), InspInv o img → ∃ o' outs, inspectSeq o qs = .ok (o', outs) ∧ InspInv o' img ∧
      outs.length = qs.length := by
  induction qs with
  | nil => intro o h; exact ⟨o, [], rfl, h, rfl⟩
  | cons q qs ih =>
    intro o h
    obtain ⟨o1, out, e1, h1⟩ := inspect_total img hlen o h q
    obtain ⟨o2, outs, e2, h2, hl⟩ := ih o1 h1
    refine ⟨o2, out :: outs, ?_, h2, by simp [hl]⟩
    unfold inspectSeq
    simp only [e1, e2]
    rfl

open Inspect in
/-- **load_inspect_total** (the property's sentence): load ANY byte string of at most 2^32 - 3 bytes,
    eagerly or lazily, from a string- or file-backed stream, into any object; then ask ANY finite
    sequence of inspection queries with arbitrary indices: nothing faults. -/
theorem load_inspect_total (o : Obj) (img : Bytes) (kind : StreamKind) (isLazy : Bool) (r : LoadRes)
    (hload : load o { data := img, kind := kind } isLazy = .ok r) (hlen : img.length ≤ 4294967293)
    (qs : List Query) :
    ∃ o' outs, inspectSeq r.obj qs = .ok (o', outs) ∧ InspInv o' img ∧ outs.length = qs.length :=
  inspect_seq_total img hlen qs r.obj (load_inspInv o img kind isLazy r hload)

/-! ### non-vacuity -/

/-- a 64-byte ELF64/LSB image: just the ELF header, no tables -/
def img64 : Bytes :=
  [0x7f, 0x45, 0x4c, 0x46, 2, 1, 1, 0, 0, 0, 0, 0, 0, 0, 0, 0,
   1, 0, 62, 0, 1, 0, 0, 0, 0, 0, 0, 0, 0, 0, 0, 0,
   0, 0, 0, 0, 0, 0, 0, 0, 0, 0, 0, 0, 0, 0, 0, 0,
   0, 0, 0, 0, 64, 0, 56, 0, 0, 0, 64, 0, 0, 0, 0, 0]

example : (load {} { data := img64 } false).toOption.map (·.ok) = some true := by decide

/-- a 208-byte ELF64/LSB image: header, the string table `\0.shstrtab\0` at offset 64, and two
    section headers at offset 80 (the null section and the string table, `e_shstrndx = 1`) -/
def img208 : Bytes := [
   127, 69, 76, 70, 2, 1, 1, 0, 0, 0, 0, 0, 0, 0, 0, 0, 1, 0, 62, 0, 1, 0, 0, 0, 0, 0, 0, 0, 0, 0, 0, 0,
   0, 0, 0, 0, 0, 0, 0, 0, 80, 0, 0, 0, 0, 0, 0, 0, 0, 0, 0, 0, 64, 0, 56, 0, 0, 0, 64, 0, 2, 0, 1, 0,
   0, 46, 115, 104, 115, 116, 114, 116, 97, 98, 0, 0, 0, 0, 0, 0, 0, 0, 0, 0, 0, 0, 0, 0, 0, 0, 0, 0, 0, 0, 0, 0,
   0, 0, 0, 0, 0, 0, 0, 0, 0, 0, 0, 0, 0, 0, 0, 0, 0, 0, 0, 0, 0, 0, 0, 0, 0, 0, 0, 0, 0, 0, 0, 0,
   0, 0, 0, 0, 0, 0, 0, 0, 0, 0, 0, 0, 0, 0, 0, 0, 1, 0, 0, 0, 3, 0, 0, 0, 0, 0, 0, 0, 0, 0, 0, 0,
   0, 0, 0, 0, 0, 0, 0, 0, 64, 0, 0, 0, 0, 0, 0, 0, 11, 0, 0, 0, 0, 0, 0, 0, 0, 0, 0, 0, 0, 0, 0, 0,
   1, 0, 0, 0, 0, 0, 0, 0, 0, 0, 0, 0, 0, 0, 0, 0]

/- eager load of `img208`: succeeds, requests exactly one buffer of 11+1 bytes, and the section
    name went through the checked string lookup -/
set_option maxRecDepth 100000 in
example :
    (load {} { data := img208 } false).toOption.map
      (fun r => (r.ok, r.allocs, r.obj.secs.map (fun b => (b.name, b.data.map (·.length))))) =
    some (true, [12], [([], none), ([46, 115, 104, 115, 116, 114, 116, 97, 98], some 12)]) := by decide

/- the hypotheses of `load_alloc_bound` are met by it -/
set_option maxRecDepth 100000 in
example : ∀ a ∈ ((load {} { data := img208 } false).toOption.map (·.allocs)).getD [], a ≤ img208.length + 1 := by
  decide

/- lazy load, then an interleaving of data requests / frees with in- and out-of-range indices:
    the freed string table is read again (one more 12-byte request) -/
set_option maxRecDepth 100000 in
example :
    (load {} { data := img208 } true).toOption.map
      (fun r => (r.allocs,
        (requests r.obj [.secData 1, .secData 7, .secFree 1, .secData 1, .segData 0]).2,
        (requests r.obj [.secData 1, .secData 7, .secFree 1]).1.secs.map (·.data.isSome))) =
    some ([12], [12], [false, false]) := by decide

/- the string reader on the loaded string table at indices 1, 5, 10 (the final NUL) and
    2^32-1
    (`toOption`: `some _` = returned, `none` would be a fault) -/
set_option maxRecDepth 100000 in
example :
    (load {} { data := img208 } true).toOption.map
      (fun r => r.obj.secs.map (fun b => [(getString b 1).toOption, (getString b 5).toOption, (getString b 10).toOption,
        (getString b 4294967295).toOption])) =
    some [[some none, some none, some none, some none],
          [some (some [46, 115, 104, 115, 116, 114, 116, 97, 98]), some (some [116, 114, 116, 97, 98]),
           some (some []), some none]] := by decide

/-- a 268-byte ELF64/LSB image: one program header (PT_NOTE over [120,140)), the note
    `namesz 4 "GNU\0", descsz 4 [1,2,3,4], type 1` at offset 120, two section headers at 140 (the null
    section and a SHT_NOTE section over the same 20 bytes) -/
def imgNote : Bytes := [
   127, 69, 76, 70, 2, 1, 1, 0, 0, 0, 0, 0, 0, 0, 0, 0, 1, 0, 62, 0, 1, 0, 0, 0, 0, 0, 0, 0, 0, 0, 0, 0,
   64, 0, 0, 0, 0, 0, 0, 0, 140, 0, 0, 0, 0, 0, 0, 0, 0, 0, 0, 0, 64, 0, 56, 0, 1, 0, 64, 0, 2, 0, 0, 0,
   4, 0, 0, 0, 4, 0, 0, 0, 120, 0, 0, 0, 0, 0, 0, 0, 0, 0, 0, 0, 0, 0, 0, 0, 0, 0, 0, 0, 0, 0, 0, 0,
   20, 0, 0, 0, 0, 0, 0, 0, 20, 0, 0, 0, 0, 0, 0, 0, 4, 0, 0, 0, 0, 0, 0, 0, 4, 0, 0, 0, 4, 0, 0, 0,
   1, 0, 0, 0, 71, 78, 85, 0, 1, 2, 3, 4, 0, 0, 0, 0, 0, 0, 0, 0, 0, 0, 0, 0, 0, 0, 0, 0, 0, 0, 0, 0,
   0, 0, 0, 0, 0, 0, 0, 0, 0, 0, 0, 0, 0, 0, 0, 0, 0, 0, 0, 0, 0, 0, 0, 0, 0, 0, 0, 0, 0, 0, 0, 0,
   0, 0, 0, 0, 0, 0, 0, 0, 0, 0, 0, 0, 0, 0, 0, 0, 7, 0, 0, 0, 0, 0, 0, 0, 0, 0, 0, 0, 0, 0, 0, 0,
   0, 0, 0, 0, 120, 0, 0, 0, 0, 0, 0, 0, 20, 0, 0, 0, 0, 0, 0, 0, 0, 0, 0, 0, 0, 0, 0, 0, 4, 0, 0, 0,
   0, 0, 0, 0, 0, 0, 0, 0, 0, 0, 0, 0]

/-- what a query answered, boiled down to something `decide` can compare -/
def outDigest : Inspect.Out → List Nat
  | .null => [0]
  | .obj => [1]
  | .str none => [2]
  | .str (some s) => 3 :: s.map (·.toNat)
  | .num n => [4, n]
  | .note none => [5]
  | .note (some n) => [6, n.type.toNat, n.name.length, n.descSize.toNat] ++ (n.desc.getD []).map (·.toNat)
  | .dyn .invalid => [7]
  | .dyn (.nostr t v) => [8, t.toNat, v.toNat]
  | .dyn (.ok t v _) => [9, t.toNat, v.toNat]
  | .attrs l => [10, l.length]
  | .attr a => [11, if a.isSome then 1 else 0]
  | .value v => [12, if v.isSome then 1 else 0]
  | .sym r => [13, if r.ret then 1 else 0]
  | .complaints l => [14, l.length]

set_option maxRecDepth 100000 in
example : InputBound imgNote := by unfold InputBound; decide

/- lazy load of `imgNote`, then a sequence of queries with in- and out-of-range section, segment and
   entry indices, wrong-typed accessors (dynamic / symbol / modinfo reader on the note section) and
   the dump trace: the hypotheses of `load_inspect_total` are met, and the answers are the expected
   ones (one note through the section and through the segment, descriptor bytes 1 2 3 4) -/
set_option maxRecDepth 1000000 in
example :
    ((load {} { data := imgNote } true).toOption.bind fun r =>
      (Inspect.inspectSeq r.obj [.noteNum 1, .note 1 0, .note 1 1, .note 1 4294967295, .segNoteNum 0,
        .segNote 0 0, .segNote 3 0, .dynNum 1, .dyn 1 0, .symNum 1, .sym 1 0, .modinfo 1, .str 1 4, .dump,
        .noteNum 7, .sec 1 true, .validate]).toOption.map fun p => p.2.map outDigest) =
    some [[4, 1], [6, 1, 3, 4, 1, 2, 3, 4], [5], [5], [4, 1], [6, 1, 3, 4, 1, 2, 3, 4], [0], [4, 0], [7],
      [4, 0], [13, 0], [10, 5], [3, 4], [1], [0], [1], [14, 0]] := by decide

end ElfioVerif.C01
