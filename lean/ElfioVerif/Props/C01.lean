import ElfioVerif.Model.Load
namespace ElfioVerif.C01
end ElfioVerif.C01
