/-
Finding F17 (open; properties C05 and C06) — machine-checked witnesses.

`elfio::load_segments` ("If it is a TLS segment, add TLS sections only and vice versa"; the model's
`Spec.inSegment`, property C02's membership rule) never makes an `SHF_TLS` section a member of a segment that
is not a `PT_TLS`.  The writer on the other hand accepts — and lays out — a thread-local data section
(`.tdata`: SHT_PROGBITS, SHF_WRITE|SHF_ALLOC|SHF_TLS) as a member of a `PT_LOAD`, which is where every linker
puts it (tests/elf_examples/x86_64_static: `.tdata` at 0x4bd0c0 inside PT_LOAD #3 and inside the PT_TLS).
After `load` the section belongs to the PT_TLS only (or to no segment), so the next `save` lays it out
outside the PT_LOAD's file range:

 * `save_load_save_tls_witness` (C06) : on the object of corpus/c06/f17-tls-member-of-load.case, built with
   the model's API (`.text` + `.tdata` members of one PT_LOAD), save ∘ load ∘ save succeeds three times and
   yields a DIFFERENT stream: p_filesz 0x10 -> 0x05, `.tdata` no longer a member.
 * `save_load_save_tls_nested_witness` (C06) : the same for corpus/c06/f17-tls-load-and-tls.case (`.text`,
   `.tdata`, `.data` at explicit consecutive addresses in a PT_LOAD, `.tdata` also in a nested PT_TLS — the
   usual arrangement): PT_TLS p_offset 0x1008 -> 0x1018.
 * `image_bytes_tls_witness` (C05) : on the saved image of that second object (the image of
   corpus/c05/f17-tls-image-lost.case): before, the PT_LOAD's file image holds `.tdata`'s eight bytes at
   virtual address 0x400008; after load + save the PT_LOAD has the same type, address, file and memory size,
   `.tdata` still claims address 0x400008 and still has its bytes — but the PT_LOAD's image holds ZEROS there.
 * `tls_witness_outside_MemberDomain`, `tls_witness_domain_otherwise` : both objects violate exactly the TLS
   clause of `Compose.MemberDomain` ("members carry SHF_TLS exactly if the segment is a PT_TLS"), the
   hypothesis by which the general theorems (`Compose.save_load_save_flat`, `members_recomputed`) exclude this
   trigger; the first object meets every other hypothesis of `save_load_save_flat` (`ExOk`, the F14 cover
   clause, the remaining `MemberDomain` clauses, residency, `NoZeroOffset`, `resaveOkRB`, `addrSeparateB`).

Not repaired: the membership rule is the one property C02 states; a writer-side repair is not small.
All proofs are kernel evaluations of the model (`decide +kernel`); model == code on the three corpus cases
(`check.py C06 --replay …`, `check.py C05 --replay …`).
-/
import ElfioVerif.Props.Compose2
namespace ElfioVerif.F17
open ElfioVerif Gen Compose

/-- corpus/c06/f17-tls-member-of-load.case through the model's API: ELF64/LSB, `.text` (5 bytes, align 16) and
    `.tdata` (SHF_WRITE|SHF_ALLOC|SHF_TLS, 8 bytes, align 8), automatic addresses, both members of one PT_LOAD
    (align 4096, vaddr 0x400000); no PT_TLS -/
def tlsLoadM : M Obj := do
  let o ← create {} .c64 .lsb
  let o ← sectionsAdd o [0x2e, 0x74, 0x65, 0x78, 0x74]
  let o := C06.updSec o 2 fun b => { b with stype := 1, flags := 6, addrAlign := 16 }
  let o ← C06.updSecM o 2 fun b => b.setData (some [1, 2, 3, 4, 5]) 5
  let o ← sectionsAdd o [0x2e, 0x74, 0x64, 0x61, 0x74, 0x61]
  let o := C06.updSec o 3 fun b => { b with stype := 1, flags := 0x403, addrAlign := 8 }
  let o ← C06.updSecM o 3 fun b => b.setData (some [0x11, 0x12, 0x13, 0x14, 0x15, 0x16, 0x17, 0x18]) 8
  let o := segmentsAdd o
  let o := C06.updSeg o 0 fun g => { g with stype := 1, flags := 6, align := 0x1000, vaddr := 0x400000, paddr := 0x400000 }
  let o := C06.updSeg o 0 fun g => segAddSection g 2 16
  let o := C06.updSeg o 0 fun g => segAddSection g 3 8
  pure o

/-- corpus/c06/f17-tls-load-and-tls.case through the model's API: `.text`, `.tdata`, `.data` (8 bytes each,
    align 8) at the explicit addresses 0x400000 / 0x400008 / 0x400010 in a PT_LOAD (align 4096, vaddr
    0x400000); `.tdata` also the only member of a PT_TLS (align 8, vaddr 0x400008) nested in it -/
def tlsNestedM : M Obj := do
  let o ← create {} .c64 .lsb
  let o ← sectionsAdd o [0x2e, 0x74, 0x65, 0x78, 0x74]
  let o := C06.updSec o 2 fun b => { b with stype := 1, flags := 6, addrAlign := 8, addr := 0x400000, addrSet := true }
  let o ← C06.updSecM o 2 fun b => b.setData (some [1, 2, 3, 4, 5, 6, 7, 8]) 8
  let o ← sectionsAdd o [0x2e, 0x74, 0x64, 0x61, 0x74, 0x61]
  let o := C06.updSec o 3 fun b => { b with stype := 1, flags := 0x403, addrAlign := 8, addr := 0x400008, addrSet := true }
  let o ← C06.updSecM o 3 fun b => b.setData (some [0x11, 0x12, 0x13, 0x14, 0x15, 0x16, 0x17, 0x18]) 8
  let o ← sectionsAdd o [0x2e, 0x64, 0x61, 0x74, 0x61]
  let o := C06.updSec o 4 fun b => { b with stype := 1, flags := 3, addrAlign := 8, addr := 0x400010, addrSet := true }
  let o ← C06.updSecM o 4 fun b => b.setData (some [0x21, 0x22, 0x23, 0x24, 0x25, 0x26, 0x27, 0x28]) 8
  let o := segmentsAdd o
  let o := C06.updSeg o 0 fun g => { g with stype := 1, flags := 6, align := 0x1000, vaddr := 0x400000, paddr := 0x400000 }
  let o := C06.updSeg o 0 fun g => segAddSection g 2 8
  let o := C06.updSeg o 0 fun g => segAddSection g 3 8
  let o := C06.updSeg o 0 fun g => segAddSection g 4 8
  let o := segmentsAdd o
  let o := C06.updSeg o 1 fun g => { g with stype := 7, flags := 4, align := 8, vaddr := 0x400008, paddr := 0x400008 }
  let o := C06.updSeg o 1 fun g => segAddSection g 3 8
  pure o

/-- save into an empty stream, eager `load` of the bytes (string stream, fresh object), save of the loaded object
    into an empty stream: every step succeeds and `P` holds of the three results — as ONE Bool-valued
    evaluation of the model (so that the kernel runs `save ∘ load ∘ save` once per witness) -/
def slsCheck (o : Obj) (P : SaveRes → LoadRes → SaveRes → Prop) [∀ r1 r2 r3, Decidable (P r1 r2 r3)] : Bool :=
  match save o {} with
  | .error _ => false
  | .ok r1 => r1.ok && (match load {} { data := r1.os.content } false with
    | .error _ => false
    | .ok r2 => r2.ok && (match save r2.obj {} with
      | .error _ => false
      | .ok r3 => r3.ok && decide (P r1 r2 r3)))

theorem of_slsCheck {o : Obj} {P : SaveRes → LoadRes → SaveRes → Prop} [∀ r1 r2 r3, Decidable (P r1 r2 r3)]
    (h : slsCheck o P = true) :
    ∃ (r1 : SaveRes) (r2 : LoadRes) (r3 : SaveRes), save o {} = .ok r1 ∧ r1.ok = true ∧
      load {} { data := r1.os.content } false = .ok r2 ∧ r2.ok = true ∧
      save r2.obj {} = .ok r3 ∧ r3.ok = true ∧ P r1 r2 r3 := by
  unfold slsCheck at h
  cases h1 : save o {} with
  | error e => rw [h1] at h; cases h
  | ok r1 =>
    rw [h1] at h
    simp only [Bool.and_eq_true] at h
    obtain ⟨ha, h⟩ := h
    cases h2 : load {} { data := r1.os.content } false with
    | error e => rw [h2] at h; cases h
    | ok r2 =>
      rw [h2] at h
      simp only [Bool.and_eq_true] at h
      obtain ⟨hb, h⟩ := h
      cases h3 : save r2.obj {} with
      | error e => rw [h3] at h; cases h
      | ok r3 =>
        rw [h3] at h
        simp only [Bool.and_eq_true, decide_eq_true_eq] at h
        exact ⟨r1, r2, r3, rfl, ha, h2, hb, h3, h.1, h.2⟩

/-- type, file offset, file size and member list of every segment -/
def segView (o : Obj) : List (BitVec 32 × BitVec 64 × BitVec 64 × List (BitVec 16)) :=
  o.segs.map fun g => (g.stype, g.offset, g.filesz, g.secs)

/-- the `n` bytes a file holds for virtual address `va` of its segment `j` (the segment's file image starts at
    `p_offset` and is mapped at `p_vaddr`) -/
def imageAt (r : SaveRes) (j : Nat) (va n : Nat) : Bytes :=
  match r.obj.segs[j]? with
  | some g => slice r.os.content (g.offset.toNat + (va - g.vaddr.toNat)) n
  | none => []

/-- what happens to `tlsLoadM`: the files differ; the loader reports `.tdata` (section 3) as a member of no
    segment; the PT_LOAD's p_filesz goes from 0x10 to 0x05 -/
def TlsLoadFacts (r1 : SaveRes) (r2 : LoadRes) (r3 : SaveRes) : Prop :=
  r3.os.content ≠ r1.os.content ∧
  segView r1.obj = [(1#32, 0x1000#64, 0x10#64, [2#16, 3#16])] ∧
  segView r2.obj = [(1#32, 0x1000#64, 0x10#64, [2#16])] ∧
  segView r3.obj = [(1#32, 0x1000#64, 0x05#64, [2#16])]

set_option synthInstance.maxSize 1024 in
instance (r1 : SaveRes) (r2 : LoadRes) (r3 : SaveRes) : Decidable (TlsLoadFacts r1 r2 r3) := by
  unfold TlsLoadFacts; infer_instance

/-- **save_load_save_tls_witness** (finding F17, property C06) : an object inside the documented writer domain
    — `.text` and a thread-local `.tdata` as the two members of one PT_LOAD, built with the model's API — is
    saved into an empty stream, the bytes are loaded (eager, string stream, fresh object), the loaded object is
    saved into an empty stream: every step succeeds and the second file DIFFERS from the first.  The loader
    reports `.tdata` as a member of no segment (`Spec.inSegment`'s TLS clause = `elfio::load_segments`), the
    PT_LOAD's p_filesz goes from 0x10 to 0x05. -/
theorem save_load_save_tls_witness :
    ∃ (r1 : SaveRes) (r2 : LoadRes) (r3 : SaveRes), save (objOf tlsLoadM) {} = .ok r1 ∧ r1.ok = true ∧
      load {} { data := r1.os.content } false = .ok r2 ∧ r2.ok = true ∧
      save r2.obj {} = .ok r3 ∧ r3.ok = true ∧ TlsLoadFacts r1 r2 r3 :=
  of_slsCheck (by decide +kernel)

/-- what happens to `tlsNestedM`.  C06: the files differ; after the reload `.tdata` belongs to the PT_TLS only; the
    second save lays the PT_TLS out behind the PT_LOAD (p_offset 0x1008 -> 0x1018).  C05: the first file holds
    `.tdata`'s bytes at virtual address 0x400008 of its PT_LOAD's image; in the second file the PT_LOAD (segment 0)
    has the same type, address, file size and memory size — [0x400008, 0x400010) is still file-backed —, section 3
    still has address 0x400008, size 8 and its data (the first 8 bytes of the buffer: the loader appends a NUL; now at
    file offset 0x1018), but the PT_LOAD's image holds
    ZEROS at that address. -/
def TlsNestedFacts (r1 : SaveRes) (r2 : LoadRes) (r3 : SaveRes) : Prop :=
  (r3.os.content ≠ r1.os.content ∧
   segView r1.obj = [(1#32, 0x1000#64, 0x18#64, [2#16, 3#16, 4#16]), (7#32, 0x1008#64, 8#64, [3#16])] ∧
   segView r2.obj = [(1#32, 0x1000#64, 0x18#64, [2#16, 4#16]), (7#32, 0x1008#64, 8#64, [3#16])] ∧
   segView r3.obj = [(1#32, 0x1000#64, 0x18#64, [2#16, 4#16]), (7#32, 0x1018#64, 8#64, [3#16])]) ∧
  (imageAt r1 0 0x400008 8 = [0x11, 0x12, 0x13, 0x14, 0x15, 0x16, 0x17, 0x18] ∧
   imageAt r3 0 0x400008 8 = [0, 0, 0, 0, 0, 0, 0, 0] ∧
   (r1.obj.segs[0]?.map fun g => (g.stype, g.vaddr, g.filesz, g.memsz)) = some (1#32, 0x400000#64, 0x18#64, 0x18#64) ∧
   (r3.obj.segs[0]?.map fun g => (g.stype, g.vaddr, g.filesz, g.memsz)) = some (1#32, 0x400000#64, 0x18#64, 0x18#64) ∧
   (r3.obj.secs[3]?.map fun b => (b.flags, b.addr, b.size, b.offset, b.data.map (·.take 8))) =
     some (0x403#64, 0x400008#64, 8#64, 0x1018#64, some [0x11, 0x12, 0x13, 0x14, 0x15, 0x16, 0x17, 0x18]))

set_option synthInstance.maxSize 1024 in
instance (r1 : SaveRes) (r2 : LoadRes) (r3 : SaveRes) : Decidable (TlsNestedFacts r1 r2 r3) := by
  unfold TlsNestedFacts; infer_instance

/-- one kernel evaluation of save ∘ load ∘ save on `tlsNestedM` -/
theorem tlsNested_run :
    ∃ (r1 : SaveRes) (r2 : LoadRes) (r3 : SaveRes), save (objOf tlsNestedM) {} = .ok r1 ∧ r1.ok = true ∧
      load {} { data := r1.os.content } false = .ok r2 ∧ r2.ok = true ∧
      save r2.obj {} = .ok r3 ∧ r3.ok = true ∧ TlsNestedFacts r1 r2 r3 :=
  of_slsCheck (by decide +kernel)

/-- **save_load_save_tls_nested_witness** (F17, C06) : the usual arrangement — `.tdata` member of the PT_LOAD and
    of a PT_TLS nested in it.  save, load, save succeed and the second file differs from the first: after the
    reload `.tdata` belongs to the PT_TLS only, the second save lays the PT_TLS out behind the PT_LOAD. -/
theorem save_load_save_tls_nested_witness :
    ∃ (r1 : SaveRes) (r2 : LoadRes) (r3 : SaveRes), save (objOf tlsNestedM) {} = .ok r1 ∧ r1.ok = true ∧
      load {} { data := r1.os.content } false = .ok r2 ∧ r2.ok = true ∧
      save r2.obj {} = .ok r3 ∧ r3.ok = true ∧ r3.os.content ≠ r1.os.content ∧
      segView r2.obj = [(1#32, 0x1000#64, 0x18#64, [2#16, 4#16]), (7#32, 0x1008#64, 8#64, [3#16])] ∧
      segView r3.obj = [(1#32, 0x1000#64, 0x18#64, [2#16, 4#16]), (7#32, 0x1018#64, 8#64, [3#16])] := by
  obtain ⟨r1, r2, r3, h1, h2, h3, h4, h5, h6, ⟨a, -, b, c⟩, -⟩ := tlsNested_run
  exact ⟨r1, r2, r3, h1, h2, h3, h4, h5, h6, a, b, c⟩

/-- **image_bytes_tls_witness** (finding F17, property C05) : `img` = the file the first save of `tlsNestedM`
    produces (the image of corpus/c05/f17-tls-image-lost.case) holds `.tdata`'s bytes at virtual address 0x400008
    of its PT_LOAD's image.  After load + save the PT_LOAD (segment 0) has the same type, address, file size and
    memory size, section 3 still has address 0x400008, size 8 and its data, but the PT_LOAD's image holds zeros at
    that address: the bytes of the loadable segment's memory image that came from `.tdata` are not found at the
    same virtual address. -/
theorem image_bytes_tls_witness :
    ∃ (r1 : SaveRes) (r2 : LoadRes) (r3 : SaveRes), save (objOf tlsNestedM) {} = .ok r1 ∧ r1.ok = true ∧
      load {} { data := r1.os.content } false = .ok r2 ∧ r2.ok = true ∧
      save r2.obj {} = .ok r3 ∧ r3.ok = true ∧
      imageAt r1 0 0x400008 8 = [0x11, 0x12, 0x13, 0x14, 0x15, 0x16, 0x17, 0x18] ∧
      imageAt r3 0 0x400008 8 = [0, 0, 0, 0, 0, 0, 0, 0] ∧
      (r1.obj.segs[0]?.map fun g => (g.stype, g.vaddr, g.filesz, g.memsz)) = some (1#32, 0x400000#64, 0x18#64, 0x18#64) ∧
      (r3.obj.segs[0]?.map fun g => (g.stype, g.vaddr, g.filesz, g.memsz)) = some (1#32, 0x400000#64, 0x18#64, 0x18#64) ∧
      (r3.obj.secs[3]?.map fun b => (b.flags, b.addr, b.size, b.offset, b.data.map (·.take 8))) =
        some (0x403#64, 0x400008#64, 8#64, 0x1018#64, some [0x11, 0x12, 0x13, 0x14, 0x15, 0x16, 0x17, 0x18]) := by
  obtain ⟨r1, r2, r3, h1, h2, h3, h4, h5, h6, -, a, b, c, d, e⟩ := tlsNested_run
  exact ⟨r1, r2, r3, h1, h2, h3, h4, h5, h6, a, b, c, d, e⟩

/-- the TLS clause of `Compose.MemberDomain` as a Bool -/
def tlsClauseB (o : Obj) : Bool :=
  o.segs.all fun g => g.secs.all fun idx =>
    match o.secs[idx.toNat]? with
    | some s => isTls s == (g.stype.toNat == Spec.PT_TLS)
    | none => true

theorem tlsClauseB_of_MemberDomain {o : Obj} (M : MemberDomain o) : tlsClauseB o = true := by
  unfold tlsClauseB
  simp only [List.all_eq_true]
  intro g hg idx hidx
  cases hs : o.secs[idx.toNat]? with
  | none => rfl
  | some s =>
    have := M.tls g hg idx hidx s (by rw [hs]; exact rfl)
    simp only [this, beq_self_eq_true]

/-- both witnesses violate `Compose.MemberDomain` — by its TLS clause: section 3 carries SHF_TLS, the PT_LOAD
    (segment 0) it is a member of is no PT_TLS.  This is the hypothesis by which `Compose.members_recomputed` /
    `save_load_save_flat` exclude the trigger. -/
theorem tls_witness_outside_MemberDomain : ¬ MemberDomain (objOf tlsLoadM) ∧ ¬ MemberDomain (objOf tlsNestedM) := by
  have key : ∀ o : Obj, tlsClauseB o = false → ¬ MemberDomain o := by
    intro o h M
    rw [tlsClauseB_of_MemberDomain M] at h
    cases h
  exact ⟨key _ (by decide +kernel), key _ (by decide +kernel)⟩

/-- `memberDomainB` without its TLS conjunct -/
def memberDomainNoTlsB (o : Obj) : Bool :=
  o.segs.all (fun g =>
    g.secs.all (fun idx => match o.secs[idx.toNat]? with
      | some s => s.size != 0 && isAlloc s
      | none => false) &&
    pairwiseLtB g.secs) &&
  o.secs.all (fun s => s.index != 0 || s.offset == 0)

/-- … and the first witness violates nothing else: it meets every other hypothesis of
    `Compose.save_load_save_flat` (`ExOk` = save succeeds, `FlatDomain`, `NoWrap64`; the cover clause that excludes
    F14; the other clauses of `MemberDomain`; section data resident; no segment at offset 0; `resaveOkRB` = no F13
    trigger, no wrap; `addrSeparateB` on the saved object) — the trigger is excluded exactly by the TLS clause. -/
theorem tls_witness_domain_otherwise :
    ExOk (objOf tlsLoadM) ∧
    layoutDomB true false (fun _ => true) (preSave (objOf tlsLoadM)) ((objOf tlsLoadM).hdr.getD []) = true ∧
    memberDomainNoTlsB (objOf tlsLoadM) = true ∧ memberDomainB (objOf tlsLoadM) = false ∧
    (∀ a ∈ (objOf tlsLoadM).secs, RoundTrip.ResidentFull a) ∧ Sv.NoZeroOffset (objOf tlsLoadM).segs ∧
    C06.resaveOkRB (objOf tlsLoadM) ((objOf tlsLoadM).hdr.getD []) = true ∧
    addrSeparateB (savedOf (objOf tlsLoadM)).obj.secs (savedOf (objOf tlsLoadM)).obj.segs = true := by
  refine ⟨⟨savedOf_eq _ (by decide +kernel), by decide +kernel,
    ⟨⟨by decide +kernel, by decide +kernel,
      ⟨by decide +kernel, by decide +kernel, by decide +kernel, by decide +kernel, by decide +kernel,
       by decide +kernel, by decide +kernel, by decide +kernel, by decide +kernel, by decide +kernel,
       by decide +kernel, by decide +kernel, by decide +kernel, by decide +kernel⟩,
      by decide +kernel, by decide +kernel, by decide +kernel⟩,
     by decide +kernel, by decide +kernel, by decide +kernel⟩,
    ⟨by decide +kernel, by decide +kernel⟩⟩,
    by decide +kernel, by decide +kernel, by decide +kernel, by decide +kernel, by decide +kernel, by decide +kernel,
    by decide +kernel⟩

end ElfioVerif.F17
