/-
C06 — `StepNoWrap` from `layoutNW`.

`C06.save_twice_runs` / `Compose.save_load_save_flat` carry `ResaveOkR` = `ResaveOkC` + `StepNoWrap`
(where the first save assigns an address: `seg_start_pos ≤ cursor` and `cursor + gap < 2^64`).  This file
derives the `StepNoWrap` half from C04's no-wrap function `layoutNW` (already part of
`SaveDomain` / `ComposeDomain`), bridging the two formulations of the passes (`Sv.stepGap` /
`Sv.segStartOf` / `Sv.saveStep` of Lemmas/Save.lean and `wsdGap` / `segFirstGen`+`segInit` / `segsStep`
of Lemmas/Layout.lean):

  * `cursor + gap < 2^64` is `wsdStepNW`'s first conjunct (`C04.noWrap_iff`) for every member that is not
    SHT_NULL-typed; for an (empty) SHT_NULL-typed member `StepOkC` forces the gap to be 0;
  * `seg_start_pos ≤ cursor` holds when the segment starts a fresh run (`segFreshB`: then
    `seg_start_pos` *is* the cursor) and is preserved by the monotone cursor; it does NOT follow from
    `layoutNW` for a nested segment whose first member is an SHT_NULL-typed (or index-0) section carrying
    an arbitrary offset, so it is kept as the Bool check `layoutStartsB` (evaluated along the layout, like
    `layoutNW`; it also accepts a segment all of whose members are already generated — no address is assigned
    there), discharged here for flat objects (`layoutStartsB_of_flat`), for flat + fully nested segments
    (`layoutStartsB_of_mixed`), for nested segments whose already generated first member occupies file space
    (`segStartLeB_of_occ`), and for any nesting from `layoutNW` plus the static condition `HeadOk` (first
    member of every segment neither SHT_NULL-typed nor section 0: `layoutStartsB_of_static`, invariant `GenLe`).

  `stepNoWrap_of_layoutNW`, `resaveOkR_of_layoutNW`, `save_twice_runs'`, `save_twice_runs_flat'`,
  `save_twice_runs_static'`, `Compose.save_load_save_flat'`, `Compose.save_load_save_nested_input'`.
-/
import ElfioVerif.Props.C06Runs
import ElfioVerif.Props.C04
import ElfioVerif.Props.Compose2
namespace ElfioVerif.C06
open ElfioVerif Gen Sv

/-! ### the two formulations of the passes agree -/

theorem stepGap_eq_wsdGap (g : Seg) (ss : BitVec 64) (sec : SecBuf) (gen : Bool) (pos file : BitVec 64) :
    stepGap g ss sec gen pos file = wsdGap g ss pos file sec gen := rfl

theorem segStartOf_eq_init (c : Cls) (phoff : BitVec 64) (pe pn : BitVec 16) (lay : Layout) (g : Seg) :
    segStartOf phoff pe pn lay g = (segFirstGen lay g >>= fun fg => segInit c phoff pe pn lay g fg) := by
  unfold segStartOf segFirstGen segInit
  cases g.secs.head? with
  | none => rfl
  | some f =>
    cases h : lay.gen[f.toNat]? with
    | none => simp only [h] <;> rfl
    | some b => simp only [h] <;> rfl

theorem preRes_eq_preSave (o : Obj) : preRes o = preSave o := rfl

/-! ### SHT_NULL-typed sections stay empty -/

/-- SHT_NULL-typed sections are empty -/
def NullEmpty (secs : List SecBuf) : Prop := ∀ s ∈ secs, wsd_is_null s.stype = true → s.size = 0

theorem NullEmpty.step {lay lay' : Layout} (h : NullEmpty lay.secs) (hs : LayStep lay lay') :
    NullEmpty lay'.secs := by
  intro s' hm hn
  obtain ⟨k, hk⟩ := List.getElem?_of_mem hm
  have hk' : k < lay.secs.length := by
    rw [← hs.len]
    rcases Nat.lt_or_ge k lay'.secs.length with h | h
    · exact h
    · rw [List.getElem?_eq_none h] at hk; cases hk
  obtain ⟨s2, h2, hm2⟩ := hs.moved k lay.secs[k] (List.getElem?_eq_getElem hk')
  rw [hk] at h2; cases h2
  rw [hm2.size]
  apply h _ (List.getElem_mem hk')
  rw [← hm2.stype]; exact hn

/-! ### one member -/

/-- **`StepNoWrap` from the no-wrap function of C04** (one member): `wsdStepNW` bounds `cursor + gap`
    for every member that is not SHT_NULL-typed; an empty SHT_NULL-typed member has gap 0 by `StepOkC`. -/
theorem stepNoWrap_of_NW {c : Cls} {g : Seg} {ss : BitVec 64} {st : WsdSt} {idx : BitVec 16}
    (hC : StepOkC c g ss st idx) (hnw : wsdStepNW c g ss st idx = true)
    (hss : ss.toNat ≤ st.lay.pos.toNat ∨ st.lay.gen[idx.toNat]? = some true)
    (hnull : NullEmpty st.lay.secs) : StepNoWrap g ss st idx := by
  intro sec hs hg ha gap hgap
  have hss : ss.toNat ≤ st.lay.pos.toNat := by
    rcases hss with h | h
    · exact h
    · rw [hg] at h; cases h
  refine ⟨hss, ?_⟩
  by_cases hn : wsd_is_null sec.stype = true
  · have hsz : sec.size = 0 := hnull sec (List.mem_of_getElem? hs) hn
    have hng := (hC sec hs hg).1
    have hgz : gap = 0 := by
      apply Classical.byContradiction
      intro hne
      apply hng
      refine ⟨ha, Or.inr hsz, ?_⟩
      unfold stepGap at hgap
      have hab : wsd_addr_branch false sec.addrSet sec.stype sec.size = false := by
        rw [ha]; simp [wsd_addr_branch]
      rw [hab] at hgap
      simp only [Bool.false_eq_true, if_false, wsd_align_branch, ha, Bool.not_false, Bool.and_self, if_true,
        Option.some.injEq] at hgap
      rw [hgap]; exact hne
    rw [hgz]
    have := st.lay.pos.isLt
    have hz : (0 : BitVec 64).toNat = 0 := rfl
    rw [hz]; omega
  · unfold wsdStepNW at hnw
    rw [hs, hg] at hnw
    simp only [hn, Bool.false_eq_true, if_false] at hnw
    have e : wsdGap g ss st.lay.pos st.file sec false = some gap := hgap
    rw [e] at hnw
    simp only [Bool.and_eq_true, decide_eq_true_eq] at hnw
    exact (C04.noWrap_iff st.lay.pos gap).1 hnw.1.1

/-- the member has been generated before its step comes (`StepNoWrap` is then vacuous) -/
def wsdStepGenB (st : WsdSt) (idx : BitVec 16) : Bool := st.lay.gen[idx.toNat]? == some true

/-- all members of one segment: `seg_start_pos ≤ cursor`, or every member is already generated when its
    step comes (a fully nested segment: no address is assigned) -/
theorem loopOkR_of_NW {c : Cls} {g : Seg} {ss : BitVec 64} (l : List (BitVec 16)) {st : WsdSt} {lo : Nat}
    (hinv : LayInv lo st.lay) (hC : LoopOkC c g ss l st) (hnw : wsdLoopNW c g ss l st = true)
    (hss : ss.toNat ≤ st.lay.pos.toNat ∨
      wsdLoopAll (fun st idx => wsdStepGenB st idx) c g ss l st = true)
    (hnull : NullEmpty st.lay.secs) : LoopOkR c g ss l st := by
  induction l generalizing st with
  | nil => trivial
  | cons idx rest ih =>
    unfold wsdLoopNW at hnw
    simp only [Bool.and_eq_true] at hnw
    have hstep : ss.toNat ≤ st.lay.pos.toNat ∨ st.lay.gen[idx.toNat]? = some true := by
      rcases hss with h | h
      · exact Or.inl h
      · unfold wsdLoopAll at h
        simp only [Bool.and_eq_true] at h
        exact Or.inr (by simpa [wsdStepGenB] using h.1)
    refine ⟨⟨hC.1, stepNoWrap_of_NW hC.1 hnw.1 hstep hnull⟩, fun st' hs => ?_⟩
    have h2 := hnw.2
    rw [hs] at h2
    obtain ⟨i1, s1⟩ := wsdStep_inv c g ss st st' idx lo hinv hnw.1 hs
    refine ih i1 (hC.2 st' hs) h2 ?_ (hnull.step s1)
    rcases hss with h | h
    · exact Or.inl (Nat.le_trans h s1.mono)
    · unfold wsdLoopAll at h
      simp only [Bool.and_eq_true] at h
      have h3 := h.2
      rw [hs] at h3
      exact Or.inr h3

/-! ### one segment -/

/-- the segment has no members, or `seg_start_pos` is at or below the cursor `write_segment_data`
    starts from, or every member is already generated when its step comes (fully nested segment) -/
def segStartLeB (c : Cls) (phoff : BitVec 64) (pe pn : BitVec 16) (lay : Layout) (g : Seg) : Bool :=
  g.secs.isEmpty ||
  match segStartOf phoff pe pn lay g with
  | .ok p => decide (p.2.1.toNat ≤ p.1.pos.toNat) ||
      wsdLoopAll (fun st idx => wsdStepGenB st idx) c g p.2.1 g.secs { lay := p.1, mem := p.2.2.1, file := p.2.2.2 }
  | _ => true

theorem segOkR_of_NW {c : Cls} {phoff : BitVec 64} {pe pn : BitVec 16} {lay : Layout} {g : Seg} {lo : Nat}
    (hinv : LayInv lo lay) (hC : SegOkC c phoff pe pn lay g) (hnw : segNW c phoff pe pn lay g = true)
    (hst : segStartLeB c phoff pe pn lay g = true) (hnull : NullEmpty lay.secs) :
    SegOkR c phoff pe pn lay g := by
  intro p hp
  obtain ⟨h1, h2, h3⟩ := hC p hp
  refine ⟨h1, h2, ?_⟩
  cases hq : g.secs with
  | nil => trivial
  | cons a b =>
    rw [← hq]
    unfold segStartLeB at hst
    have hne : g.secs.isEmpty = false := by rw [hq]; rfl
    rw [hp, hne] at hst
    simp only [Bool.false_or, Bool.or_eq_true, decide_eq_true_eq] at hst
    obtain ⟨esecs, -⟩ := segStartOf_secs hp
    rw [segStartOf_eq_init c] at hp
    unfold segNW at hnw
    cases hfg : segFirstGen lay g with
    | error e => rw [hfg] at hp; cases hp
    | ok fg =>
      rw [hfg] at hp hnw
      simp only [bind, Except.bind] at hp hnw
      rw [hp] at hnw
      simp only [Bool.and_eq_true, decide_eq_true_eq] at hnw
      have hl := segInit_lay c phoff pe pn lay g fg p hp
      have hinv1 : LayInv lo p.1 := by
        rw [hl]; exact ⟨hinv.len, hinv.packed.mono hnw.1.1⟩
      exact loopOkR_of_NW (st := { lay := p.1, mem := p.2.2.1, file := p.2.2.2 }) g.secs hinv1 h3 hnw.2 hst
        (by show NullEmpty p.1.secs; rw [esecs]; exact hnull)

/-- a segment that starts a fresh run starts at the cursor -/
theorem segStartLeB_of_fresh (c : Cls) (phoff : BitVec 64) (pe pn : BitVec 16) (lay : Layout) (g : Seg)
    (h : g.secs.isEmpty = true ∨ segFreshB lay g = true) : segStartLeB c phoff pe pn lay g = true := by
  unfold segStartLeB
  rcases h with h | h
  · rw [h]; rfl
  · unfold segFreshB at h
    simp only [Bool.and_eq_true, Bool.not_eq_true'] at h
    obtain ⟨⟨h1, h2⟩, h3⟩ := h
    cases hh : g.secs.head? with
    | none => rw [hh] at h3; cases h3
    | some f =>
      rw [hh] at h3
      have hg : lay.gen[f.toNat]? = some false := by simpa using h3
      have hpos : g.secs.length > 0 := by
        cases hq : g.secs with
        | nil => rw [hq] at hh; cases hh
        | cons a b => simp
      unfold segStartOf
      simp [hh, hg, h1, h2, hpos, bind, Except.bind, pure, Except.pure]

/-- a nested segment whose already generated first member occupies file space starts at or below the
    cursor (`LayInv`: generated file-occupying sections end at or before the cursor) -/
theorem segStartLeB_of_occ (c : Cls) (phoff : BitVec 64) (pe pn : BitVec 16) (lay : Layout) (g : Seg) (lo : Nat)
    (hinv : LayInv lo lay) (hn : segNestedStartB lay g = true)
    (hocc : ∀ f s, g.secs.head? = some f → lay.secs[f.toNat]? = some s → s.Occ) :
    segStartLeB c phoff pe pn lay g = true := by
  unfold segStartLeB
  unfold segNestedStartB at hn
  simp only [Bool.and_eq_true, Bool.not_eq_true'] at hn
  obtain ⟨⟨h1, h2⟩, h3⟩ := hn
  cases hh : g.secs.head? with
  | none => rw [hh] at h3; cases h3
  | some f =>
    rw [hh] at h3
    have hg : lay.gen[f.toNat]? = some true := by simpa using h3
    have hpos : g.secs.length > 0 := by
      cases hq : g.secs with
      | nil => rw [hq] at hh; cases hh
      | cons a b => simp
    unfold segStartOf
    cases hs : lay.secs[f.toNat]? with
    | none => simp [hh, hg, h1, h2, hpos, hs, bind, Except.bind, pure, Except.pure, throw, throwThe, MonadExceptOf.throw]
    | some s =>
      have := (hinv.packed.inR f.toNat s hs hg (hocc f s hh hs)).2
      unfold SecBuf.endN at this
      have hle : s.offset.toNat ≤ lay.pos.toNat := by omega
      simp [hh, hg, h1, h2, hpos, hs, bind, Except.bind, pure, Except.pure, hle]

/-! ### all segments -/

theorem runOkR_of_NW {c : Cls} {e : Enc} {h0 : Bytes} (l : List Seg) {lay : Layout} {lo : Nat}
    (hinv : LayInv lo lay) (hC : RunOkC c e h0 lay l)
    (hnw : segsNW c (Hdr.e_phoff c e h0) (Hdr.e_phentsize c e h0) (Hdr.e_phnum c e h0) l lay = true)
    (hst : segsAllB (segStartLeB c (Hdr.e_phoff c e h0) (Hdr.e_phentsize c e h0) (Hdr.e_phnum c e h0)) c
      (Hdr.e_phoff c e h0) (Hdr.e_phentsize c e h0) (Hdr.e_phnum c e h0) l lay = true)
    (hnull : NullEmpty lay.secs) : RunOkR c e h0 lay l := by
  induction l generalizing lay with
  | nil => trivial
  | cons g rest ih =>
    unfold segsNW at hnw
    unfold segsAllB at hst
    simp only [Bool.and_eq_true] at hnw hst
    refine ⟨segOkR_of_NW hinv hC.1 hnw.1 hst.1 hnull, fun lay' d hd' => ?_⟩
    have h2 := hnw.2
    have h3 := hst.2
    rw [hd'] at h2 h3
    obtain ⟨i1, s1⟩ := layoutSegment_inv c _ _ _ lay lay' g d lo hinv hnw.1 hd'
    exact ih i1 (hC.2 lay' d hd') h2 h3 (hnull.step s1)

/-- "`seg_start_pos ≤ cursor` at the turn of every segment with members", evaluated along the layout
    (a Bool function of the input object, like `layoutNW`) -/
def layoutStartsB (o : Obj) (h : Bytes) : Bool :=
  match layoutOf o h with
  | .ok (some res) =>
    segsAllB (segStartLeB o.cls (Hdr.e_phoff o.cls o.enc res.hdr0) (Hdr.e_phentsize o.cls o.enc res.hdr0)
        (Hdr.e_phnum o.cls o.enc res.hdr0))
      o.cls (Hdr.e_phoff o.cls o.enc res.hdr0) (Hdr.e_phentsize o.cls o.enc res.hdr0)
      (Hdr.e_phnum o.cls o.enc res.hdr0) res.ordered (lay0Of o res.pos0)
  | _ => true

theorem segsAllB_imp {P Q : Layout → Seg → Bool} (hPQ : ∀ lay g, P lay g = true → Q lay g = true)
    (c : Cls) (phoff : BitVec 64) (pe pn : BitVec 16) (l : List Seg) (lay : Layout)
    (h : segsAllB P c phoff pe pn l lay = true) : segsAllB Q c phoff pe pn l lay = true := by
  induction l generalizing lay with
  | nil => rfl
  | cons g rest ih =>
    unfold segsAllB at h ⊢
    simp only [Bool.and_eq_true] at h ⊢
    refine ⟨hPQ _ _ h.1, ?_⟩
    cases hs : layoutSegment c phoff pe pn lay g with
    | error e => rfl
    | ok r =>
      cases r with
      | none => rfl
      | some r =>
        obtain ⟨lay1, g1⟩ := r
        have h2 := h.2
        rw [hs] at h2
        exact ih lay1 h2

/-- flat objects (every segment with members starts a fresh run — `layoutDomB … (fun _ => true)`, part of
    `FlatDomain`) meet `layoutStartsB` -/
theorem layoutStartsB_of_flat {cov ins : Bool} {o : Obj} {h : Bytes}
    (hd : layoutDomB cov ins (fun _ => true) o h = true) : layoutStartsB o h = true := by
  unfold layoutStartsB
  unfold layoutDomB at hd
  cases hl : layoutOf o h with
  | error e => rfl
  | ok r =>
    cases r with
    | none => rfl
    | some res =>
      rw [hl] at hd
      simp only at hd ⊢
      refine segsAllB_imp (fun lay g hp => ?_) _ _ _ _ _ _ hd
      simp only [Bool.not_true, Bool.false_or, Bool.and_eq_true, Bool.or_eq_true] at hp
      exact segStartLeB_of_fresh _ _ _ _ lay g hp.2

/-! ### flat and fully nested segments together -/

theorem wsdLoopAll_imp {P Q : WsdSt → BitVec 16 → Bool} (hPQ : ∀ st idx, P st idx = true → Q st idx = true)
    (c : Cls) (g : Seg) (ss : BitVec 64) (l : List (BitVec 16)) (st : WsdSt)
    (h : wsdLoopAll P c g ss l st = true) : wsdLoopAll Q c g ss l st = true := by
  induction l generalizing st with
  | nil => rfl
  | cons idx rest ih =>
    unfold wsdLoopAll at h ⊢
    simp only [Bool.and_eq_true] at h ⊢
    refine ⟨hPQ _ _ h.1, ?_⟩
    cases hs : wsdStep c g ss st idx with
    | error e => rfl
    | ok r =>
      cases r with
      | none => rfl
      | some st1 =>
        have h2 := h.2
        rw [hs] at h2
        exact ih st1 h2

theorem wsdStepGenB_of_nested (ss : BitVec 64) (st : WsdSt) (idx : BitVec 16)
    (h : wsdStepNested ss st idx = true) : wsdStepGenB st idx = true := by
  unfold wsdStepNested at h
  unfold wsdStepGenB
  cases hs : st.lay.secs[idx.toNat]? with
  | none => rw [hs] at h; cases h
  | some sec =>
    cases hg : st.lay.gen[idx.toNat]? with
    | none => rw [hs, hg] at h; cases h
    | some b =>
      cases b with
      | false => rw [hs, hg] at h; cases h
      | true => rfl

/-- a fully nested segment (`segNestedB`: every member already generated) meets the start condition -/
theorem segStartLeB_of_nested (c : Cls) (phoff : BitVec 64) (pe pn : BitVec 16) (lay : Layout) (g : Seg)
    (h : segNestedB c phoff pe pn lay g = true) : segStartLeB c phoff pe pn lay g = true := by
  unfold segStartLeB
  unfold segNestedB at h
  simp only [Bool.and_eq_true] at h
  have h2 := h.2
  rw [segStartOf_eq_init c]
  cases hfg : segFirstGen lay g with
  | error e => simp [bind, Except.bind]
  | ok fg =>
    rw [hfg] at h2
    simp only [bind, Except.bind] at h2 ⊢
    cases hin : segInit c phoff pe pn lay g fg with
    | error e => simp
    | ok r =>
      rw [hin] at h2
      simp only at h2 ⊢
      rw [wsdLoopAll_imp (fun st idx hp => wsdStepGenB_of_nested r.2.1 st idx hp) c g r.2.1 g.secs _ h2]
      simp

theorem segsAllB_imp_mem {P Q : Layout → Seg → Bool} (c : Cls) (phoff : BitVec 64) (pe pn : BitVec 16)
    (l : List Seg) (lay : Layout) (hPQ : ∀ lay, ∀ g ∈ l, P lay g = true → Q lay g = true)
    (h : segsAllB P c phoff pe pn l lay = true) : segsAllB Q c phoff pe pn l lay = true := by
  induction l generalizing lay with
  | nil => rfl
  | cons g rest ih =>
    unfold segsAllB at h ⊢
    simp only [Bool.and_eq_true] at h ⊢
    refine ⟨hPQ _ g List.mem_cons_self h.1, ?_⟩
    cases hs : layoutSegment c phoff pe pn lay g with
    | error e => rfl
    | ok r =>
      cases r with
      | none => rfl
      | some r =>
        obtain ⟨lay1, g1⟩ := r
        have h2 := h.2
        rw [hs] at h2
        exact ih lay1 (fun lay g hg => hPQ lay g (List.mem_cons_of_mem _ hg)) h2

theorem segsAllB_and {P Q : Layout → Seg → Bool} (c : Cls) (phoff : BitVec 64) (pe pn : BitVec 16)
    (l : List Seg) (lay : Layout) (h1 : segsAllB P c phoff pe pn l lay = true)
    (h2 : segsAllB Q c phoff pe pn l lay = true) :
    segsAllB (fun lay g => P lay g && Q lay g) c phoff pe pn l lay = true := by
  induction l generalizing lay with
  | nil => rfl
  | cons g rest ih =>
    unfold segsAllB at h1 h2 ⊢
    simp only [Bool.and_eq_true] at h1 h2 ⊢
    refine ⟨⟨h1.1, h2.1⟩, ?_⟩
    cases hs : layoutSegment c phoff pe pn lay g with
    | error e => rfl
    | ok r =>
      cases r with
      | none => rfl
      | some r =>
        obtain ⟨lay1, g1⟩ := r
        have a := h1.2
        have b := h2.2
        rw [hs] at a b
        exact ih lay1 a b

/-- objects whose segments are flat (`selE`, `layoutDomB`) or fully nested (`selN`, `layoutNestedB`), every
    segment one or the other (`NestedDomain` of Props/Compose2.lean), meet `layoutStartsB` -/
theorem layoutStartsB_of_mixed {cov ins : Bool} {o : Obj} {h : Bytes} {selE selN : Nat → Bool}
    (hd : layoutDomB cov ins selE o h = true) (hn : layoutNestedB selN o h = true)
    (hcover : ∀ g ∈ o.segs, selE g.index = true ∨ selN g.index = true) : layoutStartsB o h = true := by
  unfold layoutStartsB
  unfold layoutDomB at hd
  unfold layoutNestedB at hn
  cases hl : layoutOf o h with
  | error e => rfl
  | ok r =>
    cases r with
    | none => rfl
    | some res =>
      rw [hl] at hd hn
      simp only at hd hn ⊢
      obtain ⟨-, -, hmap, hord, -, -, -, -⟩ := layoutOf_parts o h res hl
      have hp := orderedSegments_perm _ _ hord
      have hidx := (mapM_calcSegAlign _ _ _ hmap).1
      refine segsAllB_imp_mem _ _ _ _ _ _ (fun lay g hg hp' => ?_) (segsAllB_and _ _ _ _ _ _ hd hn)
      simp only [Bool.and_eq_true, Bool.or_eq_true, Bool.not_eq_true'] at hp'
      have hsel : selE g.index = true ∨ selN g.index = true := by
        have hg0 : g ∈ res.segs0 := (hp.mem_iff).1 hg
        have : g.index ∈ res.segs0.map (·.index) := List.mem_map_of_mem hg0
        rw [hidx] at this
        obtain ⟨g0, hg0m, e⟩ := List.mem_map.1 this
        rw [← e]; exact hcover g0 hg0m
      rcases hsel with hE | hN
      · rcases hp'.1 with hf | hf
        · rw [hE] at hf; cases hf
        · exact segStartLeB_of_fresh _ _ _ _ lay g hf.2
      · rcases hp'.2 with hf | hf
        · rw [hN] at hf; cases hf
        · exact segStartLeB_of_nested _ _ _ _ lay g hf.2

/-! ### `seg_start_pos ≤ cursor` from a static condition on the member lists

Under `layoutNW` every generated section that is not SHT_NULL-typed and not section 0 was placed at the
then-current cursor, hence starts at or below the cursor ever after (`GenLe`).  A nested segment starts at
its first member's offset: if that member is such a section, `seg_start_pos ≤ cursor`. -/

/-- generated sections that are not SHT_NULL-typed and do not carry index 0 start at or below the cursor -/
def GenLe (lay : Layout) : Prop :=
  ∀ (k : Nat) (s : SecBuf), lay.gen[k]? = some true → lay.secs[k]? = some s → wsd_is_null s.stype = false →
    s.index ≠ 0 → s.offset.toNat ≤ lay.pos.toNat

theorem lt_of_getElem? {α} {l : List α} {k : Nat} {a : α} (h : l[k]? = some a) : k < l.length := by
  rcases Nat.lt_or_ge k l.length with h' | h'
  · exact h'
  · rw [List.getElem?_eq_none h'] at h; cases h

theorem wsdStep_genLe {c : Cls} {g : Seg} {ss : BitVec 64} {st st' : WsdSt} {idx : BitVec 16}
    (hnw : wsdStepNW c g ss st idx = true) (h : wsdStep c g ss st idx = .ok (some st'))
    (hP : GenLe st.lay) : GenLe st'.lay := by
  obtain ⟨sec, generated, hsec, hgen, hcases⟩ := wsdStep_cases c g ss st st' idx h
  have hslen : idx.toNat < st.lay.secs.length := lt_of_getElem? hsec
  rcases hcases with ⟨hn, rfl⟩ | ⟨hn, gap, hgap, hc⟩
  · intro k s hg hs hnn hi
    simp only at hg hs
    by_cases e : idx.toNat = k
    · subst e; rw [hsec] at hs; cases hs; rw [hn] at hnn; cases hnn
    · rw [List.getElem?_set_ne e] at hg; exact hP k s hg hs hnn hi
  · rcases hc with ⟨-, rfl⟩ | ⟨hgf, rfl⟩
    · exact hP
    · subst hgf
      unfold wsdStepNW at hnw
      rw [hsec, hgen] at hnw
      simp only [hn, Bool.false_eq_true, if_false, hgap, Bool.and_eq_true, decide_eq_true_eq] at hnw
      obtain ⟨⟨h01, h12⟩, hfit⟩ := hnw
      intro k s hg hs hnn hi
      simp only at hg hs ⊢
      by_cases e : idx.toNat = k
      · subst e
        rw [List.getElem?_set_self hslen] at hs; cases hs
        have hidx : sec.index ≠ 0 := by
          rw [← (wsdPlace_moved c g ss st.lay.pos gap sec).index]; exact hi
        obtain ⟨f1, f2, f3, -⟩ := wsdPlace_facts c g ss st.lay.pos gap sec hidx h01 h12 hfit
        rw [f1, f2, f3]; split <;> omega
      · rw [List.getElem?_set_ne e] at hg hs
        have := hP k s hg hs hnn hi
        omega

theorem wsdLoop_genLe {c : Cls} {g : Seg} {ss : BitVec 64} (l : List (BitVec 16)) {st st' : WsdSt}
    (hnw : wsdLoopNW c g ss l st = true) (h : wsdLoop c g ss l st = .ok (some st'))
    (hP : GenLe st.lay) : GenLe st'.lay := by
  induction l generalizing st with
  | nil =>
    simp only [wsdLoop, pure, Except.pure, Except.ok.injEq, Option.some.injEq] at h
    subst h; exact hP
  | cons idx rest ih =>
    unfold wsdLoop at h
    unfold wsdLoopNW at hnw
    cases hs : wsdStep c g ss st idx with
    | error e => rw [hs] at h; simp [bind, Except.bind] at h
    | ok r =>
      rw [hs] at h hnw
      cases r with
      | none => simp [bind, Except.bind, pure, Except.pure] at h
      | some st1 =>
        simp only [bind, Except.bind, Bool.and_eq_true] at h hnw
        exact ih hnw.2 h (wsdStep_genLe hnw.1 hs hP)

theorem layoutSegment_genLe {c : Cls} {phoff : BitVec 64} {pe pn : BitVec 16} {lay lay' : Layout} {g g' : Seg}
    (hnw : segNW c phoff pe pn lay g = true)
    (h : layoutSegment c phoff pe pn lay g = .ok (some (lay', g'))) (hP : GenLe lay) : GenLe lay' := by
  obtain ⟨fg, r, st, hfg, hin, hw, rfl, -⟩ := layoutSegment_parts c phoff pe pn lay lay' g g' h
  unfold segNW at hnw
  rw [hfg] at hnw
  simp only at hnw
  rw [hin] at hnw
  simp only [Bool.and_eq_true, decide_eq_true_eq] at hnw
  have hl := segInit_lay c phoff pe pn lay g fg r hin
  have hP1 : GenLe r.1 := by
    rw [hl]
    intro k s hg hs hnn hi
    have := hP k s hg hs hnn hi
    simp only
    omega
  exact wsdLoop_genLe (st := { lay := r.1, mem := r.2.2.1, file := r.2.2.2 }) g.secs hnw.2 hw hP1

/-- static condition on a member list: fewer than 2^16 members, and the first member is a section that is
    neither SHT_NULL-typed nor section 0 -/
def HeadOk (secs : List SecBuf) (g : Seg) : Prop :=
  g.secs.length < 65536 ∧
  ∀ f s, g.secs.head? = some f → secs[f.toNat]? = some s → wsd_is_null s.stype = false ∧ s.index ≠ 0

/-- `HeadOk`, evaluated -/
def headOkB (secs : List SecBuf) (g : Seg) : Bool :=
  decide (g.secs.length < 65536) &&
  match g.secs.head? with
  | none => true
  | some f =>
    match secs[f.toNat]? with
    | none => true
    | some s => !wsd_is_null s.stype && s.index != 0

theorem headOk_of_B {secs : List SecBuf} {g : Seg} (h : headOkB secs g = true) : HeadOk secs g := by
  unfold headOkB at h
  simp only [Bool.and_eq_true, decide_eq_true_eq] at h
  refine ⟨h.1, fun f s hf hk => ?_⟩
  have h2 := h.2
  rw [hf] at h2
  simp only at h2
  rw [hk] at h2
  simpa using h2

theorem lseg_is_phdr_members (t : BitVec 32) (n : Nat) (h0 : 0 < n) (hn : n < 65536) :
    lseg_is_phdr t (BitVec.ofNat 16 n) = false := by
  unfold lseg_is_phdr
  have : (BitVec.setWidth 32 (BitVec.ofNat 16 n) == 0#32) = false := by
    rw [beq_eq_false_iff_ne]
    intro e
    have := congrArg BitVec.toNat e
    simp only [BitVec.toNat_setWidth, BitVec.toNat_ofNat, Nat.reducePow, Nat.zero_mod] at this
    omega
  rw [this, Bool.and_false]

theorem segStartLeB_of_genLe (c : Cls) (phoff : BitVec 64) (pe pn : BitVec 16) (lay : Layout) (g : Seg)
    (hP : GenLe lay) (hh : HeadOk lay.secs g) : segStartLeB c phoff pe pn lay g = true := by
  unfold segStartLeB
  cases hq : g.secs with
  | nil => rfl
  | cons a b =>
    rw [← hq]
    have hne : g.secs.isEmpty = false := by rw [hq]; rfl
    have hhead : g.secs.head? = some a := by rw [hq]; rfl
    have hpos : g.secs.length > 0 := by rw [hq]; simp
    have hph := lseg_is_phdr_members g.stype g.secs.length hpos hh.1
    rw [hne, Bool.false_or]
    unfold segStartOf
    cases hg : lay.gen[a.toNat]? with
    | none => simp [hhead, hg, bind, Except.bind, throw, throwThe, MonadExceptOf.throw]
    | some b0 =>
      by_cases h2 : lseg_offset0 g.offsetSet g.offset = true
      · simp [hhead, hg, hph, h2, hpos, bind, Except.bind, pure, Except.pure]
      · cases b0 with
        | false => simp [hhead, hg, hph, h2, hpos, bind, Except.bind, pure, Except.pure]
        | true =>
          cases hs : lay.secs[a.toNat]? with
          | none => simp [hhead, hg, hph, h2, hpos, hs, bind, Except.bind, pure, Except.pure, throw, throwThe,
              MonadExceptOf.throw]
          | some s =>
            obtain ⟨k1, k2⟩ := hh.2 a s hhead hs
            have hle : s.offset.toNat ≤ lay.pos.toNat := hP a.toNat s hg hs k1 k2
            simp [hhead, hg, hph, h2, hpos, hs, bind, Except.bind, pure, Except.pure, hle]

theorem moved_back {lay lay' : Layout} (hs : LayStep lay lay') {k : Nat} {s' : SecBuf}
    (hk : lay'.secs[k]? = some s') : ∃ s, lay.secs[k]? = some s ∧ SecBuf.Moved s s' := by
  have hk' : k < lay.secs.length := by rw [← hs.len]; exact lt_of_getElem? hk
  obtain ⟨s2, h2, hm2⟩ := hs.moved k lay.secs[k] (List.getElem?_eq_getElem hk')
  rw [hk] at h2; cases h2
  exact ⟨_, List.getElem?_eq_getElem hk', hm2⟩

theorem HeadOk.step {lay lay' : Layout} {g : Seg} (h : HeadOk lay.secs g) (hs : LayStep lay lay') :
    HeadOk lay'.secs g := by
  refine ⟨h.1, fun f s' hf hk => ?_⟩
  obtain ⟨s, hs0, hm⟩ := moved_back hs hk
  rw [hm.stype, hm.index]
  exact h.2 f s hf hs0

theorem segsAllB_startLe {c : Cls} {phoff : BitVec 64} {pe pn : BitVec 16} (l : List Seg) {lay : Layout} {lo : Nat}
    (hinv : LayInv lo lay) (hP : GenLe lay) (hnw : segsNW c phoff pe pn l lay = true)
    (hh : ∀ g ∈ l, HeadOk lay.secs g) :
    segsAllB (segStartLeB c phoff pe pn) c phoff pe pn l lay = true := by
  induction l generalizing lay with
  | nil => rfl
  | cons g rest ih =>
    unfold segsNW at hnw
    unfold segsAllB
    simp only [Bool.and_eq_true] at hnw ⊢
    refine ⟨segStartLeB_of_genLe c phoff pe pn lay g hP (hh g List.mem_cons_self), ?_⟩
    cases hs : layoutSegment c phoff pe pn lay g with
    | error e => rfl
    | ok r =>
      cases r with
      | none => rfl
      | some r =>
        obtain ⟨lay1, g1⟩ := r
        have h2 := hnw.2
        rw [hs] at h2
        obtain ⟨i1, s1⟩ := layoutSegment_inv c phoff pe pn lay lay1 g g1 lo hinv hnw.1 hs
        exact ih i1 (layoutSegment_genLe hnw.1 hs hP) h2
          (fun g' hg' => (hh g' (List.mem_cons_of_mem _ hg')).step s1)

/-- **`layoutStartsB` from `layoutNW` and a static condition**: every segment has fewer than 2^16 members
    and its first member is a section that is neither SHT_NULL-typed nor section 0 (`HeadOk`) -/
theorem layoutStartsB_of_static {o : Obj} {h : Bytes} (hn : o.secs.length < 65536)
    (h0 : ∀ (i : Nat) (s : SecBuf), o.secs[i]? = some s → s.Occ → s.index ≠ 0)
    (hnw : layoutNW o h = true) (hstat : ∀ g ∈ o.segs, HeadOk o.secs g) : layoutStartsB o h = true := by
  unfold layoutStartsB
  unfold layoutNW at hnw
  cases hl : layoutOf o h with
  | error e => rfl
  | ok r =>
    cases r with
    | none => rfl
    | some res =>
      rw [hl] at hnw
      simp only [Bool.and_eq_true, decide_eq_true_eq] at hnw ⊢
      obtain ⟨-, -, hmap, hord, -, -, -, -⟩ := layoutOf_parts o h res hl
      have hp := orderedSegments_perm _ _ hord
      have hsecs := (mapM_calcSegAlign _ _ _ hmap).2
      have hP0 : GenLe (lay0Of o res.pos0) := by
        intro k s hg
        have : (List.replicate (o.secs.length % 65536) false)[k]? = some true := hg
        rw [List.getElem?_replicate] at this
        split at this <;> cases this
      refine segsAllB_startLe res.ordered (lay0_inv o res.pos0 hn h0) hP0 hnw.1.1 (fun g hg => ?_)
      have hg0 : g ∈ res.segs0 := (hp.mem_iff).1 hg
      have : g.secs ∈ res.segs0.map (·.secs) := List.mem_map_of_mem hg0
      rw [hsecs] at this
      obtain ⟨g0, hg0m, e⟩ := List.mem_map.1 this
      have := hstat g0 hg0m
      unfold HeadOk at this ⊢
      rw [← e]; exact this

/-! ### the saved object -/

/-- **`ResaveOkR` from `ResaveOkC` and `layoutNW`.**  For an object whose layout succeeds (`layoutOf`,
    implied by a successful `save`: `save_layout`): fewer than 2^16 sections, no file-occupying section
    with index 0, SHT_NULL-typed sections empty, the F13 / ELF32 side conditions `ResaveOkC`, C04's no-wrap
    function `layoutNW` and `layoutStartsB` give the side conditions of `save_twice_runs`. -/
theorem resaveOkR_of_layoutNW {o : Obj} {hd : Bytes} {res : LayoutRes}
    (hl : layoutOf (preSave o) hd = .ok (some res))
    (hn : o.secs.length < 65536)
    (h0 : ∀ (i : Nat) (s : SecBuf), o.secs[i]? = some s → s.Occ → s.index ≠ 0)
    (hnull0 : ∀ s ∈ o.secs, s.stype = BitVec.ofNat 32 SHT_NULL → s.size = 0)
    (hC : ResaveOkC o hd) (hnw : layoutNW (preSave o) hd = true) (hst : layoutStartsB (preSave o) hd = true) :
    ResaveOkR o hd := by
  intro segs1 ordered h1 h2
  obtain ⟨e0, ep, em, eo, -, -, -, -⟩ := layoutOf_parts (preSave o) hd res hl
  have hC' := hC segs1 ordered h1 h2
  rw [preRes_eq_preSave] at h1
  rw [em] at h1; cases h1
  rw [eo] at h2; cases h2
  have elay : saveLay0 (preRes o) (Sv.saveHdr0 (preRes o) hd) = lay0Of (preSave o) res.pos0 := by
    rw [ep, e0]; rfl
  have ehdr : Sv.saveHdr0 (preRes o) hd = res.hdr0 := by rw [e0]; rfl
  show RunOkR o.cls o.enc (Sv.saveHdr0 (preRes o) hd) (saveLay0 (preRes o) (Sv.saveHdr0 (preRes o) hd)) res.ordered
  have hC'' : RunOkC o.cls o.enc (Sv.saveHdr0 (preRes o) hd) (saveLay0 (preRes o) (Sv.saveHdr0 (preRes o) hd))
      res.ordered := hC'
  rw [elay, ehdr] at hC'' ⊢
  unfold layoutNW at hnw
  unfold layoutStartsB at hst
  rw [hl] at hnw hst
  simp only [Bool.and_eq_true, decide_eq_true_eq] at hnw
  have hn' : (preSave o).secs.length < 65536 := by rw [preSave_length]; exact hn
  have hnull : NullEmpty (lay0Of (preSave o) res.pos0).secs := by
    intro s hm hnl
    obtain ⟨k, hk⟩ := List.getElem?_of_mem hm
    obtain ⟨s0, hs0, hh⟩ := hdrOf_getElem? (preSave_hdr o) k s hk
    simp only [hdrOf, Prod.mk.injEq] at hh
    rw [← hh.2.1]
    apply hnull0 s0 (List.mem_of_getElem? hs0)
    rw [hh.2.2.1]
    unfold wsd_is_null at hnl
    exact (beq_iff_eq.1 hnl).symm
  exact runOkR_of_NW (c := o.cls) (e := o.enc) res.ordered (lay0_inv (preSave o) res.pos0 hn' (preSave_h0 o h0))
    hC'' hnw.1.1 hst hnull

/-- **`StepNoWrap` from `layoutNW`**, at the first member of the first segment of a successful layout — the
    general statement is `resaveOkR_of_layoutNW`; this form shows what is derived: where the first save
    assigns an address, `seg_start_pos ≤ cursor` and `cursor + gap < 2^64`. -/
theorem stepNoWrap_of_layoutNW {o : Obj} {hd : Bytes} {res : LayoutRes}
    (hl : layoutOf (preSave o) hd = .ok (some res))
    (hn : o.secs.length < 65536)
    (h0 : ∀ (i : Nat) (s : SecBuf), o.secs[i]? = some s → s.Occ → s.index ≠ 0)
    (hnull0 : ∀ s ∈ o.secs, s.stype = BitVec.ofNat 32 SHT_NULL → s.size = 0)
    (hC : ResaveOkC o hd) (hnw : layoutNW (preSave o) hd = true) (hst : layoutStartsB (preSave o) hd = true) :
    ∀ g rest, res.ordered = g :: rest →
      ∀ p, segStartOf (Hdr.e_phoff o.cls o.enc res.hdr0) (Hdr.e_phentsize o.cls o.enc res.hdr0)
          (Hdr.e_phnum o.cls o.enc res.hdr0) (lay0Of (preSave o) res.pos0) g = .ok p →
        ∀ idx tl, g.secs = idx :: tl →
          StepNoWrap g p.2.1 { lay := p.1, mem := p.2.2.1, file := p.2.2.2 } idx := by
  intro g rest hord p hp idx tl hsecs
  obtain ⟨e0, ep, em, eo, -, -, -, -⟩ := layoutOf_parts (preSave o) hd res hl
  have hR := resaveOkR_of_layoutNW hl hn h0 hnull0 hC hnw hst res.segs0 res.ordered em eo
  have elay : saveLay0 (preRes o) (Sv.saveHdr0 (preRes o) hd) = lay0Of (preSave o) res.pos0 := by
    rw [ep, e0]; rfl
  have ehdr : Sv.saveHdr0 (preRes o) hd = res.hdr0 := by rw [e0]; rfl
  have hR' : RunOkR o.cls o.enc (Sv.saveHdr0 (preRes o) hd) (saveLay0 (preRes o) (Sv.saveHdr0 (preRes o) hd))
      res.ordered := hR
  rw [elay, ehdr, hord] at hR'
  have hseg := (hR'.1 p hp).2.2
  rw [hsecs] at hseg
  exact hseg.1.2

/-- **save_twice_runs'** : `save_twice_runs` with `StepNoWrap` replaced by C04's `layoutNW` (any class;
    flat or nested segments).  Hypotheses on the input object only: header present and of the class's
    size, segment indices = positions, `FrontOk`, fewer than 2^16 sections, no file-occupying section
    with index 0, SHT_NULL-typed sections empty, `ResaveOkC` (no F13 trigger, ELF32 addresses fit),
    `layoutNW`, `layoutStartsB`.  A second `save` of the saved object into the same initial stream succeeds
    and returns exactly the same result. -/
theorem save_twice_runs' {o : Obj} {os : OStream} {r : SaveRes} {hd : Bytes}
    (hh : o.hdr = some hd) (hl : ehdrSize o.cls ≤ hd.length) (hidx : SegIdxOk o.segs) (hz : FrontOk o.segs)
    (hn : o.secs.length < 65536)
    (h0 : ∀ (i : Nat) (s : SecBuf), o.secs[i]? = some s → s.Occ → s.index ≠ 0)
    (hnull0 : ∀ s ∈ o.secs, s.stype = BitVec.ofNat 32 SHT_NULL → s.size = 0)
    (hC : ResaveOkC o hd) (hnw : layoutNW (preSave o) hd = true) (hst : layoutStartsB (preSave o) hd = true)
    (hs : save o os = .ok r) (hok : r.ok = true) :
    save r.obj os = .ok r ∧
    (∀ g ∈ r.obj.segs, ∀ idx ∈ g.secs, ∀ b, r.obj.secs[idx.toNat]? = some b → wsd_is_null b.stype = false →
      b.addrSet = true) ∧
    ∀ g ∈ r.obj.segs, g.offsetSet = true := by
  obtain ⟨hdr', res, hh', hlay, -⟩ := save_layout o os r hs hok
  rw [hh] at hh'; cases hh'
  exact save_twice_runs hh hl hidx hz (resaveOkR_of_layoutNW hlay hn h0 hnull0 hC hnw hst) hs hok

/-- **save_twice_runs_flat'** : for flat objects (`layoutDomB … (fun _ => true)`, as in `FlatDomain`) the
    start condition is automatic: the hypotheses are `ResaveOkC`, `layoutNW` and the flat writer domain. -/
theorem save_twice_runs_flat' {o : Obj} {os : OStream} {r : SaveRes} {hd : Bytes} {cov ins : Bool}
    (hh : o.hdr = some hd) (hl : ehdrSize o.cls ≤ hd.length) (hidx : SegIdxOk o.segs) (hz : FrontOk o.segs)
    (hn : o.secs.length < 65536)
    (h0 : ∀ (i : Nat) (s : SecBuf), o.secs[i]? = some s → s.Occ → s.index ≠ 0)
    (hnull0 : ∀ s ∈ o.secs, s.stype = BitVec.ofNat 32 SHT_NULL → s.size = 0)
    (hC : ResaveOkC o hd) (hnw : layoutNW (preSave o) hd = true)
    (hdom : layoutDomB cov ins (fun _ => true) (preSave o) hd = true)
    (hs : save o os = .ok r) (hok : r.ok = true) : save r.obj os = .ok r :=
  (save_twice_runs' hh hl hidx hz hn h0 hnull0 hC hnw (layoutStartsB_of_flat hdom) hs hok).1

/-- **save_twice_runs_static'** : `save_twice_runs'` with `layoutStartsB` replaced by a static condition on
    the member lists: every segment has fewer than 2^16 members and its first member is a section that is
    neither SHT_NULL-typed nor section 0 (`HeadOk`; any nesting, also partial).  Everything else as in
    `save_twice_runs'`: the no-wrap hypothesis is C04's `layoutNW` alone. -/
theorem save_twice_runs_static' {o : Obj} {os : OStream} {r : SaveRes} {hd : Bytes}
    (hh : o.hdr = some hd) (hl : ehdrSize o.cls ≤ hd.length) (hidx : SegIdxOk o.segs) (hz : FrontOk o.segs)
    (hn : o.secs.length < 65536)
    (h0 : ∀ (i : Nat) (s : SecBuf), o.secs[i]? = some s → s.Occ → s.index ≠ 0)
    (hnull0 : ∀ s ∈ o.secs, s.stype = BitVec.ofNat 32 SHT_NULL → s.size = 0)
    (hC : ResaveOkC o hd) (hnw : layoutNW (preSave o) hd = true)
    (hstat : ∀ g ∈ o.segs, HeadOk o.secs g)
    (hs : save o os = .ok r) (hok : r.ok = true) : save r.obj os = .ok r := by
  have hn' : (preSave o).secs.length < 65536 := by rw [preSave_length]; exact hn
  have hstat' : ∀ g ∈ (preSave o).segs, HeadOk (preSave o).secs g := by
    intro g hg
    refine ⟨(hstat g hg).1, fun f s hf hk => ?_⟩
    obtain ⟨s0, hs0, hhd⟩ := hdrOf_getElem? (preSave_hdr o) f.toNat s hk
    simp only [hdrOf, Prod.mk.injEq] at hhd
    rw [← hhd.2.2.1, ← hhd.2.2.2.1]
    exact (hstat g hg).2 f s0 hf hs0
  exact (save_twice_runs' hh hl hidx hz hn h0 hnull0 hC hnw
    (layoutStartsB_of_static hn' (preSave_h0 o h0) hnw hstat') hs hok).1

/-- non-vacuity of `save_twice_runs_static'`: `exObj32` (the nested segment's first member is `.data`) -/
example : ∀ r, save exObj32 {} = .ok r → r.ok = true → save r.obj {} = .ok r := by
  intro r hs hok
  obtain ⟨h1, h2, h3, h4, h5, _⟩ := exObj32_resave
  refine save_twice_runs_static' h1 h2 h3 (Or.inl h4) (by decide) ?_ ?_ h5 (by decide +kernel) ?_ hs hok
  · have : ∀ s ∈ exObj32.secs, s.Occ → s.index ≠ 0 := by decide
    intro i s hs; exact this s (List.mem_of_getElem? hs)
  · have : ∀ s ∈ exObj32.secs, s.stype = BitVec.ofNat 32 SHT_NULL → s.size = 0 := by decide
    exact this
  · have : exObj32.segs.all (headOkB exObj32.secs) = true := by decide +kernel
    intro g hg
    exact headOk_of_B (List.all_eq_true.1 this g hg)

/-- non-vacuity: the ELF32 object of Props/C06Cls.lean (PT_LOAD over `.text`/`.data`, a nested segment over
    `.data`, a loose section) meets every hypothesis of `save_twice_runs'` — the nested segment starts at its
    generated first member, below the cursor -/
example : ∀ r, save exObj32 {} = .ok r → r.ok = true → save r.obj {} = .ok r := by
  intro r hs hok
  obtain ⟨h1, h2, h3, h4, h5, _⟩ := exObj32_resave
  refine (save_twice_runs' h1 h2 h3 (Or.inl h4) (by decide) ?_ ?_ h5 (by decide +kernel) (by decide +kernel) hs hok).1
  · have : ∀ s ∈ exObj32.secs, s.Occ → s.index ≠ 0 := by decide
    intro i s hs; exact this s (List.mem_of_getElem? hs)
  · have : ∀ s ∈ exObj32.secs, s.stype = BitVec.ofNat 32 SHT_NULL → s.size = 0 := by decide
    exact this

/-! ### `layoutNW` alone is not enough -/

/-- section 1 is SHT_NULL-typed and carries the file offset 0x1008 (`set_offset` is never applied to an
    SHT_NULL-typed member); a first PT_LOAD over sections 1 and 3 marks it generated; the second PT_LOAD
    lists it first, so `seg_start_pos` = 0x1008 lies between the cursor 0x1004 and the place 0x1010 where
    its fresh member `.text`-like section 2 (align 16) is put -/
def exNullHead : Obj :=
  { cls := .c64, enc := .lsb, hdr := some exHdr64,
    secs := [ { SecBuf.fresh .c64 0 with index := 0 },
              { SecBuf.fresh .c64 0 with index := 1, offset := 0x1008 },
              { SecBuf.fresh .c64 1 with index := 2, size := 4, addrAlign := 16, flags := 2 },
              { SecBuf.fresh .c64 1 with index := 3, size := 4, addrAlign := 1, flags := 2 } ],
    segs := [ { stype := 1, vaddr := 0x400000, align := 0x1000, secs := [1, 3], index := 0 },
              { stype := 1, vaddr := 0x400000, align := 16, secs := [1, 2], index := 1 } ] }

/-- **Why `layoutStartsB` / `HeadOk` is a separate hypothesis.**  `exNullHead` meets `layoutNW`, `ResaveOkC`
    (`resaveOkB`), `NoZeroOffset`, has empty SHT_NULL-typed sections and no file-occupying section 0, and its
    `save` succeeds — but `layoutStartsB` is false (the second segment's first member is SHT_NULL-typed:
    `HeadOk` fails), `StepNoWrap` fails (`resaveOkRB` false), and the SECOND save of the saved object returns
    `false`: the address 0x400008 = vaddr + 0x1010 − 0x1008 assigned by the first save gives `req_offset` 8 <
    `cur_offset` = 0x1004 − 0x1008 (mod 2^64).  So `layoutNW` alone does not imply `StepNoWrap`.
    (Model-level object: `section::set_offset` is not public, an SHT_NULL-typed section with a non-zero
    offset can only come from a loaded file; outside the writer domain, not a finding.) -/
theorem layoutNW_not_sufficient_witness :
    layoutNW (preSave exNullHead) exHdr64 = true ∧ resaveOkB exNullHead exHdr64 = true ∧
    (∀ g ∈ exNullHead.segs, (g.offsetSet && g.offset == 0) = false) ∧
    (∀ s ∈ exNullHead.secs, s.stype = BitVec.ofNat 32 SHT_NULL → s.size = 0) ∧
    (∀ s ∈ exNullHead.secs, s.Occ → s.index ≠ 0) ∧
    layoutStartsB (preSave exNullHead) exHdr64 = false ∧
    exNullHead.segs.all (headOkB exNullHead.secs) = false ∧
    resaveOkRB exNullHead exHdr64 = false ∧
    (match save exNullHead {} with
     | .ok r => r.ok && (match save r.obj {} with | .ok r2 => !r2.ok | .error _ => false)
     | .error _ => false) = true := by
  refine ⟨by decide +kernel, by decide +kernel, by decide, by decide, by decide, by decide +kernel,
    by decide +kernel, by decide +kernel, by decide +kernel⟩

end ElfioVerif.C06

namespace ElfioVerif.Compose
open ElfioVerif Gen Sv RoundTrip

/-- `ResaveDomain` with `ResaveOkC` in place of `ResaveOkR`: every clause is a decidable condition on the
    object to be saved, and the no-wrap part is the `layoutNW` of `ComposeDomain` -/
structure ResaveDomainC (o : Obj) (hd : Bytes) : Prop extends FlatDomain o hd where
  cov : layoutDomB true false (fun _ => true) (preSave o) hd = true
  members : MemberDomain o
  resident : ∀ a ∈ o.secs, ResidentFull a
  front : C06.FrontOk o.segs
  resaveC : C06.ResaveOkC o hd

/-- on a successful save, `ResaveDomainC` is `ResaveDomain` (`C06.resaveOkR_of_layoutNW`,
    `C06.layoutStartsB_of_flat`) -/
theorem ResaveDomainC.toResaveDomain {o : Obj} {os : OStream} {r : SaveRes} {hd : Bytes}
    (D : ResaveDomainC o hd) (hs : save o os = .ok r) (hok : r.ok = true) : ResaveDomain o hd := by
  obtain ⟨hdr', res, hh', hlay, -⟩ := save_layout o os r hs hok
  rw [D.hdr] at hh'; cases hh'
  exact { toFlatDomain := D.toFlatDomain, cov := D.cov, members := D.members, resident := D.resident,
          front := D.front,
          resave := C06.resaveOkR_of_layoutNW hlay D.input.nsecs D.input.h0 D.null0 D.resaveC D.nw
            (C06.layoutStartsB_of_flat D.dom) }

/-- **save_load_save_flat'** (C06, objects with flat segments) : `save_load_save_flat` with the
    `StepNoWrap` part of `ResaveOkR` discharged from `layoutNW`: the domain `ResaveDomainC` asks for
    `ResaveOkC` only (no F13 trigger, ELF32 addresses fit). -/
theorem save_load_save_flat' {o : Obj} {os : OStream} {r : SaveRes} {hd : Bytes}
    (hs : save o os = .ok r) (hok : r.ok = true) (hg : os.Good) (hos : os.content.length < 9223372036854775808)
    (D : ResaveDomainC o hd) (hw : NoWrap64 r.obj.secs r.obj.segs) (hsep : AddrSeparate r.obj.secs r.obj.segs)
    (o2 : Obj) (k : StreamKind) (isLazy : Bool) (htr2 : o2.trans = []) :
    ∃ (r2 : LoadRes) (r3 : SaveRes), load o2 { data := r.os.content, kind := k } isLazy = .ok r2 ∧ r2.ok = true ∧
      save r2.obj os = .ok r3 ∧ r3.ok = true ∧ r3.os = r.os :=
  save_load_save_flat hs hok hg hos (D.toResaveDomain hs hok) hw hsep o2 k isLazy htr2

/-- **save_load_save_nested_input'** (C06, flat and fully nested segments) : `save_load_save_nested_input`
    with `ResaveOkC` in place of `ResaveOkR` — the `StepNoWrap` part follows from `layoutNW`
    (`C06.layoutStartsB_of_mixed`: a flat segment starts at the cursor, a fully nested one assigns no
    address). -/
theorem save_load_save_nested_input' {o : Obj} {os : OStream} {r : SaveRes} {hd : Bytes} {selE selN : Nat → Bool}
    (hs : save o os = .ok r) (hok : r.ok = true) (hg : os.Good) (hos : os.content.length < 9223372036854775808)
    (D : NestedDomain o hd selE selN) (hw : noWrap64InB o hd = true)
    (hres : ∀ a ∈ o.secs, ResidentFull a)
    (hfront : C06.FrontOk o.segs) (hrs : C06.ResaveOkC o hd)
    (hmem : membersRecomputedInB o hd = true)
    (o2 : Obj) (k : StreamKind) (isLazy : Bool) (htr2 : o2.trans = []) :
    ∃ (r2 : LoadRes) (r3 : SaveRes), load o2 { data := r.os.content, kind := k } isLazy = .ok r2 ∧ r2.ok = true ∧
      save r2.obj os = .ok r3 ∧ r3.ok = true ∧ r3.os = r.os := by
  obtain ⟨hdr', res, hh', hlay, -⟩ := save_layout o os r hs hok
  rw [D.hdr] at hh'; cases hh'
  have hst : C06.layoutStartsB (preSave o) hd = true :=
    C06.layoutStartsB_of_mixed D.dom D.nest (fun g hgm => (D.cover g hgm).imp (fun h => h.1) id)
  exact save_load_save_nested_input hs hok hg hos D hw hres hfront
    (C06.resaveOkR_of_layoutNW hlay D.input.nsecs D.input.h0 D.null0 hrs D.nw hst) hmem o2 k isLazy htr2

/-- non-vacuity: `exNestedM` (a PT_LOAD nested in a PT_LOAD) -/
example (k : StreamKind) (isLazy : Bool) :
    ∃ (r2 : LoadRes) (r3 : SaveRes),
      load {} { data := (savedOf (objOf exNestedM)).os.content, kind := k } isLazy = .ok r2 ∧ r2.ok = true ∧
      save r2.obj {} = .ok r3 ∧ r3.ok = true ∧ r3.os = (savedOf (objOf exNestedM)).os := by
  obtain ⟨h1, h2, h3, -, -⟩ := exNested_ok
  have hfront : Sv.NoZeroOffset (objOf exNestedM).segs := by decide +kernel
  exact save_load_save_nested_input' h1 h2 ⟨rfl, rfl⟩ (by decide) h3 (by decide +kernel) (by decide +kernel)
    (Or.inl hfront) (C06.resaveOkC_of_B (by decide +kernel)) (by decide +kernel) {} k isLazy rfl

/-- non-vacuity: `save_load_save_flat'` on the ELF64/LSB object `exTwoM` (two PT_LOADs, an explicit address, a
    NOBITS member, a loose section): `ResaveDomainC` holds with `ResaveOkC` evaluated by `resaveOkB` — no
    `StepNoWrap` / `resaveOkRB` evaluation is needed any more -/
example (k : StreamKind) (isLazy : Bool) :
    ∃ (r2 : LoadRes) (r3 : SaveRes),
      load {} { data := (savedOf (objOf exTwoM)).os.content, kind := k } isLazy = .ok r2 ∧ r2.ok = true ∧
      save r2.obj {} = .ok r3 ∧ r3.ok = true ∧ r3.os = (savedOf (objOf exTwoM)).os :=
  save_load_save_flat' exTwo_ok.saved exTwo_ok.ok ⟨rfl, rfl⟩ (by decide)
    ⟨exTwo_ok.dom, exTwo_resave.cov, memberDomain_of_B exTwo_resave.members, exTwo_resave.res,
      Or.inl exTwo_resave.front, C06.resaveOkC_of_B (by decide +kernel)⟩
    exTwo_ok.noWrap (addrSeparate_of_B exTwo_resave.sep) {} k isLazy rfl

end ElfioVerif.Compose
