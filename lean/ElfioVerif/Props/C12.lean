/-
C12 — dynamic sections round-trip and end at the first DT_NULL.

Everything is about `Model/Dynamic.lean` (the accessor object with its mutable cached count; guards,
offsets, width conversions and tag classification are the generated sites of Gen/SitesC12.lean) and
the reference semantics `Spec/Dyn.lean` (gABI).  Explicit hypotheses: the consistency invariant
`Good` (established by `create_good` / `reload_good`, preserved by every operation), alignment of the
section to whole records for adds, and the size bounds `Fits` (sections below 4 GiB).
-/
import ElfioVerif.Lemmas.Dynamic
namespace ElfioVerif
open Gen
namespace C12
open DynAcc Spec SecBuf C07

/-- the linked string table stands for `tbl` (`none`: `sections[sh_link]` is out of range) -/
def StrOk (s : Option SecBuf) (tbl : Option Bytes) : Prop :=
  match s, tbl with
  | none, none => True
  | some s, some t => s.Inv ∧ s.content = t
  | _, _ => False

/-- consistency of accessor + sections, without the cached count:
    the dynamic section stands for the bytes `c`, its `sh_entsize` is `sizeof(ElfN_Dyn)` -/
structure Base (a : DynAcc) (c : Bytes) (tbl : Option Bytes) : Prop where
  inv : a.sec.Inv
  content : a.sec.content = c
  cls : a.sec.cls = a.cfg.cls
  ent : a.sec.entSize = BitVec.ofNat 64 (dynSize a.cfg.cls)
  str : StrOk a.str tbl

/-- **the invariant**: the cached count is either "not computed" or the count of the
    *current* section contents -/
structure Good (a : DynAcc) (c : Bytes) (tbl : Option Bytes) : Prop where
  base : Base a c tbl
  cache : a.cache = 0 ∨ a.cache.toNat = dynCount (entriesOf a.cfg c)

/-- model output ↦ reference output -/
def outOf : GetRes → GetOut
  | .invalid => .invalid
  | .nostr t v => .nostr t.toNat v.toNat
  | .ok t v s => .ok t.toNat v.toNat s

theorem is32_c32 : dyn_get_is32 (classByte .c32) = true := by decide
theorem is32_c64 : dyn_get_is32 (classByte .c64) = false := by decide

theorem rawEntry_ok (cfg : Cfg) (sec : SecBuf) (hR : sec.Resident)
    (hent : sec.entSize = BitVec.ofNat 64 (dynSize cfg.cls))
    (idx : BitVec 64) (hi : idx.toNat < sec.view.length / dynSize cfg.cls) :
    ∃ tag val, rawEntryOn (dyn_get_is32 (classByte cfg.cls)) cfg.enc sec idx = .ok (tag, val) ∧
      (⟨tag.toNat, val.toNat⟩ : DynEntry) =
        readEntry cfg (slice sec.view (idx.toNat * dynSize cfg.cls) (dynSize cfg.cls)) := by
  obtain ⟨c, e⟩ := cfg
  cases c
  · rw [is32_c32]; exact rawEntry32 e sec hR hent idx hi
  · rw [is32_c64]; exact rawEntry64 e sec hR hent idx hi

theorem getString_ok (s : SecBuf) (hI : s.Inv) (idx : BitVec 32) :
    getString (some s) idx = .ok (some s.getData, dynStrAt s.content idx.toNat) := by
  obtain ⟨hR, hc⟩ := getData_inv hI
  rw [← hc, content_resident hR]
  have hlen := view_length hR
  have hs := s.getData.size.isLt
  have hx := idx.isLt
  simp only [Nat.reducePow] at hs hx
  unfold getString dynStrAt
  simp only
  by_cases hlt : idx.toNat < s.getData.view.length
  · rw [if_pos hlt]
    rw [hlen] at hlt
    have hnn := resident_data_some hR (by omega)
    have g1 : dynstr_get_oob idx s.getData.size s.getData.data.isNone = false := by
      rw [hnn]; unfold dynstr_get_oob; bvn; simp; omega
    have hrem : (dynstr_get_remaining s.getData.size idx).toNat = s.getData.size.toNat - idx.toNat := by
      unfold dynstr_get_remaining; bvn; omega
    have g2 : dynstr_get_underflow (dynstr_get_remaining s.getData.size idx) s.getData.size = false := by
      unfold dynstr_get_underflow; rw [BitVec.ult, hrem]; simp
    have r := resident_read hR "get_string/memchr" idx.toNat (s.getData.size.toNat - idx.toNat) (by omega) (by omega)
    have hsl : slice s.getData.view idx.toNat (s.getData.size.toNat - idx.toNat) = s.getData.view.drop idx.toNat := by
      unfold slice; rw [List.take_of_length_le (by simp; omega)]
    simp only [g1, g2, Bool.false_eq_true, ↓reduceIte, hrem, r, hsl, bind, Except.bind, pure, Except.pure,
      cString, dynCstr]
  · rw [if_neg hlt]
    rw [hlen] at hlt
    have g1 : dynstr_get_oob idx s.getData.size s.getData.data.isNone = true := by
      unfold dynstr_get_oob; bvn; simp; left; omega
    simp only [g1, ↓reduceIte, pure, Except.pure]

/-- `get_string` through the linked table, in terms of the abstract table -/
theorem getString_str (s : Option SecBuf) (tbl : Option Bytes) (h : StrOk s tbl) (idx : BitVec 32) :
    ∃ s', getString s idx = .ok (s', tbl.bind (fun t => dynStrAt t idx.toNat)) ∧ StrOk s' tbl := by
  cases s with
  | none =>
    cases tbl with
    | none => exact ⟨none, rfl, trivial⟩
    | some t => exact absurd h (by simp [StrOk])
  | some s0 =>
    cases tbl with
    | none => exact absurd h (by simp [StrOk])
    | some t =>
      obtain ⟨hI, hc⟩ := h
      refine ⟨some s0.getData, ?_, ?_⟩
      · rw [getString_ok s0 hI, hc]; rfl
      · obtain ⟨hR, hc'⟩ := getData_inv hI
        exact ⟨Or.inl hR, by rw [hc', hc]⟩

theorem ofNat_dynSize_toNat (c : Cls) : (BitVec.ofNat 64 (dynSize c)).toNat = dynSize c := by
  cases c <;> rfl

/-- `get_entry` after the index test -/
theorem getEntryCore_ok (a : DynAcc) (c : Bytes) (tbl : Option Bytes) (hB : Base a c tbl)
    (count idx : BitVec 64) (hcnt : count.toNat ≤ c.length / dynSize a.cfg.cls) :
    ∃ a' r, getEntryCore a count idx = .ok (a', r) ∧ Base a' c tbl ∧ a'.cache = a.cache ∧ a'.cfg = a.cfg ∧
      outOf r = if idx.toNat < count.toNat then
                  match (entriesOf a.cfg c)[idx.toNat]? with
                  | some e => resolve tbl e
                  | none => .invalid
                else .invalid := by
  unfold getEntryCore
  dyn_tie
  by_cases hv : idx.toNat < count.toNat
  · have g0 : dyn_get_index_invalid idx count = false := by
      unfold dyn_get_index_invalid; bvn; simp; omega
    simp only [g0, Bool.false_eq_true, ↓reduceIte, hv]
    obtain ⟨hR, hc⟩ := getData_inv hB.inv
    obtain ⟨f1, f2, f3, f4, f5⟩ := getData_frame a.sec
    have hview : a.sec.getData.view = c := by rw [← content_resident hR, hc, hB.content]
    obtain ⟨tag, val, hraw, hrd⟩ := rawEntry_ok a.cfg a.sec.getData hR (by rw [f1]; exact hB.ent) idx
      (by rw [hview]; omega)
    rw [hview] at hrd
    have hB1 : Base { a with sec := a.sec.getData } c tbl :=
      ⟨Or.inl hR, by rw [hc]; exact hB.content, by rw [f3]; exact hB.cls, by rw [f1]; exact hB.ent, hB.str⟩
    rw [entriesOf_getElem? _ _ _ (by omega), ← hrd]
    simp only [hraw, bind, Except.bind, resolve]
    rw [string_tag_iff]
    by_cases hs : stringValued tag.toNat = true
    · simp only [hs, ↓reduceIte]
      obtain ⟨s', hg, hs'⟩ := getString_str a.str tbl hB.str (dyn_get_string_index val)
      have hidx : (dyn_get_string_index val).toNat = val.toNat % 4294967296 := by
        unfold dyn_get_string_index; bvn
      rw [hidx] at hg
      simp only [hg]
      cases hres : tbl.bind (fun t => dynStrAt t (val.toNat % 4294967296)) with
      | none =>
        exact ⟨_, _, rfl, ⟨hB1.inv, hB1.content, hB1.cls, hB1.ent, hs'⟩, rfl, rfl, rfl⟩
      | some str =>
        exact ⟨_, _, rfl, ⟨hB1.inv, hB1.content, hB1.cls, hB1.ent, hs'⟩, rfl, rfl, rfl⟩
    · rw [if_neg hs, if_neg hs]
      exact ⟨_, _, rfl, hB1, rfl, rfl, rfl⟩
  · have g0 : dyn_get_index_invalid idx count = true := by
      unfold dyn_get_index_invalid; bvn; omega
    simp only [g0, ↓reduceIte, hv]
    exact ⟨a, .invalid, rfl, hB, rfl, rfl, rfl⟩

theorem resolve_tag (tbl : Option Bytes) (e : DynEntry) :
    (match resolve tbl e with | .invalid => none | .nostr t _ => some t | .ok t _ _ => some t) = some e.tag := by
  unfold resolve
  by_cases h : stringValued e.tag = true
  · rw [if_pos h]
    cases tbl.bind fun t => dynStrAt t (e.val % 4294967296) <;> rfl
  · rw [if_neg h]

theorem outOf_tag {r : GetRes} {e : DynEntry} {tbl : Option Bytes} (prev : BitVec 64)
    (h : outOf r = resolve tbl e) : (r.tagOr prev).toNat = e.tag := by
  have := resolve_tag tbl e
  rw [← h] at this
  cases r <;> simp [outOf, GetRes.tagOr] at this ⊢ <;> exact this

/-- the counting loop of `get_entries_num` stops at the first DT_NULL or at `entries_num` -/
theorem numLoop_ok (fuel : Nat) (a : DynAcc) (c : Bytes) (tbl : Option Bytes) (hB : Base a c tbl)
    (i prev : BitVec 64) (htot : a.cache.toNat = c.length / dynSize a.cfg.cls)
    (hi : i.toNat ≤ a.cache.toNat) (hf : fuel = a.cache.toNat - i.toNat) :
    ∃ a' j, numLoop fuel a i prev = .ok (a', j) ∧ Base a' c tbl ∧ a'.cache = a.cache ∧ a'.cfg = a.cfg ∧
      j.toNat = i.toNat + firstNull ((entriesOf a.cfg c).drop i.toNat) := by
  induction fuel generalizing a i prev with
  | zero =>
    refine ⟨a, i, rfl, hB, rfl, rfl, ?_⟩
    have : (entriesOf a.cfg c).drop i.toNat = [] := by
      apply List.drop_eq_nil_of_le; rw [entriesOf_length]; omega
    rw [this]; simp [firstNull]
  | succ n ih =>
    have hlt : i.toNat < a.cache.toNat := by omega
    have hx := a.cache.isLt
    simp only [Nat.reducePow] at hx
    have g0 : dyn_num_loop i a.cache = true := by unfold dyn_num_loop; bvn; exact hlt
    obtain ⟨a1, r, hg, hB1, hc1, hcfg1, hout⟩ := getEntryCore_ok a c tbl hB a.cache i (by omega)
    have hidx : i.toNat < (entriesOf a.cfg c).length := by rw [entriesOf_length]; omega
    rw [if_pos hlt, List.getElem?_eq_getElem hidx] at hout
    simp only at hout
    have htag := outOf_tag prev hout
    have hdrop : (entriesOf a.cfg c).drop i.toNat =
        (entriesOf a.cfg c)[i.toNat] :: (entriesOf a.cfg c).drop (i.toNat + 1) :=
      List.drop_eq_getElem_cons hidx
    unfold numLoop
    dyn_tie
    simp only [g0, ↓reduceIte, hg, bind, Except.bind]
    rw [tag_is_null_iff]
    by_cases hz : ((r.tagOr prev).toNat == 0) = true
    · simp only [hz, ↓reduceIte]
      refine ⟨a1, i, rfl, hB1, hc1, hcfg1, ?_⟩
      rw [hdrop, firstNull, List.findIdx_cons]
      rw [htag] at hz
      simp [hz]
    · simp only [hz, Bool.false_eq_true, ↓reduceIte]
      have h1 : (1 : BitVec 64).toNat = 1 := rfl
      have hi1 : (i + 1).toNat = i.toNat + 1 := by rw [BitVec.toNat_add, h1]; simp only [Nat.reducePow]; omega
      obtain ⟨a2, j, hl, hB2, hc2, hcfg2, hj⟩ := ih a1 hB1 (i + 1) (r.tagOr prev)
        (by rw [hc1, hcfg1]; exact htot) (by rw [hc1, hi1]; omega) (by rw [hc1, hi1]; omega)
      refine ⟨a2, j, hl, hB2, by rw [hc2, hc1], by rw [hcfg2, hcfg1], ?_⟩
      rw [hj, hi1, hcfg1, hdrop, firstNull, firstNull, List.findIdx_cons]
      rw [htag] at hz
      simp [hz]; omega

theorem needed_eq (a : DynAcc) : a.needed = BitVec.ofNat 64 (dynSize a.cfg.cls) := by
  unfold DynAcc.needed
  cases a.cfg.cls <;> decide

/-- `get_entries_num()` on a consistent accessor returns the count of the current section -/
theorem entriesNum_ok (a : DynAcc) (c : Bytes) (tbl : Option Bytes) (hG : Good a c tbl) :
    ∃ a' n, a.entriesNum = .ok (a', n) ∧ Good a' c tbl ∧ a'.cfg = a.cfg ∧ a'.cache = n ∧
      n.toNat = dynCount (entriesOf a.cfg c) := by
  have hB := hG.base
  have hp := dynSize_pos a.cfg.cls
  have hE := ofNat_dynSize_toNat a.cfg.cls
  have hlen : c.length = a.sec.size.toNat := by rw [← hB.content]; exact content_length hB.inv
  have hs := a.sec.size.isLt
  simp only [Nat.reducePow] at hs
  have hrec : dyn_num_recompute a.cache a.sec.entSize a.needed = (a.cache == 0) := by
    rw [needed_eq, hB.ent]
    unfold dyn_num_recompute
    have : (BitVec.signExtend 64 0#32 != BitVec.ofNat 64 (dynSize a.cfg.cls)) = true := by
      cases a.cfg.cls <;> decide
    rw [this]
    simp only [BitVec.ule, Nat.le_refl, decide_true, Bool.and_self, Bool.and_true, BitVec.reduceSignExtend]
    rw [Bool.eq_iff_iff]; simp only [beq_iff_eq]; exact eq_comm
  unfold entriesNum
  dyn_tie
  rw [hrec]
  by_cases h0 : a.cache = 0
  · have g2 : ¬ (a.sec.entSize = 0) := by
      rw [hB.ent]; cases a.cfg.cls <;> decide
    simp only [h0, beq_self_eq_true, ↓reduceIte, g2]
    have htot : (dyn_num_total a.sec.size a.sec.entSize).toNat = c.length / dynSize a.cfg.cls := by
      unfold dyn_num_total; rw [BitVec.toNat_udiv, hB.ent, hE, hlen]
    have hB1 : Base { a with cache := dyn_num_total a.sec.size a.sec.entSize } c tbl :=
      ⟨hB.inv, hB.content, hB.cls, hB.ent, hB.str⟩
    obtain ⟨a2, j, hl, hB2, hc2, hcfg2, hj⟩ := numLoop_ok (dyn_num_total a.sec.size a.sec.entSize).toNat
      { a with cache := dyn_num_total a.sec.size a.sec.entSize } c tbl hB1 0 (BitVec.ofNat 64 DT_NULL) htot
      (by simp) (by simp)
    simp only [hl, bind, Except.bind, pure, Except.pure]
    simp only at hc2 hcfg2 hj
    have hj' : j.toNat = firstNull (entriesOf a.cfg c) := by
      rw [hj]; simp
    have hfn : firstNull (entriesOf a.cfg c) ≤ c.length / dynSize a.cfg.cls := by
      rw [← entriesOf_length]; exact List.findIdx_le_length
    have hp2 : 2 ≤ dynSize a.cfg.cls := by cases a.cfg.cls <;> decide
    have hdiv : c.length / dynSize a.cfg.cls ≤ c.length / 2 := Nat.div_le_div_left hp2 (by decide)
    have hn : (dyn_num_clamp a2.cache j).toNat = dynCount (entriesOf a.cfg c) := by
      rw [hc2]
      unfold dyn_num_clamp dynCount
      rw [entriesOf_length]
      simp only [BitVec.reduceSignExtend]
      have h1 : (1#64 : BitVec 64).toNat = 1 := rfl
      have hj1 : (j + 1#64).toNat = j.toNat + 1 := by
        rw [BitVec.toNat_add, h1]; simp only [Nat.reducePow]; omega
      by_cases hlt : j.toNat + 1 < c.length / dynSize a.cfg.cls
      · rw [if_pos (by rw [BitVec.ult, hj1, htot]; simpa using hlt), hj1, hj']
        rw [hj'] at hlt; omega
      · rw [if_neg (by rw [BitVec.ult, hj1, htot]; simpa using hlt), htot]
        rw [hj'] at hlt; omega
    exact ⟨_, _, rfl, ⟨⟨hB2.inv, hB2.content, hB2.cls, hB2.ent, hB2.str⟩, Or.inr (by rw [hcfg2]; exact hn)⟩,
      hcfg2, rfl, hn⟩
  · have hne : (a.cache == 0) = false := by simpa using h0
    simp only [hne, Bool.false_eq_true, ↓reduceIte]
    rcases hG.cache with h | h
    · exact absurd h h0
    · exact ⟨a, a.cache, rfl, hG, rfl, rfl, h⟩

theorem dynCount_le (es : List DynEntry) : dynCount es ≤ es.length := Nat.min_le_left _ _

/-- `get_entry(index)` on a consistent accessor -/
theorem getEntry_ok (a : DynAcc) (c : Bytes) (tbl : Option Bytes) (hG : Good a c tbl) (idx : BitVec 64) :
    ∃ a' r, a.getEntry idx = .ok (a', r) ∧ Good a' c tbl ∧ a'.cfg = a.cfg ∧
      outOf r = dynGet (entriesOf a.cfg c) tbl idx.toNat := by
  obtain ⟨a1, n, hn, hG1, hcfg1, hc1, hnv⟩ := entriesNum_ok a c tbl hG
  have hle : n.toNat ≤ c.length / dynSize a1.cfg.cls := by
    rw [hnv, hcfg1, ← entriesOf_length]; exact dynCount_le _
  obtain ⟨a2, r, hg, hB2, hc2, hcfg2, hout⟩ := getEntryCore_ok a1 c tbl hG1.base n idx hle
  unfold getEntry
  simp only [hn, bind, Except.bind, hg]
  refine ⟨a2, r, rfl, ⟨hB2, ?_⟩, by rw [hcfg2, hcfg1], ?_⟩
  · rw [hc2, hcfg2]; exact hG1.cache
  · rw [hout, hnv, hcfg1]; unfold dynGet
    split
    · cases (entriesOf a.cfg c)[idx.toNat]? <;> rfl
    · rfl

theorem bound_of_lt (cls : Cls) {k : Nat} (h : k < 4294967296) : Bound cls k := by
  cases cls <;> simp only [Bound] <;> omega

theorem add_is32_c32 : dyn_add_is32 (classByte .c32) = true := by decide
theorem add_is32_c64 : dyn_add_is32 (classByte .c64) = false := by decide

theorem slice_full (b : Bytes) : slice b 0 b.length = b := by simp [slice]

/-- `add_entry(tag, value)` appends exactly one gABI record and invalidates the cached count -/
theorem addEntry_ok (a : DynAcc) (c : Bytes) (tbl : Option Bytes) (hB : Base a c tbl)
    (t v : BitVec 64) (hb : c.length + 16 < 4294967296) :
    ∃ a', a.addEntry t v = .ok a' ∧
      Base a' (c ++ encodeDyn a.cfg t.toNat (storedVal a.cfg.cls ⟨t.toNat, v.toNat⟩)) tbl ∧
      a'.cfg = a.cfg ∧ a'.cache = 0 := by
  have key : ∀ (rec_ : Bytes), rec_ = encodeDyn a.cfg t.toNat (storedVal a.cfg.cls ⟨t.toNat, v.toNat⟩) →
      ∃ sec', a.sec.appendData rec_ = .ok sec' ∧
        Base { a with sec := sec' } (c ++ rec_) tbl := by
    intro rec_ hrec
    have hl : rec_.length ≤ 16 := by rw [hrec, encodeDyn_length]; cases a.cfg.cls <;> decide
    obtain ⟨b', e, r, cl, ct⟩ := append_refines a.sec hB.inv rec_
      (bound_of_lt _ (by rw [hB.content]; omega))
    obtain ⟨f1, f2⟩ := appendData_frame e
    exact ⟨b', e, ⟨Or.inl r, by rw [ct, hB.content], by rw [cl]; exact hB.cls, by rw [f1]; exact hB.ent, hB.str⟩⟩
  unfold addEntry
  cases hc : a.cfg.cls
  · have hcfg : a.cfg = ⟨.c32, a.cfg.enc⟩ := by rw [← hc]
    obtain ⟨sec', e, hB'⟩ := key (mkRec32 a.cfg.enc t v) (by rw [mkRec32_eq, hc, ← hcfg])
    have hlen : (mkRec32 a.cfg.enc t v).length = 8 := by rw [mkRec32_eq, encodeDyn_length]; rfl
    have hrd : rdRange "add_entry/&entry" (some (mkRec32 a.cfg.enc t v)) 0 dyn32_add_size.toNat
        = .ok (mkRec32 a.cfg.enc t v) := by
      have : dyn32_add_size.toNat = (mkRec32 a.cfg.enc t v).length := by rw [hlen]; rfl
      rw [this, rdRange_some_ok (by omega), slice_full]
    simp only [add_is32_c32, ↓reduceIte, hrd, bind, Except.bind, e, pure, Except.pure]
    rw [mkRec32_eq, ← hcfg] at hB'
    exact ⟨_, rfl, ⟨hB'.inv, hB'.content, hB'.cls, hB'.ent, hB'.str⟩, rfl, rfl⟩
  · have hcfg : a.cfg = ⟨.c64, a.cfg.enc⟩ := by rw [← hc]
    obtain ⟨sec', e, hB'⟩ := key (mkRec64 a.cfg.enc t v) (by rw [mkRec64_eq, hc, ← hcfg])
    have hlen : (mkRec64 a.cfg.enc t v).length = 16 := by rw [mkRec64_eq, encodeDyn_length]; rfl
    have hrd : rdRange "add_entry/&entry" (some (mkRec64 a.cfg.enc t v)) 0 dyn64_add_size.toNat
        = .ok (mkRec64 a.cfg.enc t v) := by
      have : dyn64_add_size.toNat = (mkRec64 a.cfg.enc t v).length := by rw [hlen]; rfl
      rw [this, rdRange_some_ok (by omega), slice_full]
    simp only [add_is32_c64, Bool.false_eq_true, ↓reduceIte, hrd, bind, Except.bind, e, pure, Except.pure]
    rw [mkRec64_eq, ← hcfg] at hB'
    exact ⟨_, rfl, ⟨hB'.inv, hB'.content, hB'.cls, hB'.ent, hB'.str⟩, rfl, rfl⟩

theorem cstr_length_le (s : Bytes) : (dynCstr s).length ≤ s.length := by
  unfold dynCstr
  induction s with
  | nil => simp
  | cons b bs ih =>
    rw [List.takeWhile_cons]
    split
    · simp only [List.length_cons]; omega
    · simp

/-- tail of `add_string` -/
theorem addStringAt_ok (s : SecBuf) (hI : s.Inv) (pos : BitVec 32) (cs : Bytes)
    (hpos : pos.toNat = s.content.length) (hb : s.content.length + cs.length + 1 < 4294967296) :
    ∃ s', addStringAt s pos cs = .ok (some s', pos) ∧ s'.Inv ∧ s'.content = s.content ++ (cs ++ [0]) := by
  have hlen : (BitVec.ofNat 64 cs.length).toNat = cs.length := by bvn; omega
  have g1 : dynstr_add_too_long (BitVec.ofNat 64 cs.length) = false := by
    unfold dynstr_add_too_long
    rw [BitVec.ult, hlen]; simp only [BitVec.reduceSub, BitVec.reduceSetWidth, BitVec.toNat_ofNat, Nat.reducePow,
      Nat.reduceMod, decide_eq_false_iff_not]; omega
  have hn : (dynstr_add_size (BitVec.ofNat 64 cs.length)).toNat = cs.length + 1 := by
    unfold dynstr_add_size
    simp only [BitVec.reduceSignExtend, BitVec.toNat_setWidth, BitVec.toNat_add, hlen]
    bvn; omega
  have g2 : dynstr_add_ovf (dynstr_add_size (BitVec.ofNat 64 cs.length)) pos = false := by
    unfold dynstr_add_ovf
    rw [BitVec.ult, hn, BitVec.toNat_sub]
    have := pos.isLt
    bvn; omega
  have hrd : rdRange "add_string/str" (some (cs ++ [0])) 0 (cs.length + 1) = .ok (cs ++ [0]) := by
    have : cs.length + 1 = (cs ++ [0]).length := by simp
    rw [this, rdRange_some_ok (by omega), slice_full]
  obtain ⟨b', e, r, _, ct⟩ := append_refines s hI (cs ++ [0]) (bound_of_lt _ (by simp; omega))
  unfold addStringAt
  simp only [g1, g2, Bool.false_eq_true, ↓reduceIte, hn, hrd, bind, Except.bind, e, pure, Except.pure]
  exact ⟨b', rfl, Or.inl r, ct⟩

/-- `add_string` in terms of the abstract table -/
theorem addString_ok (s : SecBuf) (hI : s.Inv) (str : Bytes)
    (hb : s.content.length + str.length + 2 < 4294967296) :
    ∃ s' pos, addString (some s) str = .ok (some s', pos) ∧ s'.Inv ∧
      s'.content = (strAdd s.content str).1 ∧ pos.toNat = (strAdd s.content str).2 := by
  have hcl := cstr_length_le str
  have hlen := content_length hI
  have hpos : (dynstr_add_pos s.size).toNat = s.content.length := by
    unfold dynstr_add_pos; rw [hlen] at hb ⊢; bvn; omega
  unfold addString strAdd
  simp only
  have hcs : List.takeWhile (fun x => x != 0) str = dynCstr str := rfl
  rw [hcs]
  by_cases h0 : s.content.length = 0
  · have hseed : dynstr_add_seed (dynstr_add_pos s.size) = true := by
      unfold dynstr_add_seed
      have : dynstr_add_pos s.size = 0#32 := by
        apply BitVec.eq_of_toNat_eq; rw [hpos, h0]; rfl
      rw [this]; rfl
    have hnil : s.content = [] := List.eq_nil_of_length_eq_zero h0
    obtain ⟨s1, e1, r1, _, c1⟩ := append_refines s hI [0] (bound_of_lt _ (by simp; omega))
    rw [hnil, List.nil_append] at c1
    have hp1 : (dynstr_add_pos s.size + 1).toNat = s1.content.length := by
      have h1 : (1 : BitVec 32).toNat = 1 := rfl
      rw [BitVec.toNat_add, h1, hpos, h0, c1]; rfl
    obtain ⟨s2, e2, i2, c2⟩ := addStringAt_ok s1 (Or.inl r1) _ (dynCstr str) hp1 (by rw [c1]; simp; omega)
    simp only [hseed, ↓reduceIte, e1, bind, Except.bind, e2, h0]
    refine ⟨s2, _, rfl, i2, by rw [c2, c1], ?_⟩
    rw [hp1, c1]
  · have hseed : dynstr_add_seed (dynstr_add_pos s.size) = false := by
      unfold dynstr_add_seed
      cases h : (dynstr_add_pos s.size == 0#32) with
      | false => rfl
      | true =>
        have : dynstr_add_pos s.size = 0#32 := by simpa using h
        rw [this] at hpos; exact absurd hpos.symm h0
    obtain ⟨s2, e2, i2, c2⟩ := addStringAt_ok s hI _ (dynCstr str) hpos (by omega)
    simp only [hseed, Bool.false_eq_true, ↓reduceIte, e2, h0]
    exact ⟨s2, _, rfl, i2, c2, hpos⟩

/-- model operation ↦ reference operation -/
def specOp : Op → DynOp
  | .add t v => .add t.toNat v.toNat
  | .addStr t s => .addStr t.toNat s
  | .num => .num
  | .get i => .get i.toNat

def specOut : Out → DynOut
  | .unit => .unit
  | .num n => .num n.toNat
  | .got g => .got (outOf g)

/-- string table bytes a sequence of operations can add (seed NUL + string + NUL each) -/
def strBytes : List Op → Nat
  | [] => 0
  | .addStr _ s :: r => s.length + 2 + strBytes r
  | _ :: r => strBytes r

/-- explicit size hypotheses: the sections stay below 4 GiB (`Elf_Word` string offsets, ELF32
    `sh_size`; C07's growth guard) -/
def Fits (c : Bytes) (tbl : Option Bytes) (ops : List Op) : Prop :=
  c.length + 16 * ops.length < 4294967296 ∧ (tbl.getD []).length + strBytes ops < 4294967296

theorem strAdd_length (tb s : Bytes) : (strAdd tb s).1.length ≤ tb.length + s.length + 2 := by
  have := cstr_length_le s
  unfold strAdd
  simp only
  split <;> simp <;> omega

theorem aligned_append (cfg : Cfg) (c : Bytes) (t v : Nat) (h : c.length % dynSize cfg.cls = 0) :
    (c ++ encodeDyn cfg t v).length % dynSize cfg.cls = 0 := by
  rw [List.length_append, encodeDyn_length, Nat.add_mod_right]; exact h

theorem encodeDyn_length_le (cfg : Cfg) (t v : Nat) : (encodeDyn cfg t v).length ≤ 16 := by
  rw [encodeDyn_length]; cases cfg.cls <;> decide

/-- conclusion of the one-step refinement -/
structure StepPost (a : DynAcc) (c : Bytes) (tbl : Option Bytes) (op : Op)
    (a' : DynAcc) (o : Out) (c' : Bytes) (tbl' : Option Bytes) : Prop where
  good : Good a' c' tbl'
  aligned : c'.length % dynSize a.cfg.cls = 0
  cfg : a'.cfg = a.cfg
  spec : dynStep a.cfg.cls ⟨entriesOf a.cfg c, tbl⟩ (specOp op) = (⟨entriesOf a.cfg c', tbl'⟩, specOut o)
  bytes : c' = c ++ dynAppend a.cfg tbl [specOp op]
  clen : c'.length ≤ c.length + 16
  tlen : (tbl'.getD []).length ≤ (tbl.getD []).length + strBytes [op]

theorem add_post (a : DynAcc) (c : Bytes) (tbl : Option Bytes) (hB : Base a c tbl)
    (hal : c.length % dynSize a.cfg.cls = 0) (t v : BitVec 64) (hb : c.length + 16 < 4294967296) :
    ∃ a', a.addEntry t v = .ok a' ∧
      Good a' (c ++ encodeDyn a.cfg t.toNat (storedVal a.cfg.cls ⟨t.toNat, v.toNat⟩)) tbl ∧ a'.cfg = a.cfg ∧
      entriesOf a.cfg (c ++ encodeDyn a.cfg t.toNat (storedVal a.cfg.cls ⟨t.toNat, v.toNat⟩))
        = entriesOf a.cfg c ++ [normEntry a.cfg.cls ⟨t.toNat, v.toNat⟩] := by
  obtain ⟨a', e, hB', hcfg, hc⟩ := addEntry_ok a c tbl hB t v hb
  refine ⟨a', e, ⟨hB', Or.inl hc⟩, hcfg, ?_⟩
  rw [entriesOf_append _ _ _ hal (encodeDyn_length _ _ _), entry_roundtrip]

/-- **one operation** refines the reference semantics and re-establishes the invariant -/
theorem step_ok (a : DynAcc) (c : Bytes) (tbl : Option Bytes) (hG : Good a c tbl)
    (hal : c.length % dynSize a.cfg.cls = 0) (op : Op) (hfit : Fits c tbl [op]) :
    ∃ a' o c' tbl', a.step op = .ok (a', o) ∧ StepPost a c tbl op a' o c' tbl' := by
  obtain ⟨hf1, hf2⟩ := hfit
  simp only [List.length_cons, List.length_nil] at hf1
  cases op with
  | add t v =>
    obtain ⟨a', e, hG', hcfg, hes⟩ := add_post a c tbl hG.base hal t v (by omega)
    refine ⟨a', .unit, c ++ encodeDyn a.cfg t.toNat (storedVal a.cfg.cls ⟨t.toNat, v.toNat⟩), tbl,
      by simp only [step, e, bind, Except.bind, pure, Except.pure], ?_⟩
    refine ⟨hG', aligned_append _ _ _ _ hal, hcfg, ?_, ?_, ?_, by simp [strBytes]⟩
    · simp only [dynStep, specOp, specOut, hes]
    · simp [dynAppend, specOp]
    · have := encodeDyn_length_le a.cfg t.toNat (storedVal a.cfg.cls ⟨t.toNat, v.toNat⟩)
      simp only [List.length_append]; omega
  | addStr t s =>
    simp only [strBytes] at hf2
    have hstr := hG.base.str
    cases hs : a.str with
    | none =>
      cases tbl with
      | some tb => rw [hs] at hstr; exact absurd hstr (by simp [StrOk])
      | none =>
        have hB1 : Base { a with str := none } c none :=
          ⟨hG.base.inv, hG.base.content, hG.base.cls, hG.base.ent, trivial⟩
        obtain ⟨a', e, hG', hcfg, hes⟩ := add_post _ c none hB1 hal t (BitVec.setWidth 64 (0 : BitVec 32)) (by omega)
        have hz : (BitVec.setWidth 64 (0 : BitVec 32)).toNat = 0 := rfl
        rw [hz] at hG' hes
        refine ⟨a', .unit, c ++ encodeDyn a.cfg t.toNat (storedVal a.cfg.cls ⟨t.toNat, 0⟩), none, ?_, ?_⟩
        · simp only [step, addStrEntry, hs, addString, bind, Except.bind, pure, Except.pure]
          rw [e]
        · refine ⟨hG', aligned_append _ _ _ _ hal, hcfg, ?_, ?_, ?_, by simp⟩
          · simp only [dynStep, specOp, specOut]; exact congrArg (fun x => (DynSt.mk x none, DynOut.unit)) hes.symm
          · simp [dynAppend, specOp]
          · have := encodeDyn_length_le a.cfg t.toNat (storedVal a.cfg.cls ⟨t.toNat, 0⟩)
            simp only [List.length_append]; omega
    | some s0 =>
      cases tbl with
      | none => rw [hs] at hstr; exact absurd hstr (by simp [StrOk])
      | some tb =>
        rw [hs] at hstr
        obtain ⟨hI, hc0⟩ := hstr
        simp only [Option.getD_some] at hf2
        obtain ⟨s', pos, es, hI', hc', hp⟩ := addString_ok s0 hI s (by rw [hc0]; omega)
        rw [hc0] at hc' hp
        have hB1 : Base { a with str := some s' } c (some (strAdd tb s).1) :=
          ⟨hG.base.inv, hG.base.content, hG.base.cls, hG.base.ent, ⟨hI', hc'⟩⟩
        obtain ⟨a', e, hG', hcfg, hes⟩ := add_post _ c _ hB1 hal t (BitVec.setWidth 64 pos) (by omega)
        have hz : (BitVec.setWidth 64 pos).toNat = (strAdd tb s).2 := by
          have := pos.isLt
          rw [← hp]; bvn; omega
        rw [hz] at hG' hes
        refine ⟨a', .unit, c ++ encodeDyn a.cfg t.toNat (storedVal a.cfg.cls ⟨t.toNat, (strAdd tb s).2⟩),
          some (strAdd tb s).1, ?_, ?_⟩
        · simp only [step, addStrEntry, hs, es, bind, Except.bind, pure, Except.pure]
          rw [e]
        · refine ⟨hG', aligned_append _ _ _ _ hal, hcfg, ?_, ?_, ?_, ?_⟩
          · simp only [dynStep, specOp, specOut]
            exact congrArg (fun x => (DynSt.mk x (some (strAdd tb s).1), DynOut.unit)) hes.symm
          · simp [dynAppend, specOp]
          · have := encodeDyn_length_le a.cfg t.toNat (storedVal a.cfg.cls ⟨t.toNat, (strAdd tb s).2⟩)
            simp only [List.length_append]; omega
          · have := strAdd_length tb s
            simp only [Option.getD_some, strBytes]; omega
  | num =>
    obtain ⟨a', n, e, hG', hcfg, _, hn⟩ := entriesNum_ok a c tbl hG
    refine ⟨a', .num n, c, tbl, by simp only [step, e, bind, Except.bind, pure, Except.pure], ?_⟩
    exact ⟨hG', hal, hcfg, by simp only [dynStep, specOp, specOut, hn], by simp [dynAppend, specOp],
      by omega, by simp [strBytes]⟩
  | get i =>
    obtain ⟨a', r, e, hG', hcfg, hr⟩ := getEntry_ok a c tbl hG i
    refine ⟨a', .got r, c, tbl, by simp only [step, e, bind, Except.bind, pure, Except.pure], ?_⟩
    exact ⟨hG', hal, hcfg, by simp only [dynStep, specOp, specOut, hr], by simp [dynAppend, specOp],
      by omega, by simp [strBytes]⟩

theorem strBytes_cons (op : Op) (ops : List Op) : strBytes (op :: ops) = strBytes [op] + strBytes ops := by
  cases op <;> simp [strBytes]

theorem dynAppend_cons (cfg : Cfg) (es : List DynEntry) (tbl : Option Bytes) (op : DynOp) (r : List DynOp) :
    dynAppend cfg tbl (op :: r) =
      dynAppend cfg tbl [op] ++ dynAppend cfg (dynStep cfg.cls ⟨es, tbl⟩ op).1.tbl r := by
  cases op <;> cases tbl <;> simp [dynAppend, dynStep]

/-- **C12, any interleaving** : on a consistent accessor (cached count 0 or correct), any sequence of
    add(tag,value) / add(tag,string) / get_entries_num / get_entry(i) runs without fault, its
    observable outputs are exactly those of the reference semantics, the invariant holds again
    afterwards, and the section grew by one gABI record per add. -/
theorem dyn_roundtrip (a : DynAcc) (c : Bytes) (tbl : Option Bytes) (hG : Good a c tbl)
    (hal : c.length % dynSize a.cfg.cls = 0) (ops : List Op) (hfit : Fits c tbl ops) :
    ∃ a' outs c' tbl', a.run ops = .ok (a', outs) ∧ Good a' c' tbl' ∧
      c'.length % dynSize a.cfg.cls = 0 ∧ a'.cfg = a.cfg ∧
      dynRun a.cfg.cls ⟨entriesOf a.cfg c, tbl⟩ (ops.map specOp)
        = (⟨entriesOf a.cfg c', tbl'⟩, outs.map specOut) ∧
      c' = c ++ dynAppend a.cfg tbl (ops.map specOp) := by
  induction ops generalizing a c tbl with
  | nil => exact ⟨a, [], c, tbl, rfl, hG, hal, rfl, rfl, by simp [dynAppend]⟩
  | cons op ops ih =>
    obtain ⟨hf1, hf2⟩ := hfit
    simp only [List.length_cons] at hf1
    rw [strBytes_cons] at hf2
    obtain ⟨a1, o, c1, tbl1, e1, p⟩ := step_ok a c tbl hG hal op ⟨by simp; omega, by omega⟩
    have hcfg := p.cfg
    obtain ⟨a2, os, c2, tbl2, e2, hG2, hal2, hcfg2, hrun, hbytes⟩ := ih a1 c1 tbl1 p.good (by rw [hcfg]; exact p.aligned)
      ⟨by have := p.clen; omega, by have := p.tlen; omega⟩
    refine ⟨a2, o :: os, c2, tbl2, ?_, hG2, by rw [← hcfg]; exact hal2, by rw [hcfg2, hcfg], ?_, ?_⟩
    · simp only [run, e1, bind, Except.bind, e2, pure, Except.pure]
    · rw [hcfg] at hrun
      simp only [List.map_cons, dynRun, p.spec, hrun]
    · rw [List.map_cons, dynAppend_cons a.cfg (entriesOf a.cfg c), p.spec]
      rw [hbytes, hcfg, p.bytes, List.append_assoc]

/-- a new accessor object on the same sections is consistent (so everything above applies to it) -/
theorem fresh_good (a : DynAcc) (c : Bytes) (tbl : Option Bytes) (hG : Good a c tbl) : Good a.fresh c tbl :=
  ⟨⟨hG.base.inv, hG.base.content, hG.base.cls, hG.base.ent, hG.base.str⟩, Or.inl rfl⟩

/-- **reported count** = min(size / entsize, index of first DT_NULL + 1) -/
theorem num_def (a : DynAcc) (c : Bytes) (tbl : Option Bytes) (hG : Good a c tbl) :
    ∃ a' n, a.entriesNum = .ok (a', n) ∧ Good a' c tbl ∧
      n.toNat = min (c.length / dynSize a.cfg.cls) (firstNull (entriesOf a.cfg c) + 1) := by
  obtain ⟨a', n, e, hG', _, _, hn⟩ := entriesNum_ok a c tbl hG
  exact ⟨a', n, e, hG', by rw [hn, dynCount, entriesOf_length]⟩

/-- the reported count never exceeds what the section holds: `size / entsize` -/
theorem num_le_held (a : DynAcc) (c : Bytes) (tbl : Option Bytes) (hG : Good a c tbl) :
    ∃ a' n, a.entriesNum = .ok (a', n) ∧ n.toNat ≤ a.sec.size.toNat / a.sec.entSize.toNat := by
  obtain ⟨a', n, e, _, hn⟩ := num_def a c tbl hG
  refine ⟨a', n, e, ?_⟩
  rw [hG.base.ent, ofNat_dynSize_toNat, ← content_length hG.base.inv, hG.base.content, hn]
  exact Nat.min_le_left _ _

/-- `get_entry` never faults, whatever the index -/
theorem get_total (a : DynAcc) (c : Bytes) (tbl : Option Bytes) (hG : Good a c tbl) (idx : BitVec 64) :
    ∃ a' r, a.getEntry idx = .ok (a', r) ∧ Good a' c tbl :=
  let ⟨a', r, e, hG', _, _⟩ := getEntry_ok a c tbl hG idx
  ⟨a', r, e, hG'⟩

/-- the invariant and the content only depend on the buffer fields, not on the other header fields -/
theorem inv_congr {b b' : SecBuf} (h1 : b'.stype = b.stype) (h2 : b'.data = b.data) (h3 : b'.size = b.size)
    (h4 : b'.dataSize = b.dataSize) (h5 : b'.isLazy = b.isLazy) (h6 : b'.isLoaded = b.isLoaded)
    (h7 : b'.canLoad = b.canLoad) (h8 : b'.fileData = b.fileData) (h : b.Inv) :
    b'.Inv ∧ b'.content = b.content := by
  have hc : b'.content = b.content := by
    simp only [SecBuf.content, SecBuf.view, h2, h3, h5, h6, h8]
  refine ⟨?_, hc⟩
  rcases h with r | ⟨d, p⟩
  · exact Or.inl ⟨by rw [h1]; exact r.notNobits, by rw [h2, h5, h6]; exact r.pend,
      by rw [h2, h3, h4]; exact r.buf, by rw [h3, h4]; exact r.cap⟩
  · exact Or.inr ⟨d, ⟨by rw [h5]; exact p.isLazy, by rw [h6]; exact p.notLoaded, by rw [h7]; exact p.canLoad,
      by rw [h2]; exact p.noData, by rw [h8]; exact p.fileData, by rw [h3]; exact p.len,
      by simp only [SecBuf.isNullOrNobits, h1]; exact p.typeOk⟩⟩

theorem strtab_ne_nobits : BitVec.ofNat 32 SHT_STRTAB ≠ BitVec.ofNat 32 SHT_NOBITS := by decide

/-- what a writer creates (empty SHT_DYNAMIC section with `sh_entsize = sizeof(ElfN_Dyn)`, optional
    empty linked string table, new accessor) is consistent -/
theorem create_good (cfg : Cfg) (stype : BitVec 32) (hty : stype ≠ BitVec.ofNat 32 SHT_NOBITS) (linked : Bool) :
    Good (DynAcc.create cfg stype (BitVec.ofNat 64 (dynSize cfg.cls)) linked) []
      (if linked then some [] else none) := by
  obtain ⟨i1, c1⟩ := fresh_inv cfg.cls stype hty
  obtain ⟨i2, c2⟩ := inv_congr (b := SecBuf.fresh cfg.cls stype)
    (b' := { SecBuf.fresh cfg.cls stype with entSize := BitVec.ofNat 64 (dynSize cfg.cls) })
    rfl rfl rfl rfl rfl rfl rfl rfl i1
  refine ⟨⟨i2, c2.trans c1, rfl, rfl, ?_⟩, Or.inl rfl⟩
  show StrOk (if linked then some (SecBuf.fresh cfg.cls (BitVec.ofNat 32 SHT_STRTAB)) else none) (if linked then some [] else none)
  cases linked
  · exact trivial
  · exact fresh_inv cfg.cls _ strtab_ne_nobits

/-- save + load of resident sections gives a consistent fresh accessor on the same contents -/
theorem reloadSec_inv (b : SecBuf) (hR : b.Resident) (h0 : b.stype ≠ BitVec.ofNat 32 SHT_NULL) :
    (reloadSec b).Inv ∧ (reloadSec b).content = b.content ∧ (reloadSec b).cls = b.cls ∧
    (reloadSec b).entSize = b.entSize := by
  have hnn : b.isNullOrNobits = false := by
    simp [SecBuf.isNullOrNobits, h0, hR.notNobits]
  have hv : b.view.length < 18446744073709551616 := by
    rw [view_length hR]; exact b.size.isLt
  obtain ⟨i1, c1⟩ := loaded_inv b.cls b.stype b.view 0 hR.notNobits hv
  unfold reloadSec
  rw [if_neg (by rw [hnn]; decide)]
  obtain ⟨i2, c2⟩ := inv_congr (b := SecBuf.loadedEager b.cls b.stype b.view 0)
    (b' := { SecBuf.loadedEager b.cls b.stype b.view 0 with
      entSize := b.entSize, link := b.link, info := b.info, flags := b.flags, addrAlign := b.addrAlign,
      index := b.index, name := b.name })
    rfl rfl rfl rfl rfl rfl rfl rfl i1
  exact ⟨i2, c2.trans (c1.trans (content_resident hR).symm), rfl, rfl⟩

theorem reload_good (a : DynAcc) (c : Bytes) (tbl : Option Bytes) (hG : Good a c tbl)
    (hR : a.sec.Resident) (h0 : a.sec.stype ≠ BitVec.ofNat 32 SHT_NULL)
    (hS : ∀ s, a.str = some s → s.Resident ∧ s.stype ≠ BitVec.ofNat 32 SHT_NULL) :
    Good a.reload c tbl := by
  obtain ⟨i, ct, cl, en⟩ := reloadSec_inv a.sec hR h0
  refine ⟨⟨i, ct.trans hG.base.content, cl.trans hG.base.cls, en.trans hG.base.ent, ?_⟩, Or.inl rfl⟩
  have hstr := hG.base.str
  show StrOk (a.str.map reloadSec) tbl
  cases hs : a.str with
  | none => rw [hs] at hstr; exact hstr
  | some s =>
    rw [hs] at hstr
    cases tbl with
    | none => exact absurd hstr (by simp [StrOk])
    | some tb =>
      obtain ⟨r, t0⟩ := hS s hs
      obtain ⟨i', ct', _, _⟩ := reloadSec_inv s r t0
      exact ⟨i', ct'.trans hstr.2⟩

/-! ### the reference semantics keeps what was added (pure list reasoning, no code involved) -/

/-- how an added item shows up as the entry a reader sees -/
def Shows (cls : Cls) (tbl : Option Bytes) : Added → DynEntry → Prop
  | .val t v, e => e = normEntry cls ⟨t, v⟩
  | .str t s, e => e.tag = sextTag cls t ∧
      (stringValued e.tag = true → ∀ tb, tbl = some tb → dynStrAt tb (e.val % 4294967296) = some (dynCstr s))

/-- the k-th added item is the k-th entry -/
def Tracked (cls : Cls) (tbl : Option Bytes) (adds : List Added) (es : List DynEntry) : Prop :=
  adds.length = es.length ∧
    ∀ (k : Nat) (ad : Added) (e : DynEntry), adds[k]? = some ad → es[k]? = some e → Shows cls tbl ad e

def specStrBytes : List DynOp → Nat
  | [] => 0
  | .addStr _ s :: r => s.length + 2 + specStrBytes r
  | _ :: r => specStrBytes r

theorem tracked_snoc {cls : Cls} {tbl : Option Bytes} {adds : List Added} {es : List DynEntry}
    (h : Tracked cls tbl adds es) {ad : Added} {e : DynEntry} (hs : Shows cls tbl ad e) :
    Tracked cls tbl (adds ++ [ad]) (es ++ [e]) := by
  obtain ⟨hl, hk⟩ := h
  refine ⟨by simp [hl], ?_⟩
  intro k ad' e' h1 h2
  by_cases hlt : k < adds.length
  · rw [List.getElem?_append_left hlt] at h1
    rw [List.getElem?_append_left (by omega)] at h2
    exact hk k ad' e' h1 h2
  · by_cases heq : k = adds.length
    · subst heq
      rw [List.getElem?_append_right (Nat.le_refl _)] at h1
      rw [hl, List.getElem?_append_right (Nat.le_refl _)] at h2
      simp at h1 h2
      subst h1; subst h2; exact hs
    · rw [List.getElem?_eq_none (by simp; omega)] at h1; cases h1

theorem tracked_grow {cls : Cls} {tb : Bytes} {adds : List Added} {es : List DynEntry} (s : Bytes)
    (h : Tracked cls (some tb) adds es) : Tracked cls (some (strAdd tb s).1) adds es := by
  obtain ⟨hl, hk⟩ := h
  refine ⟨hl, ?_⟩
  intro k ad e h1 h2
  have := hk k ad e h1 h2
  cases ad with
  | val t v => exact this
  | str t s' =>
    refine ⟨this.1, ?_⟩
    intro hsv tb' htb
    cases htb
    exact strAt_strAdd_mono s (this.2 hsv tb rfl)

theorem stringValued_not_ignored {t : Nat} (h : stringValued t = true) : dUnIgnored t = false := by
  simp only [stringValued, Bool.or_eq_true, beq_iff_eq] at h
  rcases h with ((h | h) | h) | h <;> subst h <;> decide

/-- in the reference semantics, whatever sequence of operations is run, the k-th item added is the
    k-th entry; an item added as tag+string under a string-valued tag resolves to that string for
    ever after (the table only grows) -/
theorem added_tracked (cls : Cls) (ops : List DynOp) (st : DynSt) (adds : List Added)
    (h : Tracked cls st.tbl adds st.es)
    (hfit : (st.tbl.getD []).length + specStrBytes ops < 4294967296) :
    Tracked cls (dynRun cls st ops).1.tbl (adds ++ addsOf ops) (dynRun cls st ops).1.es := by
  induction ops generalizing st adds with
  | nil => simpa [dynRun, addsOf] using h
  | cons op ops ih =>
    simp only [dynRun]
    cases op with
    | add t v =>
      simp only [specStrBytes] at hfit
      have := ih ⟨st.es ++ [normEntry cls ⟨t, v⟩], st.tbl⟩ (adds ++ [.val t v])
        (tracked_snoc h (by simp [Shows])) hfit
      simpa [dynStep, addsOf, List.append_assoc] using this
    | addStr t s =>
      simp only [specStrBytes] at hfit
      cases htb : st.tbl with
      | none =>
        rw [htb] at h hfit
        have hs : Shows cls none (.str t s) (normEntry cls ⟨t, 0⟩) :=
          ⟨rfl, fun _ tb e => by cases e⟩
        have := ih ⟨st.es ++ [normEntry cls ⟨t, 0⟩], none⟩ (adds ++ [.str t s]) (tracked_snoc h hs)
          (by simp only [Option.getD_none, List.length_nil] at hfit ⊢; omega)
        simpa [dynStep, htb, addsOf, List.append_assoc] using this
      | some tb =>
        rw [htb] at h hfit
        simp only [Option.getD_some] at hfit
        have hpos := strAdd_pos_lt tb s
        have hlen := strAdd_length tb s
        have hs : Shows cls (some (strAdd tb s).1) (.str t s) (normEntry cls ⟨t, (strAdd tb s).2⟩) := by
          refine ⟨rfl, ?_⟩
          intro hsv tb' e
          cases e
          have hni := stringValued_not_ignored hsv
          simp only [normEntry] at hni ⊢
          rw [hni]
          simp only [Bool.false_eq_true, ↓reduceIte]
          have : truncVal cls (strAdd tb s).2 % 4294967296 = (strAdd tb s).2 := by
            cases cls <;> simp only [truncVal] <;> omega
          rw [this]
          exact strAt_strAdd tb s
        have := ih ⟨st.es ++ [normEntry cls ⟨t, (strAdd tb s).2⟩], some (strAdd tb s).1⟩ (adds ++ [.str t s])
          (tracked_snoc (tracked_grow s h) hs) (by simp only [Option.getD_some]; omega)
        simpa [dynStep, htb, addsOf, List.append_assoc] using this
    | num =>
      simp only [specStrBytes] at hfit
      simpa [dynStep, addsOf] using ih st adds h hfit
    | get i =>
      simp only [specStrBytes] at hfit
      simpa [dynStep, addsOf] using ih st adds h hfit

/-- hence `get k`, for `k` below the reported count, returns the k-th added (tag, value) — tag as a
    signed class-width value, ignored `d_un` as 0 — and for a tag+string add under a string-valued
    tag the string itself -/
theorem get_added (cls : Cls) (tbl : Option Bytes) (adds : List Added) (es : List DynEntry)
    (h : Tracked cls tbl adds es) (k : Nat) (hk : k < dynCount es) :
    ∃ ad, adds[k]? = some ad ∧
      match ad with
      | .val t v => dynGet es tbl k = resolve tbl (normEntry cls ⟨t, v⟩)
      | .str t s => stringValued (sextTag cls t) = true → ∀ tb, tbl = some tb →
          ∃ off, dynGet es tbl k = .ok (sextTag cls t) off (dynCstr s) := by
  have hlt : k < es.length := Nat.lt_of_lt_of_le hk (dynCount_le es)
  have hlt' : k < adds.length := by rw [h.1]; exact hlt
  refine ⟨adds[k], List.getElem?_eq_getElem hlt', ?_⟩
  have hs := h.2 k adds[k] es[k] (List.getElem?_eq_getElem hlt') (List.getElem?_eq_getElem hlt)
  have hg : dynGet es tbl k = resolve tbl es[k] := by
    simp only [dynGet, hk, ↓reduceIte, List.getElem?_eq_getElem hlt]
  cases had : adds[k] with
  | val t v =>
    rw [had] at hs
    simp only [Shows] at hs
    simp only [hg, hs]
  | str t s =>
    rw [had] at hs
    obtain ⟨h1, h2⟩ := hs
    intro hsv tb htb
    rw [← h1] at hsv
    have := h2 hsv tb htb
    refine ⟨es[k].val, ?_⟩
    rw [hg, resolve, hsv, htb]
    simp only [↓reduceIte, Option.bind_some, this, h1]

/-- values in the class's domain come back unchanged -/
theorem normEntry_id (cls : Cls) (t v : Nat) (ht : TagFits cls t) (hv : ValFits cls v)
    (hi : dUnIgnored t = true → v = 0) : normEntry cls ⟨t, v⟩ = ⟨t, v⟩ := by
  unfold normEntry TagFits ValFits at *
  simp only [ht, hv]
  by_cases h : dUnIgnored t = true
  · simp [h, hi h]
  · simp [h]

/-- **bytes**: a section built through the accessor is the concatenation of the gABI records
    `Spec.encodeDyn` of the added entries (tag and stored `d_un`, in the file's byte order) -/
theorem dyn_bytes (cfg : Cfg) (stype : BitVec 32) (hty : stype ≠ BitVec.ofNat 32 SHT_NOBITS) (linked : Bool)
    (ops : List Op) (hfit : Fits [] (if linked then some [] else none) ops) :
    ∃ a' outs, (DynAcc.create cfg stype (BitVec.ofNat 64 (dynSize cfg.cls)) linked).run ops = .ok (a', outs) ∧
      a'.sec.content = dynAppend cfg (if linked then some [] else none) (ops.map specOp) := by
  obtain ⟨a', outs, c', tbl', e, hG, _, _, _, hb⟩ :=
    dyn_roundtrip _ [] _ (create_good cfg stype hty linked) (by simp) ops hfit
  refine ⟨a', outs, e, ?_⟩
  rw [hG.base.content, hb]; rfl

/-! ### the section-without-data case (NOBITS / NULL type with a non-zero size, e.g. after reload) -/

theorem getData_nodata {b : SecBuf} (hd : b.data = none) (hn : b.isNullOrNobits = true) :
    b.getData.data = none := by
  unfold SecBuf.getData SecBuf.loadData
  split
  · cases b.fileData with
    | none => simp [hd]
    | some d => simp [hd, hn]
  · exact hd

theorem rawEntryOn_nodata (c32 : Bool) (e : Enc) (sec : SecBuf) (hd : sec.data = none) (idx : BitVec 64) :
    rawEntryOn c32 e sec idx = .ok fabricated := by
  unfold rawEntryOn
  dyn_tie
  have h1 : dyn32_get_nodata sec.data.isNone sec.entSize = true := by simp [dyn32_get_nodata, hd]
  have h2 : dyn64_get_nodata sec.data.isNone sec.entSize = true := by simp [dyn64_get_nodata, hd]
  simp only [h1, h2, ite_self, ↓reduceIte]; rfl

theorem fabricated_not_string : dyn_get_is_string_tag fabricated.1 = false := by decide
theorem fabricated_null : dyn_num_tag_is_null fabricated.1 = true := by decide

theorem getEntryCore_nodata (a : DynAcc) (hd : a.sec.data = none) (hn : a.sec.isNullOrNobits = true)
    (count idx : BitVec 64) :
    a.getEntryCore count idx =
      .ok (if idx.toNat < count.toNat then ({ a with sec := a.sec.getData }, .ok (BitVec.ofNat 64 DT_NULL) 0 [])
           else (a, .invalid)) := by
  unfold getEntryCore
  dyn_tie
  by_cases hv : idx.toNat < count.toNat
  · have g0 : dyn_get_index_invalid idx count = false := by
      unfold dyn_get_index_invalid; bvn; simp; omega
    simp only [g0, Bool.false_eq_true, ↓reduceIte, hv, rawEntryOn_nodata _ _ _ (getData_nodata hd hn), bind,
      Except.bind, fabricated_not_string]
    rfl
  · have g0 : dyn_get_index_invalid idx count = true := by
      unfold dyn_get_index_invalid; bvn; omega
    simp only [g0, ↓reduceIte, hv]; rfl

theorem numLoop_nodata (a : DynAcc) (hd : a.sec.data = none) (hn : a.sec.isNullOrNobits = true)
    (n : Nat) (prev : BitVec 64) (hc : 0 < a.cache.toNat) :
    numLoop (n + 1) a 0 prev = .ok ({ a with sec := a.sec.getData }, 0) := by
  have z : (0 : BitVec 64).toNat = 0 := rfl
  have g0 : dyn_num_loop 0 a.cache = true := by
    unfold dyn_num_loop; rw [BitVec.ult, z]; simpa using hc
  have hlt : (0 : BitVec 64).toNat < a.cache.toNat := by rw [z]; exact hc
  have hnull : dyn_num_tag_is_null (BitVec.ofNat 64 DT_NULL) = true := by decide
  unfold numLoop
  dyn_tie
  simp only [g0, ↓reduceIte, getEntryCore_nodata a hd hn, bind, Except.bind, hlt, GetRes.tagOr, hnull, pure,
    Except.pure]

theorem clamp_one (total : BitVec 64) (h : 0 < total.toNat) : dyn_num_clamp total 0 = 1 := by
  apply BitVec.eq_of_toNat_eq
  unfold dyn_num_clamp
  simp only [BitVec.reduceSignExtend]
  have h0 : (0 + 1#64 : BitVec 64) = 1#64 := by decide
  have h1 : (1#64 : BitVec 64).toNat = 1 := rfl
  have h1' : (1 : BitVec 64).toNat = 1 := rfl
  rw [h0]
  by_cases h' : 1 < total.toNat
  · rw [if_pos (by rw [BitVec.ult, h1]; simpa using h')]; rfl
  · rw [if_neg (by rw [BitVec.ult, h1]; simpa using h'), h1']; omega

/-- a section that has a size but no data reports exactly one, fabricated, all-zero DT_NULL entry
    and never faults (this is what the code does; such sections arise from loading a SHT_NOBITS
    dynamic section) -/
theorem nodata_fabricates (a : DynAcc) (hd : a.sec.data = none) (hn : a.sec.isNullOrNobits = true)
    (hent : a.sec.entSize = BitVec.ofNat 64 (dynSize a.cfg.cls))
    (hsz : dynSize a.cfg.cls ≤ a.sec.size.toNat) (hc : a.cache = 0) :
    (∃ a', a.entriesNum = .ok (a', 1)) ∧
    (∃ a', a.getEntry 0 = .ok (a', .ok (BitVec.ofNat 64 DT_NULL) 0 [])) ∧
    (∀ idx, idx ≠ 0 → ∃ a', a.getEntry idx = .ok (a', .invalid)) := by
  have hE := ofNat_dynSize_toNat a.cfg.cls
  have hp := dynSize_pos a.cfg.cls
  have hrec : dyn_num_recompute a.cache a.sec.entSize a.needed = true := by
    rw [needed_eq, hent, hc]
    unfold dyn_num_recompute
    cases a.cfg.cls <;> decide
  have g2 : ¬ (a.sec.entSize = 0) := by rw [hent]; cases a.cfg.cls <;> decide
  have htot : (dyn_num_total a.sec.size a.sec.entSize).toNat = a.sec.size.toNat / dynSize a.cfg.cls := by
    unfold dyn_num_total; rw [BitVec.toNat_udiv, hent, hE]
  have hge : 1 ≤ a.sec.size.toNat / dynSize a.cfg.cls := (Nat.le_div_iff_mul_le hp).2 (by omega)
  have hpos : 0 < (dyn_num_total a.sec.size a.sec.entSize).toNat := by rw [htot]; omega
  obtain ⟨n, hn'⟩ : ∃ n, (dyn_num_total a.sec.size a.sec.entSize).toNat = n + 1 :=
    ⟨_, (Nat.sub_add_cancel (by omega)).symm⟩
  have hloop := numLoop_nodata { a with cache := dyn_num_total a.sec.size a.sec.entSize } hd hn n
    (BitVec.ofNat 64 DT_NULL) hpos
  have hnum : a.entriesNum = .ok ({ a with sec := a.sec.getData, cache := 1 }, 1) := by
    unfold entriesNum
    dyn_tie
    simp only [hrec, ↓reduceIte, g2, hn', hloop, bind, Except.bind, pure, Except.pure, clamp_one _ hpos]
  have d1 : ({ a with sec := a.sec.getData, cache := 1 } : DynAcc).sec.data = none := getData_nodata hd hn
  have n1 : ({ a with sec := a.sec.getData, cache := 1 } : DynAcc).sec.isNullOrNobits = true := by
    have := (getData_frame a.sec).2.2.2.1
    simp only [SecBuf.isNullOrNobits] at hn ⊢; rw [this]; exact hn
  have h1 : (1 : BitVec 64).toNat = 1 := rfl
  refine ⟨⟨_, hnum⟩, ?_, ?_⟩
  · unfold getEntry
    simp only [hnum, bind, Except.bind, getEntryCore_nodata _ d1 n1]
    exact ⟨_, rfl⟩
  · intro idx hne
    unfold getEntry
    simp only [hnum, bind, Except.bind, getEntryCore_nodata _ d1 n1]
    have : ¬ idx.toNat < (1 : BitVec 64).toNat := by
      rw [h1]
      intro h
      apply hne
      apply BitVec.eq_of_toNat_eq
      have z : (0 : BitVec 64).toNat = 0 := rfl
      rw [z]; omega
    simp only [this, ↓reduceIte]
    exact ⟨_, rfl⟩

/-! ### non-vacuity: concrete states and runs meet the hypotheses -/

example : Good (DynAcc.create ⟨.c32, .msb⟩ 6 8 true) [] (some []) :=
  create_good ⟨.c32, .msb⟩ 6 (by decide) true
example : Good (DynAcc.create ⟨.c64, .lsb⟩ 6 16 false) [] none :=
  create_good ⟨.c64, .lsb⟩ 6 (by decide) false
example : Fits [] (some []) [.num, .add 3 4096, .num, .addStr 1 [108, 105, 98], .add 0 0, .get 1, .get 2] := by
  simp [Fits, strBytes]
/-- the F2 sequence on the (fixed) model: count, add, count again, read the new entry -/
example : (match (DynAcc.create ⟨.c32, .lsb⟩ 6 8 true).run [.add 3 4096, .num, .add 5 8192, .num, .get 1] with
    | .ok (_, outs) => outs == [.unit, .num 1, .unit, .num 2, .got (.ok 5 8192 [])]
    | .error _ => false) = true := by decide
/-- ELF32: a tag with bit 31 set comes back sign-extended; an ignored `d_un` comes back as 0 -/
example : normEntry .c32 ⟨0x80000001, 7⟩ = ⟨0xFFFFFFFF80000001, 7⟩ := by decide
example : normEntry .c64 ⟨16, 99⟩ = ⟨16, 0⟩ := by decide
example : TagFits .c32 0xFFFFFFFF80000001 ∧ ¬ TagFits .c32 0x80000001 ∧ TagFits .c64 0x80000001 := by
  simp only [TagFits]; decide
example : dynCount [⟨3, 1⟩, ⟨0, 0⟩, ⟨5, 2⟩] = 2 ∧ dynCount [⟨3, 1⟩, ⟨5, 2⟩] = 2 ∧ dynCount [] = 0 := by decide
example : dynStrAt [0, 97, 98, 0, 99] 1 = some [97, 98] ∧ dynStrAt [0, 97, 98, 0, 99] 4 = none ∧
    dynStrAt [0, 97, 98, 0, 99] 2 = some [98] := by decide

end C12
end ElfioVerif
