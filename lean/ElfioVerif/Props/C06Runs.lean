/-
C06 — the second save of a saved object *succeeds* (and reproduces the result).

`save_twice_front` / `save_twice_cls` (Props/C06Cls.lean) assume that the second `save` returns a
result with `ok = true`.  The only way the second save can abort is the test
`if ( req_offset < cur_offset ) return false;` of `write_segment_data`, on the address the first save
assigned to a member — and that happens only if the cursor arithmetic of the first save wrapped
around 2^64.  This file adds that no-wrap condition (`StepNoWrap`: the segment start is at or below
the cursor, and cursor + gap stays below 2^64 when the first save assigns an address) to the side
conditions (`ResaveOkR` = `ResaveOkC` + no wrap, evaluated along the layout of the first save;
`resaveOkRB` a Bool-valued sufficient condition) and proves

  `save_twice_runs` : `save o os = .ok r → r.ok → save r.obj os = .ok r`

(no hypothesis about the second save), together with a by-product needed by the composition
save ∘ load ∘ save: every member of a segment of the saved object that is not SHT_NULL has its
address marked as set.

Ladder: `stepCore_resave_run` → `wsdStep_resave_run` → `wsdLoop_resave_run` →
`layoutSegment_resave_run` → `segRun_resave_run`; `save_of_parts` rebuilds a `save` from its phases.
-/
import ElfioVerif.Props.C06Cls
namespace ElfioVerif.C06
open ElfioVerif Gen Sv

/-- a `save` whose phases are known (converse of `save_ok_unfold`) -/
theorem save_of_parts {o : Obj} {os : OStream} {hd : Bytes} {segs1 ordered done : List Seg} {lay : Layout}
    (hh : o.hdr = some hd) (hf : os.fail = false)
    (h1 : (preRes o).segs.mapM (calcSegAlign (preRes o).secs) = .ok segs1)
    (h2 : orderedSegments segs1 = .ok ordered)
    (h3 : ordered.foldlM (saveStep (preRes o).cls (preRes o).enc (saveHdr0 (preRes o) hd))
      (some (saveLay0 (preRes o) (saveHdr0 (preRes o) hd), [])) = .ok (some (lay, done))) :
    save o os = .ok (saveTail (preRes o) os (saveHdr0 (preRes o) hd) segs1 lay done) := by
  rw [save_eq, hh]
  simp only [hf, Bool.false_eq_true, if_false, h1, bind, Except.bind, h2, h3]
  rfl

/-- the address-driven branch of the second save does not abort when the first save's cursor
    arithmetic did not wrap -/
theorem no_abort_of_bounds (vaddr pos gap ss : BitVec 64) (h1 : ss.toNat ≤ pos.toNat)
    (h2 : pos.toNat + gap.toNat < 18446744073709551616) :
    wsd_req_lt_cur (wsd_req_offset (wsd_new_addr vaddr (wsd_cursor_gap pos gap) ss) vaddr)
      (wsd_cur_offset pos ss) = false := by
  have e : (vaddr + (pos + gap) - ss - vaddr) = (pos - ss) + gap := by bv_omega
  have h3 : ((pos - ss) + gap).toNat = (pos.toNat - ss.toNat) + gap.toNat := by bv_omega
  have h4 : (pos - ss).toNat = pos.toNat - ss.toNat := by bv_omega
  unfold wsd_req_lt_cur wsd_req_offset wsd_new_addr wsd_cursor_gap wsd_cur_offset
  rw [e]
  simp only [BitVec.ult, h3, h4, decide_eq_false_iff_not]
  omega

/-- **re-running the placing step on its own result cannot abort** : `stepCore_resave_cls` with the
    abort alternative excluded by the no-wrap condition `hnw` -/
theorem stepCore_resave_run {c : Cls} {g : Seg} {ss : BitVec 64} {sec sec' : SecBuf} {pos pos2 mem file mem' file' : BitVec 64}
    (h : stepCore c g ss sec false pos mem file = .placed sec' pos2 mem' file')
    (hng : ¬ GapBeforeAddresslessNobits sec pos)
    (hfit : sec.addrSet = false → ∀ gap, stepGap g ss sec false pos file = some gap →
      truncA c (wsd_new_addr g.vaddr (wsd_cursor_gap pos gap) ss) = wsd_new_addr g.vaddr (wsd_cursor_gap pos gap) ss)
    (hnw : sec.addrSet = false → ∀ gap, stepGap g ss sec false pos file = some gap →
      ss.toNat ≤ pos.toNat ∧ pos.toNat + gap.toNat < 18446744073709551616) :
    stepCore c g ss sec' false pos mem file = .placed sec' pos2 mem' file' ∧ sec'.addrSet = true := by
  unfold stepCore at h
  by_cases hnn : wsd_is_null sec.stype = true
  · rw [if_pos hnn] at h; cases h
  · rw [if_neg hnn] at h
    have hnn' : wsd_is_null sec.stype = false := by simpa using hnn
    cases hgap : stepGap g ss sec false pos file with
    | none => rw [hgap] at h; cases h
    | some gap =>
      rw [hgap] at h
      simp only [Bool.false_eq_true, if_false] at h
      injection h with e1 e2 e3 e4
      -- the placed section
      rw [stepPlace_eq] at e1
      have hst : sec'.stype = sec.stype := by rw [← e1]
      have hsz : sec'.size = sec.size := by rw [← e1]
      have hfl : sec'.flags = sec.flags := by rw [← e1]
      have hset' : sec'.addrSet = true := by rw [← e1]
      have hidx' : sec'.index = sec.index := by rw [← e1]
      have hoff' : sec'.offset = if (sec.index != 0) = true then truncA c (wsd_cursor_gap pos gap) else sec.offset := by
        rw [← e1]
      have hidem : stepPlace c g ss sec' (wsd_cursor_gap pos gap) = sec' := by
        rw [stepPlace_eq]
        have h1 : (if sec'.addrSet = true then sec'.addr
            else truncA c (wsd_new_addr g.vaddr (wsd_cursor_gap pos gap) ss)) = sec'.addr := by
          rw [hset']; rfl
        have h2 : (if (sec'.index != 0) = true then truncA c (wsd_cursor_gap pos gap) else sec'.offset) =
            sec'.offset := by
          rw [hidx', hoff']; split <;> rfl
        rw [h1, h2]
        clear h1 h2 hoff' hidx' hfl hsz hst e1
        cases sec'
        simp only at hset'
        subst hset'
        rfl
      have hgap0 := hgap
      -- the second run's gap
      have key : stepGap g ss sec' false pos file = some gap := by
        unfold stepGap at hgap ⊢
        rw [occupies_iff sec hnn'] at hgap
        rw [occupies_iff sec' (by rw [hst]; exact hnn'), hset', hst, hsz]
        simp only [Bool.not_false, Bool.true_and] at hgap ⊢
        cases ha : sec.addrSet with
        | true =>
          rw [ha] at hgap
          have ead : sec'.addr = sec.addr := by rw [← e1]; simp only [ha, if_true]
          rw [ead]
          simp only [Bool.true_and] at hgap
          by_cases hocc : (decide (sec.stype ≠ BitVec.ofNat 32 SHT_NOBITS) && decide (sec.size ≠ 0)) = true
          · rw [if_pos hocc] at hgap ⊢
            exact hgap
          · rw [if_neg hocc] at hgap ⊢
            simp only [wsd_align_branch, ha, Bool.not_false, Bool.not_true, Bool.and_false, Bool.false_eq_true,
              if_false, Bool.true_and] at hgap ⊢
            exact hgap
        | false =>
          rw [ha] at hgap
          simp only [Bool.false_and, Bool.false_eq_true, if_false, wsd_align_branch, Bool.not_false, Bool.and_true,
            if_true, Option.some.injEq] at hgap
          by_cases hocc : (decide (sec.stype ≠ BitVec.ofNat 32 SHT_NOBITS) && decide (sec.size ≠ 0)) = true
          · rw [if_pos hocc]
            -- address-driven branch on the address the first run computed
            have ead : sec'.addr = wsd_new_addr g.vaddr (wsd_cursor_gap pos gap) ss := by
              rw [← e1]; simp only [ha, Bool.false_eq_true, if_false]
              exact hfit ha gap hgap0
            rw [ead]
            obtain ⟨b1, b2⟩ := hnw ha gap hgap0
            have hlt := no_abort_of_bounds g.vaddr pos gap ss b1 b2
            rw [if_neg (by rw [hlt]; exact Bool.false_ne_true)]
            congr 1
            simp only [wsd_gap_addr, wsd_req_offset, wsd_new_addr, wsd_cursor_gap, wsd_cur_offset]
            bv_omega
          · rw [if_neg hocc]
            simp only [wsd_align_branch, Bool.not_false, Bool.not_true, Bool.and_false, Bool.false_eq_true, if_false]
            -- no file space: the first gap must have been zero
            have hz : gap = 0 := by
              apply Classical.byContradiction
              intro hne
              apply hng
              refine ⟨ha, ?_, by rw [hgap]; exact hne⟩
              simp only [Bool.and_eq_true, decide_eq_true_eq, not_and, Decidable.not_not] at hocc
              by_cases h1 : sec.stype = BitVec.ofNat 32 SHT_NOBITS
              · exact Or.inl h1
              · exact Or.inr (hocc h1)
            rw [hz]
      refine ⟨?_, hset'⟩
      unfold stepCore
      rw [hst, if_neg hnn, key]
      simp only [Bool.false_eq_true, if_false, hst, hsz, hfl, hidem, e2, e3, e4]

/-- the cursor arithmetic of the first save does not wrap where it assigns an address -/
def StepNoWrap (g : Seg) (ss : BitVec 64) (st : WsdSt) (idx : BitVec 16) : Prop :=
  ∀ sec, st.lay.secs[idx.toNat]? = some sec → st.lay.gen[idx.toNat]? = some false → sec.addrSet = false →
    ∀ gap, stepGap g ss sec false st.lay.pos st.file = some gap →
      ss.toNat ≤ st.lay.pos.toNat ∧ st.lay.pos.toNat + gap.toNat < 18446744073709551616

/-- `StepOkC` and `StepNoWrap` -/
def StepOkR (c : Cls) (g : Seg) (ss : BitVec 64) (st : WsdSt) (idx : BitVec 16) : Prop :=
  StepOkC c g ss st idx ∧ StepNoWrap g ss st idx

def LoopOkR (c : Cls) (g : Seg) (ss : BitVec 64) : List (BitVec 16) → WsdSt → Prop
  | [], _ => True
  | idx :: rest, st => StepOkR c g ss st idx ∧ ∀ st', wsdStep c g ss st idx = .ok (some st') → LoopOkR c g ss rest st'

theorem LoopOkR.toC {c : Cls} {g : Seg} {ss : BitVec 64} (l : List (BitVec 16)) {st : WsdSt}
    (h : LoopOkR c g ss l st) : LoopOkC c g ss l st := by
  induction l generalizing st with
  | nil => trivial
  | cons idx rest ih => exact ⟨h.1.1, fun st' hs => ih (h.2 st' hs)⟩

/-- **one member, in step, and the second run's step succeeds** -/
theorem wsdStep_resave_run {c : Cls} {g g' : Seg} {ss : BitVec 64} {F : List SecBuf} {st1 st1' st2 : WsdSt} {idx : BitVec 16}
    (hv : g'.vaddr = g.vaddr) (ht : g'.stype = g.stype)
    (h1 : wsdStep c g ss st1 idx = .ok (some st1')) (hF : Fut F st1') (hok : StepOkR c g ss st1 idx)
    (hl : Lock F st1 st2) : ∃ st2', wsdStep c g' ss st2 idx = .ok (some st2') ∧ Lock F st1' st2' := by
  obtain ⟨sec1, gen1, hs1, hg1, ha1⟩ := wsdStep_ok h1
  -- the second run's step on the final section
  have h2eq : ∀ sec2, F[idx.toNat]? = some sec2 → wsdStep c g' ss st2 idx =
      pure (applyOut st2 idx.toNat (stepCore c g ss sec2 gen1 st1.lay.pos st1.mem st1.file)) := by
    intro sec2 hs2
    rw [wsdStep_eq, hl.secs, hs2, hl.gen, hg1]
    simp only
    rw [hl.pos, hl.mem, hl.file, stepCore_congr_seg hv ht]
  have hi : idx.toNat < st1.lay.secs.length := by
    rcases Nat.lt_or_ge idx.toNat st1.lay.secs.length with h | h
    · exact h
    · rw [List.getElem?_eq_none h] at hs1; cases hs1
  have hgi : idx.toNat < st1.lay.gen.length := by
    rcases Nat.lt_or_ge idx.toNat st1.lay.gen.length with h | h
    · exact h
    · rw [List.getElem?_eq_none h] at hg1; cases hg1
  cases gen1 with
  | true =>
    -- already generated: the section has its final form, the outcome is identical
    have hgen' := (wsdStep_stable h1 idx.toNat hg1)
    have hFi : F[idx.toNat]? = some sec1 := by rw [hF.2 _ hgen'.2, hgen'.1]; exact hs1
    rw [h2eq _ hFi]
    cases ho : stepCore c g ss sec1 true st1.lay.pos st1.mem st1.file with
    | abort => rw [ho] at ha1; cases ha1
    | null =>
      rw [ho] at ha1; simp only [applyOut, Option.some.injEq] at ha1; subst ha1
      exact ⟨_, rfl, hl.secs, hl.pos, by simp only; rw [hl.gen], hl.mem, hl.file⟩
    | counted m f =>
      rw [ho] at ha1; simp only [applyOut, Option.some.injEq] at ha1; subst ha1
      exact ⟨_, rfl, hl.secs, hl.pos, hl.gen, rfl, rfl⟩
    | placed s p m f => exact absurd ho (stepCore_true_not_placed _ _ _ _ _ _ _ _ _ _ _)
  | false =>
    cases ho : stepCore c g ss sec1 false st1.lay.pos st1.mem st1.file with
    | abort => rw [ho] at ha1; cases ha1
    | counted m f => exact absurd ho (stepCore_false_not_counted _ _ _ _ _ _ _ _ _)
    | null =>
      rw [ho] at ha1; simp only [applyOut, Option.some.injEq] at ha1; subst ha1
      -- the section is final already
      have hgen' : (st1.lay.gen.set idx.toNat true)[idx.toNat]? = some true := List.getElem?_set_self hgi
      have hFi : F[idx.toNat]? = some sec1 := by rw [hF.2 _ hgen']; exact hs1
      rw [h2eq _ hFi, ho]
      exact ⟨_, rfl, hl.secs, hl.pos, by simp only; rw [hl.gen], hl.mem, hl.file⟩
    | placed s p m f =>
      rw [ho] at ha1; simp only [applyOut, Option.some.injEq] at ha1; subst ha1
      have hgen' : (st1.lay.gen.set idx.toNat true)[idx.toNat]? = some true := List.getElem?_set_self hgi
      have hFi : F[idx.toNat]? = some s := by
        rw [hF.2 _ hgen']; exact List.getElem?_set_self hi
      obtain ⟨h', -⟩ := stepCore_resave_run ho (hok.1 sec1 hs1 hg1).1 (hok.1 sec1 hs1 hg1).2 (hok.2 sec1 hs1 hg1)
      rw [h2eq _ hFi, h']
      refine ⟨_, rfl, ?_, rfl, by simp only; rw [hl.gen], rfl, rfl⟩
      simp only
      rw [hl.secs]
      exact set_eq_self_of_getElem? hFi

/-- **all members of a segment, in step; the second run's loop succeeds** -/
theorem wsdLoop_resave_run {c : Cls} {g g' : Seg} {ss : BitVec 64} {F : List SecBuf} (hv : g'.vaddr = g.vaddr)
    (ht : g'.stype = g.stype) (l : List (BitVec 16)) {st1 stE st2 : WsdSt}
    (h1 : wsdLoop c g ss l st1 = .ok (some stE)) (hF : Fut F stE) (hok : LoopOkR c g ss l st1)
    (hl : Lock F st1 st2) : ∃ st2E, wsdLoop c g' ss l st2 = .ok (some st2E) ∧ Lock F stE st2E := by
  induction l generalizing st1 st2 with
  | nil =>
    simp only [wsdLoop, pure, Except.pure, Except.ok.injEq, Option.some.injEq] at h1
    subst h1; exact ⟨st2, rfl, hl⟩
  | cons idx rest ih =>
    simp only [wsdLoop, bind, Except.bind] at h1 ⊢
    cases e1 : wsdStep c g ss st1 idx with
    | error x => rw [e1] at h1; cases h1
    | ok r1 =>
      rw [e1] at h1
      cases r1 with
      | none => cases h1
      | some st1' =>
        simp only at h1
        have hF' : Fut F st1' := Fut.back rest h1 hF
        obtain ⟨st2', e2, hl'⟩ := wsdStep_resave_run hv ht e1 hF' hok.1 hl
        rw [e2]
        exact ih h1 (hok.2 st1' e1) hl'

/-- the side conditions of one segment (`SegOkC` with `LoopOkR`) -/
def SegOkR (c : Cls) (phoff : BitVec 64) (pe pn : BitVec 16) (lay : Layout) (g : Seg) : Prop :=
  ∀ p, segStartOf phoff pe pn lay g = .ok p →
    (lseg_offset0 g.offsetSet g.offset = false → p.2.1 ≠ 0) ∧ truncA c p.2.1 = p.2.1 ∧
    LoopOkR c g p.2.1 g.secs { lay := p.1, mem := p.2.2.1, file := p.2.2.2 }

theorem SegOkR.toC {c : Cls} {phoff : BitVec 64} {pe pn : BitVec 16} {lay : Layout} {g : Seg}
    (h : SegOkR c phoff pe pn lay g) : SegOkC c phoff pe pn lay g :=
  fun p hp => ⟨(h p hp).1, (h p hp).2.1, (h p hp).2.2.toC⟩

/-- **one segment, in step; the second run's layout of the finished segment succeeds** -/
theorem layoutSegment_resave_run {c : Cls} {F : List SecBuf} {phoff : BitVec 64} {pe pn : BitVec 16}
    {lay1 lay1E lay2 : Layout} {g d : Seg}
    (h1 : layoutSegment c phoff pe pn lay1 g = .ok (some (lay1E, d))) (hF : FutL F lay1E)
    (hok : SegOkR c phoff pe pn lay1 g) (hl : LockL F lay1 lay2) :
    ∃ lay2E, layoutSegment c phoff pe pn lay2 d = .ok (some (lay2E, d)) ∧ LockL F lay1E lay2E := by
  obtain ⟨p1, stE, s1, w1, rfl, rfl⟩ := layoutSegment_ok h1
  obtain ⟨f1, f2, f3, f4, f5, f6, _⟩ := segFinish_fields c g p1.2.1 stE
  obtain ⟨e1, e2⟩ := segStartOf_secs s1
  have hFst : Fut F { lay := p1.1, mem := p1.2.2.1, file := p1.2.2.2 } := Fut.back g.secs w1 hF
  have hF1 : FutL F lay1 := by
    obtain ⟨a, b⟩ := hFst
    simp only [e1, e2] at a b
    exact ⟨a, b⟩
  obtain ⟨hnz, hfit, hloop⟩ := hok p1 s1
  rw [hfit] at f6
  obtain ⟨p2, s2', ep, lk⟩ := segStartOf_resave hl hF1 s1 f1 f2 f3 f4 f5 f6 (fun _ h => hnz h)
  have hss : p2.2.1 = p1.2.1 := by rw [ep]
  have hm : p2.2.2.1 = p1.2.2.1 := by rw [ep]
  have hf : p2.2.2.2 = p1.2.2.2 := by rw [ep]
  obtain ⟨st2E, w2, hlock⟩ := wsdLoop_resave_run (g := g) (g' := segFinish c g p1.2.1 stE) f4 f1 g.secs w1 hF hloop
    (st2 := { lay := p2.1, mem := p1.2.2.1, file := p1.2.2.2 }) ⟨lk.secs, lk.pos, lk.gen, rfl, rfl⟩
  refine ⟨st2E.lay, ?_, ⟨hlock.secs, hlock.pos, hlock.gen⟩⟩
  rw [layoutSegment_eq]
  simp only [bind, Except.bind, s2']
  rw [f2, hss, hm, hf, w2]
  simp only [pure, Except.pure]
  rw [segFinish_idem_cls c g p1.2.1 stE st2E hlock.mem hlock.file]

/-- the side conditions along the whole segment loop -/
def RunOkR (c : Cls) (e : Enc) (h0 : Bytes) : Layout → List Seg → Prop
  | _, [] => True
  | lay, g :: rest =>
    SegOkR c (Hdr.e_phoff c e h0) (Hdr.e_phentsize c e h0) (Hdr.e_phnum c e h0) lay g ∧
    ∀ lay' d, layoutSegment c (Hdr.e_phoff c e h0) (Hdr.e_phentsize c e h0) (Hdr.e_phnum c e h0) lay g =
      .ok (some (lay', d)) → RunOkR c e h0 lay' rest

theorem RunOkR.toC {c : Cls} {e : Enc} {h0 : Bytes} (l : List Seg) {lay : Layout} (h : RunOkR c e h0 lay l) :
    RunOkC c e h0 lay l := by
  induction l generalizing lay with
  | nil => trivial
  | cons g rest ih => exact ⟨h.1.toC, fun lay' d hd' => ih (h.2 lay' d hd')⟩

/-- **the whole segment loop, in step; the second run succeeds** -/
theorem segRun_resave_run {c : Cls} {e : Enc} {h0 : Bytes} {F : List SecBuf} {lay1 lay1E lay2 : Layout}
    {ordered ds acc : List Seg}
    (run : SegRun c e h0 lay1 ordered lay1E ds) (hF : FutL F lay1E) (hok : RunOkR c e h0 lay1 ordered)
    (hl : LockL F lay1 lay2) :
    ∃ lay2E, ds.foldlM (saveStep c e h0) (some (lay2, acc)) = .ok (some (lay2E, acc ++ ds)) ∧
      LockL F lay1E lay2E := by
  induction run generalizing lay2 acc with
  | nil lay => exact ⟨lay2, by simp [pure, Except.pure], hl⟩
  | @cons layA layB layC g d rest ds' h1 run' ih =>
    have hFB : FutL F layB := FutL.back run' hF
    obtain ⟨layB2, e2, lk⟩ := layoutSegment_resave_run h1 hFB hok.1 hl
    obtain ⟨layE2, e3, lkE⟩ := ih (lay2 := layB2) (acc := acc ++ [d]) hF (hok.2 _ _ h1) lk
    refine ⟨layE2, ?_, lkE⟩
    simp only [List.foldlM_cons, saveStep, bind, Except.bind, e2, pure, Except.pure]
    rw [e3]
    simp

/-- the side conditions of `save_twice_runs`, evaluated along the layout of the first save:
    `ResaveOkC` plus no wrap-around of the cursor where an address is assigned -/
def ResaveOkR (o : Obj) (hd : Bytes) : Prop :=
  ∀ segs1 ordered, (preRes o).segs.mapM (calcSegAlign (preRes o).secs) = .ok segs1 →
    orderedSegments segs1 = .ok ordered →
    RunOkR o.cls o.enc (saveHdr0 (preRes o) hd) (saveLay0 (preRes o) (saveHdr0 (preRes o) hd)) ordered

theorem ResaveOkR.toC {o : Obj} {hd : Bytes} (h : ResaveOkR o hd) : ResaveOkC o hd :=
  fun segs1 ordered h1 h2 => (h segs1 ordered h1 h2).toC

/-! ### members of a segment get their address marked as set -/

/-- generated sections other than SHT_NULL ones have their address marked as set -/
def GenSet (lay : Layout) : Prop :=
  ∀ (i : Nat) b, lay.gen[i]? = some true → lay.secs[i]? = some b → wsd_is_null b.stype = false → b.addrSet = true

theorem stepCore_null_type {c : Cls} {g : Seg} {ss : BitVec 64} {sec : SecBuf} {gen : Bool} {pos mem file : BitVec 64}
    (h : stepCore c g ss sec gen pos mem file = .null) : wsd_is_null sec.stype = true := by
  unfold stepCore at h
  by_cases hn : wsd_is_null sec.stype = true
  · exact hn
  · rw [if_neg hn] at h
    cases hg : stepGap g ss sec gen pos file with
    | none => rw [hg] at h; cases h
    | some gap =>
      rw [hg] at h
      cases gen with
      | true => simp only [if_true] at h; cases h
      | false => simp only [Bool.false_eq_true, if_false] at h; cases h

theorem stepCore_placed_set {c : Cls} {g : Seg} {ss : BitVec 64} {sec s : SecBuf} {gen : Bool} {pos mem file p m f : BitVec 64}
    (h : stepCore c g ss sec gen pos mem file = .placed s p m f) : s.addrSet = true := by
  unfold stepCore at h
  by_cases hn : wsd_is_null sec.stype = true
  · rw [if_pos hn] at h; cases h
  · rw [if_neg hn] at h
    cases hg : stepGap g ss sec gen pos file with
    | none => rw [hg] at h; cases h
    | some gap =>
      rw [hg] at h
      cases gen with
      | true => simp only [if_true] at h; cases h
      | false =>
        simp only [Bool.false_eq_true, if_false] at h
        injection h with e1
        rw [← e1, stepPlace_eq]

theorem wsdStep_genSet {c : Cls} {g : Seg} {ss : BitVec 64} {st st' : WsdSt} {idx : BitVec 16}
    (h : wsdStep c g ss st idx = .ok (some st')) (hP : GenSet st.lay) :
    GenSet st'.lay ∧ st'.lay.gen[idx.toNat]? = some true := by
  obtain ⟨sec, gen, hs, hg, ha⟩ := wsdStep_ok h
  have hi : idx.toNat < st.lay.secs.length := by
    rcases Nat.lt_or_ge idx.toNat st.lay.secs.length with h | h
    · exact h
    · rw [List.getElem?_eq_none h] at hs; cases hs
  have hgi : idx.toNat < st.lay.gen.length := by
    rcases Nat.lt_or_ge idx.toNat st.lay.gen.length with h | h
    · exact h
    · rw [List.getElem?_eq_none h] at hg; cases hg
  cases ho : stepCore c g ss sec gen st.lay.pos st.mem st.file with
  | abort => rw [ho] at ha; cases ha
  | null =>
    rw [ho] at ha; simp only [applyOut, Option.some.injEq] at ha; subst ha
    refine ⟨?_, List.getElem?_set_self hgi⟩
    intro i b hgb hsb hnn
    by_cases e : idx.toNat = i
    · subst e
      simp only at hsb
      rw [hs] at hsb; cases hsb
      rw [stepCore_null_type ho] at hnn; cases hnn
    · simp only at hgb hsb
      rw [List.getElem?_set_ne e] at hgb
      exact hP i b hgb hsb hnn
  | counted m f =>
    rw [ho] at ha; simp only [applyOut, Option.some.injEq] at ha; subst ha
    refine ⟨hP, ?_⟩
    cases gen with
    | true => exact hg
    | false => exact absurd ho (stepCore_false_not_counted _ _ _ _ _ _ _ _ _)
  | placed s p m f =>
    rw [ho] at ha; simp only [applyOut, Option.some.injEq] at ha; subst ha
    refine ⟨?_, List.getElem?_set_self hgi⟩
    intro i b hgb hsb hnn
    by_cases e : idx.toNat = i
    · subst e
      simp only at hsb
      rw [List.getElem?_set_self hi] at hsb; cases hsb
      exact stepCore_placed_set ho
    · simp only at hgb hsb
      rw [List.getElem?_set_ne e] at hgb hsb
      exact hP i b hgb hsb hnn

theorem wsdLoop_genSet {c : Cls} {g : Seg} {ss : BitVec 64} (l : List (BitVec 16)) {st st' : WsdSt}
    (h : wsdLoop c g ss l st = .ok (some st')) (hP : GenSet st.lay) :
    GenSet st'.lay ∧ ∀ idx ∈ l, st'.lay.gen[idx.toNat]? = some true := by
  induction l generalizing st with
  | nil =>
    simp only [wsdLoop, pure, Except.pure, Except.ok.injEq, Option.some.injEq] at h; subst h
    exact ⟨hP, fun _ hm => nomatch hm⟩
  | cons idx rest ih =>
    simp only [wsdLoop, bind, Except.bind] at h
    cases h1 : wsdStep c g ss st idx with
    | error e => rw [h1] at h; cases h
    | ok r =>
      rw [h1] at h
      cases r with
      | none => cases h
      | some st1 =>
        obtain ⟨p1, g1⟩ := wsdStep_genSet h1 hP
        obtain ⟨p2, g2⟩ := ih h p1
        refine ⟨p2, fun i hm => ?_⟩
        rcases List.mem_cons.1 hm with rfl | hm
        · exact (wsdLoop_stable rest h _ g1).2
        · exact g2 i hm

theorem layoutSegment_genSet {c : Cls} {phoff : BitVec 64} {pe pn : BitVec 16} {lay lay' : Layout} {g g' : Seg}
    (h : layoutSegment c phoff pe pn lay g = .ok (some (lay', g'))) (hP : GenSet lay) :
    GenSet lay' ∧ ∀ idx ∈ g.secs, lay'.gen[idx.toNat]? = some true := by
  obtain ⟨p, st, s1, w1, rfl, rfl⟩ := layoutSegment_ok h
  obtain ⟨e1, e2⟩ := segStartOf_secs s1
  exact wsdLoop_genSet g.secs w1 (by intro i b hg hs; simp only [e1, e2] at hg hs; exact hP i b hg hs)

theorem SegRun.genSet {c : Cls} {e : Enc} {h0 : Bytes} {lay layE : Layout} {ordered ds : List Seg}
    (run : SegRun c e h0 lay ordered layE ds) (hP : GenSet lay) :
    GenSet layE ∧ ∀ g ∈ ordered, ∀ idx ∈ g.secs, layE.gen[idx.toNat]? = some true := by
  induction run with
  | nil => exact ⟨hP, fun _ hm => nomatch hm⟩
  | @cons layA layB layC g d rest ds' h1 run' ih =>
    obtain ⟨p1, g1⟩ := layoutSegment_genSet h1 hP
    obtain ⟨p2, g2⟩ := ih p1
    refine ⟨p2, fun x hx idx hi => ?_⟩
    rcases List.mem_cons.1 hx with rfl | hx
    · exact (SegRun.stable run' _ (g1 idx hi)).2
    · exact g2 x hx idx hi

/-- **save_twice_runs** (any class; flat or nested segments; `FrontOk`): if `save` succeeds and the
    side conditions `ResaveOkR` hold along its layout (no F13 trigger, ELF32 fits, no wrap-around of
    the cursor), then a second `save` of the resulting object into the same initial stream *succeeds
    and returns exactly the same result* — no hypothesis about the second save.  By-products: every
    member of a segment of the saved object that is not SHT_NULL has its address marked as set, and every
    segment its offset. -/
theorem save_twice_runs {o : Obj} {os : OStream} {r : SaveRes} {hd : Bytes}
    (hh : o.hdr = some hd) (hl : ehdrSize o.cls ≤ hd.length) (hidx : SegIdxOk o.segs) (hz : FrontOk o.segs)
    (hrs : ResaveOkR o hd) (hs : save o os = .ok r) (hok : r.ok = true) :
    save r.obj os = .ok r ∧
    (∀ g ∈ r.obj.segs, ∀ idx ∈ g.secs, ∀ b, r.obj.secs[idx.toNat]? = some b → wsd_is_null b.stype = false →
      b.addrSet = true) ∧
    ∀ g ∈ r.obj.segs, g.offsetSet = true := by
  obtain ⟨hd1, segs1, ordered, lay, done, e1, hf, h1, h2, h3, rfl⟩ := save_ok_unfold hs hok
  rw [hh] at e1; cases e1
  obtain ⟨_, eobj, _, _⟩ := saveTail_ok hok
  generalize ho1 : preRes o = o1 at *
  have hcls : o1.cls = o.cls := by rw [← ho1]; rfl
  have henc : o1.enc = o.enc := by rw [← ho1]; rfl
  have hsegs : o1.segs = o.segs := by rw [← ho1]; rfl
  have hset1 : ∀ b ∈ o1.secs, b.Settled := by rw [← ho1]; exact preRes_settled o
  generalize hh0 : saveHdr0 o1 hd = h0 at *
  -- the first run
  obtain ⟨ds, ed, run⟩ := saveFold_run ordered h3
  simp only [List.nil_append] at ed
  subst ed
  obtain ⟨fsec, _, fseg⟩ := run.frame
  have hlay0secs : (saveLay0 o1 h0).secs = o1.secs := rfl
  rw [hlay0secs] at fsec
  have hsetlay : ∀ b ∈ lay.secs, b.Settled := fsec.forall_right (fun a b h ha => Placed.settled h ha) hset1
  -- the loose pass of the first save
  obtain ⟨L, eL, fL⟩ := layoutLoose_frame o1.cls (putBack segs1 done) lay.secs 0 lay.pos []
  simp only [List.reverse_nil, List.nil_append] at eL
  rw [hcls] at fL
  have hsetL : ∀ b ∈ L, b.Settled := fL.forall_right (fun a b h ha => Placed.settled h ha) hsetlay
  have eS : tailSecs o1 segs1 lay done = L := by
    unfold tailSecs tailLoose
    rw [eL, residentForSave_id _ _ _ _ _ hsetL]; rfl
  have eSt : (residentForSave o1.cls o1.trans (tailLoose o1 segs1 lay done).1 { st := o1.stream } []).2.st = o1.stream := by
    unfold tailLoose
    rw [eL, residentForSave_id _ _ _ _ _ hsetL]
  rw [eS, eSt] at eobj
  generalize hT : saveTail o1 os h0 segs1 lay done = T at *
  have ecls : T.obj.cls = o1.cls := by rw [eobj]
  have eenc : T.obj.enc = o1.enc := by rw [eobj]
  have etr : T.obj.trans = o1.trans := by rw [eobj]
  have estr : T.obj.stream = o1.stream := by rw [eobj]
  have esecs : T.obj.secs = L := by rw [eobj]
  have esegs : T.obj.segs = putBack segs1 done := by rw [eobj]; rfl
  have ehdr : T.obj.hdr = some (tailHdr o1 h0 segs1 lay done) := by rw [eobj]
  have hLlen : L.length = o1.secs.length := fL.1.trans fsec.1
  have hpre2 : preRes T.obj = T.obj := preRes_id _ (by rw [esecs]; exact hsetL)
  have fa := mapM_ok_frame h1
  -- header preparation
  have eh : saveHdr0 T.obj (tailHdr o1 h0 segs1 lay done) = h0 := by
    rw [saveHdr0_congr ecls eenc (by rw [esegs, putBack_eq_map, List.length_map, fa.1])
      (by rw [esecs, hLlen])]
    unfold tailHdr
    rw [← hh0]
    exact saveHdr0_idem o1 hd _ (by rw [hcls]; exact hl)
  -- A. the alignment pass is the identity on the finished segments
  have hidx1 : SegIdxOk segs1 := by
    intro k g hg
    have hk : k < o1.segs.length := by
      rw [← fa.1]
      rcases Nat.lt_or_ge k segs1.length with hlt | hge
      · exact hlt
      · rw [List.getElem?_eq_none hge] at hg; cases hg
    have := fa.2 k o1.segs[k] g (List.getElem?_eq_getElem hk) hg
    rw [(calcSegAlign_frame (c := o1.cls) this).1.index]
    exact hidx k _ (by rw [← hsegs]; exact List.getElem?_eq_getElem hk)
  have hsrc : ∀ g ∈ segs1, ∃ g0 ∈ o.segs, g.offset = g0.offset ∧ g.offsetSet = g0.offsetSet ∧
      g.stype = g0.stype ∧ g.secs = g0.secs := by
    intro g hg
    obtain ⟨k, hk⟩ := List.getElem?_of_mem hg
    have hk' : k < o1.segs.length := by
      rw [← fa.1]
      rcases Nat.lt_or_ge k segs1.length with hlt | hge
      · exact hlt
      · rw [List.getElem?_eq_none hge] at hk; cases hk
    have := calcSegAlign_frame (c := o1.cls) (fa.2 k o1.segs[k] g (List.getElem?_eq_getElem hk') hk)
    refine ⟨o1.segs[k], by rw [← hsegs]; exact List.getElem_mem hk', this.2.1, this.2.2.2.2, ?_, this.1.secs⟩
    rw [this.1.rest]
  have hperm := orderedSegments_perm_any h2
  have hpair1 : segs1.Pairwise (fun a b => a.index ≠ b.index) := by
    rw [List.pairwise_iff_getElem]
    intro i j hi hj hij e
    have e1 := hidx1 i _ (List.getElem?_eq_getElem hi)
    have e2 := hidx1 j _ (List.getElem?_eq_getElem hj)
    omega
  have hpairO : ordered.Pairwise (fun a b => a.index ≠ b.index) :=
    (hperm.pairwise_iff (fun h e => h e.symm)).2 hpair1
  have hfin := SegRun.finished run
  have hfinIdx : All2 (fun g d => d.index = g.index) ordered done :=
    All2.imp hfin (fun g d hr => by
      obtain ⟨ss, st, e⟩ := hr
      rw [e]; exact (segFinish_fields _ _ _ _).2.2.2.2.2.2)
  have hmapO : ordered.map (backFn done) = done := map_backFn_eq hfinIdx hpairO
  have hbackk : ∀ g ∈ segs1, ∃ k, ordered[k]? = some g ∧ ∃ hkd : k < done.length, backFn done g = done[k] := by
    intro g hg
    have hgo : g ∈ ordered := (hperm.mem_iff).2 hg
    obtain ⟨k, hk⟩ := List.getElem?_of_mem hgo
    have hk' : k < ordered.length := by
      rcases Nat.lt_or_ge k ordered.length with hlt | hge
      · exact hlt
      · rw [List.getElem?_eq_none hge] at hk; cases hk
    have hkd : k < done.length := by rw [(All2.getElem? hfin).1]; exact hk'
    refine ⟨k, hk, hkd, ?_⟩
    have := congrArg (fun l => l[k]?) hmapO
    simp only [List.getElem?_map, hk, Option.map_some, List.getElem?_eq_getElem hkd, Option.some.injEq] at this
    exact this
  have hback : ∀ g ∈ segs1, (backFn done g).secs = g.secs ∧ (backFn done g).align = g.align := by
    intro g hg
    obtain ⟨k, hk, hkd, e⟩ := hbackk g hg
    obtain ⟨ss, st, ef⟩ := (All2.getElem? hfin).2 k g _ hk (List.getElem?_eq_getElem hkd)
    rw [e, ef]
    exact ⟨(segFinish_fields _ _ _ _).2.1, (segFinish_fields _ _ _ _).2.2.1⟩
  have k1 : (putBack segs1 done).mapM (calcSegAlign L) = .ok (putBack segs1 done) := by
    apply mapM_ok_self
    intro g2 hg2
    rw [putBack_eq_map] at hg2
    obtain ⟨g, hg, rfl⟩ := List.mem_map.1 hg2
    obtain ⟨bs, ba⟩ := hback g hg
    apply calcSegAlign_fix
    intro idx hi
    rw [bs] at hi
    obtain ⟨k, hk⟩ := List.getElem?_of_mem hg
    have hk' : k < o1.segs.length := by
      rw [← fa.1]
      rcases Nat.lt_or_ge k segs1.length with hlt | hge
      · exact hlt
      · rw [List.getElem?_eq_none hge] at hk; cases hk
    have hca := fa.2 k o1.segs[k] g (List.getElem?_eq_getElem hk') hk
    have hsecs := (calcSegAlign_frame (c := o1.cls) hca).1.secs
    obtain ⟨s, hs0, hle⟩ := calcSegAlign_ge hca idx (by rw [← hsecs]; exact hi)
    have hiL : idx.toNat < L.length := by
      rw [hLlen]
      rcases Nat.lt_or_ge idx.toNat o1.secs.length with hlt | hge
      · exact hlt
      · rw [List.getElem?_eq_none hge] at hs0; cases hs0
    have hpl : Placed o.cls s L[idx.toNat] :=
      (FrameL.trans (R := Placed o.cls) (fun _ _ _ => Placed.trans) fsec fL).2 _ _ _ hs0
        (List.getElem?_eq_getElem hiL)
    refine ⟨L[idx.toNat], List.getElem?_eq_getElem hiL, ?_⟩
    rw [ba, hpl.frame.rest]; exact hle
  -- B. the order of the finished segments
  have hrunR : RunOkR o.cls o.enc h0 (saveLay0 o1 h0) ordered := by
    have := hrs segs1 ordered (by rw [ho1]; exact h1) h2
    rw [ho1, hh0] at this; exact this
  have hrun0 : RunOkC o.cls o.enc h0 (saveLay0 o1 h0) ordered := hrunR.toC
  have hmapped : orderedSegments (segs1.map (backFn done)) = .ok (ordered.map (backFn done)) := by
    rcases hz with hzA | hzB
    · have hz1 : NoZeroOffset segs1 := by
        intro g hg
        obtain ⟨g0, hg0, e1, e2, -, -⟩ := hsrc g hg
        rw [e1, e2]; exact hzA g0 hg0
      have hz2 : NoZeroOffset (segs1.map (backFn done)) := by
        have hnzd : NoZeroOffset done :=
          SegRun.nonzero_cls run hrun0 (fun g hg => hz1 g ((hperm.mem_iff).1 hg))
        intro g2 hg2
        obtain ⟨g, hg, rfl⟩ := List.mem_map.1 hg2
        unfold backFn
        cases hfd : done.find? (fun d => d.index == g.index) with
        | none => exact hz1 g hg
        | some d => exact hnzd d (List.mem_of_find?_eq_some hfd)
      exact orderedSegments_map (backFn done) (fun g hg => (hback g hg).1) hz1 hz2 h2
    · have hset1 : AllOffsetSet ordered := by
        refine ⟨fun g hg => ?_, fun g hg hph => ?_⟩
        · obtain ⟨g0, hg0, -, e2, -, -⟩ := hsrc g ((hperm.mem_iff).1 hg)
          rw [e2]; exact hzB.1 g0 hg0
        · obtain ⟨g0, hg0, e1, -, e3, e4⟩ := hsrc g ((hperm.mem_iff).1 hg)
          rw [e1]; rw [e3, e4] at hph; exact hzB.2 g0 hg0 hph
      have hfront := SegRun.front_cls run hrun0 hset1
      refine orderedSegments_map_front (backFn done) (fun g hg => (hback g hg).1) (fun g hg => ?_) h2
      obtain ⟨k, hk, hkd, e⟩ := hbackk g hg
      obtain ⟨q1, q2⟩ := (All2.getElem? hfront).2 k g _ hk (List.getElem?_eq_getElem hkd)
      have hgs : g.offsetSet = true := hset1.1 g ((hperm.mem_iff).2 hg)
      unfold FrontKey
      rw [e, q1, q2, hgs]
      exact ⟨rfl, rfl⟩
  have k2 : orderedSegments (putBack segs1 done) = .ok done := by
    rw [putBack_eq_map, hmapped, hmapO]
  -- C. the segment loop, in step
  have hlk0 : LockL L (saveLay0 o1 h0) (saveLay0 T.obj h0) := by
    refine ⟨esecs, ?_, ?_⟩
    · show savePos0 T.obj h0 = savePos0 o1 h0
      unfold savePos0; rw [ecls, eenc]
    · show List.replicate (T.obj.secs.length % 65536) false = List.replicate (o1.secs.length % 65536) false
      rw [esecs, hLlen]
  have hFL : FutL L lay := by
    refine ⟨fL.1, fun i hi => ?_⟩
    have hmem : withoutSegment (putBack segs1 done) i = false := by
      rcases SegRun.gen_member run i hi with h0g | ⟨g, hg, idx, hidxm, e⟩
      · have : (List.replicate (o1.secs.length % 65536) false)[i]? = some true := h0g
        rw [List.getElem?_replicate] at this
        split at this <;> cases this
      · have hg1 : g ∈ segs1 := (hperm.mem_iff).1 hg
        rw [withoutSegment_eq]
        simp only [Bool.not_eq_false', List.any_eq_true]
        refine ⟨backFn done g, ?_, idx, by rw [(hback g hg1).1]; exact hidxm, by simpa using e⟩
        rw [putBack_eq_map]; exact List.mem_map_of_mem hg1
    have : L = (looseSpec o1.cls (putBack segs1 done) lay.secs 0 lay.pos).1 := by
      rw [← eL, layoutLoose_eq]; rfl
    rw [this, looseSpec_getElem?_member _ _ _ 0 _ i (by rw [Nat.zero_add]; exact hmem)]
  obtain ⟨lay2E, k3, lkE⟩ := segRun_resave_run (acc := []) run hFL hrunR hlk0
  simp only [List.nil_append] at k3
  refine ⟨?_, ?_, ?_⟩
  · -- D. the second save, rebuilt from its phases
    have hsave := save_of_parts (o := T.obj) (os := os) (segs1 := putBack segs1 done) (ordered := done)
      (lay := lay2E) (done := done) ehdr hf
      (by rw [hpre2, esegs, esecs]; exact k1)
      k2
      (by rw [hpre2, eh, ecls, eenc, hcls, henc]; exact k3)
    rw [hsave, hpre2, eh]
    congr 1
    refine (saveTail_congr' ecls eenc etr estr (putBack_idem segs1 done) ?_).trans hT
    rw [lkE.secs, lkE.pos, layoutLoose_eq, layoutLoose_eq]
    have eL' : L = (looseSpec o1.cls (putBack segs1 done) lay.secs 0 lay.pos).1 := by
      rw [← eL, layoutLoose_eq]; rfl
    rw [eL', looseSpec_idem]
  · -- members have their address marked as set
    have hP0 : GenSet (saveLay0 o1 h0) := by
      intro i b hg _ _
      have : (List.replicate (o1.secs.length % 65536) false)[i]? = some true := hg
      rw [List.getElem?_replicate] at this
      split at this <;> cases this
    obtain ⟨hPE, hgenE⟩ := SegRun.genSet run hP0
    intro g' hg' idx hi b hb hnn
    rw [esegs, putBack_eq_map] at hg'
    obtain ⟨g, hg, rfl⟩ := List.mem_map.1 hg'
    rw [(hback g hg).1] at hi
    have hgen := hgenE g ((hperm.mem_iff).2 hg) idx hi
    rw [esecs, hFL.2 _ hgen] at hb
    exact hPE _ b hgen hb hnn
  · -- every segment has been laid out
    intro g' hg'
    rw [esegs, putBack_eq_map] at hg'
    obtain ⟨g, hg, rfl⟩ := List.mem_map.1 hg'
    obtain ⟨k, hk, hkd, e⟩ := hbackk g hg
    obtain ⟨ss, st, ef⟩ := (All2.getElem? hfin).2 k g _ hk (List.getElem?_eq_getElem hkd)
    rw [e, ef]
    exact (segFinish_fields _ _ _ _).2.2.2.2.1

/-! ### a Bool-valued sufficient condition -/

def stepNoWrapB (g : Seg) (ss : BitVec 64) (st : WsdSt) (idx : BitVec 16) : Bool :=
  match st.lay.secs[idx.toNat]?, st.lay.gen[idx.toNat]? with
  | some sec, some false =>
    sec.addrSet ||
      match stepGap g ss sec false st.lay.pos st.file with
      | some gap => decide (ss.toNat ≤ st.lay.pos.toNat) &&
          decide (st.lay.pos.toNat + gap.toNat < 18446744073709551616)
      | none => true
  | _, _ => true

theorem stepNoWrap_of_B {g : Seg} {ss : BitVec 64} {st : WsdSt} {idx : BitVec 16}
    (h : stepNoWrapB g ss st idx = true) : StepNoWrap g ss st idx := by
  intro sec hs hg ha gap hgap
  unfold stepNoWrapB at h
  rw [hs, hg] at h
  simp only [ha, Bool.false_or, hgap, Bool.and_eq_true, decide_eq_true_eq] at h
  exact h

def loopOkRB (c : Cls) (g : Seg) (ss : BitVec 64) : List (BitVec 16) → WsdSt → Bool
  | [], _ => true
  | idx :: rest, st =>
    stepOkB c g ss st idx && stepNoWrapB g ss st idx &&
      match wsdStep c g ss st idx with
      | .ok (some st') => loopOkRB c g ss rest st'
      | _ => true

def segOkRB (c : Cls) (phoff : BitVec 64) (pe pn : BitVec 16) (lay : Layout) (g : Seg) : Bool :=
  match segStartOf phoff pe pn lay g with
  | .ok p =>
    (lseg_offset0 g.offsetSet g.offset || p.2.1 != 0) && truncA c p.2.1 == p.2.1 &&
      loopOkRB c g p.2.1 g.secs { lay := p.1, mem := p.2.2.1, file := p.2.2.2 }
  | _ => true

def runOkRB (c : Cls) (e : Enc) (h0 : Bytes) : Layout → List Seg → Bool
  | _, [] => true
  | lay, g :: rest =>
    segOkRB c (Hdr.e_phoff c e h0) (Hdr.e_phentsize c e h0) (Hdr.e_phnum c e h0) lay g &&
      match layoutSegment c (Hdr.e_phoff c e h0) (Hdr.e_phentsize c e h0) (Hdr.e_phnum c e h0) lay g with
      | .ok (some (lay', _)) => runOkRB c e h0 lay' rest
      | _ => true

/-- `ResaveOkR`, evaluated -/
def resaveOkRB (o : Obj) (hd : Bytes) : Bool :=
  match (preRes o).segs.mapM (calcSegAlign (preRes o).secs) with
  | .ok segs1 =>
    match orderedSegments segs1 with
    | .ok ordered =>
      runOkRB o.cls o.enc (saveHdr0 (preRes o) hd) (saveLay0 (preRes o) (saveHdr0 (preRes o) hd)) ordered
    | _ => true
  | _ => true

theorem loopOkR_of_B {c : Cls} {g : Seg} {ss : BitVec 64} (l : List (BitVec 16)) {st : WsdSt}
    (h : loopOkRB c g ss l st = true) : LoopOkR c g ss l st := by
  induction l generalizing st with
  | nil => trivial
  | cons idx rest ih =>
    unfold loopOkRB at h
    simp only [Bool.and_eq_true] at h
    refine ⟨⟨stepOkC_of_B h.1.1, stepNoWrap_of_B h.1.2⟩, fun st' hs => ?_⟩
    have h2 := h.2
    rw [hs] at h2
    exact ih h2

theorem segOkR_of_B {c : Cls} {phoff : BitVec 64} {pe pn : BitVec 16} {lay : Layout} {g : Seg}
    (h : segOkRB c phoff pe pn lay g = true) : SegOkR c phoff pe pn lay g := by
  intro p hp
  unfold segOkRB at h
  rw [hp] at h
  simp only [Bool.and_eq_true, Bool.or_eq_true, bne_iff_ne, ne_eq, beq_iff_eq] at h
  obtain ⟨⟨h1, h2⟩, h3⟩ := h
  refine ⟨fun h0 => ?_, h2, loopOkR_of_B _ h3⟩
  rcases h1 with h1 | h1
  · rw [h0] at h1; cases h1
  · exact h1

theorem runOkR_of_B {c : Cls} {e : Enc} {h0 : Bytes} (l : List Seg) {lay : Layout}
    (h : runOkRB c e h0 lay l = true) : RunOkR c e h0 lay l := by
  induction l generalizing lay with
  | nil => trivial
  | cons g rest ih =>
    unfold runOkRB at h
    simp only [Bool.and_eq_true] at h
    refine ⟨segOkR_of_B h.1, fun lay' d hd' => ?_⟩
    have h2 := h.2
    rw [hd'] at h2
    exact ih h2

theorem resaveOkR_of_B {o : Obj} {hd : Bytes} (h : resaveOkRB o hd = true) : ResaveOkR o hd := by
  intro segs1 ordered h1 h2
  unfold resaveOkRB at h
  rw [h1] at h
  simp only at h
  rw [h2] at h
  exact runOkR_of_B _ h

/-- non-vacuity: the ELF32 object of Props/C06Cls.lean (PT_LOAD, nested segment, loose section) and the
    loader-like object with a PT_LOAD at offset 0 meet `ResaveOkR`; by `save_twice_runs` their second
    save succeeds with the same result -/
theorem exObj32_runs : ResaveOkR exObj32 exHdr32 ∧ ResaveOkR exLoadedLike exHdr64 :=
  ⟨resaveOkR_of_B (by decide +kernel), resaveOkR_of_B (by decide +kernel)⟩

example : ∀ r, save exObj32 {} = .ok r → r.ok = true → save r.obj {} = .ok r := by
  intro r hs hok
  obtain ⟨h1, h2, h3, h4, _, _⟩ := exObj32_resave
  exact (save_twice_runs h1 h2 h3 (Or.inl h4) exObj32_runs.1 hs hok).1

end ElfioVerif.C06
