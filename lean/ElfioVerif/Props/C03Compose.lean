/-
C03 ∘ C04 — `LayoutOk` discharged.

`C03.save_decode_fields` (Props/C03.lean) takes the layout fact `LayoutOk` — "the byte ranges `save`
writes are pairwise disjoint and below 2^63" — as a hypothesis.  Here it is derived from C04's
`layout_disjoint` (Props/C04.lean) through `layoutOk_of_zones`, so that what remains are the success
of `save` and decidable predicates on the *input* object:

  * C04's hypotheses: fewer than 2^16 sections, no file-occupying section with index 0, no
    wrap-around of the file cursor (`layoutNW (preSave o) hdr`);
  * table bookkeeping `TablesOk o hdr`, true of every created or loaded object: the header buffer has
    `sizeof(Ehdr)` bytes and says so in `e_ehsize`, `e_shentsize`/`e_phentsize` are at least the record
    sizes of the class, fewer than 2^16 segments, sections and segments carry their position as index;
  * the size assumption `fileSmallB o hdr`: the section header table (offset computed by the layout,
    `layoutOf`) ends below 2^63 (`std::streamoff` is signed) and its offset fits `e_shoff`.
-/
import ElfioVerif.Props.C03
import ElfioVerif.Props.C04
import ElfioVerif.Props.C05
namespace ElfioVerif.C03
open ElfioVerif Gen Sv

/-! ### the two developments use the same header and the same pre-save object -/

theorem saveHdr0_eq (o : Obj) (h : Bytes) : ElfioVerif.saveHdr0 o h = Sv.saveHdr0 o h := rfl
theorem preSave_eq (o : Obj) : preSave o = preRes o := rfl

/-! ### bookkeeping hypotheses on the input object -/

/-- table bookkeeping of the object to be saved (all decidable; true of every object made by
    `create` + `sections.add` + `segments.add` and of every loaded object) -/
structure TablesOk (o : Obj) (hdr : Bytes) : Prop where
  hdrLen : hdr.length = ehdrSize o.cls
  ehsize : (Hdr.e_ehsize o.cls o.enc hdr).toNat = ehdrSize o.cls
  shentsize : shdrSize o.cls ≤ (Hdr.e_shentsize o.cls o.enc hdr).toNat
  phentsize : phdrSize o.cls ≤ (Hdr.e_phentsize o.cls o.enc hdr).toNat
  nsegs : o.segs.length < 65536
  segIdx : SegIdxOk o.segs
  secIdx : C05.SecIdxOk o.secs

/-- `TablesOk` as a Bool (for `decide` on concrete objects) -/
def tablesOkB (o : Obj) (hdr : Bytes) : Bool :=
  decide (hdr.length = ehdrSize o.cls) && decide ((Hdr.e_ehsize o.cls o.enc hdr).toNat = ehdrSize o.cls) &&
  decide (shdrSize o.cls ≤ (Hdr.e_shentsize o.cls o.enc hdr).toNat) &&
  decide (phdrSize o.cls ≤ (Hdr.e_phentsize o.cls o.enc hdr).toNat) &&
  decide (o.segs.length < 65536) &&
  (o.segs.zipIdx.all fun p => p.1.index == p.2) && (o.secs.zipIdx.all fun p => p.1.index == p.2)

theorem idx_of_zipIdx_all {α} (f : α → Nat) (l : List α) (h : (l.zipIdx.all fun p => f p.1 == p.2) = true) :
    ∀ (k : Nat) a, l[k]? = some a → f a = k := by
  intro k a hk
  rw [List.all_eq_true] at h
  have hm : (a, k) ∈ l.zipIdx := by
    rw [List.mem_zipIdx_iff_getElem?]; simpa using hk
  simpa using h (a, k) hm

theorem tablesOk_of_B (o : Obj) (hdr : Bytes) (h : tablesOkB o hdr = true) : TablesOk o hdr := by
  unfold tablesOkB at h
  simp only [Bool.and_eq_true, decide_eq_true_eq] at h
  obtain ⟨⟨⟨⟨⟨⟨h1, h2⟩, h3⟩, h4⟩, h5⟩, h6⟩, h7⟩ := h
  exact ⟨h1, h2, h3, h4, h5, idx_of_zipIdx_all Seg.index _ h6, idx_of_zipIdx_all SecBuf.index _ h7⟩

/-- the size assumption: the section header table computed by the layout ends below 2^63 and its
    offset fits the class's `e_shoff` -/
def fileSmallB (o : Obj) (hdr : Bytes) : Bool :=
  match layoutOf (preSave o) hdr with
  | .ok (some res) =>
    fitsB o.cls res.shoff &&
      decide (res.shoff.toNat + (Hdr.e_shentsize o.cls o.enc hdr).toNat * o.secs.length < 9223372036854775808)
  | _ => true

/-! ### the header `save` leaves -/

/-- getters of the header after the four preliminary setters of `save` -/
theorem saveHdr0_getters (o : Obj) (hdr : Bytes) (hl : ehdrSize o.cls ≤ hdr.length) :
    ehdrSize o.cls ≤ (ElfioVerif.saveHdr0 o hdr).length ∧
    Hdr.e_ehsize o.cls o.enc (ElfioVerif.saveHdr0 o hdr) = Hdr.e_ehsize o.cls o.enc hdr ∧
    Hdr.e_phentsize o.cls o.enc (ElfioVerif.saveHdr0 o hdr) = Hdr.e_phentsize o.cls o.enc hdr ∧
    Hdr.e_shentsize o.cls o.enc (ElfioVerif.saveHdr0 o hdr) = Hdr.e_shentsize o.cls o.enc hdr ∧
    (Hdr.e_phnum o.cls o.enc (ElfioVerif.saveHdr0 o hdr)).toNat = o.segs.length % 65536 ∧
    (Hdr.e_phoff o.cls o.enc (ElfioVerif.saveHdr0 o hdr)).toNat =
      (if o.segs.length % 65536 > 0 then (Hdr.e_ehsize o.cls o.enc hdr).toNat else 0) := by
  unfold ElfioVerif.saveHdr0
  simp only
  generalize hv : (if o.segs.length % 65536 > 0 then
    (Hdr.e_ehsize o.cls o.enc (Hdr.set_phnum o.cls o.enc hdr (o.segs.length % 65536))).toNat else 0) = v
  have len : ∀ (f : HField) h' v', ehdrSize o.cls ≤ h'.length → ehdrSize o.cls ≤ (f.set o.cls o.enc h' v').length :=
    fun f h' v' hl' => by rw [hdr_set_length f o.cls o.enc h' v' hl']; exact hl'
  have l1 := len .phnum hdr (o.segs.length % 65536) hl
  have l2 := len .phoff _ v l1
  have l3 := len .shnum _ (o.secs.length % 65536) l2
  have l4 := len .shoff _ 0 l3
  have f1 := hdr_set_frame .phnum o.cls o.enc hdr (o.segs.length % 65536) hl
  have f2 := hdr_set_frame .phoff o.cls o.enc _ v l1
  have f3 := hdr_set_frame .shnum o.cls o.enc _ (o.secs.length % 65536) l2
  have f4 := hdr_set_frame .shoff o.cls o.enc _ 0 l3
  have eeh : Hdr.e_ehsize o.cls o.enc (Hdr.set_phnum o.cls o.enc hdr (o.segs.length % 65536)) =
      Hdr.e_ehsize o.cls o.enc hdr := f1.2.2.2.2.2.2.2.1 (by decide)
  rw [eeh] at hv
  refine ⟨l4, ?_, ?_, ?_, ?_, ?_⟩
  · exact (f4.2.2.2.2.2.2.2.1 (by decide)).trans ((f3.2.2.2.2.2.2.2.1 (by decide)).trans
      ((f2.2.2.2.2.2.2.2.1 (by decide)).trans eeh))
  · exact (f4.2.2.2.2.2.2.2.2.1 (by decide)).trans ((f3.2.2.2.2.2.2.2.2.1 (by decide)).trans
      ((f2.2.2.2.2.2.2.2.2.1 (by decide)).trans (f1.2.2.2.2.2.2.2.2.1 (by decide))))
  · exact (f4.2.2.2.2.2.2.2.2.2.2.1 (by decide)).trans ((f3.2.2.2.2.2.2.2.2.2.2.1 (by decide)).trans
      ((f2.2.2.2.2.2.2.2.2.2.2.1 (by decide)).trans (f1.2.2.2.2.2.2.2.2.2.2.1 (by decide))))
  · have g := (hdr_set_get o.cls o.enc hdr (o.segs.length % 65536) hl).2.2.2.2.2.2.2.1
    have e := (f4.2.2.2.2.2.2.2.2.2.1 (by decide)).trans ((f3.2.2.2.2.2.2.2.2.2.1 (by decide)).trans
      (f2.2.2.2.2.2.2.2.2.2.1 (by decide)))
    exact (congrArg BitVec.toNat e).trans (g.trans (Nat.mod_mod _ _))
  · have g := (hdr_set_get o.cls o.enc (Hdr.set_phnum o.cls o.enc hdr (o.segs.length % 65536)) v l1).2.2.2.2.1
    have e := (f4.2.2.2.2.1 (by decide)).trans (f3.2.2.2.2.1 (by decide))
    have hvlt : v < 65536 := by
      rw [← hv]; have := (Hdr.e_ehsize o.cls o.enc hdr).isLt
      split <;> omega
    have e' := (congrArg BitVec.toNat e).trans g
    refine Eq.trans e' ?_
    rw [hv]
    split <;> omega

/-- `set_sections_offset` leaves the other getters alone -/
theorem set_shoff_getters (c : Cls) (enc : Enc) (h : Bytes) (x : Nat) (hl : ehdrSize c ≤ h.length) :
    (Hdr.set_shoff c enc h x).length = h.length ∧
    Hdr.e_ehsize c enc (Hdr.set_shoff c enc h x) = Hdr.e_ehsize c enc h ∧
    Hdr.e_phentsize c enc (Hdr.set_shoff c enc h x) = Hdr.e_phentsize c enc h ∧
    Hdr.e_shentsize c enc (Hdr.set_shoff c enc h x) = Hdr.e_shentsize c enc h ∧
    Hdr.e_phnum c enc (Hdr.set_shoff c enc h x) = Hdr.e_phnum c enc h ∧
    Hdr.e_phoff c enc (Hdr.set_shoff c enc h x) = Hdr.e_phoff c enc h := by
  have f := hdr_set_frame .shoff c enc h x hl
  exact ⟨hdr_set_length .shoff c enc h x hl, f.2.2.2.2.2.2.2.1 (by decide), f.2.2.2.2.2.2.2.2.1 (by decide),
    f.2.2.2.2.2.2.2.2.2.2.1 (by decide), f.2.2.2.2.2.2.2.2.2.1 (by decide), f.2.2.2.2.1 (by decide)⟩

/-! ### list bookkeeping -/

theorem pairwise_of_idx {α} (f : α → Nat) (l : List α) (h : ∀ (k : Nat) a, l[k]? = some a → f a = k) :
    l.Pairwise (fun a b => f a ≠ f b) := by
  rw [List.pairwise_iff_getElem]
  intro i j hi hj hij
  rw [h i _ (List.getElem?_eq_getElem hi), h j _ (List.getElem?_eq_getElem hj)]
  omega

theorem pairwise_of_getElem? {α} (R : α → α → Prop) (l : List α)
    (h : ∀ (i j : Nat) a b, i ≠ j → l[i]? = some a → l[j]? = some b → R a b) : l.Pairwise R := by
  rw [List.pairwise_iff_getElem]
  intro i j hi hj hij
  exact h i j _ _ (by omega) (List.getElem?_eq_getElem hi) (List.getElem?_eq_getElem hj)

theorem written_occ {b : SecBuf} (h : Written b) : b.Occ := ⟨h.1, h.2.1, h.2.2.1⟩

/-- the saved sections and segments carry their position as index -/
theorem save_indices {o : Obj} {os : OStream} {r : SaveRes} (hs : save o os = .ok r) (hok : r.ok = true)
    (hidx : SegIdxOk o.segs) (hsidx : C05.SecIdxOk o.secs) :
    r.obj.secs.length = o.secs.length ∧ r.obj.segs.length = o.segs.length ∧
    (∀ (k : Nat) b, r.obj.secs[k]? = some b → b.index = k) ∧
    (∀ (k : Nat) g, r.obj.segs[k]? = some g → g.index = k) ∧
    r.obj.cls = o.cls ∧ r.obj.enc = o.enc := by
  obtain ⟨fsec, fseg, ec, ee, _⟩ := C05.save_writes_fields hs hok hidx
  refine ⟨fsec.1, fseg.1, ?_, ?_, ec, ee⟩
  · intro k b hb
    have hk : k < o.secs.length := by
      rw [← fsec.1]
      rcases Nat.lt_or_ge k r.obj.secs.length with h | h
      · exact h
      · rw [List.getElem?_eq_none h] at hb; cases hb
    have ha := List.getElem?_eq_getElem hk
    have sv := fsec.2 k _ b ha hb
    rw [sv.fields.2.2.2.2.2.2.2.2.2.1]
    exact hsidx k _ ha
  · intro k g hg
    have hk : k < o.segs.length := by
      rw [← fseg.1]
      rcases Nat.lt_or_ge k r.obj.segs.length with h | h
      · exact h
      · rw [List.getElem?_eq_none h] at hg; cases hg
    have ha := List.getElem?_eq_getElem hk
    have sg := fseg.2 k _ g ha hg
    rw [sg.frame.index]
    exact hidx k _ ha

/-! ### `LayoutOk` for every successful save on C04's hypotheses -/

/-- **`LayoutOk` from C04.**  For every object on which `save` succeeds, under C04's explicit
    hypotheses (fewer than 2^16 sections; no file-occupying section with index 0; no cursor
    wrap-around `layoutNW`), the table bookkeeping `TablesOk` and the size assumption `fileSmallB`:
    the writes of `save` — ELF header, section header records, section data, program header
    records — are pairwise disjoint and below 2^63.  (`layout_disjoint` + `layoutOk_of_zones`.) -/
theorem layoutOk_of_save {o : Obj} {os : OStream} {r : SaveRes} {hdr : Bytes}
    (hs : save o os = .ok r) (hok : r.ok = true) (hh : o.hdr = some hdr)
    (hn : o.secs.length < 65536)
    (h0 : ∀ (i : Nat) (s : SecBuf), o.secs[i]? = some s → s.Occ → s.index ≠ 0)
    (hnw : layoutNW (preSave o) hdr = true)
    (ht : TablesOk o hdr) (hsm : fileSmallB o hdr = true) :
    ∃ h, r.obj.hdr = some h ∧ h.length = hdr.length ∧
      LayoutOk r.obj.cls r.obj.enc h r.obj.secs r.obj.segs := by
  have hl : ehdrSize o.cls ≤ hdr.length := by rw [ht.hdrLen]; exact Nat.le_refl _
  -- the header of the saved object
  obtain ⟨hdr', hdrF, hh', hF, hFeq, -, -, -⟩ := save_stream o os r hs hok
  rw [hh] at hh'; simp only [Option.some.injEq] at hh'; subst hh'
  rw [saveHdr0_preSave] at hFeq
  obtain ⟨l0, g1, g2, g3, g4, g5⟩ := saveHdr0_getters o hdr hl
  obtain ⟨s0, s1, s2, s3, s4, s5⟩ := set_shoff_getters o.cls o.enc (ElfioVerif.saveHdr0 o hdr) r.obj.curPos.toNat l0
  rw [← hFeq] at s0 s1 s2 s3 s4 s5
  have hlenF : hdrF.length = hdr.length := by rw [s0]; exact saveHdr0_length o hdr hl
  -- the size assumption, on the saved object
  obtain ⟨res, hlay, -, hcur, -⟩ := C04.save_secs_hdr o os r hdr hs hok hh
  unfold fileSmallB at hsm
  rw [hlay] at hsm
  simp only [Bool.and_eq_true, decide_eq_true_eq] at hsm
  rw [← hcur] at hsm
  obtain ⟨hfit, hsmall⟩ := hsm
  have hsho : Hdr.e_shoff o.cls o.enc hdrF = r.obj.curPos := by
    rw [hFeq]; exact e_shoff_set_shoff _ _ _ _ l0 hfit
  -- C04
  obtain ⟨hin, hdisj, hlt, -⟩ := C04.layout_disjoint o os r hdr hs hok hh hn h0 hnw
  rw [g1, g2] at hin hlt
  obtain ⟨nsec, nseg, isec, iseg, ec, ee⟩ := save_indices hs hok ht.segIdx ht.secIdx
  refine ⟨hdrF, hF, hlenF, ?_⟩
  rw [ec, ee]
  have ephnum : (Hdr.e_phnum o.cls o.enc hdrF).toNat = o.segs.length := by
    rw [s4, g4]; exact Nat.mod_eq_of_lt ht.nsegs
  apply layoutOk_of_zones o.cls o.enc hdrF r.obj.secs r.obj.segs (Hdr.e_ehsize o.cls o.enc hdr).toNat
    ((Hdr.e_phentsize o.cls o.enc hdr).toNat * (Hdr.e_phnum o.cls o.enc (ElfioVerif.saveHdr0 o hdr)).toNat)
  · rw [hlenF, ht.hdrLen, ht.ehsize]; exact Nat.le_refl _
  · rw [s3, g3]; exact ht.shentsize
  · rw [s2, g2]; exact ht.phentsize
  · -- program header records lie inside the program header table
    intro g hg
    obtain ⟨k, hk⟩ := List.getElem?_of_mem hg
    have hgi := iseg k g hk
    have hklt : k < o.segs.length := by
      rw [← nseg]
      rcases Nat.lt_or_ge k r.obj.segs.length with h | h
      · exact h
      · rw [List.getElem?_eq_none h] at hk; cases hk
    have hpos : o.segs.length % 65536 > 0 := by rw [Nat.mod_eq_of_lt ht.nsegs]; omega
    have ephoff : (Hdr.e_phoff o.cls o.enc hdrF).toNat = (Hdr.e_ehsize o.cls o.enc hdr).toNat := by
      rw [s5, g5, if_pos hpos]
    rw [ephoff, s2, g2, g4, Nat.mod_eq_of_lt ht.nsegs, hgi]
    have hpe := ht.phentsize
    have hm : (Hdr.e_phentsize o.cls o.enc hdr).toNat * k + (Hdr.e_phentsize o.cls o.enc hdr).toNat ≤
        (Hdr.e_phentsize o.cls o.enc hdr).toNat * o.segs.length := by
      rw [← Nat.mul_succ]; exact Nat.mul_le_mul_left _ hklt
    omega
  · exact pairwise_of_idx Seg.index _ iseg
  · exact pairwise_of_idx SecBuf.index _ isec
  · intro b hb hw
    obtain ⟨k, hk⟩ := List.getElem?_of_mem hb
    have := hin k b hk (written_occ hw)
    unfold SecBuf.endN at this
    rw [hsho]; exact this
  · apply pairwise_of_getElem?
    intro i j a b hij ha hb wa wb
    have := hdisj i j a b hij ha hb (written_occ wa) (written_occ wb)
    unfold SecBuf.endN at this
    exact this
  · intro b hb
    obtain ⟨k, hk⟩ := List.getElem?_of_mem hb
    have hbi := isec k b hk
    have hklt : k < o.secs.length := by
      rw [← nsec]
      rcases Nat.lt_or_ge k r.obj.secs.length with h | h
      · exact h
      · rw [List.getElem?_eq_none h] at hk; cases hk
    rw [hsho, s3, g3, hbi]
    have hse := ht.shentsize
    have hm : (Hdr.e_shentsize o.cls o.enc hdr).toNat * k + (Hdr.e_shentsize o.cls o.enc hdr).toNat ≤
        (Hdr.e_shentsize o.cls o.enc hdr).toNat * o.secs.length := by
      rw [← Nat.mul_succ]; exact Nat.mul_le_mul_left _ hklt
    omega
  · rw [s5, g5]
    have := (Hdr.e_ehsize o.cls o.enc hdr).isLt
    split <;> omega
  · rw [hsho]; omega
  · rw [hsho]; omega

/-! ### the saved segments fit the class's fields (ELF32) -/

theorem calcSegAlign_align_fold {secs : List SecBuf} (P : BitVec 64 → Prop) (hs : ∀ s ∈ secs, P s.addrAlign)
    (l : List (BitVec 16)) {g g' : Seg} (hg : P g.align)
    (h : l.foldlM (fun g idx =>
      match secs[idx.toNat]? with
      | none => (throw (Fault.vecOob "calc_segment_alignment/sections_[index]") : M Seg)
      | some s => pure (if BitVec.ult g.align s.addrAlign then { g with align := s.addrAlign } else g)) g = .ok g') :
    P g'.align := by
  induction l generalizing g with
  | nil => simp only [List.foldlM_nil, pure, Except.pure] at h; cases h; exact hg
  | cons idx rest ih =>
    simp only [List.foldlM_cons, bind, Except.bind] at h
    cases hsec : secs[idx.toNat]? with
    | none => rw [hsec] at h; cases h
    | some s =>
      rw [hsec] at h
      simp only [pure, Except.pure] at h
      refine ih ?_ h
      split
      · exact hs s (List.mem_of_getElem? hsec)
      · exact hg

theorem segFinish_paddr (c : Cls) (g : Seg) (ss : BitVec 64) (st : WsdSt) :
    (ElfioVerif.segFinish c g ss st).paddr = g.paddr := by
  unfold ElfioVerif.segFinish
  simp only
  split <;> rfl

/-- **the saved segments fit the class** (ELF32; trivial in ELF64): `offset`, `filesz` and a changed
    `memsz` are stored through the truncating setters, `align` is the old one or a member's
    alignment, the rest is untouched -/
theorem save_segFit {o : Obj} {os : OStream} {r : SaveRes} {hdr : Bytes}
    (hs : save o os = .ok r) (hok : r.ok = true) (hh : o.hdr = some hdr)
    (hn : o.secs.length < 65536)
    (h0 : ∀ (i : Nat) (s : SecBuf), o.secs[i]? = some s → s.Occ → s.index ≠ 0)
    (hnw : layoutNW (preSave o) hdr = true) (hnd : (o.segs.map (·.index)).Nodup)
    (hfit : ∀ a ∈ o.secs, FieldsFit o.cls a) (hsegfit : ∀ g ∈ o.segs, SegFit o.cls g) :
    ∀ g ∈ r.obj.segs, SegFit o.cls g := by
  intro g' hg'
  obtain ⟨res, hl, hsegs, -, -⟩ := C04.save_secs_hdr o os r hdr hs hok hh
  rw [hsegs] at hg'
  have hn' : (preSave o).secs.length < 65536 := by rw [preSave_length]; exact hn
  have h0' := preSave_h0 o h0
  obtain ⟨t, ht, rfl⟩ := final_segs_turn (preSave o) hdr res hl hnw hn' h0' hnd g' hg'
  obtain ⟨e1, -, e3⟩ := layoutOf_trace (preSave o) hdr res hl hnw hn' h0'
  obtain ⟨f1, -, -, -, -, -⟩ := e3 t ht
  obtain ⟨fg, ri, st, -, -, -, -, hfin⟩ := layoutSegment_parts _ _ _ _ _ _ _ _ f1
  obtain ⟨-, -, hmap, hord, -, -, -, -⟩ := layoutOf_parts (preSave o) hdr res hl
  have hto : t.g ∈ res.ordered := by rw [← e1]; exact List.mem_map_of_mem ht
  have ht0 : t.g ∈ res.segs0 := ((ElfioVerif.orderedSegments_perm _ _ hord).mem_iff).1 hto
  obtain ⟨k, hk⟩ := List.getElem?_of_mem ht0
  have fr := mapM_ok_frame hmap
  have hklt : k < (preSave o).segs.length := by
    rw [← fr.1]
    rcases Nat.lt_or_ge k res.segs0.length with h | h
    · exact h
    · rw [List.getElem?_eq_none h] at hk; cases hk
  have hcalc := fr.2 k _ _ (List.getElem?_eq_getElem hklt) hk
  have hg0 : (preSave o).segs[k] ∈ o.segs := List.getElem_mem hklt
  have sf0 := hsegfit _ hg0
  have hflds := calcSegAlign_fields _ _ _ hcalc
  have halign : o.cls = .c32 → t.g.align.toNat < 4294967296 := by
    intro hc
    refine calcSegAlign_align_fold (fun x => x.toNat < 4294967296) ?_ _ (sf0.align hc) hcalc
    intro s hsm
    obtain ⟨j, hj⟩ := List.getElem?_of_mem hsm
    have pf := preRes_frame o
    have hjlt : j < o.secs.length := by
      have : (preSave o).secs.length = o.secs.length := preSave_length o
      rw [← this]
      rcases Nat.lt_or_ge j (preSave o).secs.length with h | h
      · exact h
      · rw [List.getElem?_eq_none h] at hj; cases hj
    have := pf.2 j _ s (List.getElem?_eq_getElem hjlt) hj
    exact (resFrame_fit this (hfit _ (List.getElem_mem hjlt))).addrAlign hc
  obtain ⟨a1, a2, a3, a4, a5, -, -, -⟩ := segFinish_fields (preSave o).cls t.g ri.2.1 st
  have a6 := segFinish_paddr (preSave o).cls t.g ri.2.1 st
  rw [← hfin] at a1 a2 a3 a4 a5 a6
  have ecl : (preSave o).cls = o.cls := rfl
  rw [ecl] at a1 a2 a3
  constructor
  · intro hc; rw [a1]; exact truncA_fit _ _ hc
  · intro hc; rw [a4, hflds]; exact sf0.vaddr hc
  · intro hc; rw [a6, hflds]; exact sf0.paddr hc
  · intro hc; rw [a2]; exact truncA_fit _ _ hc
  · intro hc; rw [a3]
    split
    · exact truncA_fit _ _ hc
    · rw [hflds]; exact sf0.memsz hc
  · intro hc; rw [a5]; exact halign hc

/-! ### the composition -/

/-- the hypotheses of the composed theorems, as one decidable-by-parts bundle on the *input* object -/
structure SaveDomain (o : Obj) (hdr : Bytes) : Prop where
  hdrEq : o.hdr = some hdr
  nsecs : o.secs.length < 65536
  sec0 : ∀ (i : Nat) (s : SecBuf), o.secs[i]? = some s → s.Occ → s.index ≠ 0
  noWrap : layoutNW (preSave o) hdr = true
  tables : TablesOk o hdr
  small : fileSmallB o hdr = true
  noTrans : o.trans = []
  secFit : ∀ a ∈ o.secs, FieldsFit o.cls a
  segFit : ∀ g ∈ o.segs, SegFit o.cls g

theorem nodup_of_segIdx {segs : List Seg} (h : SegIdxOk segs) : (segs.map (·.index)).Nodup := by
  rw [List.nodup_iff_pairwise_ne, List.pairwise_map]
  exact pairwise_of_idx Seg.index _ h

/-- **save_decode_fields_of_save** — `save_decode_fields` with `LayoutOk` discharged from C04:
    for *every* object in `SaveDomain` (any number of sections, flat or nested segments) on which
    `save` into a good stream succeeds, the saved bytes, read with the specification's decoder, give
    back — for every section, in order — name offset, type, flags, size, link, info, alignment, entry
    size, the explicitly given address and the data at the decoded `sh_offset`; for every segment
    type, flags, virtual and physical address, an alignment ≥ the requested one and (ELF64) a memory
    size ≥ the given one. -/
theorem save_decode_fields_of_save {o : Obj} {os : OStream} {r : SaveRes} {hdr : Bytes}
    (hs : save o os = .ok r) (hok : r.ok = true) (hg : os.Good) (hd : SaveDomain o hdr) :
    ∃ h, r.obj.hdr = some h ∧
    (∀ (i : Nat) a, o.secs[i]? = some a →
      let img := r.os.content
      let base := (Hdr.e_shoff o.cls o.enc h).toNat + (Hdr.e_shentsize o.cls o.enc h).toNat * a.index
      let l := Spec.shdrL o.cls
      Spec.get l o.enc img base "sh_name" = a.nameOff.toNat ∧ Spec.get l o.enc img base "sh_type" = a.stype.toNat ∧
      Spec.get l o.enc img base "sh_flags" = a.flags.toNat ∧ Spec.get l o.enc img base "sh_size" = a.size.toNat ∧
      Spec.get l o.enc img base "sh_link" = a.link.toNat ∧ Spec.get l o.enc img base "sh_info" = a.info.toNat ∧
      Spec.get l o.enc img base "sh_addralign" = a.addrAlign.toNat ∧
      Spec.get l o.enc img base "sh_entsize" = a.entSize.toNat ∧
      (a.addrSet = true → Spec.get l o.enc img base "sh_addr" = a.addr.toNat) ∧
      (a.stype ≠ BitVec.ofNat 32 SHT_NOBITS → a.stype ≠ BitVec.ofNat 32 SHT_NULL → a.size ≠ 0 →
        a.data.isSome = true →
        slice img (Spec.get l o.enc img base "sh_offset") a.view.length = a.view)) ∧
    (∀ (j : Nat) g, o.segs[j]? = some g →
      let img := r.os.content
      let base := (Hdr.e_phoff o.cls o.enc h).toNat + (Hdr.e_phentsize o.cls o.enc h).toNat * g.index
      let l := Spec.phdrL o.cls
      Spec.get l o.enc img base "p_type" = g.stype.toNat ∧ Spec.get l o.enc img base "p_flags" = g.flags.toNat ∧
      Spec.get l o.enc img base "p_vaddr" = g.vaddr.toNat ∧ Spec.get l o.enc img base "p_paddr" = g.paddr.toNat ∧
      g.align.toNat ≤ Spec.get l o.enc img base "p_align" ∧
      (o.cls = .c64 → g.memsz.toNat ≤ Spec.get l o.enc img base "p_memsz")) := by
  obtain ⟨h, hh, -, hl⟩ := layoutOk_of_save hs hok hd.hdrEq hd.nsecs hd.sec0 hd.noWrap hd.tables hd.small
  have hsf := save_segFit hs hok hd.hdrEq hd.nsecs hd.sec0 hd.noWrap (nodup_of_segIdx hd.tables.segIdx)
    hd.secFit hd.segFit
  exact ⟨h, hh, save_decode_fields hs hok hg hd.noTrans hd.tables.segIdx hh hl hd.secFit hsf⟩

/-- **save_decode_header_of_save** — the ELF header of the saved file, with `LayoutOk` discharged -/
theorem save_decode_header_of_save {o : Obj} {os : OStream} {r : SaveRes} {hdr : Bytes}
    (hs : save o os = .ok r) (hok : r.ok = true) (hg : os.Good) (hd : SaveDomain o hdr) :
    let img := r.os.content; let l := Spec.ehdrL o.cls
    Spec.get l o.enc img 0 "e_type" = (Hdr.e_type o.cls o.enc hdr).toNat ∧
    Spec.get l o.enc img 0 "e_machine" = (Hdr.e_machine o.cls o.enc hdr).toNat ∧
    Spec.get l o.enc img 0 "e_version" = (Hdr.e_version o.cls o.enc hdr).toNat ∧
    Spec.get l o.enc img 0 "e_entry" = (Hdr.e_entry o.cls o.enc hdr).toNat ∧
    Spec.get l o.enc img 0 "e_flags" = (Hdr.e_flags o.cls o.enc hdr).toNat ∧
    Spec.get l o.enc img 0 "e_ehsize" = (Hdr.e_ehsize o.cls o.enc hdr).toNat ∧
    Spec.get l o.enc img 0 "e_phentsize" = (Hdr.e_phentsize o.cls o.enc hdr).toNat ∧
    Spec.get l o.enc img 0 "e_shentsize" = (Hdr.e_shentsize o.cls o.enc hdr).toNat ∧
    Spec.get l o.enc img 0 "e_shstrndx" = (Hdr.e_shstrndx o.cls o.enc hdr).toNat ∧
    Spec.get l o.enc img 0 "e_ident" = Spec.get l o.enc hdr 0 "e_ident" ∧
    Spec.get l o.enc img 0 "e_shnum" = o.secs.length % 65536 ∧
    Spec.get l o.enc img 0 "e_phnum" = o.segs.length % 65536 := by
  obtain ⟨h, hh, -, hl⟩ := layoutOk_of_save hs hok hd.hdrEq hd.nsecs hd.sec0 hd.noWrap hd.tables hd.small
  exact save_decode_header hs hok hg hd.noTrans hh hd.hdrEq (Nat.le_of_eq hd.tables.hdrLen.symm) hl

/-! ### non-vacuity: an object made through the API -/

/-- edit section `i` of an object (the setters of `section`) -/
def editSec (o : Obj) (i : Nat) (f : SecBuf → M SecBuf) : M Obj :=
  match o.secs[i]? with
  | none => throw (.vecOob "example/section")
  | some b => do let b ← f b; pure { o with secs := o.secs.set i b }

/-- edit segment `j` of an object (the setters of `segment`, `add_section_index`) -/
def editSeg (o : Obj) (j : Nat) (f : Seg → Seg) : Obj :=
  match o.segs[j]? with
  | none => o
  | some g => { o with segs := o.segs.set j (f g) }

/-- `create(ELFCLASS64, LSB)`; `.text` (24 bytes, align 16, automatic address) and `.note` (12 bytes,
    align 4, explicit address) in a PT_LOAD; a PT_NOTE nested over `.note`; a loose 40-byte
    `.symtab`-like section — all through `create`, `sections.add`, the section setters, `set_data`,
    `segments.add`, the segment setters and `add_section_index` -/
def exBuilt : M Obj := do
  let o ← create {} .c64 .lsb
  let o ← sectionsAdd o [46, 116, 101, 120, 116]                 -- ".text"
  let o ← editSec o 2 fun b =>
    ({ b with stype := 1, flags := 6, addrAlign := 16 }).setData (some (List.replicate 24 0x90)) 24
  let o ← sectionsAdd o [46, 110, 111, 116, 101]                 -- ".note"
  let o ← editSec o 3 fun b =>
    ({ b with stype := 7, flags := 2, addrAlign := 4, addr := 0x401020, addrSet := true }).setData
      (some [4, 0, 0, 0, 0, 0, 0, 0, 1, 0, 0, 0]) 12
  let o ← sectionsAdd o [46, 115, 121, 109]                      -- ".sym"
  let o ← editSec o 4 fun b =>
    ({ b with stype := 2, addrAlign := 8, entSize := 24, link := 1 }).setData (some (List.replicate 40 7)) 40
  let o := segmentsAdd o
  let o := editSeg o 0 fun g =>
    segAddSection (segAddSection { g with stype := 1, flags := 5, vaddr := 0x401000, paddr := 0x401000, align := 0x1000 } 2 16) 3 4
  let o := segmentsAdd o
  let o := editSeg o 1 fun g =>
    segAddSection { g with stype := 4, flags := 4, vaddr := 0x401020, paddr := 0x401020, align := 4 } 3 4
  pure o

def exBuiltObj : Obj := match exBuilt with | .ok o => o | .error _ => {}
def exBuiltHdr : Bytes := exBuiltObj.hdr.getD []

/-- the construction succeeds: 5 sections, 2 segments (the second nested in the first) -/
example : (match exBuilt with
    | .ok o => o.secs.length == 5 && o.segs.map (·.secs) == [[2#16, 3#16], [3#16]]
    | .error _ => false) = true := by decide +kernel

/-- **`exBuiltObj` is in `SaveDomain`** (every hypothesis of `save_decode_fields_of_save` is a
    decidable fact about the input object) … -/
theorem exBuilt_domain : SaveDomain exBuiltObj exBuiltHdr := by
  have hc : exBuiltObj.cls = .c64 := by decide +kernel
  refine ⟨by decide +kernel, by decide +kernel, ?_, by decide +kernel, tablesOk_of_B _ _ (by decide +kernel),
    by decide +kernel, by decide +kernel, ?_, ?_⟩
  · intro i s hs ho hi
    have : ∀ t ∈ exBuiltObj.secs, t.index = 0 → ¬ t.Occ := by decide +kernel
    exact this s (List.mem_of_getElem? hs) hi ho
  · intro a _; rw [hc]; exact fieldsFit_c64 a
  · intro g _; rw [hc]; exact segFit_c64 g

/-- … and its `save` into an empty stream succeeds (so the composed theorems apply to it) -/
example : (match save exBuiltObj {} with | .ok r => r.ok | _ => false) = true := by decide +kernel

example : ({} : OStream).Good := ⟨rfl, rfl⟩

end ElfioVerif.C03
