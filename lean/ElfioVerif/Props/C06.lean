import ElfioVerif.Model.Writer
namespace ElfioVerif.C06
end ElfioVerif.C06
