/-
C06 — saving is deterministic and idempotent.
-/
import ElfioVerif.Lemmas.Save
import ElfioVerif.Props.C03
namespace ElfioVerif.C06
open Gen

/-! ### F13, machine-checked: a second save of the same object gives different bytes -/

def updSec (o : Obj) (i : Nat) (f : SecBuf → SecBuf) : Obj :=
  match o.secs[i]? with | some b => { o with secs := o.secs.set i (f b) } | none => o
def updSecM (o : Obj) (i : Nat) (f : SecBuf → M SecBuf) : M Obj :=
  match o.secs[i]? with
  | some b => do let b' ← f b; pure { o with secs := o.secs.set i b' }
  | none => pure o
def updSeg (o : Obj) (j : Nat) (f : Seg → Seg) : Obj :=
  match o.segs[j]? with | some g => { o with segs := o.segs.set j (f g) } | none => o

/-- the object of DESIGN.md F13, built with the model's API functions: ELF64 LSB;
    `.data` (PROGBITS, WA, 11 bytes, align 8) and `.bss` (NOBITS, WA, 32 bytes, align 8), no explicit
    addresses, both members of one `PT_LOAD` (align 4096, vaddr 0x400000) -/
def f13Obj : M Obj := do
  let o ← create {} .c64 .lsb
  let o ← sectionsAdd o [0x2e, 0x64, 0x61, 0x74, 0x61]            -- ".data"
  let o := updSec o 2 fun b => { b with stype := 1, flags := 3, addrAlign := 8 }
  let o ← updSecM o 2 fun b => b.setData (some [1, 2, 3, 4, 5, 6, 7, 8, 9, 10, 11]) 11
  let o ← sectionsAdd o [0x2e, 0x62, 0x73, 0x73]                  -- ".bss"
  let o := updSec o 3 fun b => ({ b with stype := 8, flags := 3, addrAlign := 8 }).setSize 32
  let o := segmentsAdd o
  let o := updSeg o 0 fun g =>
    { g with stype := 1, flags := 6, align := 4096, vaddr := 0x400000, paddr := 0x400000 }
  let o := updSeg o 0 fun g => segAddSection g 2 8
  let o := updSeg o 0 fun g => segAddSection g 3 8
  pure o

/-- first `save()` of the object (fresh, unbudgeted stream) -/
def f13Save1 : M SaveRes := do let o ← f13Obj; save o {}
/-- second `save()` of the same object (again into a fresh stream) -/
def f13Save2 : M SaveRes := do let r ← f13Save1; save r.obj {}

def offsetsOf (r : M SaveRes) : Option (Bool × List Nat) :=
  match r with | .ok r => some (r.ok, r.obj.secs.map (·.offset.toNat)) | .error _ => none
def byteAt (r : M SaveRes) (i : Nat) : Option UInt8 :=
  match r with | .ok r => r.os.content[i]? | .error _ => none

/-- section offsets (null, `.shstrtab`, `.data`, `.bss`) after the first and after the second save:
    the alignment gap in front of the address-less `.bss` (4107 → 4112) advances the cursor only the
    first time -/
theorem save_twice_witness_offsets :
    offsetsOf f13Save1 = some (true, [0, 4112, 4096, 4112]) ∧
    offsetsOf f13Save2 = some (true, [0, 4107, 4096, 4107]) := by
  constructor <;> decide +kernel

/-- byte 4232 of the file = low byte of `sh_offset` of section 1 (`.shstrtab`; the section header
    table is at 4144 both times): 0x10 (4112) the first time, 0x0b (4107) the second -/
theorem save_twice_witness_byte : byteAt f13Save1 4232 = some 16 ∧ byteAt f13Save2 4232 = some 11 := by
  constructor <;> decide +kernel

/-- **F13** : both saves succeed and their bytes differ. -/
theorem save_twice_witness :
    ∃ o r1 r2, f13Obj = .ok o ∧ save o {} = .ok r1 ∧ r1.ok = true ∧
      save r1.obj {} = .ok r2 ∧ r2.ok = true ∧ r1.os.content ≠ r2.os.content := by
  obtain ⟨o1, o2⟩ := save_twice_witness_offsets
  obtain ⟨b1, b2⟩ := save_twice_witness_byte
  cases ho : f13Obj with
  | error e => simp [f13Save1, ho, offsetsOf, bind, Except.bind] at o1
  | ok o =>
    have e1 : f13Save1 = save o {} := by simp [f13Save1, ho, bind, Except.bind]
    cases h1 : save o {} with
    | error e => rw [e1, h1] at o1; simp [offsetsOf] at o1
    | ok r1 =>
      have e2 : f13Save2 = save r1.obj {} := by simp [f13Save2, e1, h1, bind, Except.bind]
      cases h2 : save r1.obj {} with
      | error e => rw [e2, h2] at o2; simp [offsetsOf] at o2
      | ok r2 =>
        rw [e1, h1] at o1 b1; rw [e2, h2] at o2 b2
        simp only [offsetsOf, Option.some.injEq, Prod.mk.injEq] at o1 o2
        simp only [byteAt] at b1 b2
        refine ⟨o, r1, r2, rfl, h1, o1.1, h2, o2.1, ?_⟩
        intro e; rw [e, b2] at b1; cases b1

/-! ### saving twice: objects without segments -/

open C03 in
/-- the header preparation of `save` is idempotent: run on the header a previous save left, it
    reproduces the header that save started its layout from -/
theorem saveHdr0_idem (o : Obj) (hd : Bytes) (x : Nat) (hl : ehdrSize o.cls ≤ hd.length) :
    saveHdr0 o (Hdr.set_shoff o.cls o.enc (saveHdr0 o hd) x) = saveHdr0 o hd := by
  unfold saveHdr0
  simp only
  generalize o.cls = c at *
  generalize o.enc = e at *
  generalize o.segs.length % 65536 = m
  generalize o.secs.length % 65536 = n
  have r1 : ∀ h v, Hdr.set_phnum c e h v = HField.phnum.set c e h v := fun _ _ => rfl
  have r2 : ∀ h v, Hdr.set_phoff c e h v = HField.phoff.set c e h v := fun _ _ => rfl
  have r3 : ∀ h v, Hdr.set_shnum c e h v = HField.shnum.set c e h v := fun _ _ => rfl
  have r4 : ∀ h v, Hdr.set_shoff c e h v = HField.shoff.set c e h v := fun _ _ => rfl
  simp only [r1, r2, r3, r4]
  -- first run
  have la1 : ehdrSize c ≤ (HField.phnum.set c e hd m).length := by rw [hdr_set_length _ _ _ _ _ hl]; exact hl
  generalize hp : (if m > 0 then (Hdr.e_ehsize c e (HField.phnum.set c e hd m)).toNat else 0) = p
  have lb1 : ehdrSize c ≤ (HField.phoff.set c e (HField.phnum.set c e hd m) p).length := by
    rw [hdr_set_length _ _ _ _ _ la1]; exact la1
  have lc1 : ehdrSize c ≤ (HField.shnum.set c e (HField.phoff.set c e (HField.phnum.set c e hd m) p) n).length := by
    rw [hdr_set_length _ _ _ _ _ lb1]; exact lb1
  have lh0 : ehdrSize c ≤ (HField.shoff.set c e
      (HField.shnum.set c e (HField.phoff.set c e (HField.phnum.set c e hd m) p) n) 0).length := by
    rw [hdr_set_length _ _ _ _ _ lc1]; exact lc1
  generalize ha1 : HField.phnum.set c e hd m = a1 at *
  generalize hb1 : HField.phoff.set c e a1 p = b1 at *
  generalize hc1 : HField.shnum.set c e b1 n = c1 at *
  generalize hh0 : HField.shoff.set c e c1 0 = h0 at *
  have lhT : ehdrSize c ≤ (HField.shoff.set c e h0 x).length := by rw [hdr_set_length _ _ _ _ _ lh0]; exact lh0
  generalize hhT : HField.shoff.set c e h0 x = hT at *
  have ne : ∀ {f g : HField}, f ≠ g → f.name ≠ g.name := fun hfg e => hfg (hfield_name_inj e)
  -- e_phnum of hT is still m
  have sA : slice hT (Spec.field (Spec.ehdrL c) HField.phnum.name).1 (Spec.field (Spec.ehdrL c) HField.phnum.name).2 =
      encodeInt e (Spec.field (Spec.ehdrL c) HField.phnum.name).2 m := by
    rw [← hhT, set_slice_other .shoff c e h0 x lh0 _ (hfield_valid .phnum c) (ne (by decide)),
      ← hh0, set_slice_other .shoff c e c1 0 lc1 _ (hfield_valid .phnum c) (ne (by decide)),
      ← hc1, set_slice_other .shnum c e b1 n lb1 _ (hfield_valid .phnum c) (ne (by decide)),
      ← hb1, set_slice_other .phoff c e a1 p la1 _ (hfield_valid .phnum c) (ne (by decide)),
      ← ha1, set_slice_same .phnum c e hd m hl]
  have eA : HField.phnum.set c e hT m = hT := set_absorb .phnum c e hT m lhT sA
  rw [eA]
  -- e_ehsize is untouched by the layout setters, so the program header offset is the same
  have hsz : Hdr.e_ehsize c e hT = Hdr.e_ehsize c e a1 := by
    rw [← hhT, (hdr_set_frame .shoff c e h0 x lh0).2.2.2.2.2.2.2.1 (by decide),
      ← hh0, (hdr_set_frame .shoff c e c1 0 lc1).2.2.2.2.2.2.2.1 (by decide),
      ← hc1, (hdr_set_frame .shnum c e b1 n lb1).2.2.2.2.2.2.2.1 (by decide),
      ← hb1, (hdr_set_frame .phoff c e a1 p la1).2.2.2.2.2.2.2.1 (by decide)]
  have hp2 : (if m > 0 then (Hdr.e_ehsize c e hT).toNat else 0) = p := by
    rw [hsz, ← hp]
  rw [hp2]
  have sB : slice hT (Spec.field (Spec.ehdrL c) HField.phoff.name).1 (Spec.field (Spec.ehdrL c) HField.phoff.name).2 =
      encodeInt e (Spec.field (Spec.ehdrL c) HField.phoff.name).2 p := by
    rw [← hhT, set_slice_other .shoff c e h0 x lh0 _ (hfield_valid .phoff c) (ne (by decide)),
      ← hh0, set_slice_other .shoff c e c1 0 lc1 _ (hfield_valid .phoff c) (ne (by decide)),
      ← hc1, set_slice_other .shnum c e b1 n lb1 _ (hfield_valid .phoff c) (ne (by decide)),
      ← hb1, set_slice_same .phoff c e a1 p la1]
  have eB : HField.phoff.set c e hT p = hT := set_absorb .phoff c e hT p lhT sB
  rw [eB]
  have sC : slice hT (Spec.field (Spec.ehdrL c) HField.shnum.name).1 (Spec.field (Spec.ehdrL c) HField.shnum.name).2 =
      encodeInt e (Spec.field (Spec.ehdrL c) HField.shnum.name).2 n := by
    rw [← hhT, set_slice_other .shoff c e h0 x lh0 _ (hfield_valid .shnum c) (ne (by decide)),
      ← hh0, set_slice_other .shoff c e c1 0 lc1 _ (hfield_valid .shnum c) (ne (by decide)),
      ← hc1, set_slice_same .shnum c e b1 n lb1]
  have eC : HField.shnum.set c e hT n = hT := set_absorb .shnum c e hT n lhT sC
  rw [eC, ← hhT]
  rw [set_set .shoff c e h0 x 0 lh0, ← hh0, set_set .shoff c e c1 0 0 lc1]

theorem orderedSegments_nil : orderedSegments [] = .ok [] := rfl

/-- `save` of an object without segments, in closed form -/
theorem save_noseg_eq {o : Obj} {os : OStream} {hd : Bytes} (hseg : o.segs = []) (hh : o.hdr = some hd)
    (hf : os.fail = false) :
    save o os = .ok (saveTail (preRes o) os (saveHdr0 (preRes o) hd) []
      (saveLay0 (preRes o) (saveHdr0 (preRes o) hd)) []) := by
  rw [save_eq, hh]
  simp only [hf, Bool.false_eq_true, if_false]
  have e : (preRes o).segs = [] := hseg
  rw [e]
  simp only [List.mapM_nil, pure_bind, orderedSegments_nil]
  rfl

/-- `saveTail` reads of the object only class, byte order, translation and stream, and of the
    layout only what the loose-section pass makes of it -/
theorem saveTail_congr {o o' : Obj} {os : OStream} {h0 : Bytes} {segs1 done : List Seg} {lay lay' : Layout}
    (hc : o'.cls = o.cls) (he : o'.enc = o.enc) (ht : o'.trans = o.trans) (hs : o'.stream = o.stream)
    (hl : layoutLoose o.cls (putBack segs1 done) lay'.secs 0 lay'.pos [] =
      layoutLoose o.cls (putBack segs1 done) lay.secs 0 lay.pos []) :
    saveTail o' os h0 segs1 lay' done = saveTail o os h0 segs1 lay done := by
  unfold saveTail
  simp only [hc, he, ht, hs, hl]

theorem preRes_id (o : Obj) (h : ∀ b ∈ o.secs, b.Settled) : preRes o = o := by
  unfold preRes
  rw [allResident_id _ _ _ _ _ h]
  simp

theorem preRes_settled (o : Obj) : ∀ b ∈ (preRes o).secs, b.Settled :=
  allResident_settled _ _ _ _ [] (fun b hb => by cases hb)

theorem saveHdr0_congr {o o' : Obj} (hc : o'.cls = o.cls) (he : o'.enc = o.enc)
    (hg : o'.segs.length = o.segs.length) (hs : o'.secs.length = o.secs.length) (h : Bytes) :
    saveHdr0 o' h = saveHdr0 o h := by
  unfold saveHdr0
  simp only [hc, he, hg, hs]

/-- **save_twice_no_segments** : for an object without segments, a successful `save` leaves an
    object on which `save` (into the same initial stream) does exactly the same again — same result
    object, same stream, hence identical bytes.  (The loose-section layout is a function of types,
    sizes, alignments and indices only; the header preparation is idempotent; every section is
    resident after the first save.)  Hypothesis: the header buffer has the size of the class's ELF
    header (true of every created or loaded object). -/
theorem save_twice_no_segments {o : Obj} {os : OStream} {r : SaveRes} {hd : Bytes} (hseg : o.segs = [])
    (hh : o.hdr = some hd) (hl : ehdrSize o.cls ≤ hd.length) (hs : save o os = .ok r) (hok : r.ok = true) :
    save r.obj os = .ok r := by
  obtain ⟨_, _, _, _, _, _, hf, _, _, _, _⟩ := save_ok_unfold hs hok
  rw [save_noseg_eq hseg hh hf] at hs
  injection hs with hs
  subst hs
  obtain ⟨_, eobj, _, _⟩ := saveTail_ok hok
  -- names
  generalize ho1 : preRes o = o1 at *
  have hset1 : ∀ b ∈ o1.secs, b.Settled := by rw [← ho1]; exact preRes_settled o
  have hc1 : o1.cls = o.cls := by rw [← ho1]; rfl
  have hseg1 : o1.segs = [] := by rw [← ho1]; exact hseg
  generalize hh0 : saveHdr0 o1 hd = h0 at *
  generalize hlay : saveLay0 o1 h0 = lay0 at *
  have hlsecs : lay0.secs = o1.secs := by rw [← hlay]; rfl
  have hlpos : lay0.pos = savePos0 o1 h0 := by rw [← hlay]; rfl
  -- the loose pass and the residency pass of the first save
  obtain ⟨L, eL, fL⟩ := layoutLoose_frame o1.cls (putBack [] []) lay0.secs 0 lay0.pos []
  simp only [List.reverse_nil, List.nil_append] at eL
  rw [hlsecs] at fL
  have hsetL : ∀ b ∈ L, b.Settled := fL.forall_right (fun a b h ha => Placed.settled h ha) hset1
  have eS : tailSecs o1 [] lay0 [] = L := by
    unfold tailSecs tailLoose
    rw [eL, residentForSave_id _ _ _ _ _ hsetL]; rfl
  have eSt : (residentForSave o1.cls o1.trans (tailLoose o1 [] lay0 []).1 { st := o1.stream } []).2.st = o1.stream := by
    unfold tailLoose
    rw [eL, residentForSave_id _ _ _ _ _ hsetL]
  rw [eS, eSt] at eobj
  -- the second save
  generalize hT : saveTail o1 os h0 [] lay0 [] = T at *
  have hseg' : T.obj.segs = [] := by rw [eobj]; rfl
  have hh' : T.obj.hdr = some (tailHdr o1 h0 [] lay0 []) := by rw [eobj]
  rw [save_noseg_eq hseg' hh' hf]
  have hset' : ∀ b ∈ T.obj.secs, b.Settled := by rw [eobj]; exact hsetL
  rw [preRes_id _ hset']
  have ec : T.obj.cls = o1.cls := by rw [eobj]
  have ee : T.obj.enc = o1.enc := by rw [eobj]
  have et : T.obj.trans = o1.trans := by rw [eobj]
  have es : T.obj.stream = o1.stream := by rw [eobj]
  have esecs : T.obj.secs = L := by rw [eobj]
  have eh : saveHdr0 T.obj (tailHdr o1 h0 [] lay0 []) = h0 := by
    rw [saveHdr0_congr ec ee (by rw [hseg', hseg1]) (by rw [esecs, fL.1])]
    unfold tailHdr
    rw [← hh0]
    exact saveHdr0_idem o1 hd _ (by rw [hc1]; exact hl)
  rw [eh]
  congr 1
  refine (saveTail_congr ec ee et es ?_).trans hT
  -- the loose pass is idempotent
  show layoutLoose o1.cls (putBack [] []) T.obj.secs 0 (savePos0 T.obj h0) [] = _
  have ep : savePos0 T.obj h0 = savePos0 o1 h0 := by unfold savePos0; rw [ec, ee]
  rw [ep, esecs, hlsecs, hlpos, layoutLoose_eq, layoutLoose_eq]
  have eL' : L = (looseSpec o1.cls (putBack [] []) o1.secs 0 (savePos0 o1 h0)).1 := by
    rw [← eL, hlsecs, hlpos, layoutLoose_eq]; rfl
  rw [eL', looseSpec_idem]

/-- the byte-level reading: both saves succeed and write identical bytes -/
theorem save_twice_no_segments_bytes {o : Obj} {os : OStream} {r : SaveRes} {hd : Bytes} (hseg : o.segs = [])
    (hh : o.hdr = some hd) (hl : ehdrSize o.cls ≤ hd.length) (hs : save o os = .ok r) (hok : r.ok = true) :
    ∃ r2, save r.obj os = .ok r2 ∧ r2.ok = true ∧ r2.os.content = r.os.content ∧
      save r2.obj os = .ok r2 :=
  ⟨r, save_twice_no_segments hseg hh hl hs hok, hok, rfl, save_twice_no_segments hseg hh hl hs hok⟩

/-- non-vacuity: a created object with a `.text` section (no segments) meets the hypotheses and its
    save succeeds -/
def nosegObj : M Obj := do
  let o ← create {} .c32 .msb
  let o ← sectionsAdd o [0x2e, 0x74, 0x65, 0x78, 0x74]
  let o := updSec o 2 fun b => { b with stype := 1, flags := 6, addrAlign := 16 }
  updSecM o 2 fun b => b.setData (some [1, 2, 3, 4, 5]) 5

example : (match nosegObj with
    | .ok o => o.segs.isEmpty && (match o.hdr with | some hd => decide (ehdrSize o.cls ≤ hd.length) | none => false) &&
        (match save o {} with | .ok r => r.ok | .error _ => false)
    | .error _ => false) = true := by decide +kernel

end ElfioVerif.C06
