/-
C06 — saving is deterministic and idempotent.

FINDING F13 (open, machine-checked): `save_twice_witness` (+ `_offsets`, `_byte`): for the object of
DESIGN.md (`.data` 11 bytes align 8 + `.bss` NOBITS align 8 in one PT_LOAD, ELF64 LSB), built with
the model's API functions, both saves succeed and their bytes differ (`.shstrtab` at 4112, then 4107).

Proved:
 * `save_twice_no_segments` — for every object without segments (any class/byte order) a successful
   `save` returns a result on which `save` returns *the same result* again (loose-section layout
   `looseSpec_idem`, header preparation `saveHdr0_idem`, residency).
 * `save_twice` / `save_idempotent_on_settled` — ELF64, flat or nested segments, no segment at file
   offset 0: under the side conditions `ResaveOk` (every segment start ≠ 0; no address-less
   NOBITS/empty member behind a non-zero alignment gap — exactly the F13 trigger,
   `GapBeforeAddresslessNobits`), a second `save` that succeeds returns the same result.  Ladder:
   `stepCore_resave` (the address-driven branch recomputes the recorded cursor) → `wsdStep_resave` →
   `wsdLoop_resave` → `layoutSegment_resave` → `segRun_resave` (lock-step re-run on the final
   sections), with ordering / alignment / put-back idempotence from Lemmas/Save.
Not proved: ELF32 (address truncation); objects with a segment at file offset 0 (typical *loaded*
executables: the first PT_LOAD — the `orderFront` pass then reorders); that the second save cannot
abort (it aborts only if offsets wrap around 2^64: hypothesis `r2.ok`); `save_load_save` (stated as
`SaveLoadSaveStatement`: needs a congruence of `save` under the loader's re-representation of
sections plus `members_recomputed`).
-/
import ElfioVerif.Lemmas.Save
import ElfioVerif.Props.C03
import ElfioVerif.Props.C05
set_option linter.unusedSimpArgs false
namespace ElfioVerif.C06
open Gen
open Sv

/-! ### F13, machine-checked: a second save of the same object gives different bytes -/

def updSec (o : Obj) (i : Nat) (f : SecBuf → SecBuf) : Obj :=
  match o.secs[i]? with | some b => { o with secs := o.secs.set i (f b) } | none => o
def updSecM (o : Obj) (i : Nat) (f : SecBuf → M SecBuf) : M Obj :=
  match o.secs[i]? with
  | some b => do let b' ← f b; pure { o with secs := o.secs.set i b' }
  | none => pure o
def updSeg (o : Obj) (j : Nat) (f : Seg → Seg) : Obj :=
  match o.segs[j]? with | some g => { o with segs := o.segs.set j (f g) } | none => o

/-- the object of DESIGN.md F13, built with the model's API functions: ELF64 LSB;
    `.data` (PROGBITS, WA, 11 bytes, align 8) and `.bss` (NOBITS, WA, 32 bytes, align 8), no explicit
    addresses, both members of one `PT_LOAD` (align 4096, vaddr 0x400000) -/
def f13Obj : M Obj := do
  let o ← create {} .c64 .lsb
  let o ← sectionsAdd o [0x2e, 0x64, 0x61, 0x74, 0x61]            -- ".data"
  let o := updSec o 2 fun b => { b with stype := 1, flags := 3, addrAlign := 8 }
  let o ← updSecM o 2 fun b => b.setData (some [1, 2, 3, 4, 5, 6, 7, 8, 9, 10, 11]) 11
  let o ← sectionsAdd o [0x2e, 0x62, 0x73, 0x73]                  -- ".bss"
  let o := updSec o 3 fun b => ({ b with stype := 8, flags := 3, addrAlign := 8 }).setSize 32
  let o := segmentsAdd o
  let o := updSeg o 0 fun g =>
    { g with stype := 1, flags := 6, align := 4096, vaddr := 0x400000, paddr := 0x400000 }
  let o := updSeg o 0 fun g => segAddSection g 2 8
  let o := updSeg o 0 fun g => segAddSection g 3 8
  pure o

/-- first `save()` of the object (fresh, unbudgeted stream) -/
def f13Save1 : M SaveRes := do let o ← f13Obj; save o {}
/-- second `save()` of the same object (again into a fresh stream) -/
def f13Save2 : M SaveRes := do let r ← f13Save1; save r.obj {}

def offsetsOf (r : M SaveRes) : Option (Bool × List Nat) :=
  match r with | .ok r => some (r.ok, r.obj.secs.map (·.offset.toNat)) | .error _ => none
def byteAt (r : M SaveRes) (i : Nat) : Option UInt8 :=
  match r with | .ok r => r.os.content[i]? | .error _ => none

/-- section offsets (null, `.shstrtab`, `.data`, `.bss`) after the first and after the second save:
    the alignment gap in front of the address-less `.bss` (4107 → 4112) advances the cursor only the
    first time -/
theorem save_twice_witness_offsets :
    offsetsOf f13Save1 = some (true, [0, 4112, 4096, 4112]) ∧
    offsetsOf f13Save2 = some (true, [0, 4107, 4096, 4107]) := by
  constructor <;> decide +kernel

/-- byte 4232 of the file = low byte of `sh_offset` of section 1 (`.shstrtab`; the section header
    table is at 4144 both times): 0x10 (4112) the first time, 0x0b (4107) the second -/
theorem save_twice_witness_byte : byteAt f13Save1 4232 = some 16 ∧ byteAt f13Save2 4232 = some 11 := by
  constructor <;> decide +kernel

/-- **F13** : both saves succeed and their bytes differ. -/
theorem save_twice_witness :
    ∃ o r1 r2, f13Obj = .ok o ∧ save o {} = .ok r1 ∧ r1.ok = true ∧
      save r1.obj {} = .ok r2 ∧ r2.ok = true ∧ r1.os.content ≠ r2.os.content := by
  obtain ⟨o1, o2⟩ := save_twice_witness_offsets
  obtain ⟨b1, b2⟩ := save_twice_witness_byte
  cases ho : f13Obj with
  | error e => simp [f13Save1, ho, offsetsOf, bind, Except.bind] at o1
  | ok o =>
    have e1 : f13Save1 = save o {} := by simp [f13Save1, ho, bind, Except.bind]
    cases h1 : save o {} with
    | error e => rw [e1, h1] at o1; simp [offsetsOf] at o1
    | ok r1 =>
      have e2 : f13Save2 = save r1.obj {} := by simp [f13Save2, e1, h1, bind, Except.bind]
      cases h2 : save r1.obj {} with
      | error e => rw [e2, h2] at o2; simp [offsetsOf] at o2
      | ok r2 =>
        rw [e1, h1] at o1 b1; rw [e2, h2] at o2 b2
        simp only [offsetsOf, Option.some.injEq, Prod.mk.injEq] at o1 o2
        simp only [byteAt] at b1 b2
        refine ⟨o, r1, r2, rfl, h1, o1.1, h2, o2.1, ?_⟩
        intro e; rw [e, b2] at b1; cases b1

/-! ### saving twice: objects without segments -/

open C03 in
/-- the header preparation of `save` is idempotent: run on the header a previous save left, it
    reproduces the header that save started its layout from -/
theorem saveHdr0_idem (o : Obj) (hd : Bytes) (x : Nat) (hl : ehdrSize o.cls ≤ hd.length) :
    saveHdr0 o (Hdr.set_shoff o.cls o.enc (saveHdr0 o hd) x) = saveHdr0 o hd := by
  unfold saveHdr0
  simp only
  generalize o.cls = c at *
  generalize o.enc = e at *
  generalize o.segs.length % 65536 = m
  generalize o.secs.length % 65536 = n
  have r1 : ∀ h v, Hdr.set_phnum c e h v = HField.phnum.set c e h v := fun _ _ => rfl
  have r2 : ∀ h v, Hdr.set_phoff c e h v = HField.phoff.set c e h v := fun _ _ => rfl
  have r3 : ∀ h v, Hdr.set_shnum c e h v = HField.shnum.set c e h v := fun _ _ => rfl
  have r4 : ∀ h v, Hdr.set_shoff c e h v = HField.shoff.set c e h v := fun _ _ => rfl
  simp only [r1, r2, r3, r4]
  -- first run
  have la1 : ehdrSize c ≤ (HField.phnum.set c e hd m).length := by rw [hdr_set_length _ _ _ _ _ hl]; exact hl
  generalize hp : (if m > 0 then (Hdr.e_ehsize c e (HField.phnum.set c e hd m)).toNat else 0) = p
  have lb1 : ehdrSize c ≤ (HField.phoff.set c e (HField.phnum.set c e hd m) p).length := by
    rw [hdr_set_length _ _ _ _ _ la1]; exact la1
  have lc1 : ehdrSize c ≤ (HField.shnum.set c e (HField.phoff.set c e (HField.phnum.set c e hd m) p) n).length := by
    rw [hdr_set_length _ _ _ _ _ lb1]; exact lb1
  have lh0 : ehdrSize c ≤ (HField.shoff.set c e
      (HField.shnum.set c e (HField.phoff.set c e (HField.phnum.set c e hd m) p) n) 0).length := by
    rw [hdr_set_length _ _ _ _ _ lc1]; exact lc1
  generalize ha1 : HField.phnum.set c e hd m = a1 at *
  generalize hb1 : HField.phoff.set c e a1 p = b1 at *
  generalize hc1 : HField.shnum.set c e b1 n = c1 at *
  generalize hh0 : HField.shoff.set c e c1 0 = h0 at *
  have lhT : ehdrSize c ≤ (HField.shoff.set c e h0 x).length := by rw [hdr_set_length _ _ _ _ _ lh0]; exact lh0
  generalize hhT : HField.shoff.set c e h0 x = hT at *
  have ne : ∀ {f g : HField}, f ≠ g → f.name ≠ g.name := fun hfg e => hfg (hfield_name_inj e)
  -- e_phnum of hT is still m
  have sA : slice hT (Spec.field (Spec.ehdrL c) HField.phnum.name).1 (Spec.field (Spec.ehdrL c) HField.phnum.name).2 =
      encodeInt e (Spec.field (Spec.ehdrL c) HField.phnum.name).2 m := by
    rw [← hhT, set_slice_other .shoff c e h0 x lh0 _ (hfield_valid .phnum c) (ne (by decide)),
      ← hh0, set_slice_other .shoff c e c1 0 lc1 _ (hfield_valid .phnum c) (ne (by decide)),
      ← hc1, set_slice_other .shnum c e b1 n lb1 _ (hfield_valid .phnum c) (ne (by decide)),
      ← hb1, set_slice_other .phoff c e a1 p la1 _ (hfield_valid .phnum c) (ne (by decide)),
      ← ha1, set_slice_same .phnum c e hd m hl]
  have eA : HField.phnum.set c e hT m = hT := set_absorb .phnum c e hT m lhT sA
  rw [eA]
  -- e_ehsize is untouched by the layout setters, so the program header offset is the same
  have hsz : Hdr.e_ehsize c e hT = Hdr.e_ehsize c e a1 := by
    rw [← hhT, (hdr_set_frame .shoff c e h0 x lh0).2.2.2.2.2.2.2.1 (by decide),
      ← hh0, (hdr_set_frame .shoff c e c1 0 lc1).2.2.2.2.2.2.2.1 (by decide),
      ← hc1, (hdr_set_frame .shnum c e b1 n lb1).2.2.2.2.2.2.2.1 (by decide),
      ← hb1, (hdr_set_frame .phoff c e a1 p la1).2.2.2.2.2.2.2.1 (by decide)]
  have hp2 : (if m > 0 then (Hdr.e_ehsize c e hT).toNat else 0) = p := by
    rw [hsz, ← hp]
  rw [hp2]
  have sB : slice hT (Spec.field (Spec.ehdrL c) HField.phoff.name).1 (Spec.field (Spec.ehdrL c) HField.phoff.name).2 =
      encodeInt e (Spec.field (Spec.ehdrL c) HField.phoff.name).2 p := by
    rw [← hhT, set_slice_other .shoff c e h0 x lh0 _ (hfield_valid .phoff c) (ne (by decide)),
      ← hh0, set_slice_other .shoff c e c1 0 lc1 _ (hfield_valid .phoff c) (ne (by decide)),
      ← hc1, set_slice_other .shnum c e b1 n lb1 _ (hfield_valid .phoff c) (ne (by decide)),
      ← hb1, set_slice_same .phoff c e a1 p la1]
  have eB : HField.phoff.set c e hT p = hT := set_absorb .phoff c e hT p lhT sB
  rw [eB]
  have sC : slice hT (Spec.field (Spec.ehdrL c) HField.shnum.name).1 (Spec.field (Spec.ehdrL c) HField.shnum.name).2 =
      encodeInt e (Spec.field (Spec.ehdrL c) HField.shnum.name).2 n := by
    rw [← hhT, set_slice_other .shoff c e h0 x lh0 _ (hfield_valid .shnum c) (ne (by decide)),
      ← hh0, set_slice_other .shoff c e c1 0 lc1 _ (hfield_valid .shnum c) (ne (by decide)),
      ← hc1, set_slice_same .shnum c e b1 n lb1]
  have eC : HField.shnum.set c e hT n = hT := set_absorb .shnum c e hT n lhT sC
  rw [eC, ← hhT]
  rw [set_set .shoff c e h0 x 0 lh0, ← hh0, set_set .shoff c e c1 0 0 lc1]

theorem orderedSegments_nil : orderedSegments [] = .ok [] := rfl

/-- `save` of an object without segments, in closed form -/
theorem save_noseg_eq {o : Obj} {os : OStream} {hd : Bytes} (hseg : o.segs = []) (hh : o.hdr = some hd)
    (hf : os.fail = false) :
    save o os = .ok (saveTail (preRes o) os (saveHdr0 (preRes o) hd) []
      (saveLay0 (preRes o) (saveHdr0 (preRes o) hd)) []) := by
  rw [save_eq, hh]
  simp only [hf, Bool.false_eq_true, if_false]
  have e : (preRes o).segs = [] := hseg
  rw [e]
  simp only [List.mapM_nil, pure_bind, orderedSegments_nil]
  rfl

/-- `saveTail` reads of the object only class, byte order, translation and stream, and of the
    layout only what the loose-section pass makes of it -/
theorem saveTail_congr {o o' : Obj} {os : OStream} {h0 : Bytes} {segs1 done : List Seg} {lay lay' : Layout}
    (hc : o'.cls = o.cls) (he : o'.enc = o.enc) (ht : o'.trans = o.trans) (hs : o'.stream = o.stream)
    (hl : layoutLoose o.cls (putBack segs1 done) lay'.secs 0 lay'.pos [] =
      layoutLoose o.cls (putBack segs1 done) lay.secs 0 lay.pos []) :
    saveTail o' os h0 segs1 lay' done = saveTail o os h0 segs1 lay done := by
  unfold saveTail saveWrite
  simp only [hc, he, ht, hs, hl]

theorem preRes_id (o : Obj) (h : ∀ b ∈ o.secs, b.Settled) : preRes o = o := by
  unfold preRes
  rw [allResident_id _ _ _ _ _ h]
  simp

theorem preRes_settled (o : Obj) : ∀ b ∈ (preRes o).secs, b.Settled :=
  allResident_settled _ _ _ _ [] (fun b hb => by cases hb)

theorem saveHdr0_congr {o o' : Obj} (hc : o'.cls = o.cls) (he : o'.enc = o.enc)
    (hg : o'.segs.length = o.segs.length) (hs : o'.secs.length = o.secs.length) (h : Bytes) :
    saveHdr0 o' h = saveHdr0 o h := by
  unfold saveHdr0
  simp only [hc, he, hg, hs]

/-- **save_twice_no_segments** : for an object without segments, a successful `save` leaves an
    object on which `save` (into the same initial stream) does exactly the same again — same result
    object, same stream, hence identical bytes.  (The loose-section layout is a function of types,
    sizes, alignments and indices only; the header preparation is idempotent; every section is
    resident after the first save.)  Hypothesis: the header buffer has the size of the class's ELF
    header (true of every created or loaded object). -/
theorem save_twice_no_segments {o : Obj} {os : OStream} {r : SaveRes} {hd : Bytes} (hseg : o.segs = [])
    (hh : o.hdr = some hd) (hl : ehdrSize o.cls ≤ hd.length) (hs : save o os = .ok r) (hok : r.ok = true) :
    save r.obj os = .ok r := by
  obtain ⟨_, _, _, _, _, _, hf, _, _, _, _⟩ := save_ok_unfold hs hok
  rw [save_noseg_eq hseg hh hf] at hs
  injection hs with hs
  subst hs
  obtain ⟨_, eobj, _, _⟩ := saveTail_ok hok
  -- names
  generalize ho1 : preRes o = o1 at *
  have hset1 : ∀ b ∈ o1.secs, b.Settled := by rw [← ho1]; exact preRes_settled o
  have hc1 : o1.cls = o.cls := by rw [← ho1]; rfl
  have hseg1 : o1.segs = [] := by rw [← ho1]; exact hseg
  generalize hh0 : saveHdr0 o1 hd = h0 at *
  generalize hlay : saveLay0 o1 h0 = lay0 at *
  have hlsecs : lay0.secs = o1.secs := by rw [← hlay]; rfl
  have hlpos : lay0.pos = savePos0 o1 h0 := by rw [← hlay]; rfl
  -- the loose pass and the residency pass of the first save
  obtain ⟨L, eL, fL⟩ := layoutLoose_frame o1.cls (putBack [] []) lay0.secs 0 lay0.pos []
  simp only [List.reverse_nil, List.nil_append] at eL
  rw [hlsecs] at fL
  have hsetL : ∀ b ∈ L, b.Settled := fL.forall_right (fun a b h ha => Placed.settled h ha) hset1
  have eS : tailSecs o1 [] lay0 [] = L := by
    unfold tailSecs tailLoose
    rw [eL, residentForSave_id _ _ _ _ _ hsetL]; rfl
  have eSt : (residentForSave o1.cls o1.trans (tailLoose o1 [] lay0 []).1 { st := o1.stream } []).2.st = o1.stream := by
    unfold tailLoose
    rw [eL, residentForSave_id _ _ _ _ _ hsetL]
  rw [eS, eSt] at eobj
  -- the second save
  generalize hT : saveTail o1 os h0 [] lay0 [] = T at *
  have hseg' : T.obj.segs = [] := by rw [eobj]; rfl
  have hh' : T.obj.hdr = some (tailHdr o1 h0 [] lay0 []) := by rw [eobj]
  rw [save_noseg_eq hseg' hh' hf]
  have hset' : ∀ b ∈ T.obj.secs, b.Settled := by rw [eobj]; exact hsetL
  rw [preRes_id _ hset']
  have ec : T.obj.cls = o1.cls := by rw [eobj]
  have ee : T.obj.enc = o1.enc := by rw [eobj]
  have et : T.obj.trans = o1.trans := by rw [eobj]
  have es : T.obj.stream = o1.stream := by rw [eobj]
  have esecs : T.obj.secs = L := by rw [eobj]
  have eh : saveHdr0 T.obj (tailHdr o1 h0 [] lay0 []) = h0 := by
    rw [saveHdr0_congr ec ee (by rw [hseg', hseg1]) (by rw [esecs, fL.1])]
    unfold tailHdr
    rw [← hh0]
    exact saveHdr0_idem o1 hd _ (by rw [hc1]; exact hl)
  rw [eh]
  congr 1
  refine (saveTail_congr ec ee et es ?_).trans hT
  -- the loose pass is idempotent
  show layoutLoose o1.cls (putBack [] []) T.obj.secs 0 (savePos0 T.obj h0) [] = _
  have ep : savePos0 T.obj h0 = savePos0 o1 h0 := by unfold savePos0; rw [ec, ee]
  rw [ep, esecs, hlsecs, hlpos, layoutLoose_eq, layoutLoose_eq]
  have eL' : L = (looseSpec o1.cls (putBack [] []) o1.secs 0 (savePos0 o1 h0)).1 := by
    rw [← eL, hlsecs, hlpos, layoutLoose_eq]; rfl
  rw [eL', looseSpec_idem]

/-- the byte-level reading: both saves succeed and write identical bytes -/
theorem save_twice_no_segments_bytes {o : Obj} {os : OStream} {r : SaveRes} {hd : Bytes} (hseg : o.segs = [])
    (hh : o.hdr = some hd) (hl : ehdrSize o.cls ≤ hd.length) (hs : save o os = .ok r) (hok : r.ok = true) :
    ∃ r2, save r.obj os = .ok r2 ∧ r2.ok = true ∧ r2.os.content = r.os.content ∧
      save r2.obj os = .ok r2 :=
  ⟨r, save_twice_no_segments hseg hh hl hs hok, hok, rfl, save_twice_no_segments hseg hh hl hs hok⟩

/-- non-vacuity: a created object with a `.text` section (no segments) meets the hypotheses and its
    save succeeds -/
def nosegObj : M Obj := do
  let o ← create {} .c32 .msb
  let o ← sectionsAdd o [0x2e, 0x74, 0x65, 0x78, 0x74]
  let o := updSec o 2 fun b => { b with stype := 1, flags := 6, addrAlign := 16 }
  updSecM o 2 fun b => b.setData (some [1, 2, 3, 4, 5]) 5

example : (match nosegObj with
    | .ok o => o.segs.isEmpty && (match o.hdr with | some hd => decide (ehdrSize o.cls ≤ hd.length) | none => false) &&
        (match save o {} with | .ok r => r.ok | .error _ => false)
    | .error _ => false) = true := by decide +kernel

/-! ### saving twice: objects with segments -/

/-- the F13 trigger, per member: a member without address that occupies no file space (NOBITS, or
    empty) is placed behind a *non-zero* alignment gap -/
def GapBeforeAddresslessNobits (sec : SecBuf) (pos : BitVec 64) : Prop :=
  sec.addrSet = false ∧ (sec.stype = BitVec.ofNat 32 SHT_NOBITS ∨ sec.size = 0) ∧
  wsd_gap_align (if wsd_align_zero sec.addrAlign then 1 else sec.addrAlign)
    (wsd_error pos (if wsd_align_zero sec.addrAlign then 1 else sec.addrAlign)) ≠ 0

theorem occupies_iff (sec : SecBuf) (hnn : wsd_is_null sec.stype = false) (generated addrSet : Bool) :
    wsd_addr_branch generated addrSet sec.stype sec.size =
      (!generated && addrSet && decide (sec.stype ≠ BitVec.ofNat 32 SHT_NOBITS) && decide (sec.size ≠ 0)) := by
  have h2 : (BitVec.ofNat 32 SHT_NULL != sec.stype) = true := by
    simp only [wsd_is_null, beq_eq_false_iff_ne, ne_eq] at hnn
    simp only [bne_iff_ne, ne_eq]; exact hnn
  unfold wsd_addr_branch
  rw [h2, Bool.and_true]
  congr 1
  · congr 1
    by_cases h : sec.stype = BitVec.ofNat 32 SHT_NOBITS
    · simp [h]
    · have : BitVec.ofNat 32 SHT_NOBITS ≠ sec.stype := fun e => h e.symm
      simp [h, this]
  · by_cases h : sec.size = 0
    · simp [h]
    · have h' : ¬ sec.size = 0#64 := h
      have : ¬ (0#64 = sec.size) := fun e => h e.symm
      simp [h', this]

/-- **re-running the placing step on its own result** (ELF64): if `write_segment_data` placed a
    not-yet-generated member `sec` from cursor `pos`, producing `sec'`, then running the step again
    from the same cursor on `sec'` produces exactly the same outcome — the address-driven branch
    recomputes the gap the alignment-driven branch chose — or aborts (only if the offsets wrapped
    around 2^64), **provided** the member is not an address-less NOBITS/empty section behind a non-zero
    alignment gap.  In that excluded case the second run takes no gap at all: F13. -/
theorem stepCore_resave {g : Seg} {ss : BitVec 64} {sec sec' : SecBuf} {pos pos2 mem file mem' file' : BitVec 64}
    (h : stepCore .c64 g ss sec false pos mem file = .placed sec' pos2 mem' file')
    (hng : ¬ GapBeforeAddresslessNobits sec pos) :
    stepCore .c64 g ss sec' false pos mem file = .placed sec' pos2 mem' file' ∨
    stepCore .c64 g ss sec' false pos mem file = .abort := by
  unfold stepCore at h
  by_cases hnn : wsd_is_null sec.stype = true
  · rw [if_pos hnn] at h; cases h
  · rw [if_neg hnn] at h
    have hnn' : wsd_is_null sec.stype = false := by simpa using hnn
    cases hgap : stepGap g ss sec false pos file with
    | none => rw [hgap] at h; cases h
    | some gap =>
      rw [hgap] at h
      simp only [Bool.false_eq_true, if_false] at h
      injection h with e1 e2 e3 e4
      -- the placed section
      rw [stepPlace_eq] at e1
      have hst : sec'.stype = sec.stype := by rw [← e1]
      have hsz : sec'.size = sec.size := by rw [← e1]
      have hfl : sec'.flags = sec.flags := by rw [← e1]
      have hset' : sec'.addrSet = true := by rw [← e1]
      have hidx' : sec'.index = sec.index := by rw [← e1]
      have hoff' : sec'.offset = if (sec.index != 0) = true then truncA .c64 (wsd_cursor_gap pos gap) else sec.offset := by
        rw [← e1]
      have hidem : stepPlace .c64 g ss sec' (wsd_cursor_gap pos gap) = sec' := by
        rw [stepPlace_eq]
        have h1 : (if sec'.addrSet = true then sec'.addr
            else truncA .c64 (wsd_new_addr g.vaddr (wsd_cursor_gap pos gap) ss)) = sec'.addr := by
          rw [hset']; rfl
        have h2 : (if (sec'.index != 0) = true then truncA .c64 (wsd_cursor_gap pos gap) else sec'.offset) =
            sec'.offset := by
          rw [hidx', hoff']; split <;> rfl
        rw [h1, h2]
        clear h1 h2 hoff' hidx' hfl hsz hst e1
        cases sec'
        simp only at hset'
        subst hset'
        rfl
      -- the second run's gap
      have key : stepGap g ss sec' false pos file = some gap ∨ stepGap g ss sec' false pos file = none := by
        unfold stepGap at hgap ⊢
        rw [occupies_iff sec hnn'] at hgap
        rw [occupies_iff sec' (by rw [hst]; exact hnn'), hset', hst, hsz]
        simp only [Bool.not_false, Bool.true_and] at hgap ⊢
        cases ha : sec.addrSet with
        | true =>
          rw [ha] at hgap
          have ead : sec'.addr = sec.addr := by rw [← e1]; simp only [ha, if_true]
          rw [ead]
          simp only [Bool.true_and] at hgap
          by_cases hocc : (decide (sec.stype ≠ BitVec.ofNat 32 SHT_NOBITS) && decide (sec.size ≠ 0)) = true
          · rw [if_pos hocc] at hgap ⊢
            exact Or.inl hgap
          · rw [if_neg hocc] at hgap ⊢
            simp only [wsd_align_branch, ha, Bool.not_false, Bool.not_true, Bool.and_false, Bool.false_eq_true,
              if_false, Bool.true_and] at hgap ⊢
            exact Or.inl hgap
        | false =>
          rw [ha] at hgap
          simp only [Bool.false_and, Bool.false_eq_true, if_false, wsd_align_branch, Bool.not_false, Bool.and_true,
            if_true, Option.some.injEq] at hgap
          by_cases hocc : (decide (sec.stype ≠ BitVec.ofNat 32 SHT_NOBITS) && decide (sec.size ≠ 0)) = true
          · rw [if_pos hocc]
            -- address-driven branch on the address the first run computed
            have ead : sec'.addr = wsd_new_addr g.vaddr (wsd_cursor_gap pos gap) ss := by
              rw [← e1]; simp only [ha, Bool.false_eq_true, if_false, truncA]
            rw [ead]
            by_cases hlt : wsd_req_lt_cur (wsd_req_offset (wsd_new_addr g.vaddr (wsd_cursor_gap pos gap) ss) g.vaddr)
                (wsd_cur_offset pos ss) = true
            · rw [if_pos hlt]; exact Or.inr rfl
            · rw [if_neg hlt]
              left
              congr 1
              simp only [wsd_gap_addr, wsd_req_offset, wsd_new_addr, wsd_cursor_gap, wsd_cur_offset]
              bv_omega
          · rw [if_neg hocc]
            simp only [wsd_align_branch, Bool.not_false, Bool.not_true, Bool.and_false, Bool.false_eq_true, if_false]
            left
            -- no file space: the first gap must have been zero
            have hz : gap = 0 := by
              apply Classical.byContradiction
              intro hne
              apply hng
              refine ⟨ha, ?_, by rw [hgap]; exact hne⟩
              simp only [Bool.and_eq_true, decide_eq_true_eq, not_and, Decidable.not_not] at hocc
              by_cases h1 : sec.stype = BitVec.ofNat 32 SHT_NOBITS
              · exact Or.inl h1
              · exact Or.inr (hocc h1)
            rw [hz]
      unfold stepCore
      rw [hst, if_neg hnn]
      rcases key with k | k
      · left
        rw [k]
        simp only [Bool.false_eq_true, if_false, hst, hsz, hfl, hidem, e2, e3, e4]
      · right
        rw [k]

theorem stepCore_congr_seg {c : Cls} {g g' : Seg} (hv : g'.vaddr = g.vaddr) (ht : g'.stype = g.stype)
    (ss : BitVec 64) (sec : SecBuf) (gen : Bool) (pos mem file : BitVec 64) :
    stepCore c g' ss sec gen pos mem file = stepCore c g ss sec gen pos mem file := by
  unfold stepCore stepGap stepPlace
  rw [hv, ht]

/-- run 2 is in step with run 1: it works on the final sections `F`, with the same cursor, flags
    and counters -/
structure Lock (F : List SecBuf) (s1 s2 : WsdSt) : Prop where
  secs : s2.lay.secs = F
  pos : s2.lay.pos = s1.lay.pos
  gen : s2.lay.gen = s1.lay.gen
  mem : s2.mem = s1.mem
  file : s2.file = s1.file

/-- sections that are generated already have their final form -/
def Fut (F : List SecBuf) (st : WsdSt) : Prop :=
  F.length = st.lay.secs.length ∧ ∀ (i : Nat), st.lay.gen[i]? = some true → F[i]? = st.lay.secs[i]?

/-- no member meets the F13 trigger when it is placed -/
def StepOk (st : WsdSt) (idx : BitVec 16) : Prop :=
  ∀ sec, st.lay.secs[idx.toNat]? = some sec → st.lay.gen[idx.toNat]? = some false →
    ¬ GapBeforeAddresslessNobits sec st.lay.pos

def LoopOk (c : Cls) (g : Seg) (ss : BitVec 64) : List (BitVec 16) → WsdSt → Prop
  | [], _ => True
  | idx :: rest, st => StepOk st idx ∧ ∀ st', wsdStep c g ss st idx = .ok (some st') → LoopOk c g ss rest st'

theorem applyOut_length {st st' : WsdSt} {i : Nat} {out : StepOut} (h : applyOut st i out = some st') :
    st'.lay.secs.length = st.lay.secs.length ∧ st'.lay.gen.length = st.lay.gen.length := by
  cases out <;> simp only [applyOut, Option.some.injEq] at h
  · cases h
  · subst h; exact ⟨rfl, List.length_set⟩
  · subst h; exact ⟨rfl, rfl⟩
  · subst h; exact ⟨List.length_set, List.length_set⟩

theorem wsdLoop_length {c : Cls} {g : Seg} {ss : BitVec 64} (l : List (BitVec 16)) {st st' : WsdSt}
    (h : wsdLoop c g ss l st = .ok (some st')) : st'.lay.secs.length = st.lay.secs.length :=
  ((wsdLoop_frame l h).1).1

theorem set_eq_self_of_getElem? {α} {l : List α} {i : Nat} {x : α} (h : l[i]? = some x) : l.set i x = l := by
  apply List.ext_getElem?
  intro j
  rw [List.getElem?_set]
  split
  · rename_i e; subst e
    split
    · exact h.symm
    · rename_i hlt; rw [List.getElem?_eq_none (by omega)] at h; cases h
  · rfl

/-- **one member, in step** -/
theorem wsdStep_resave {g g' : Seg} {ss : BitVec 64} {F : List SecBuf} {st1 st1' st2 st2' : WsdSt} {idx : BitVec 16}
    (hv : g'.vaddr = g.vaddr) (ht : g'.stype = g.stype)
    (h1 : wsdStep .c64 g ss st1 idx = .ok (some st1')) (hF : Fut F st1') (hok : StepOk st1 idx)
    (hl : Lock F st1 st2) (h2 : wsdStep .c64 g' ss st2 idx = .ok (some st2')) : Lock F st1' st2' := by
  obtain ⟨sec1, gen1, hs1, hg1, ha1⟩ := wsdStep_ok h1
  obtain ⟨sec2, gen2, hs2, hg2, ha2⟩ := wsdStep_ok h2
  rw [hl.secs] at hs2
  rw [hl.gen, hg1] at hg2
  simp only [Option.some.injEq] at hg2
  subst hg2
  rw [hl.pos, hl.mem, hl.file, stepCore_congr_seg hv ht] at ha2
  obtain ⟨len1, _⟩ := applyOut_length ha1
  have hi : idx.toNat < st1.lay.secs.length := by
    rcases Nat.lt_or_ge idx.toNat st1.lay.secs.length with h | h
    · exact h
    · rw [List.getElem?_eq_none h] at hs1; cases hs1
  have hgi : idx.toNat < st1.lay.gen.length := by
    rcases Nat.lt_or_ge idx.toNat st1.lay.gen.length with h | h
    · exact h
    · rw [List.getElem?_eq_none h] at hg1; cases hg1
  cases gen1 with
  | true =>
    -- already generated: the section has its final form, the outcome is identical
    have hgen' := (wsdStep_stable h1 idx.toNat hg1)
    have : F[idx.toNat]? = st1.lay.secs[idx.toNat]? := by rw [hF.2 _ hgen'.2, hgen'.1]
    rw [this, hs1] at hs2
    simp only [Option.some.injEq] at hs2
    subst hs2
    cases ho : stepCore .c64 g ss sec1 true st1.lay.pos st1.mem st1.file with
    | abort => rw [ho] at ha1; cases ha1
    | null =>
      rw [ho] at ha1 ha2; simp only [applyOut, Option.some.injEq] at ha1 ha2; subst ha1; subst ha2
      exact ⟨hl.secs, hl.pos, by simp only; rw [hl.gen], hl.mem, hl.file⟩
    | counted m f =>
      rw [ho] at ha1 ha2; simp only [applyOut, Option.some.injEq] at ha1 ha2; subst ha1; subst ha2
      exact ⟨hl.secs, hl.pos, hl.gen, rfl, rfl⟩
    | placed s p m f => exact absurd ho (stepCore_true_not_placed _ _ _ _ _ _ _ _ _ _ _)
  | false =>
    cases ho : stepCore .c64 g ss sec1 false st1.lay.pos st1.mem st1.file with
    | abort => rw [ho] at ha1; cases ha1
    | counted m f => exact absurd ho (stepCore_false_not_counted _ _ _ _ _ _ _ _ _)
    | null =>
      rw [ho] at ha1; simp only [applyOut, Option.some.injEq] at ha1; subst ha1
      -- the section is final already
      have hgen' : (st1.lay.gen.set idx.toNat true)[idx.toNat]? = some true := List.getElem?_set_self hgi
      have : F[idx.toNat]? = some sec1 := by rw [hF.2 _ hgen']; exact hs1
      rw [this] at hs2
      simp only [Option.some.injEq] at hs2
      subst hs2
      rw [ho] at ha2; simp only [applyOut, Option.some.injEq] at ha2; subst ha2
      exact ⟨hl.secs, hl.pos, by simp only; rw [hl.gen], hl.mem, hl.file⟩
    | placed s p m f =>
      rw [ho] at ha1; simp only [applyOut, Option.some.injEq] at ha1; subst ha1
      have hgen' : (st1.lay.gen.set idx.toNat true)[idx.toNat]? = some true := List.getElem?_set_self hgi
      have hFi : F[idx.toNat]? = some s := by
        rw [hF.2 _ hgen']; exact List.getElem?_set_self hi
      rw [hFi] at hs2
      simp only [Option.some.injEq] at hs2
      subst hs2
      rcases stepCore_resave ho (hok sec1 hs1 hg1) with h' | h'
      · rw [h'] at ha2; simp only [applyOut, Option.some.injEq] at ha2; subst ha2
        refine ⟨?_, rfl, by simp only; rw [hl.gen], rfl, rfl⟩
        simp only
        rw [hl.secs]
        exact set_eq_self_of_getElem? hFi
      · rw [h'] at ha2; cases ha2

theorem Fut.back {c : Cls} {g : Seg} {ss : BitVec 64} {F : List SecBuf} (l : List (BitVec 16)) {st stE : WsdSt}
    (h : wsdLoop c g ss l st = .ok (some stE)) (hF : Fut F stE) : Fut F st := by
  refine ⟨hF.1.trans (wsdLoop_length l h), fun i hi => ?_⟩
  obtain ⟨a, b⟩ := wsdLoop_stable l h i hi
  rw [hF.2 i b, a]

/-- **all members of a segment, in step** -/
theorem wsdLoop_resave {g g' : Seg} {ss : BitVec 64} {F : List SecBuf} (hv : g'.vaddr = g.vaddr)
    (ht : g'.stype = g.stype) (l : List (BitVec 16)) {st1 stE st2 st2E : WsdSt}
    (h1 : wsdLoop .c64 g ss l st1 = .ok (some stE)) (hF : Fut F stE) (hok : LoopOk .c64 g ss l st1)
    (hl : Lock F st1 st2) (h2 : wsdLoop .c64 g' ss l st2 = .ok (some st2E)) : Lock F stE st2E := by
  induction l generalizing st1 st2 with
  | nil =>
    simp only [wsdLoop, pure, Except.pure, Except.ok.injEq, Option.some.injEq] at h1 h2
    subst h1; subst h2; exact hl
  | cons idx rest ih =>
    simp only [wsdLoop, bind, Except.bind] at h1 h2
    cases e1 : wsdStep .c64 g ss st1 idx with
    | error x => rw [e1] at h1; cases h1
    | ok r1 =>
      rw [e1] at h1
      cases r1 with
      | none => cases h1
      | some st1' =>
        cases e2 : wsdStep .c64 g' ss st2 idx with
        | error x => rw [e2] at h2; cases h2
        | ok r2 =>
          rw [e2] at h2
          cases r2 with
          | none => cases h2
          | some st2' =>
            simp only at h1 h2
            have hF' : Fut F st1' := Fut.back rest h1 hF
            have hl' := wsdStep_resave hv ht e1 hF' hok.1 hl e2
            exact ih h1 (hok.2 st1' e1) hl' h2

/-- layouts in step -/
structure LockL (F : List SecBuf) (l1 l2 : Layout) : Prop where
  secs : l2.secs = F
  pos : l2.pos = l1.pos
  gen : l2.gen = l1.gen

def FutL (F : List SecBuf) (lay : Layout) : Prop :=
  F.length = lay.secs.length ∧ ∀ (i : Nat), lay.gen[i]? = some true → F[i]? = lay.secs[i]?

theorem segStartOf_resave {F : List SecBuf} {phoff : BitVec 64} {pe pn : BitVec 16} {lay1 lay2 : Layout} {g d : Seg}
    {p1 : Layout × BitVec 64 × BitVec 64 × BitVec 64}
    (hl : LockL F lay1 lay2) (hF : FutL F lay1) (h1 : segStartOf phoff pe pn lay1 g = .ok p1)
    (dt : d.stype = g.stype) (dsecs : d.secs = g.secs) (dal : d.align = g.align) (dv : d.vaddr = g.vaddr)
    (dset : d.offsetSet = true) (doff : d.offset = p1.2.1)
    (hnz : lseg_is_phdr g.stype (BitVec.ofNat 16 g.secs.length) = false → lseg_offset0 g.offsetSet g.offset = false →
      p1.2.1 ≠ 0) :
    ∃ p2, segStartOf phoff pe pn lay2 d = .ok p2 ∧ p2.2 = p1.2 ∧ LockL F p1.1 p2.1 := by
  unfold segStartOf at h1 ⊢
  rw [dt, dsecs, dal, dv, dset, doff, hl.gen, hl.pos, hl.secs]
  have hoff0 : ∀ x : BitVec 64, lseg_offset0 true x = (x == 0) := by
    intro x; simp [lseg_offset0]
  cases hh : g.secs.head? with
  | none =>
    rw [hh] at h1
    simp only [pure_bind] at h1 ⊢
    by_cases c1 : lseg_is_phdr g.stype (BitVec.ofNat 16 g.secs.length) = true
    · simp only [c1, if_true, if_false, Bool.false_eq_true] at h1 ⊢
      simp only [pure, Except.pure, Except.ok.injEq] at h1; subst h1
      exact ⟨_, rfl, rfl, hl⟩
    · simp only [c1, if_false, Bool.false_eq_true] at h1 ⊢
      by_cases c2 : lseg_offset0 g.offsetSet g.offset = true
      · simp only [c2, if_true, if_false, Bool.false_eq_true] at h1
        simp only [pure, Except.pure, Except.ok.injEq] at h1; subst h1
        simp only [hoff0, beq_self_eq_true, if_true]
        exact ⟨_, rfl, rfl, hl⟩
      · have hne := hnz (by simpa using c1) (by simpa using c2)
        have c2' : lseg_offset0 true p1.2.1 = false := by
          rw [hoff0]; simpa using hne
        simp only [c2, if_false, Bool.false_eq_true] at h1
        rw [c2']
        simp only [Bool.false_eq_true, if_false]
        by_cases c3 : (decide (g.secs.length > 0) && !false) = true
        · simp only [c3, if_true, if_false, Bool.false_eq_true] at h1 ⊢
          simp only [pure, Except.pure, Except.ok.injEq] at h1; subst h1
          exact ⟨_, rfl, rfl, ⟨rfl, rfl, rfl⟩⟩
        · simp only [c3, if_false, Bool.false_eq_true] at h1 ⊢
          by_cases c4 : g.secs.length > 0
          · simp only [c4, if_true, if_false, Bool.false_eq_true] at h1 ⊢
            simp only [pure, Except.pure, Except.ok.injEq] at h1; subst h1
            exact ⟨_, rfl, rfl, hl⟩
          · simp only [c4, if_false, Bool.false_eq_true] at h1 ⊢
            simp only [pure, Except.pure, Except.ok.injEq] at h1; subst h1
            exact ⟨_, rfl, rfl, hl⟩
  | some f =>
    rw [hh] at h1
    simp only at h1 ⊢
    cases hg : lay1.gen[f.toNat]? with
    | none => rw [hg] at h1; cases h1
    | some b =>
      rw [hg] at h1
      simp only [pure_bind] at h1 ⊢
      by_cases c1 : lseg_is_phdr g.stype (BitVec.ofNat 16 g.secs.length) = true
      · simp only [c1, if_true, if_false, Bool.false_eq_true] at h1 ⊢
        simp only [pure, Except.pure, Except.ok.injEq] at h1; subst h1
        exact ⟨_, rfl, rfl, hl⟩
      · simp only [c1, if_false, Bool.false_eq_true] at h1 ⊢
        by_cases c2 : lseg_offset0 g.offsetSet g.offset = true
        · simp only [c2, if_true, if_false, Bool.false_eq_true] at h1
          simp only [pure, Except.pure, Except.ok.injEq] at h1; subst h1
          simp only [hoff0, beq_self_eq_true, if_true]
          exact ⟨_, rfl, rfl, hl⟩
        · have hne := hnz (by simpa using c1) (by simpa using c2)
          have c2' : lseg_offset0 true p1.2.1 = false := by
            rw [hoff0]; simpa using hne
          simp only [c2, if_false, Bool.false_eq_true] at h1
          rw [c2']
          simp only [Bool.false_eq_true, if_false]
          by_cases c3 : (decide (g.secs.length > 0) && !b) = true
          · simp only [c3, if_true, if_false, Bool.false_eq_true] at h1 ⊢
            simp only [pure, Except.pure, Except.ok.injEq] at h1; subst h1
            exact ⟨_, rfl, rfl, ⟨rfl, rfl, rfl⟩⟩
          · simp only [c3, if_false, Bool.false_eq_true] at h1 ⊢
            by_cases c4 : g.secs.length > 0
            · simp only [c4, if_true, if_false, Bool.false_eq_true] at h1 ⊢
              -- the first member is generated: its offset is final
              have hb : b = true := by
                simp only [c4, decide_true, Bool.true_and, Bool.not_eq_true', Bool.not_eq_false] at c3
                simpa using c3
              subst hb
              have hFf : F[f.toNat]? = lay1.secs[f.toNat]? := hF.2 _ hg
              rw [hFf]
              cases hs : lay1.secs[f.toNat]? with
              | none => rw [hs] at h1; cases h1
              | some s0 =>
                rw [hs] at h1
                simp only [pure, Except.pure, Except.ok.injEq] at h1; subst h1
                exact ⟨_, rfl, rfl, hl⟩
            · simp only [c4, if_false, Bool.false_eq_true] at h1 ⊢
              simp only [pure, Except.pure, Except.ok.injEq] at h1; subst h1
              exact ⟨_, rfl, rfl, hl⟩

theorem segFinish_fields (c : Cls) (g : Seg) (ss : BitVec 64) (st : WsdSt) :
    (segFinish c g ss st).stype = g.stype ∧ (segFinish c g ss st).secs = g.secs ∧
    (segFinish c g ss st).align = g.align ∧ (segFinish c g ss st).vaddr = g.vaddr ∧
    (segFinish c g ss st).offsetSet = true ∧ (segFinish c g ss st).offset = truncA c ss ∧
    (segFinish c g ss st).index = g.index := by
  refine ⟨?_, ?_, ?_, ?_, ?_, ?_, ?_⟩ <;>
    (by_cases h : lseg_memsz_lt g.memsz st.mem = true <;> simp [segFinish, h])

theorem segFinish_idem (g : Seg) (ss : BitVec 64) (st st' : WsdSt) (hm : st'.mem = st.mem) (hf : st'.file = st.file) :
    segFinish .c64 (segFinish .c64 g ss st) ss st' = segFinish .c64 g ss st := by
  unfold segFinish
  simp only [hm, hf, truncA]
  by_cases h : lseg_memsz_lt g.memsz st.mem = true
  · simp only [h, if_true]
    have : lseg_memsz_lt st.mem st.mem = false := by simp [lseg_memsz_lt, BitVec.ult]
    simp only [this, Bool.false_eq_true, if_false]
  · simp only [h, if_false, Bool.false_eq_true]

/-- the side conditions of one segment: its start is not 0 (unless it was at offset 0 already), and
    no member meets the F13 trigger -/
def SegOk (phoff : BitVec 64) (pe pn : BitVec 16) (lay : Layout) (g : Seg) : Prop :=
  ∀ p, segStartOf phoff pe pn lay g = .ok p →
    (lseg_offset0 g.offsetSet g.offset = false → p.2.1 ≠ 0) ∧
    LoopOk .c64 g p.2.1 g.secs { lay := p.1, mem := p.2.2.1, file := p.2.2.2 }

/-- **one segment, in step**: laying out the finished segment `d` again, on the final sections,
    from the same cursor, reproduces `d` and the same cursor -/
theorem layoutSegment_resave {F : List SecBuf} {phoff : BitVec 64} {pe pn : BitVec 16}
    {lay1 lay1E lay2 lay2E : Layout} {g d d2 : Seg}
    (h1 : layoutSegment .c64 phoff pe pn lay1 g = .ok (some (lay1E, d))) (hF : FutL F lay1E)
    (hok : SegOk phoff pe pn lay1 g) (hl : LockL F lay1 lay2)
    (h2 : layoutSegment .c64 phoff pe pn lay2 d = .ok (some (lay2E, d2))) :
    LockL F lay1E lay2E ∧ d2 = d := by
  obtain ⟨p1, stE, s1, w1, rfl, rfl⟩ := layoutSegment_ok h1
  obtain ⟨p2', st2E, s2, w2, rfl, rfl⟩ := layoutSegment_ok h2
  obtain ⟨f1, f2, f3, f4, f5, f6, _⟩ := segFinish_fields .c64 g p1.2.1 stE
  obtain ⟨e1, e2⟩ := segStartOf_secs s1
  -- the entry layout: generated sections are final
  have hFst : Fut F { lay := p1.1, mem := p1.2.2.1, file := p1.2.2.2 } := Fut.back g.secs w1 hF
  have hF1 : FutL F lay1 := by
    obtain ⟨a, b⟩ := hFst
    simp only [e1, e2] at a b
    exact ⟨a, b⟩
  obtain ⟨hnz, hloop⟩ := hok p1 s1
  obtain ⟨p2, s2', ep, lk⟩ := segStartOf_resave hl hF1 s1 f1 f2 f3 f4 f5 f6 (fun _ h => hnz h)
  rw [s2'] at s2
  simp only [Except.ok.injEq] at s2
  subst s2
  have hss : p2.2.1 = p1.2.1 := by rw [ep]
  have hm : p2.2.2.1 = p1.2.2.1 := by rw [ep]
  have hf : p2.2.2.2 = p1.2.2.2 := by rw [ep]
  rw [f2, hss, hm, hf] at w2
  have hlock := wsdLoop_resave (g := g) (g' := segFinish .c64 g p1.2.1 stE) f4 f1 g.secs w1 hF hloop
    (st2 := { lay := p2.1, mem := p1.2.2.1, file := p1.2.2.2 }) ⟨lk.secs, lk.pos, lk.gen, rfl, rfl⟩ w2
  refine ⟨⟨hlock.secs, hlock.pos, hlock.gen⟩, ?_⟩
  rw [hss]
  exact segFinish_idem g p1.2.1 stE st2E hlock.mem hlock.file

theorem layoutSegment_stable {c : Cls} {phoff : BitVec 64} {pe pn : BitVec 16} {lay lay' : Layout} {g g' : Seg}
    (h : layoutSegment c phoff pe pn lay g = .ok (some (lay', g'))) (i : Nat) (hg : lay.gen[i]? = some true) :
    lay'.secs[i]? = lay.secs[i]? ∧ lay'.gen[i]? = some true := by
  obtain ⟨p, st, s1, w1, rfl, rfl⟩ := layoutSegment_ok h
  obtain ⟨e1, e2⟩ := segStartOf_secs s1
  have := wsdLoop_stable g.secs w1 i (by simp only [e2]; exact hg)
  simp only [e1] at this
  exact this

theorem SegRun.stable {c : Cls} {e : Enc} {h0 : Bytes} {lay layE : Layout} {ordered ds : List Seg}
    (run : SegRun c e h0 lay ordered layE ds) (i : Nat) (hg : lay.gen[i]? = some true) :
    layE.secs[i]? = lay.secs[i]? ∧ layE.gen[i]? = some true := by
  induction run with
  | nil => exact ⟨rfl, hg⟩
  | cons h1 _ ih =>
    obtain ⟨a1, a2⟩ := layoutSegment_stable h1 i hg
    obtain ⟨b1, b2⟩ := ih a2
    exact ⟨b1.trans a1, b2⟩

theorem FutL.back {c : Cls} {e : Enc} {h0 : Bytes} {F : List SecBuf} {lay layE : Layout} {ordered ds : List Seg}
    (run : SegRun c e h0 lay ordered layE ds) (hF : FutL F layE) : FutL F lay := by
  refine ⟨hF.1.trans run.frame.1.1, fun i hi => ?_⟩
  obtain ⟨a, b⟩ := SegRun.stable run i hi
  rw [hF.2 i b, a]

/-- the side conditions along the whole segment loop -/
def RunOk (e : Enc) (h0 : Bytes) : Layout → List Seg → Prop
  | _, [] => True
  | lay, g :: rest =>
    SegOk (Hdr.e_phoff .c64 e h0) (Hdr.e_phentsize .c64 e h0) (Hdr.e_phnum .c64 e h0) lay g ∧
    ∀ lay' d, layoutSegment .c64 (Hdr.e_phoff .c64 e h0) (Hdr.e_phentsize .c64 e h0) (Hdr.e_phnum .c64 e h0) lay g =
      .ok (some (lay', d)) → RunOk e h0 lay' rest

/-- **the whole segment loop, in step**: running it again over the finished segments, on the final
    sections, from the initial cursor, reproduces the finished segments and the final cursor -/
theorem segRun_resave {e : Enc} {h0 : Bytes} {F : List SecBuf} {lay1 lay1E lay2 lay2E : Layout}
    {ordered ds acc done2 : List Seg}
    (run : SegRun .c64 e h0 lay1 ordered lay1E ds) (hF : FutL F lay1E) (hok : RunOk e h0 lay1 ordered)
    (hl : LockL F lay1 lay2)
    (h2 : ds.foldlM (saveStep .c64 e h0) (some (lay2, acc)) = .ok (some (lay2E, done2))) :
    LockL F lay1E lay2E ∧ done2 = acc ++ ds := by
  induction run generalizing lay2 acc with
  | nil lay =>
    simp only [List.foldlM_nil, pure, Except.pure, Except.ok.injEq, Option.some.injEq, Prod.mk.injEq] at h2
    obtain ⟨rfl, rfl⟩ := h2
    exact ⟨hl, by simp⟩
  | @cons layA layB layC g d rest ds' h1 run' ih =>
    simp only [List.foldlM_cons, saveStep, bind, Except.bind] at h2
    cases e2 : layoutSegment .c64 (Hdr.e_phoff .c64 e h0) (Hdr.e_phentsize .c64 e h0) (Hdr.e_phnum .c64 e h0) lay2 d with
    | error x => rw [e2] at h2; cases h2
    | ok r2 =>
      rw [e2] at h2
      cases r2 with
      | none =>
        simp only [pure, Except.pure] at h2
        rw [saveFold_none] at h2; cases h2
      | some p2 =>
        obtain ⟨layB2, d2⟩ := p2
        simp only [pure, Except.pure] at h2
        have hFB : FutL F layB := FutL.back run' hF
        obtain ⟨lk, ed⟩ := layoutSegment_resave h1 hFB hok.1 hl e2
        subst ed
        obtain ⟨lkE, edone⟩ := ih hF (hok.2 _ _ h1) lk h2
        exact ⟨lkE, by rw [edone]; simp⟩

/-- every finished segment is `segFinish` of its ordered segment, started somewhere -/
theorem SegRun.finished {c : Cls} {e : Enc} {h0 : Bytes} {lay layE : Layout} {ordered ds : List Seg}
    (run : SegRun c e h0 lay ordered layE ds) :
    All2 (fun g d => ∃ ss st, d = segFinish c g ss st) ordered ds := by
  induction run with
  | nil => exact All2.nil
  | cons h1 _ ih =>
    obtain ⟨p, st, _, _, _, ed⟩ := layoutSegment_ok h1
    exact All2.cons ⟨_, _, ed⟩ ih

theorem applyOut_gen {st st' : WsdSt} {i : Nat} {out : StepOut} (h : applyOut st i out = some st') (j : Nat)
    (hj : st'.lay.gen[j]? = some true) : st.lay.gen[j]? = some true ∨ j = i := by
  cases out <;> simp only [applyOut, Option.some.injEq] at h
  · cases h
  · subst h
    simp only at hj
    by_cases e : i = j
    · exact Or.inr e.symm
    · rw [List.getElem?_set_ne e] at hj; exact Or.inl hj
  · subst h; exact Or.inl hj
  · subst h
    simp only at hj
    by_cases e : i = j
    · exact Or.inr e.symm
    · rw [List.getElem?_set_ne e] at hj; exact Or.inl hj

theorem wsdLoop_gen {c : Cls} {g : Seg} {ss : BitVec 64} (l : List (BitVec 16)) {st st' : WsdSt}
    (h : wsdLoop c g ss l st = .ok (some st')) (j : Nat) (hj : st'.lay.gen[j]? = some true) :
    st.lay.gen[j]? = some true ∨ ∃ idx ∈ l, idx.toNat = j := by
  induction l generalizing st with
  | nil =>
    simp only [wsdLoop, pure, Except.pure, Except.ok.injEq, Option.some.injEq] at h; subst h; exact Or.inl hj
  | cons idx rest ih =>
    simp only [wsdLoop, bind, Except.bind] at h
    cases h1 : wsdStep c g ss st idx with
    | error x => rw [h1] at h; cases h
    | ok r =>
      rw [h1] at h
      cases r with
      | none => cases h
      | some st1 =>
        rcases ih h with a | ⟨k, hk, e⟩
        · obtain ⟨sec, gen, _, _, ha⟩ := wsdStep_ok h1
          rcases applyOut_gen ha j a with b | b
          · exact Or.inl b
          · exact Or.inr ⟨idx, List.mem_cons_self, b.symm⟩
        · exact Or.inr ⟨k, List.mem_cons_of_mem _ hk, e⟩

theorem SegRun.gen_member {c : Cls} {e : Enc} {h0 : Bytes} {lay layE : Layout} {ordered ds : List Seg}
    (run : SegRun c e h0 lay ordered layE ds) (j : Nat) (hj : layE.gen[j]? = some true) :
    lay.gen[j]? = some true ∨ ∃ g ∈ ordered, ∃ idx ∈ g.secs, idx.toNat = j := by
  induction run with
  | nil => exact Or.inl hj
  | @cons layA layB layC g d rest ds' h1 _ ih =>
    rcases ih hj with a | ⟨g', hg', k, hk, e'⟩
    · obtain ⟨p, st, s1, w1, rfl, _⟩ := layoutSegment_ok h1
      obtain ⟨_, e2⟩ := segStartOf_secs s1
      rcases wsdLoop_gen g.secs w1 j a with b | ⟨k, hk, e'⟩
      · simp only [e2] at b; exact Or.inl b
      · exact Or.inr ⟨g, List.mem_cons_self, k, hk, e'⟩
    · exact Or.inr ⟨g', List.mem_cons_of_mem _ hg', k, hk, e'⟩

/-- under the run's side conditions every finished segment starts at a non-zero offset -/
theorem SegRun.nonzero {e : Enc} {h0 : Bytes} {lay layE : Layout} {ordered ds : List Seg}
    (run : SegRun .c64 e h0 lay ordered layE ds) (hok : RunOk e h0 lay ordered) (hz : NoZeroOffset ordered) :
    NoZeroOffset ds := by
  induction run with
  | nil => intro g hg; cases hg
  | @cons layA layB layC g d rest ds' h1 _ ih =>
    intro x hx
    rcases List.mem_cons.1 hx with e' | e'
    · subst e'
      obtain ⟨p, st, s1, _, _, ed⟩ := layoutSegment_ok h1
      obtain ⟨hnz, _⟩ := hok.1 p s1
      have h0' : lseg_offset0 g.offsetSet g.offset = false := by
        have := hz g List.mem_cons_self
        simpa [lseg_offset0] using this
      have hne : p.2.1 ≠ 0 := hnz h0'
      obtain ⟨_, _, _, _, f5, f6, _⟩ := segFinish_fields .c64 g p.2.1 st
      rw [ed, f5, f6]
      simp only [truncA, Bool.true_and, beq_eq_false_iff_ne, ne_eq]
      exact hne
    · exact ih (hok.2 _ _ h1) (fun y hy => hz y (List.mem_cons_of_mem _ hy)) x e'

theorem mapM_ok_self {α} {f : α → M α} {l : List α} (h : ∀ a ∈ l, f a = .ok a) : l.mapM f = .ok l := by
  induction l with
  | nil => rfl
  | cons a rest ih =>
    simp only [List.mapM_cons, h a List.mem_cons_self, ih (fun b hb => h b (List.mem_cons_of_mem _ hb)), bind,
      Except.bind, pure, Except.pure]

/-- `saveTail` reads of the object only class, byte order, translation and stream, of the segments
    only what `putBack` makes of them, and of the layout only what the loose-section pass makes of it -/
theorem saveTail_congr' {o o' : Obj} {os : OStream} {h0 : Bytes} {segs1 segs1' done done' : List Seg}
    {lay lay' : Layout}
    (hc : o'.cls = o.cls) (he : o'.enc = o.enc) (ht : o'.trans = o.trans) (hs : o'.stream = o.stream)
    (hp : putBack segs1' done' = putBack segs1 done)
    (hl : layoutLoose o.cls (putBack segs1 done) lay'.secs 0 lay'.pos [] =
      layoutLoose o.cls (putBack segs1 done) lay.secs 0 lay.pos []) :
    saveTail o' os h0 segs1' lay' done' = saveTail o os h0 segs1 lay done := by
  unfold saveTail saveWrite
  simp only [hc, he, ht, hs, hp, hl]

theorem All2.imp {α β} {R S : α → β → Prop} {l : List α} {l' : List β} (h : All2 R l l')
    (hrs : ∀ a b, R a b → S a b) : All2 S l l' := by
  induction h with
  | nil => exact All2.nil
  | cons hr _ ih => exact All2.cons (hrs _ _ hr) ih

/-- the side conditions of `save_twice`, evaluated along the layout of the first save: every
    segment starts at a non-zero file offset, and no address-less NOBITS/empty member sits behind a
    non-zero alignment gap (`NoGapBeforeAddresslessNobits` of DESIGN.md, `GapBeforeAddresslessNobits`
    here) -/
def ResaveOk (o : Obj) (hd : Bytes) : Prop :=
  ∀ segs1 ordered, (preRes o).segs.mapM (calcSegAlign (preRes o).secs) = .ok segs1 →
    orderedSegments segs1 = .ok ordered →
    RunOk o.enc (saveHdr0 (preRes o) hd) (saveLay0 (preRes o) (saveHdr0 (preRes o) hd)) ordered

/-- **save_twice** (ELF64; flat or nested segments, none at file offset 0): if `save` succeeds, and
    the side conditions `ResaveOk` hold along its layout, then a second `save` of the resulting
    object into the same initial stream — if it succeeds, which it does unless file offsets wrap
    around 2^64 — returns *exactly the same result*: same object, same stream, identical bytes.
    The address-driven branch of `write_segment_data` recomputes, for every member, the cursor
    position the first pass recorded (`stepCore_resave`); the segment loop, the ordering, the
    alignment pass, the loose-section pass and the header preparation are idempotent. -/
theorem save_twice {o : Obj} {os : OStream} {r r2 : SaveRes} {hd : Bytes} (hc : o.cls = .c64)
    (hh : o.hdr = some hd) (hl : ehdrSize o.cls ≤ hd.length) (hidx : SegIdxOk o.segs) (hz : NoZeroOffset o.segs)
    (hrs : ResaveOk o hd) (hs : save o os = .ok r) (hok : r.ok = true)
    (hs2 : save r.obj os = .ok r2) (hok2 : r2.ok = true) : r2 = r := by
  obtain ⟨hd1, segs1, ordered, lay, done, e1, hf, h1, h2, h3, rfl⟩ := save_ok_unfold hs hok
  rw [hh] at e1; cases e1
  obtain ⟨_, eobj, _, _⟩ := saveTail_ok hok
  generalize ho1 : preRes o = o1 at *
  have hc1 : o1.cls = .c64 := by rw [← ho1]; exact hc
  have hcls : o1.cls = o.cls := by rw [← ho1]; rfl
  have henc : o1.enc = o.enc := by rw [← ho1]; rfl
  have hsegs : o1.segs = o.segs := by rw [← ho1]; rfl
  have hset1 : ∀ b ∈ o1.secs, b.Settled := by rw [← ho1]; exact preRes_settled o
  generalize hh0 : saveHdr0 o1 hd = h0 at *
  -- the first run
  obtain ⟨ds, ed, run⟩ := saveFold_run ordered h3
  simp only [List.nil_append] at ed
  subst ed
  rw [hc] at run h3
  obtain ⟨fsec, _, fseg⟩ := run.frame
  have hlay0secs : (saveLay0 o1 h0).secs = o1.secs := rfl
  rw [hlay0secs] at fsec
  have hsetlay : ∀ b ∈ lay.secs, b.Settled := fsec.forall_right (fun a b h ha => Placed.settled h ha) hset1
  -- the loose pass of the first save
  obtain ⟨L, eL, fL⟩ := layoutLoose_frame o1.cls (putBack segs1 done) lay.secs 0 lay.pos []
  simp only [List.reverse_nil, List.nil_append] at eL
  rw [hc1] at fL
  have hsetL : ∀ b ∈ L, b.Settled := fL.forall_right (fun a b h ha => Placed.settled h ha) hsetlay
  have eS : tailSecs o1 segs1 lay done = L := by
    unfold tailSecs tailLoose
    rw [eL, residentForSave_id _ _ _ _ _ hsetL]; rfl
  have eSt : (residentForSave o1.cls o1.trans (tailLoose o1 segs1 lay done).1 { st := o1.stream } []).2.st = o1.stream := by
    unfold tailLoose
    rw [eL, residentForSave_id _ _ _ _ _ hsetL]
  rw [eS, eSt] at eobj
  generalize hT : saveTail o1 os h0 segs1 lay done = T at *
  have ecls : T.obj.cls = o1.cls := by rw [eobj]
  have eenc : T.obj.enc = o1.enc := by rw [eobj]
  have etr : T.obj.trans = o1.trans := by rw [eobj]
  have estr : T.obj.stream = o1.stream := by rw [eobj]
  have esecs : T.obj.secs = L := by rw [eobj]
  have esegs : T.obj.segs = putBack segs1 done := by rw [eobj]; rfl
  have ehdr : T.obj.hdr = some (tailHdr o1 h0 segs1 lay done) := by rw [eobj]
  have hLlen : L.length = o1.secs.length := fL.1.trans fsec.1
  -- the second save
  obtain ⟨hd2, segs2, ordered2, lay2, done2, e2, _, k1, k2, k3, rfl⟩ := save_ok_unfold hs2 hok2
  rw [ehdr] at e2; cases e2
  have hpre2 : preRes T.obj = T.obj := preRes_id _ (by rw [esecs]; exact hsetL)
  rw [hpre2] at k1 k3 ⊢
  have fa := mapM_ok_frame h1
  -- header preparation
  have eh : saveHdr0 T.obj (tailHdr o1 h0 segs1 lay done) = h0 := by
    rw [saveHdr0_congr ecls eenc (by rw [esegs, putBack_eq_map, List.length_map, fa.1])
      (by rw [esecs, hLlen])]
    unfold tailHdr
    rw [← hh0]
    exact saveHdr0_idem o1 hd _ (by rw [hcls]; exact hl)
  rw [eh] at k3 ⊢
  -- A. the alignment pass is the identity on the finished segments
  have hidx1 : SegIdxOk segs1 := by
    intro k g hg
    have hk : k < o1.segs.length := by
      rw [← fa.1]
      rcases Nat.lt_or_ge k segs1.length with hlt | hge
      · exact hlt
      · rw [List.getElem?_eq_none hge] at hg; cases hg
    have := fa.2 k o1.segs[k] g (List.getElem?_eq_getElem hk) hg
    rw [(calcSegAlign_frame (c := o1.cls) this).1.index]
    exact hidx k _ (by rw [← hsegs]; exact List.getElem?_eq_getElem hk)
  have hz1 : NoZeroOffset segs1 := by
    intro g hg
    obtain ⟨k, hk⟩ := List.getElem?_of_mem hg
    have hk' : k < o1.segs.length := by
      rw [← fa.1]
      rcases Nat.lt_or_ge k segs1.length with hlt | hge
      · exact hlt
      · rw [List.getElem?_eq_none hge] at hk; cases hk
    have := calcSegAlign_frame (c := o1.cls) (fa.2 k o1.segs[k] g (List.getElem?_eq_getElem hk') hk)
    rw [this.2.1, this.2.2.2.2]
    exact hz _ (by rw [← hsegs]; exact List.getElem_mem hk')
  have hperm := orderedSegments_perm hz1 h2
  have hpair1 : segs1.Pairwise (fun a b => a.index ≠ b.index) := by
    rw [List.pairwise_iff_getElem]
    intro i j hi hj hij e
    have e1 := hidx1 i _ (List.getElem?_eq_getElem hi)
    have e2 := hidx1 j _ (List.getElem?_eq_getElem hj)
    omega
  have hpairO : ordered.Pairwise (fun a b => a.index ≠ b.index) :=
    (hperm.pairwise_iff (fun h e => h e.symm)).2 hpair1
  have hfin := SegRun.finished run
  have hfinIdx : All2 (fun g d => d.index = g.index) ordered done :=
    All2.imp hfin (fun g d hr => by
      obtain ⟨ss, st, e⟩ := hr
      rw [e]; exact (segFinish_fields _ _ _ _).2.2.2.2.2.2)
  have hmapO : ordered.map (backFn done) = done := map_backFn_eq hfinIdx hpairO
  -- the finished version of a segment of `segs1` keeps member list and alignment
  have hback : ∀ g ∈ segs1, (backFn done g).secs = g.secs ∧ (backFn done g).align = g.align := by
    intro g hg
    have hgo : g ∈ ordered := (hperm.mem_iff).2 hg
    obtain ⟨k, hk⟩ := List.getElem?_of_mem hgo
    have hk' : k < ordered.length := by
      rcases Nat.lt_or_ge k ordered.length with hlt | hge
      · exact hlt
      · rw [List.getElem?_eq_none hge] at hk; cases hk
    have hkd : k < done.length := by rw [(All2.getElem? hfin).1]; exact hk'
    have e : backFn done g = done[k] := by
      have := congrArg (fun l => l[k]?) hmapO
      simp only [List.getElem?_map, hk, Option.map_some, List.getElem?_eq_getElem hkd, Option.some.injEq] at this
      exact this
    obtain ⟨ss, st, ef⟩ := (All2.getElem? hfin).2 k g _ hk (List.getElem?_eq_getElem hkd)
    rw [e, ef]
    exact ⟨(segFinish_fields _ _ _ _).2.1, (segFinish_fields _ _ _ _).2.2.1⟩
  have eq1 : segs2 = putBack segs1 done := by
    rw [esegs, esecs] at k1
    have : (putBack segs1 done).mapM (calcSegAlign L) = .ok (putBack segs1 done) := by
      apply mapM_ok_self
      intro g2 hg2
      rw [putBack_eq_map] at hg2
      obtain ⟨g, hg, rfl⟩ := List.mem_map.1 hg2
      obtain ⟨bs, ba⟩ := hback g hg
      apply calcSegAlign_fix
      intro idx hi
      rw [bs] at hi
      -- `g` came out of the alignment pass over `o1.secs`
      obtain ⟨k, hk⟩ := List.getElem?_of_mem hg
      have hk' : k < o1.segs.length := by
        rw [← fa.1]
        rcases Nat.lt_or_ge k segs1.length with hlt | hge
        · exact hlt
        · rw [List.getElem?_eq_none hge] at hk; cases hk
      have hca := fa.2 k o1.segs[k] g (List.getElem?_eq_getElem hk') hk
      have hsecs := (calcSegAlign_frame (c := o1.cls) hca).1.secs
      obtain ⟨s, hs0, hle⟩ := calcSegAlign_ge hca idx (by rw [← hsecs]; exact hi)
      -- the section's alignment is not changed by the placement
      have hiL : idx.toNat < L.length := by
        rw [hLlen]
        rcases Nat.lt_or_ge idx.toNat o1.secs.length with hlt | hge
        · exact hlt
        · rw [List.getElem?_eq_none hge] at hs0; cases hs0
      have hpl : Placed .c64 s L[idx.toNat] :=
        (FrameL.trans (R := Placed .c64) (fun _ _ _ => Placed.trans) fsec fL).2 _ _ _ hs0
          (List.getElem?_eq_getElem hiL)
      refine ⟨L[idx.toNat], List.getElem?_eq_getElem hiL, ?_⟩
      rw [ba, hpl.frame.rest]; exact hle
    rw [this] at k1; cases k1; rfl
  subst eq1
  -- B. the order of the finished segments
  have hz2 : NoZeroOffset (segs1.map (backFn done)) := by
    have hnzd : NoZeroOffset done :=
      SegRun.nonzero run (by
        have := hrs segs1 ordered (by rw [ho1]; exact h1) h2
        rw [ho1, hh0] at this; exact this) (fun g hg => hz1 g ((hperm.mem_iff).1 hg))
    intro g2 hg2
    obtain ⟨g, hg, rfl⟩ := List.mem_map.1 hg2
    unfold backFn
    cases hfd : done.find? (fun d => d.index == g.index) with
    | none => exact hz1 g hg
    | some d => exact hnzd d (List.mem_of_find?_eq_some hfd)
  have eq2 : ordered2 = done := by
    rw [putBack_eq_map] at k2
    rw [orderedSegments_map (backFn done) (fun g hg => (hback g hg).1) hz1 hz2 h2, hmapO] at k2
    cases k2; rfl
  subst eq2
  -- C. the segment loop, in step
  rw [ecls, eenc, hc1, henc] at k3
  have hlk0 : LockL L (saveLay0 o1 h0) (saveLay0 T.obj h0) := by
    refine ⟨esecs, ?_, ?_⟩
    · show savePos0 T.obj h0 = savePos0 o1 h0
      unfold savePos0; rw [ecls, eenc]
    · show List.replicate (T.obj.secs.length % 65536) false = List.replicate (o1.secs.length % 65536) false
      rw [esecs, hLlen]
  have hFL : FutL L lay := by
    refine ⟨fL.1, fun i hi => ?_⟩
    -- a generated index is a member of a finished segment
    have hmem : withoutSegment (putBack segs1 ordered2) i = false := by
      rcases SegRun.gen_member run i hi with h0g | ⟨g, hg, idx, hidxm, e⟩
      · have : (List.replicate (o1.secs.length % 65536) false)[i]? = some true := h0g
        rw [List.getElem?_replicate] at this
        split at this <;> cases this
      · have hg1 : g ∈ segs1 := (hperm.mem_iff).1 hg
        rw [withoutSegment_eq]
        simp only [Bool.not_eq_false', List.any_eq_true]
        refine ⟨backFn ordered2 g, ?_, idx, by rw [(hback g hg1).1]; exact hidxm, by simpa using e⟩
        rw [putBack_eq_map]; exact List.mem_map_of_mem hg1
    have : L = (looseSpec o1.cls (putBack segs1 ordered2) lay.secs 0 lay.pos).1 := by
      rw [← eL, layoutLoose_eq]; rfl
    rw [this, looseSpec_getElem?_member _ _ _ 0 _ i (by rw [Nat.zero_add]; exact hmem)]
  have hrun := segRun_resave run hFL (by
      have := hrs segs1 ordered (by rw [ho1]; exact h1) h2
      rw [ho1, hh0] at this; exact this) hlk0 k3
  obtain ⟨lkE, edone⟩ := hrun
  simp only [List.nil_append] at edone
  subst edone
  -- D. the tail
  congr 1
  refine (saveTail_congr' ecls eenc etr estr (putBack_idem segs1 done2) ?_).trans hT
  rw [lkE.secs, lkE.pos, layoutLoose_eq, layoutLoose_eq]
  have eL' : L = (looseSpec o1.cls (putBack segs1 done2) lay.secs 0 lay.pos).1 := by
    rw [← eL, layoutLoose_eq]; rfl
  rw [eL', looseSpec_idem]

/-- the byte-level reading of `save_twice` -/
theorem save_idempotent_on_settled {o : Obj} {os : OStream} {r r2 : SaveRes} {hd : Bytes} (hc : o.cls = .c64)
    (hh : o.hdr = some hd) (hl : ehdrSize o.cls ≤ hd.length) (hidx : SegIdxOk o.segs) (hz : NoZeroOffset o.segs)
    (hrs : ResaveOk o hd) (hs : save o os = .ok r) (hok : r.ok = true)
    (hs2 : save r.obj os = .ok r2) (hok2 : r2.ok = true) :
    r2.os.content = r.os.content ∧ r2.obj = r.obj := by
  rw [save_twice hc hh hl hidx hz hrs hs hok hs2 hok2]; exact ⟨rfl, rfl⟩

/-- sanity (by evaluation): the F13 object with the `.bss` member given an explicit address — so that
    it is no longer an address-less NOBITS member behind a gap — saves twice to identical bytes -/
def f13FixedObj : M Obj := do
  let o ← f13Obj
  pure (updSec o 3 fun b => { b with addr := 0x400010, addrSet := true })

def sameTwice (mo : M Obj) : Bool :=
  match mo with
  | .error _ => false
  | .ok o =>
    match save o {} with
    | .error _ => false
    | .ok r1 =>
      match save r1.obj {} with
      | .error _ => false
      | .ok r2 => r1.ok && r2.ok && (r1.os.content == r2.os.content)

example : sameTwice f13FixedObj = true := by decide +kernel

/-- **save_load_save**, stated (not proved): for an object `o2` that a loader reports for the bytes
    of a successful save `r` (`Loaded`, C05) and whose member lists are those of the saved object
    (`members_recomputed`), saving `o2` reproduces the bytes.  Reachable from `save_twice` once `save`
    is shown to depend on sections only through the fields `Loaded` fixes (a congruence over all
    passes, in the style of `saveFold_agree`). -/
def SaveLoadSaveStatement : Prop :=
  ∀ (o o2 : Obj) (os : OStream) (r r3 : SaveRes) (hd : Bytes),
    o.cls = .c64 → o.hdr = some hd → ehdrSize o.cls ≤ hd.length → SegIdxOk o.segs → NoZeroOffset o.segs →
    ResaveOk o hd → save o os = .ok r → r.ok = true →
    -- `o2` is the reloaded object
    o2.cls = r.obj.cls → o2.enc = r.obj.enc → o2.trans = [] → o2.hdr = r.obj.hdr →
    C05.Loaded o2.cls o2.enc o2.secs o2.segs r.os.content →
    -- members_recomputed
    o2.segs.map (·.secs) = r.obj.segs.map (·.secs) →
    save o2 os = .ok r3 → r3.ok = true → r3.os.content = r.os.content

end ElfioVerif.C06
