/-
"The reader reports what the ELF specification says" for the TABLES of a loaded file, part 3 (continues
Props/ComposeTables2.lean; same states `LoadedFrom img o` / `PrefixLoadedC img k o`, same style).

  §1  verneed_tq_reports_spec, verdef_tq_reports_spec: version requirement / definition entries through C18's GUARDED
      walkers (`TQ.runQuery … (.needGet / .defGet i num k)`: the code after fixes/19) = the GNU-ABI reference reader
      `Spec.needView` / `Spec.defView` on the image's bytes when the chain is well-formed up to that entry
      (`needChainWf` / `defChainWf`, decidable), a refusal otherwise
      vernum_reports_spec, vernum_nodynamic: the count the constructors cache (`TQ.dynNum`: DT_VERNEEDNUM / DT_VERDEFNUM
      scan of the first section named `.dynamic`) = `specVerScan` of the records decoded from that section's file bytes
  §2  prefix_modinfo_sound: module information on a truncated file that loads (C17)
Images: `exImg2` (one requirement, one definition; no `.dynamic`), `exImg6` (= `exImg4` with a DT_VERNEEDNUM entry).
-/
import ElfioVerif.Lemmas.LoadedTables3
set_option linter.unusedSimpArgs false
set_option linter.unusedVariables false
namespace ElfioVerif.ComposeTables
open Gen C02 Inspect LoadedTables

/-! ### 1. version requirements and definitions through the guarded walkers (C18's `TQ.needGet` / `TQ.defGet`) -/

/-- the string table of a version section as the specification sees it: the file bytes of `sections[sh_link]` (the
    full 32-bit `get_link()`: these accessors do not convert to `Elf_Half`); nothing when `sh_link` names no section
    of the file -/
def verTab (img : Bytes) (i : Nat) : Bytes :=
  if sh img i "sh_link" < eh img "e_shnum" then secFileBytes img (sh img i "sh_link") else []

/-- if `sh_link` (32 bits) names a section of the file, that section occupies file space -/
def VerLinkOk (img : Bytes) (i : Nat) : Prop :=
  sh img i "sh_link" < eh img "e_shnum" → occupiesFile (sh img (sh img i "sh_link") "sh_type") = true

instance (img : Bytes) (i : Nat) : Decidable (VerLinkOk img i) := by unfold VerLinkOk; infer_instance

/-- what `versym_r_section_accessor(elf, sections[i]).get_entry(no, …)` must answer when the constructor cached the
    count `num`: nothing at and beyond the count; below it the reference view of entry `no` when the chain is
    well-formed up to it, nothing otherwise -/
def specNeed (img : Bytes) (i : Nat) (num no : BitVec 32) : Option Verneed.View :=
  if no.toNat < num.toNat ∧ needChainWf (encOf img) (secFileBytes img i) (verTab img i) no.toNat = true
  then (Spec.needView (encOf img) (secFileBytes img i) (verTab img i) no.toNat).map needOut else none

def specDef (img : Bytes) (i : Nat) (num no : BitVec 32) : Option Verdef.View :=
  if no.toNat < num.toNat ∧ defChainWf (encOf img) (secFileBytes img i) (verTab img i) no.toNat = true
  then (Spec.defView (encOf img) (secFileBytes img i) (verTab img i) no.toNat).map defOut else none

/-- the two sections a version accessor of C18's query model reads, made resident -/
theorem verSettle (img : Bytes) (hwf : WellFormedImage img) (o : Obj) (hL : LoadedFrom img o) (i : Nat)
    (hi : i < eh img "e_shnum") (hocc : occupiesFile (sh img i "sh_type") = true) (hlink : VerLinkOk img i) :
    ∃ o1 b1 o2 str, TQ.settle o i = some (o1, b1) ∧ TQ.settleOpt o1 b1.link.toNat = (o2, str) ∧
      LoadedFrom img o2 ∧ o2.segs = o.segs ∧ b1.Inv ∧ b1.content = secFileBytes img i ∧
      (∀ s, str = some s → s.Inv) ∧ tabOf str = verTab img i := by
  obtain ⟨o1, b1, h1, hL1, hR1, _, _, hs1, _⟩ := secResident_ready img hwf o hL i hi
  obtain ⟨hI, hc⟩ := hR1.inv hocc
  by_cases hl : sh img i "sh_link" < eh img "e_shnum"
  · obtain ⟨o2, s, h2, hL2, hR2, _, _, hs2, _⟩ := secResident_ready img hwf o1 hL1 _ hl
    obtain ⟨hS, hcs⟩ := hR2.inv (hlink hl)
    have h2' : TQ.settle o1 b1.link.toNat = some (o2, s) := by rw [hR1.link]; exact h2
    refine ⟨o1, b1, o2, some s, h1, by simp only [TQ.settleOpt, h2'], hL2, hs2.trans hs1, hI, hc, ?_, ?_⟩
    · intro s' hs'; cases hs'; exact hS
    · simp only [tabOf, verTab, hl, if_true, hcs]
  · have h2' : TQ.settle o1 b1.link.toNat = none := by
      rw [hR1.link]; exact secResident_none img o1 hL1 _ (Nat.le_of_not_lt hl)
    refine ⟨o1, b1, o1, none, h1, by simp only [TQ.settleOpt, h2'], hL1, hs1, hI, hc, ?_, ?_⟩
    · intro s' hs'; cases hs'
    · simp only [tabOf, verTab, hl, if_false]

/-- **verneed_tq_reports_spec** (the code as it is after fixes/19: `TQ.runQuery … (.needGet i num no)` — the walker
    that refuses `vn_next = 0` inside the chain and links / auxiliary records leaving the section): for a
    file-occupying section `i` whose 32-bit `sh_link` names nothing or a file-occupying section, on the loaded object,
    for EVERY cached count `num` and EVERY index `no`, `versym_r_section_accessor(elf, sections[i]).get_entry(no, …)`
    RETURNS `specNeed img i num no`:
    * false for `no ≥ num`;
    * for `no < num`, when the chain is well-formed up to entry `no` (`needChainWf`, decidable: a `Verneed` record fits,
      every one of the first `no` links is > 0 and stays inside the section, the first `Vernaux` record of entry `no`
      lies inside, `vn_file` / `vna_name` are offsets of terminated strings of the linked table), the GNU-ABI reference
      reader `Spec.needView` succeeds on the FILE BYTES and the accessor reports exactly its view;
    * false otherwise.  (That it never faults is C18's totality; here the VALUE is composed.) -/
theorem verneed_tq_reports_spec (img : Bytes) (hwf : WellFormedImage img) (o : Obj) (hL : LoadedFrom img o) (i : Nat)
    (hi : i < eh img "e_shnum") (hocc : occupiesFile (sh img i "sh_type") = true) (hlink : VerLinkOk img i)
    (num no : BitVec 32) :
    ∃ o2, TQ.runQuery o (.needGet i num no) = .ok (o2, .need (specNeed img i num no)) ∧ LoadedFrom img o2 ∧
      o2.segs = o.segs ∧
      (no.toNat < num.toNat → needChainWf (encOf img) (secFileBytes img i) (verTab img i) no.toNat = true →
        ∃ v, Spec.needView (encOf img) (secFileBytes img i) (verTab img i) no.toNat = some v ∧
          specNeed img i num no = some (needOut v)) ∧
      (¬ (no.toNat < num.toNat ∧ needChainWf (encOf img) (secFileBytes img i) (verTab img i) no.toNat = true) →
        specNeed img i num no = none) := by
  obtain ⟨o1, b1, o2, str, h1, h2, hL2, hseg, hI, hc, hS, htab⟩ := verSettle img hwf o hL i hi hocc hlink
  refine ⟨o2, ?_, hL2, hseg, ?_, ?_⟩
  · have hq : TQ.needGet (encOf img) b1 str num no = .ok (specNeed img i num no) := by
      by_cases hno : no.toNat < num.toNat
      · rw [tq_needGet_core (encOf img) b1 str hI hS num no hno, hc, htab]
        simp only [specNeed, hno, true_and]
      · have hg : vr_guard true no num = true := by
          simp only [vr_guard, Bool.not_true, Bool.false_or, BitVec.ule, decide_eq_true_eq]; omega
        simp only [TQ.needGet, hg, if_true, specNeed, hno, false_and, if_false]; rfl
    simp only [TQ.runQuery, h1, h2, hL.enc, hq, TQ.liftQ]; rfl
  · intro hno hw
    obtain ⟨off, file, name, _, _, _, _, _, hv⟩ := needView_of_wf hw
    exact ⟨_, hv, by simp only [specNeed, hno, hw, and_self, if_true, hv, Option.map_some]⟩
  · intro h
    simp only [specNeed, h, if_false]

/-- **verdef_tq_reports_spec** : the same for `versym_d_section_accessor(elf, sections[i]).get_entry(no, flags,
    version_index, hash, dep_name)` through `TQ.runQuery … (.defGet i num no)`, the reference reader `Spec.defView` and
    `defChainWf` (`Verdef` records of 20 bytes linked by `vd_next` > 0 inside the section, the first `Verdaux` record
    inside, `vda_name` a terminated string of the linked table). -/
theorem verdef_tq_reports_spec (img : Bytes) (hwf : WellFormedImage img) (o : Obj) (hL : LoadedFrom img o) (i : Nat)
    (hi : i < eh img "e_shnum") (hocc : occupiesFile (sh img i "sh_type") = true) (hlink : VerLinkOk img i)
    (num no : BitVec 32) :
    ∃ o2, TQ.runQuery o (.defGet i num no) = .ok (o2, .vdef (specDef img i num no)) ∧ LoadedFrom img o2 ∧
      o2.segs = o.segs ∧
      (no.toNat < num.toNat → defChainWf (encOf img) (secFileBytes img i) (verTab img i) no.toNat = true →
        ∃ v, Spec.defView (encOf img) (secFileBytes img i) (verTab img i) no.toNat = some v ∧
          specDef img i num no = some (defOut v)) ∧
      (¬ (no.toNat < num.toNat ∧ defChainWf (encOf img) (secFileBytes img i) (verTab img i) no.toNat = true) →
        specDef img i num no = none) := by
  obtain ⟨o1, b1, o2, str, h1, h2, hL2, hseg, hI, hc, hS, htab⟩ := verSettle img hwf o hL i hi hocc hlink
  refine ⟨o2, ?_, hL2, hseg, ?_, ?_⟩
  · have hq : TQ.defGet (encOf img) b1 str num no = .ok (specDef img i num no) := by
      by_cases hno : no.toNat < num.toNat
      · rw [tq_defGet_core (encOf img) b1 str hI hS num no hno, hc, htab]
        simp only [specDef, hno, true_and]
      · have hg : vd_guard true no num = true := by
          simp only [vd_guard, Bool.not_true, Bool.false_or, BitVec.ule, decide_eq_true_eq]; omega
        simp only [TQ.defGet, hg, if_true, specDef, hno, false_and, if_false]; rfl
    simp only [TQ.runQuery, h1, h2, hL.enc, hq, TQ.liftQ]; rfl
  · intro hno hw
    obtain ⟨off, name, _, _, _, _, hv⟩ := defView_of_wf hw
    exact ⟨_, hv, by simp only [specDef, hno, hw, and_self, if_true, hv, Option.map_some]⟩
  · intro h
    simp only [specDef, h, if_false]

/-- the example image's chains: entry 0 of each is well-formed; there is no entry 1 (`vn_next` = `vd_next` = 0) -/
example : needChainWf (encOf exImg2) (secFileBytes exImg2 6) (verTab exImg2 6) 0 = true ∧
    needChainWf (encOf exImg2) (secFileBytes exImg2 6) (verTab exImg2 6) 1 = false ∧
    defChainWf (encOf exImg2) (secFileBytes exImg2 7) (verTab exImg2 7) 0 = true ∧
    defChainWf (encOf exImg2) (secFileBytes exImg2 7) (verTab exImg2 7) 1 = false := by decide +kernel

example (k : StreamKind) (isLazy : Bool) :
    ∃ r : LoadRes, load {} { data := exImg2, kind := k } isLazy = .ok r ∧
      ∀ num no : BitVec 32, ∃ o1, TQ.runQuery r.obj (.needGet 6 num no) = .ok (o1, .need (specNeed exImg2 6 num no)) ∧
        ∃ o2, TQ.runQuery r.obj (.defGet 7 num no) = .ok (o2, .vdef (specDef exImg2 7 num no)) := by
  obtain ⟨r, h1, _, h3⟩ := of_load exImg2 {} k isLazy rfl exImg2_wf
  refine ⟨r, h1, fun num no => ?_⟩
  obtain ⟨o1, g1, _⟩ := verneed_tq_reports_spec exImg2 exImg2_wf r.obj h3 6 (by decide +kernel) (by decide +kernel)
    (by decide +kernel) num no
  obtain ⟨o2, g2, _⟩ := verdef_tq_reports_spec exImg2 exImg2_wf r.obj h3 7 (by decide +kernel) (by decide +kernel)
    (by decide +kernel) num no
  exact ⟨o1, g1, o2, g2⟩
/-- with a cached count of 5: entry 0 is the reference view (libc.so.6 / GLIBC_2.0; ver1), entry 1 is refused — the
    chain ends (`vn_next = 0`), the unguarded walker would report entry 0 again -/
example : specNeed exImg2 6 5 0 = some ⟨1, [0x6c, 0x69, 0x62, 0x63, 0x2e, 0x73, 0x6f, 0x2e, 0x36], 0x0d696910, 0, 2,
      [0x47, 0x4c, 0x49, 0x42, 0x43, 0x5f, 0x32, 0x2e, 0x30]⟩ ∧
    specNeed exImg2 6 5 1 = none ∧ specNeed exImg2 6 0 0 = none ∧
    specDef exImg2 7 5 0 = some ⟨1, 1, 0x0a7b5c31, [0x76, 0x65, 0x72, 0x31]⟩ ∧ specDef exImg2 7 5 1 = none ∧
    (Spec.needView (encOf exImg2) (secFileBytes exImg2 6) (verTab exImg2 6) 1).isSome = true := by decide +kernel

/-! #### the cached entry count: the constructors' scan of `.dynamic` (`TQ.dynNum`) -/

/-- ".dynamic" -/
def dotDynamic : Bytes := [0x2e, 0x64, 0x79, 0x6e, 0x61, 0x6d, 0x69, 0x63]

/-- the sections of a loaded object carry the names the specification resolves -/
theorem loaded_sec_name {img : Bytes} {o : Obj} (hL : LoadedFrom img o) (j : Nat) (h : j < o.secs.length) :
    o.secs[j].name = secName img j := by
  obtain ⟨lz, res, fd, L, hbe, _⟩ := hL.secs j h
  rw [hbe]

/-- `TQ.dynNum` is the constructor's scan on the accessor `dynSetup` builds for the first section named `.dynamic` -/
theorem dynNum_of_setup (o : Obj) (di : Nat) (o2 : Obj) (a : DynAcc) (need : Bool)
    (hf : o.secs.findIdx? (fun s => s.name == dotDynamic) = some di) (hs : dynSetup o di = some (o2, a)) :
    TQ.dynNum o need = TQ.liftQN o2 (TQ.verCount need (some a)) := by
  unfold TQ.dynNum
  have hf' : o.secs.findIdx? (fun s => s.name == [0x2e, 0x64, 0x79, 0x6e, 0x61, 0x6d, 0x69, 0x63]) = some di := hf
  simp only [hf']
  unfold dynSetup at hs
  have e : TQ.settle o di = secResident o di := rfl
  rw [e]
  cases h1 : secResident o di with
  | none => rw [h1] at hs; cases hs
  | some p =>
    obtain ⟨o1, b⟩ := p
    rw [h1] at hs
    simp only at hs ⊢
    have e2 : TQ.settle o1 (dyn_strtab_index b.link).toNat = secResident o1 (dynStrIdx b) := rfl
    unfold TQ.settleOpt
    rw [e2]
    cases h2 : secResident o1 (dynStrIdx b) with
    | none =>
      rw [h2] at hs
      simp only [Option.some.injEq, Prod.mk.injEq] at hs
      obtain ⟨rfl, rfl⟩ := hs
      rfl
    | some q =>
      obtain ⟨o3, s⟩ := q
      rw [h2] at hs
      simp only [Option.some.injEq, Prod.mk.injEq] at hs
      obtain ⟨rfl, rfl⟩ := hs
      rfl

/-- **vernum_reports_spec** (the count the version accessors cache: the DT_VERNEEDNUM / DT_VERDEFNUM scan of their
    constructors, `TQ.dynNum`): when `di` is the FIRST section of the file named `.dynamic` (decidable) and is a dynamic
    section as in `dynamic_reports_spec` (occupies file space, the class's entry size, `sh_link` names nothing or a
    file-occupying section), the constructor of `versym_r_section_accessor` (`need = true`) / `versym_d_section_accessor`
    on the loaded object caches `specVerScan` of the records decoded from that section's FILE BYTES: the value,
    truncated to `Elf_Word`, of the first entry before the end of the reported entries (`Spec.dynCount`: up to and
    including the first DT_NULL) whose tag is DT_VERNEEDNUM / DT_VERDEFNUM — 0 without one. -/
theorem vernum_reports_spec (img : Bytes) (hwf : WellFormedImage img) (o : Obj) (hL : LoadedFrom img o) (di : Nat)
    (hdi : di < eh img "e_shnum") (hname : secName img di = dotDynamic)
    (hfirst : ∀ j, j < di → secName img j ≠ dotDynamic)
    (hocc : occupiesFile (sh img di "sh_type") = true)
    (hent : sh img di "sh_entsize" = Spec.dynSize (clsOf img)) (hlink : LinkOk img di) (need : Bool) :
    ∃ o2, TQ.dynNum o need = .ok (o2, specVerScan (specDynEntries img di) (linkedTable img di)
        (if need then DT_VERNEEDNUM else DT_VERDEFNUM) (Spec.dynCount (specDynEntries img di)) 0) ∧
      LoadedFrom img o2 := by
  obtain ⟨o2, a, h1, hL2, hcfg, hG⟩ := dynSetup_good img hwf o hL di hdi hocc hent hlink
  have hlen : di < o.secs.length := by rw [hL.nsecs]; exact hdi
  have hf : o.secs.findIdx? (fun s => s.name == dotDynamic) = some di := by
    rw [List.findIdx?_eq_some_iff_getElem]
    refine ⟨hlen, by rw [loaded_sec_name hL di hlen, hname]; simp, ?_⟩
    intro j hj
    rw [loaded_sec_name hL j (by omega)]
    simpa using hfirst j hj
  refine ⟨o2, ?_, hL2⟩
  rw [dynNum_of_setup o di o2 a need hf h1, verCount_spec need a _ _ hG, hcfg]
  rfl

/-- without a section named `.dynamic` the constructors leave the count at 0 -/
theorem vernum_nodynamic (img : Bytes) (o : Obj) (hL : LoadedFrom img o)
    (hnone : ∀ j, j < eh img "e_shnum" → secName img j ≠ dotDynamic) (need : Bool) :
    TQ.dynNum o need = .ok (o, 0) := by
  have hf : o.secs.findIdx? (fun s => s.name == [0x2e, 0x64, 0x79, 0x6e, 0x61, 0x6d, 0x69, 0x63]) = none := by
    rw [List.findIdx?_eq_none_iff]
    intro x hx
    obtain ⟨j, hj, rfl⟩ := List.mem_iff_getElem.mp hx
    rw [loaded_sec_name hL j hj]
    have := hnone j (by rw [← hL.nsecs]; exact hj)
    simpa [dotDynamic] using this
  unfold TQ.dynNum
  simp only [hf]
  cases need <;> rfl

/-- `exImg4` (ComposeTables2: `.dynamic` is section 1, data behind the header table) with the tag of its second dynamic
    entry changed from DT_INIT to DT_VERNEEDNUM (0x6fffffff); the value stays 0x1000 -/
def exImg6 : Bytes := (((exImg4.set 248 0xff).set 249 0xff).set 250 0xff).set 251 0x6f
theorem exImg6_wf : WellFormedImage exImg6 := by decide +kernel

example (k : StreamKind) (isLazy : Bool) :
    ∃ r : LoadRes, load {} { data := exImg6, kind := k } isLazy = .ok r ∧
      (∃ o2, TQ.dynNum r.obj true = .ok (o2, 4096)) ∧ (∃ o2, TQ.dynNum r.obj false = .ok (o2, 0)) := by
  obtain ⟨r, h1, _, h3⟩ := of_load exImg6 {} k isLazy rfl exImg6_wf
  refine ⟨r, h1, ?_, ?_⟩
  · obtain ⟨o2, g, _⟩ := vernum_reports_spec exImg6 exImg6_wf r.obj h3 1 (by decide +kernel) (by decide +kernel)
      (by decide +kernel) (by decide +kernel) (by decide +kernel) (by decide +kernel) true
    have hv : specVerScan (specDynEntries exImg6 1) (linkedTable exImg6 1) DT_VERNEEDNUM
        (Spec.dynCount (specDynEntries exImg6 1)) 0 = 4096 := by decide +kernel
    simp only [if_true] at g
    rw [hv] at g
    exact ⟨o2, g⟩
  · obtain ⟨o2, g, _⟩ := vernum_reports_spec exImg6 exImg6_wf r.obj h3 1 (by decide +kernel) (by decide +kernel)
      (by decide +kernel) (by decide +kernel) (by decide +kernel) (by decide +kernel) false
    have hv : specVerScan (specDynEntries exImg6 1) (linkedTable exImg6 1) DT_VERDEFNUM
        (Spec.dynCount (specDynEntries exImg6 1)) 0 = 0 := by decide +kernel
    simp only [Bool.false_eq_true, if_false] at g
    rw [hv] at g
    exact ⟨o2, g⟩
/-- `exImg2` has no section named `.dynamic`: both counts are 0 -/
example (k : StreamKind) (isLazy : Bool) :
    ∃ r : LoadRes, load {} { data := exImg2, kind := k } isLazy = .ok r ∧ TQ.dynNum r.obj true = .ok (r.obj, 0) := by
  obtain ⟨r, h1, _, h3⟩ := of_load exImg2 {} k isLazy rfl exImg2_wf
  exact ⟨r, h1, vernum_nodynamic exImg2 r.obj h3 (by decide +kernel) true⟩

/-! ### 2. truncated files (C17): module information on a prefix that loads -/

/-- **prefix_modinfo_sound** (C17 for `modinfo_section_accessor`): on a prefix of a well-formed image that loads, for a
    section `i` whose bytes in the COMPLETE file are the `field=value\0` records of the attributes `as` (as in
    `modinfo_reports_spec`), the accessor holds either NO attribute (the section's data is not in the prefix: every
    `get_attribute` refused) or exactly the complete file's attributes `as`, in order: `get_attribute(k, …)` is the
    `k`-th of that list for EVERY 32-bit `k`, `get_attribute(field, …)` the first match in it for EVERY name.  Never a
    partial or different list. -/
theorem prefix_modinfo_sound (img : Bytes) (k : Nat) (o : Obj) (hP : PrefixLoadedC img k o) (i : Nat)
    (hi : i < eh img "e_shnum") (as : List Modinfo.Attr) (hok : ∀ a ∈ as, Spec.AttrOk a)
    (hbytes : secFileBytes img i = Spec.encodeModinfo as) (idx : BitVec 32) (field : Bytes) :
    ∃ o1 as', PrefixLoadedC img k o1 ∧ (as' = [] ∨ as' = as) ∧
      inspect o (.modinfo i) = .ok (o1, .attrs as') ∧
      inspect o (.modinfoGet i idx) = .ok (o1, .attr as'[idx.toNat]?) ∧
      inspect o (.modinfoByName i field) = .ok (o1, .value (Spec.lookupFirst as' field)) := by
  obtain ⟨o1, b1, h1, hP1, hR, hLS, _, _⟩ := prefix_secResident_c img k o hP i hi
  cases hd : b1.data with
  | none =>
    have hp : Modinfo.parse b1 = .ok [] := by
      have : b1.getData.data = none := by rw [getData_of_settled hR.settled]; exact hd
      simp only [Modinfo.parse, this, mod_has_data, Option.isSome_none, Bool.false_eq_true, if_false]; rfl
    refine ⟨o1, [], hP1, Or.inl rfl, ?_, ?_, ?_⟩
    · simp only [inspect, h1, hp]; rfl
    · simp only [inspect, h1, hp, C14.getByIndex_eq [] (by decide)]; rfl
    · simp only [inspect, h1, hp, C14.getByName_eq_lookupFirst]; rfl
  | some d =>
    obtain ⟨hF, hocc, hinv, hcont, hlen, hgd, hdata⟩ := pready_inv hR hLS hd
    have hp := C14.modinfo_parse b1 hinv as (by rw [hcont, hbytes]) hok
    have hl : as.length < 18446744073709551616 := by
      have h1 := C14.encodeModinfo_length_ge as
      have h2 := b1.size.isLt
      simp only [Nat.reducePow] at h2
      rw [← hbytes, hlen, ← hF.size] at h1
      omega
    refine ⟨o1, as, hP1, Or.inr rfl, ?_, ?_, ?_⟩
    · simp only [inspect, h1, hp]; rfl
    · simp only [inspect, h1, hp, C14.getByIndex_eq as hl]; rfl
    · simp only [inspect, h1, hp, C14.getByName_eq_lookupFirst]; rfl

/-- a 269-byte image like `exImg4` whose section 1 (8 bytes at 240, behind the header table) holds the module
    information `a=b\0c=d\0`: proper prefixes load, with and without the section's data -/
def exImg7 : Bytes :=
  (((((((((exImg4.set 96 1).set 112 8).set 128 0).set 240 0x61).set 241 0x3d).set 242 0x62).set 243 0).set 244 0x63).set
    245 0x3d).set 246 0x64 |>.set 247 0
theorem exImg7_wf : WellFormedImage exImg7 := by decide +kernel
def exAttrs7 : List (Bytes × Bytes) := [([0x61], [0x62]), ([0x63], [0x64])]

/-- what the modinfo accessor of section 1 shows on the lazily loaded first `k` bytes -/
def exModView (k : Nat) : Option (Bool × List (List UInt8 × List UInt8)) :=
  match load {} { data := exImg7.take k } true with
  | .ok rp =>
    match inspect rp.obj (.modinfo 1) with
    | .ok (_, .attrs as) => some (rp.ok, as)
    | _ => none
  | _ => none

/-- 244 bytes: the section's data is cut — the load succeeds, no attribute; 248 bytes: the complete file's list -/
example : (exModView 244).map (fun p => (p.1, p.2.length)) = some (true, 0) ∧
    (exModView 248).map (fun p => (p.1, p.2.length)) = some (true, 2) ∧
    (exModView 269).map (fun p => (p.1, p.2.length)) = some (true, 2) := by decide +kernel

example (k : Nat) (kind : StreamKind) (isLazy : Bool) (rp : LoadRes)
    (hp : load {} { data := exImg7.take k, kind := kind } isLazy = .ok rp) (hok : rp.ok = true) (idx : BitVec 32)
    (f : Bytes) :
    ∃ o1 as', (as' = [] ∨ as' = exAttrs7) ∧ inspect rp.obj (.modinfoGet 1 idx) = .ok (o1, .attr as'[idx.toNat]?) ∧
      inspect rp.obj (.modinfoByName 1 f) = .ok (o1, .value (Spec.lookupFirst as' f)) := by
  obtain ⟨o1, as', _, g1, _, g2, g3⟩ := prefix_modinfo_sound exImg7 k rp.obj
    (prefixLoadedC_of_load exImg7 exImg7_wf {} rfl k kind isLazy rp hp hok) 1 (by decide +kernel) exAttrs7 (by decide)
    (by decide +kernel) idx f
  exact ⟨o1, as', g1, g2, g3⟩

end ElfioVerif.ComposeTables
