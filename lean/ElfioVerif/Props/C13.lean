/-
C13 — notes round-trip with ABI encoding; out-of-range indices are refused.

Statements use: the model (`Note.process/get/add`, built from the generated expressions of
Gen/SitesC13.lean), the reference encoding `Spec.encodeNote(s)`, and explicit size bounds.
-/
import ElfioVerif.Lemmas.Note
import ElfioVerif.Props.C07
namespace ElfioVerif
open Gen

namespace C13
open Note

/-- The only thing the accessor needs of its section / segment: when there is a data pointer, the
    size getter does not exceed the allocation behind it. -/
def SrcOk (src : NoteSrc) : Prop := ∀ a, src.data = some a → src.size.toNat ≤ a.length

/-- the bytes the accessor may look at: `[0, size)` of the data -/
def NoteSrc.view (src : NoteSrc) : Bytes := (src.data.getD []).take src.size.toNat

/-- the 32-bit word of the file at offset `off` -/
def fieldAt (e : Enc) (a : Bytes) (off : Nat) : BitVec 32 := BitVec.ofNat 32 (rdField e (slice a off 4))

theorem rd32_ok (site : String) (e : Enc) (a : Bytes) (off : Nat) (h : off + 4 ≤ a.length) :
    rd32 site e (some a) off = .ok (fieldAt e a off) := by
  simp [rd32, rdRange_some_ok h, fieldAt, bind, Except.bind, pure, Except.pure]

/-- what the walker has checked about a position it records -/
structure Good (e : Enc) (a : Bytes) (size p : Nat) : Prop where
  hdr : p + 12 ≤ size
  nlt : (fieldAt e a p).toNat < size
  dlt : (fieldAt e a (p + 4)).toNat < size
  fit : p + 12 + r4 (fieldAt e a p).toNat + r4 (fieldAt e a (p + 4)).toNat ≤ size

/-- the loop of `process_section` neither leaves the buffer nor runs out of fuel, and records only
    checked positions -/
theorem walk_good (e : Enc) (a : Bytes) (size : BitVec 64) (hsz : size.toNat ≤ a.length)
    (hb : size.toNat < 9223372036854775808) :
    ∀ (fuel : Nat) (cur : BitVec 64), cur.toNat ≤ size.toNat → (size.toNat - cur.toNat) / 12 < fuel →
      ∃ l, walk e ⟨some a, size⟩ fuel cur = .ok l ∧ l.length ≤ fuel ∧
        ∀ p ∈ l, Good e a size.toNat p.toNat := by
  intro fuel
  induction fuel with
  | zero => intro cur _ h; omega
  | succ fuel ih =>
    intro cur hc hf
    unfold walk
    simp only [walk_align_eq]
    rw [walk_cond_eq _ _ (by omega)]
    by_cases h12 : cur.toNat + 12 ≤ size.toNat
    · simp only [h12, decide_true, if_true]
      have r1 := rd32_ok "process_section/namesz" e a (note_walk_namesz_off cur).toNat
        (by show cur.toNat + 4 ≤ a.length; omega)
      have hoff : (note_walk_descsz_off cur).toNat = cur.toNat + 4 := by
        unfold note_walk_descsz_off
        rw [BitVec.toNat_add]; simp only [BitVec.toNat_ofNat, Nat.reducePow, Nat.reduceMod]; omega
      have r2 := rd32_ok "process_section/descsz" e a (note_walk_descsz_off cur).toNat
        (by rw [hoff]; omega)
      simp only [r1, r2, bind, Except.bind]
      rw [hoff]
      have hn : (note_walk_namesz_off cur).toNat = cur.toNat := rfl
      rw [hn]
      generalize hnv : fieldAt e a cur.toNat = n
      generalize hdv : fieldAt e a (cur.toNat + 4) = d
      have hadv := walk_advance_toNat n d
      have := r4_lt n.toNat; have := r4_lt d.toNat
      rw [walk_accept_eq _ _ _ _ _ (by omega)]
      by_cases hacc : n.toNat < size.toNat ∧ d.toNat < size.toNat ∧
          cur.toNat + (note_walk_advance n 4#32 d).toNat ≤ size.toNat
      · simp only [hacc, and_self, decide_true, if_true]
        have hnx := walk_next_toNat cur (note_walk_advance n 4#32 d) (by omega)
        obtain ⟨l, hl, hlen, hg⟩ := ih (note_walk_next cur (note_walk_advance n 4#32 d))
          (by rw [hnx]; exact hacc.2.2) (by rw [hnx]; omega)
        simp only [hl, pure, Except.pure]
        refine ⟨_, rfl, by simp; omega, ?_⟩
        intro p hp
        rcases List.mem_cons.mp hp with rfl | hp
        · exact ⟨h12, by rw [hnv]; exact hacc.1, by rw [hdv]; exact hacc.2.1, by rw [hnv, hdv]; omega⟩
        · exact hg p hp
      · simp only [hacc, decide_false, Bool.false_eq_true, if_false, pure, Except.pure]
        exact ⟨[], rfl, by simp, by simp⟩
    · simp only [h12, decide_false, Bool.false_eq_true, if_false, pure, Except.pure]
      exact ⟨[], rfl, by simp, by simp⟩


/-- **walk_fuel** : the fuel `size/12 + 1` given to the walker never runs out and the walker never
    leaves the buffer — for every content, any source whose size does not exceed its allocation
    (the 64-bit `advance` of fix 04 is at least 12 for every input). -/
theorem walk_fuel (e : Enc) (a : Bytes) (size : BitVec 64) (hsz : size.toNat ≤ a.length)
    (hb : size.toNat < 9223372036854775808) :
    ∃ l, walk e ⟨some a, size⟩ (walkFuel ⟨some a, size⟩) 0 = .ok l ∧ l.length ≤ size.toNat / 12 + 1 ∧
      ∀ p ∈ l, Good e a size.toNat p.toNat :=
  walk_good e a size hsz hb _ 0 (by simp) (by simp [walkFuel])

/-- **process_total** : the constructor never faults (no out-of-bounds read, no missing return) on
    any source whose size does not exceed its allocation; every position it records was checked. -/
theorem process_total (e : Enc) (src : NoteSrc) (h : SrcOk src) (hb : src.size.toNat < 9223372036854775808) :
    ∃ pos, process e src = .ok pos ∧ pos.length ≤ src.size.toNat / 12 + 1 ∧
      ∀ p ∈ pos, ∃ a, src.data = some a ∧ Good e a src.size.toNat p.toNat := by
  obtain ⟨data, size⟩ := src
  unfold process
  rw [walk_empty_eq]
  cases data with
  | none => exact ⟨[], by simp [pure, Except.pure], by simp, by simp⟩
  | some a =>
    by_cases h0 : size.toNat = 0
    · exact ⟨[], by simp [h0, pure, Except.pure], by simp, by simp⟩
    · simp only [Option.isNone_some, h0, decide_false, Bool.or_self, Bool.false_eq_true, if_false]
      obtain ⟨l, hl, hlen, hg⟩ := walk_fuel e a size (h a rfl) hb
      exact ⟨l, hl, hlen, fun p hp => ⟨a, rfl, hg p hp⟩⟩

theorem vecIdx_ok {α : Type} (site : String) (v : List α) (i : Nat) (h : i < v.length) :
    vecIdx site v i = .ok v[i] := by
  simp [vecIdx, List.getElem?_eq_getElem h, pure, Except.pure]

/-- `get_note` behind its gate, at a position the walker checked, stays inside `[0, size)` -/
theorem getBody_good (e : Enc) (a : Bytes) (size : BitVec 64) (hsz : size.toNat ≤ a.length)
    (hs : size.toNat ≤ 4294967293) (pos : List (BitVec 64)) (index : BitVec 32)
    (hi : index.toNat < pos.length) (hg : Good e a size.toNat (pos[index.toNat]).toNat) :
    ∃ r, getBody e ⟨some a, size⟩ pos index = .ok r := by
  unfold getBody
  simp only [vecIdx_ok _ pos _ hi, bind, Except.bind, get_align_eq, pdata_off_eq, get_type_off_eq,
    get_namesz_off_eq, get_descsz_off_eq, get_name_off_eq, Nat.add_zero]
  generalize pos[index.toNat] = p at hg
  obtain ⟨h1, h2, h3, h4⟩ := hg
  rw [rd32_ok _ e a (p.toNat + 8) (by omega), rd32_ok _ e a p.toNat (by omega),
    rd32_ok _ e a (p.toNat + 4) (by omega)]
  simp only []
  generalize fieldAt e a p.toNat = n at *
  generalize fieldAt e a (p.toNat + 4) = d at *
  rw [get_reject_eq, get_max_toNat _ _ (by omega)]
  by_cases hr : n.toNat < 1 ∨ size.toNat - p.toNat < n.toNat ∨ size.toNat - p.toNat < n.toNat + d.toNat
  · simp only [hr, decide_true, if_true, pure, Except.pure]; exact ⟨_, rfl⟩
  · simp only [hr, decide_false, Bool.false_eq_true, if_false]
    have hn1 : 1 ≤ n.toNat := by omega
    have hrn : r4 n.toNat = Spec.up4 n.toNat := r4_eq_up4 (by omega)
    have hrd : r4 d.toNat = Spec.up4 d.toNat := r4_eq_up4 (by omega)
    have := le_up4 n.toNat; have := le_up4 d.toNat
    rw [get_name_len_toNat _ hn1, rdRange_some_ok (by omega)]
    simp only [get_desc_null_eq]
    by_cases hd0 : d.toNat = 0
    · simp only [hd0, decide_true, if_true, pure, Except.pure]; exact ⟨_, rfl⟩
    · simp only [hd0, decide_false, Bool.false_eq_true, if_false]
      rw [get_desc_off_toNat, rdRange_some_ok (by omega)]
      exact ⟨_, rfl⟩

/-- **get_note_absent** : for EVERY 32-bit index that is not below the number of notes, `get_note`
    returns false and touches nothing — whatever the source and the positions are. -/
theorem get_note_absent (e : Enc) (src : NoteSrc) (pos : List (BitVec 64)) (index : BitVec 32)
    (h : pos.length ≤ index.toNat) : Note.get e src pos index = .ok none := by
  have := index.isLt
  unfold Note.get
  rw [get_gate_eq _ _ (by omega)]
  simp [h, pure, Except.pure]

/-- **get_note_total** : on ANY source whose size does not exceed its allocation (arbitrary content —
    malformed, truncated, hostile), with size ≤ 2^32-3, the constructor succeeds and `get_note` with
    ANY 32-bit index returns (true or false) without a fault: no vector access out of range, no read
    outside `[0, size)`, including the caller's read of `descSize` bytes at the returned pointer. -/
theorem get_note_total (e : Enc) (src : NoteSrc) (h : SrcOk src) (hs : src.size.toNat ≤ 4294967293) :
    ∃ pos, process e src = .ok pos ∧ ∀ index : BitVec 32, ∃ r, Note.get e src pos index = .ok r := by
  obtain ⟨pos, hp, hlen, hg⟩ := process_total e src h (by omega)
  refine ⟨pos, hp, fun index => ?_⟩
  by_cases hi : pos.length ≤ index.toNat
  · exact ⟨none, get_note_absent e src pos index hi⟩
  · have hi' : index.toNat < pos.length := by omega
    have := index.isLt
    unfold Note.get
    rw [get_gate_eq _ _ (by omega)]
    simp only [hi, decide_false, Bool.false_eq_true, if_false]
    obtain ⟨a, ha, hgood⟩ := hg pos[index.toNat] (List.getElem_mem hi')
    obtain ⟨data, size⟩ := src
    simp only at ha; subst ha
    exact getBody_good e a size (h a rfl) hs pos index hi' hgood

end C13
end ElfioVerif
